//! Minimal S-expressions: atoms and lists. Strings travel as `(s cp cp ...)` (code points).
use std::fmt::Write;

#[derive(Clone, Debug, PartialEq)]
pub enum S {
    A(String),
    L(Vec<S>),
}

impl S {
    pub fn a(x: impl ToString) -> S {
        S::A(x.to_string())
    }
    pub fn l(xs: Vec<S>) -> S {
        S::L(xs)
    }
    pub fn tag(t: &str, mut xs: Vec<S>) -> S {
        let mut v = vec![S::a(t)];
        v.append(&mut xs);
        S::L(v)
    }
    pub fn str(s: &str) -> S {
        let mut v = vec![S::a("s")];
        for c in s.chars() {
            v.push(S::a(c as u32));
        }
        S::L(v)
    }
    pub fn bool(b: bool) -> S {
        S::a(if b { "T" } else { "F" })
    }
    pub fn atom(&self) -> &str {
        match self {
            S::A(a) => a,
            S::L(_) => panic!("harness: expected atom, got {}", self),
        }
    }
    pub fn list(&self) -> &[S] {
        match self {
            S::L(l) => l,
            S::A(_) => panic!("harness: expected list, got {}", self),
        }
    }
    pub fn num(&self) -> u64 {
        self.atom().parse().expect("harness: number")
    }
    pub fn idx(&self) -> usize {
        self.num() as usize
    }
    /// decode `(s cp ...)`
    pub fn string(&self) -> String {
        let l = self.list();
        assert_eq!(l[0].atom(), "s");
        l[1..]
            .iter()
            .map(|c| char::from_u32(c.num() as u32).expect("harness: code point"))
            .collect()
    }
}

impl std::fmt::Display for S {
    fn fmt(&self, f: &mut std::fmt::Formatter<'_>) -> std::fmt::Result {
        match self {
            S::A(a) => f.write_str(a),
            S::L(l) => {
                f.write_char('(')?;
                for (i, x) in l.iter().enumerate() {
                    if i > 0 {
                        f.write_char(' ')?;
                    }
                    write!(f, "{}", x)?;
                }
                f.write_char(')')
            }
        }
    }
}

pub fn parse(line: &str) -> S {
    let b = line.as_bytes();
    let mut pos = 0;
    let r = parse_at(b, &mut pos);
    r
}

fn parse_at(b: &[u8], pos: &mut usize) -> S {
    while *pos < b.len() && (b[*pos] as char).is_ascii_whitespace() {
        *pos += 1;
    }
    if *pos >= b.len() {
        panic!("harness: unexpected end of sexp");
    }
    if b[*pos] == b'(' {
        *pos += 1;
        let mut v = Vec::new();
        loop {
            while *pos < b.len() && (b[*pos] as char).is_ascii_whitespace() {
                *pos += 1;
            }
            if *pos >= b.len() {
                panic!("harness: unclosed sexp");
            }
            if b[*pos] == b')' {
                *pos += 1;
                return S::L(v);
            }
            v.push(parse_at(b, pos));
        }
    } else {
        let start = *pos;
        while *pos < b.len() && !(b[*pos] as char).is_ascii_whitespace() && b[*pos] != b'(' && b[*pos] != b')' {
            *pos += 1;
        }
        S::A(String::from_utf8(b[start..*pos].to_vec()).unwrap())
    }
}
