//! Correspondence harness: executes operations on the real crate (built from /repo's working tree)
//! and prints what the public API shows, one S-expression per input line.
mod sexp;

use std::collections::HashSet;
use std::hash::{Hash, Hasher};
use std::io::{BufRead, Write};
use std::ops::Bound;
use std::panic::{catch_unwind, AssertUnwindSafe};
use std::str::FromStr;

use pep440_rs::{Version, VersionSpecifier};
use pep508_rs::{
    ExtraName, MarkerEnvironment, MarkerEnvironmentBuilder, MarkerExpression, MarkerTree,
    MarkerTreeKind, MarkerValueExtra, MarkerValueString, MarkerValueVersion, MarkerWarningKind,
    PackageName, Pep508Error, Pep508ErrorSource, Requirement, VerbatimUrl,
};
use sexp::S;
use version_ranges::Ranges;

// ---- requirement level (C06, C07, C08, C18, C19)
trait UrlView: pep508_rs::Pep508Url + std::fmt::Display + PartialEq {
    fn view(&self) -> (String, Option<String>);
}
impl UrlView for url::Url {
    fn view(&self) -> (String, Option<String>) {
        (self.to_string(), None)
    }
}
impl UrlView for VerbatimUrl {
    fn view(&self) -> (String, Option<String>) {
        (self.to_string(), self.given().map(|s| s.to_string()))
    }
}

/// an order-preserving key of a version: lexicographic order on the list = Version::cmp
fn sort_key(v: &Version) -> Vec<u128> {
    let mut k: Vec<u128> = vec![v.epoch() as u128];
    let mut rel: Vec<u64> = v.release().to_vec();
    while rel.last() == Some(&0) {
        rel.pop();
    }
    for r in rel {
        k.push(r as u128 + 1);
    }
    k.push(0);
    let max = u64::MAX as u128;
    let (pk, pn) = match v.pre() {
        None => (0u128, 0u128),
        Some(p) => (
            match p.kind {
                pep440_rs::PrereleaseKind::Alpha => 1,
                pep440_rs::PrereleaseKind::Beta => 2,
                pep440_rs::PrereleaseKind::Rc => 3,
            },
            p.number as u128,
        ),
    };
    let post = v.post().map(|x| x as u128);
    let dev = v.dev().map(|x| x as u128);
    let suf = if pk == 0 && post.is_none() && dev.is_some() {
        [1, 0, 0, dev.unwrap()]
    } else if pk != 0 {
        [1 + pk, pn, post.map_or(0, |p| p + 1), dev.unwrap_or(max)]
    } else if post.is_none() {
        [5, 0, 0, 0]
    } else {
        [6, 0, post.unwrap() + 1, dev.unwrap_or(max)]
    };
    k.extend_from_slice(&suf);
    let local = v.local();
    if local.is_empty() {
        k.push(0);
    } else {
        k.push(1);
        for seg in local.iter() {
            match seg {
                pep440_rs::LocalSegment::String(s) => {
                    k.push(1);
                    for c in s.chars() {
                        k.push(c as u128 + 1);
                    }
                    k.push(0);
                }
                pep440_rs::LocalSegment::Number(n) => {
                    k.push(2);
                    k.push(*n as u128);
                }
            }
        }
        k.push(0);
    }
    k
}

fn spec_out(sp: &VersionSpecifier) -> S {
    S::l(vec![S::l(sort_key(sp.version()).iter().map(S::a).collect()), S::str(&sp.to_string())])
}

fn kind_out<T: UrlView>(k: &Option<pep508_rs::VersionOrUrl<T>>) -> (S, bool) {
    match k {
        None => (S::a("none"), true),
        Some(pep508_rs::VersionOrUrl::VersionSpecifier(specs)) => {
            let v: Vec<&VersionSpecifier> = specs.iter().collect();
            let mut keys_ok = true;
            for a in &v {
                for b in &v {
                    if sort_key(a.version()).cmp(&sort_key(b.version())) != a.version().cmp(b.version()) {
                        keys_ok = false;
                    }
                }
            }
            let mut out = vec![S::a("specs")];
            out.extend(v.iter().map(|sp| spec_out(sp)));
            (S::l(out), keys_ok)
        }
        Some(pep508_rs::VersionOrUrl::Url(u)) => {
            let (d, g) = u.view();
            (S::tag("url", vec![S::str(&d), g.map_or(S::a("none"), |g| S::str(&g))]), true)
        }
    }
}

fn wd_of(s: &S) -> Option<String> {
    match s {
        S::A(_) => None,
        _ => Some(s.string()),
    }
}

fn parse_req<T: UrlView>(text: &str, wd: &Option<String>, w: &mut Vec<(MarkerWarningKind, String)>) -> Result<Requirement<T>, Pep508Error<T>> {
    match wd {
        None => Requirement::<T>::from_str(text),
        Some(d) => Requirement::<T>::parse_reporter(text, d, &mut |k, m| w.push((k, m))),
    }
}

#[cfg(feature = "ext")]
fn parse_unnamed(text: &str, wd: &Option<String>, w: &mut Vec<(MarkerWarningKind, String)>) -> Result<pep508_rs::UnnamedRequirement<VerbatimUrl>, Pep508Error<VerbatimUrl>> {
    match wd {
        None => pep508_rs::UnnamedRequirement::<VerbatimUrl>::from_str(text),
        Some(d) => pep508_rs::UnnamedRequirement::<VerbatimUrl>::parse(text, d, &mut |k, m| w.push((k, m))),
    }
}

fn vkey(k: &MarkerValueVersion) -> S {
    S::a(k.clone() as usize)
}
fn skey(k: &MarkerValueString) -> S {
    S::a(k.clone() as usize)
}

fn version(v: &Version) -> S {
    let (pk, pn) = match v.pre() {
        None => (0u64, 0u64),
        Some(p) => (
            match p.kind {
                pep440_rs::PrereleaseKind::Alpha => 1,
                pep440_rs::PrereleaseKind::Beta => 2,
                pep440_rs::PrereleaseKind::Rc => 3,
            },
            p.number,
        ),
    };
    let opt = |o: Option<u64>| match o {
        None => S::a("N"),
        Some(n) => S::a(n),
    };
    S::tag(
        "v",
        vec![
            S::a(v.epoch()),
            S::l(v.release().iter().map(S::a).collect()),
            S::a(pk),
            S::a(pn),
            opt(v.post()),
            opt(v.dev()),
            S::a(if v.local().is_empty() { 0 } else { 1 }),
        ],
    )
}

fn bound<T>(b: &Bound<T>, f: &impl Fn(&T) -> S) -> S {
    match b {
        Bound::Unbounded => S::a("U"),
        Bound::Included(v) => S::tag("I", vec![f(v)]),
        Bound::Excluded(v) => S::tag("E", vec![f(v)]),
    }
}

fn ranges<T: Ord + Clone>(r: &Ranges<T>, f: &impl Fn(&T) -> S) -> S {
    S::l(r.iter().map(|(lo, hi)| S::l(vec![bound(lo, f), bound(hi, f)])).collect())
}

fn extra_value(n: &MarkerValueExtra) -> S {
    match n {
        MarkerValueExtra::Extra(e) => S::tag("x", vec![S::str(e.as_ref())]),
        MarkerValueExtra::Arbitrary(s) => S::tag("arb", vec![S::str(s)]),
    }
}

thread_local! {
    /// nodes the current dump may still visit: a diagram is a DAG and its unfolding into a tree can be exponentially larger
    static TREE_BUDGET: std::cell::Cell<i64> = std::cell::Cell::new(0);
}

/// The diagram as the public `kind()` walk shows it; `(BIG)` when the unfolded tree has more than 40 000 nodes.
fn tree(t: &MarkerTree) -> S {
    TREE_BUDGET.with(|b| b.set(40_000));
    let d = tree_walk(t);
    if TREE_BUDGET.with(|b| b.get()) < 0 {
        return S::l(vec![S::a("BIG")]);
    }
    d
}

fn tree_walk(t: &MarkerTree) -> S {
    if TREE_BUDGET.with(|b| { b.set(b.get() - 1); b.get() }) < 0 {
        return S::a("F");
    }
    match t.kind() {
        MarkerTreeKind::True => S::a("T"),
        MarkerTreeKind::False => S::a("F"),
        MarkerTreeKind::Version(m) => S::tag(
            "V",
            vec![
                vkey(m.key()),
                S::l(m.edges().map(|(r, c)| S::l(vec![ranges(r, &version), tree_walk(&c)])).collect()),
            ],
        ),
        MarkerTreeKind::String(m) => S::tag(
            "S",
            vec![
                skey(m.key()),
                S::l(m
                    .children()
                    .map(|(r, c)| S::l(vec![ranges(r, &|s: &String| S::str(s)), tree_walk(&c)]))
                    .collect()),
            ],
        ),
        MarkerTreeKind::In(m) => S::tag(
            "In",
            vec![skey(m.key()), S::str(m.value()), tree_walk(&m.edge(true)), tree_walk(&m.edge(false))],
        ),
        MarkerTreeKind::Contains(m) => S::tag(
            "Co",
            vec![skey(m.key()), S::str(m.value()), tree_walk(&m.edge(true)), tree_walk(&m.edge(false))],
        ),
        MarkerTreeKind::Extra(m) => S::tag(
            "Ex",
            vec![extra_value(m.name()), tree_walk(&m.edge(true)), tree_walk(&m.edge(false))],
        ),
    }
}

fn operator(o: &pep440_rs::Operator) -> S {
    use pep440_rs::Operator::*;
    S::a(match o {
        Equal => "eq",
        EqualStar => "eqstar",
        ExactEqual => "exact",
        NotEqual => "ne",
        NotEqualStar => "nestar",
        TildeEqual => "tilde",
        LessThan => "lt",
        LessThanEqual => "le",
        GreaterThan => "gt",
        GreaterThanEqual => "ge",
    })
}

fn marker_operator(o: &pep508_rs::MarkerOperator) -> S {
    use pep508_rs::MarkerOperator::*;
    S::a(match o {
        Equal => "eq",
        NotEqual => "ne",
        GreaterThan => "gt",
        GreaterEqual => "ge",
        LessThan => "lt",
        LessEqual => "le",
        TildeEqual => "tilde",
        In => "in",
        NotIn => "notin",
        Contains => "contains",
        NotContains => "notcontains",
    })
}

fn specifier(s: &VersionSpecifier) -> S {
    S::l(vec![operator(s.operator()), version(s.version())])
}

fn expression(e: &MarkerExpression) -> S {
    match e {
        MarkerExpression::Version { key, specifier: s } => {
            S::tag("ver", vec![vkey(key), specifier(s)])
        }
        MarkerExpression::VersionIn { key, versions, negated } => S::tag(
            "verin",
            vec![vkey(key), S::l(versions.iter().map(version).collect()), S::bool(*negated)],
        ),
        MarkerExpression::String { key, operator, value } => {
            S::tag("str", vec![skey(key), marker_operator(operator), S::str(value)])
        }
        MarkerExpression::Extra { operator, name } => S::tag(
            "extra",
            vec![
                S::a(match operator {
                    pep508_rs::ExtraOperator::Equal => "eq",
                    pep508_rs::ExtraOperator::NotEqual => "ne",
                }),
                extra_value(name),
            ],
        ),
    }
}

fn warning_kind(k: &MarkerWarningKind) -> S {
    S::a(match k {
        MarkerWarningKind::DeprecatedMarkerName => "deprecated",
        MarkerWarningKind::ExtraInvalidComparison => "extrainvalid",
        MarkerWarningKind::LexicographicComparison => "lexicographic",
        MarkerWarningKind::MarkerMarkerComparison => "markermarker",
        MarkerWarningKind::Pep440Error => "pep440",
        MarkerWarningKind::StringStringComparison => "stringstring",
    })
}

fn warnings(w: &[(MarkerWarningKind, String)]) -> S {
    S::l(w.iter().map(|(k, _)| warning_kind(k)).collect())
}

/// error value: kind, span, the message, whether Display works, whether the span is on boundaries
fn error<T: pep508_rs::Pep508Url>(e: &Pep508Error<T>) -> S
where
    T::Err: std::fmt::Display,
{
    let kind = match &e.message {
        Pep508ErrorSource::String(_) => "string",
        Pep508ErrorSource::UrlError(_) => "url",
        Pep508ErrorSource::UnsupportedRequirement(_) => "unsupported",
    };
    let msg = match &e.message {
        Pep508ErrorSource::String(s) => s.clone(),
        Pep508ErrorSource::UrlError(u) => u.to_string(),
        Pep508ErrorSource::UnsupportedRequirement(s) => s.clone(),
    };
    let start_ok = e.start <= e.input.len() && e.input.is_char_boundary(e.start);
    let display = catch_unwind(AssertUnwindSafe(|| format!("{}", e)));
    S::tag(
        "err",
        vec![
            S::a(kind),
            S::a(e.start),
            S::a(e.len),
            S::bool(start_ok),
            S::bool(display.is_ok()),
            S::str(&msg),
            S::str(&e.input),
        ],
    )
}

fn unicode_width(c: char) -> usize {
    // the crate's Display uses unicode_width; only boundary safety matters to the checks
    c.len_utf8().min(2)
}

fn env_of(s: &S) -> Result<MarkerEnvironment, String> {
    let l = s.list();
    let v: Vec<String> = l.iter().map(|x| x.string()).collect();
    MarkerEnvironment::try_from(MarkerEnvironmentBuilder {
        implementation_name: &v[0],
        implementation_version: &v[1],
        os_name: &v[2],
        platform_machine: &v[3],
        platform_python_implementation: &v[4],
        platform_release: &v[5],
        platform_system: &v[6],
        platform_version: &v[7],
        python_full_version: &v[8],
        python_version: &v[9],
        sys_platform: &v[10],
    })
    .map_err(|e| e.to_string())
}

fn extras_of(s: &S) -> Vec<ExtraName> {
    // "new:Name" builds the extra with the owned constructor ExtraName::new (as Requirement parsing does for `pkg[Name]`)
    s.list()
        .iter()
        .map(|x| {
            let t = x.string();
            match t.strip_prefix("new:") {
                Some(n) => ExtraName::new(n.to_string()).expect("harness: extra name"),
                None => ExtraName::from_str(&t).expect("harness: extra name"),
            }
        })
        .collect()
}

fn bound_of(s: &S) -> Bound<Version> {
    match s {
        S::A(_) => Bound::Unbounded,
        S::L(l) => {
            let v = Version::from_str(&l[1].string()).expect("harness: version");
            if l[0].atom() == "I" {
                Bound::Included(v)
            } else {
                Bound::Excluded(v)
            }
        }
    }
}

/// Deserialize along three routes: JSON text without escapes (may lend a borrowed &str), JSON text whose first character is
/// written as a \uXXXX escape (owned string only), and an owned serde_json::Value.  They must agree.
fn name_de<T: AsRef<str> + serde::de::DeserializeOwned>(s: &str) -> S {
    let json = serde_json::to_string(s).unwrap();
    let a = serde_json::from_str::<T>(&json).map(|n| n.as_ref().to_string()).ok();
    let b = serde_json::from_value::<T>(serde_json::Value::String(s.to_string())).map(|n| n.as_ref().to_string()).ok();
    let mut cs = s.chars();
    let c = match cs.next() {
        Some(first) if (first as u32) < 0x10000 => {
            let rest: String = cs.collect();
            let rest_json = serde_json::to_string(&rest).unwrap();
            let esc = format!("\"\\u{:04x}{}", first as u32, &rest_json[1..]);
            serde_json::from_str::<T>(&esc).map(|n| n.as_ref().to_string()).ok()
        }
        _ => a.clone(),
    };
    if a == b && b == c {
        match a {
            Some(n) => S::tag("ok", vec![S::str(&n)]),
            None => S::a("err"),
        }
    } else {
        S::tag("ok", vec![S::str(&format!("<<deserializers disagree: text {:?}, value {:?}, escaped text {:?}>>", a, b, c))])
    }
}

fn name_res<T: AsRef<str> + std::fmt::Display + serde::Serialize, E>(r: Result<T, E>) -> S {
    match r {
        // the three views of a name (AsRef<str>, Display, serde) must show the same text
        Ok(n) if n.to_string() != n.as_ref() || serde_json::to_string(&n).ok() != serde_json::to_string(n.as_ref()).ok() => {
            S::tag("views-differ", vec![S::str(n.as_ref()), S::str(&n.to_string())])
        }
        Ok(n) => S::tag("ok", vec![S::str(n.as_ref())]),
        Err(_) => S::a("err"),
    }
}

struct St {
    regs: Vec<MarkerTree>,
}

impl St {
    fn push(&mut self, t: MarkerTree) -> Vec<S> {
        let d = tree(&t);
        self.regs.push(t);
        vec![S::a(self.regs.len() - 1), d]
    }

    fn req<T: UrlView>(&mut self, text: &str, wd: &Option<String>) -> S
    where
        T::Err: std::fmt::Display,
    {
        let mut w = Vec::new();
        match parse_req::<T>(text, wd, &mut w) {
            Ok(r) => {
                let (k, keys_ok) = kind_out(&r.version_or_url);
                let shown = r.to_string();
                let contents = r.marker.contents().map_or(S::a("none"), |c| S::str(&c.to_string()));
                let mut v = vec![S::str(r.name.as_ref()), S::l(r.extras.iter().map(|e| S::str(e.as_ref())).collect()), k];
                v.append(&mut self.push(r.marker.clone()));
                v.push(if wd.is_some() { warnings(&w) } else { S::a("na") });
                v.push(S::str(&shown));
                v.push(contents);
                v.push(S::bool(keys_ok));
                S::tag("ok", v)
            }
            Err(e) => error(&e),
        }
    }

    fn reqrt<T: UrlView>(&mut self, text: &str, wd: &Option<String>) -> S
    where
        T::Err: std::fmt::Display,
    {
        let mut w = Vec::new();
        match parse_req::<T>(text, wd, &mut w) {
            Ok(r) => {
                let s1 = r.to_string();
                let mut v = vec![S::str(&s1)];
                v.append(&mut self.push(r.marker.clone()));
                let back = match parse_req::<T>(&s1, wd, &mut w) {
                    Ok(r2) => {
                        let mut x = vec![S::bool(r2 == r), S::bool(r2.name == r.name), S::bool(r2.extras == r.extras),
                                         S::bool(r2.version_or_url == r.version_or_url), S::bool(r2.marker == r.marker)];
                        x.append(&mut self.push(r2.marker.clone()));
                        x.push(S::str(&r2.to_string()));
                        S::tag("ok", x)
                    }
                    Err(e) => error(&e),
                };
                v.push(back);
                let json = serde_json::to_string(&r).unwrap();
                // two routes: JSON text (may lend a borrowed &str) and an owned serde_json::Value; they must agree
                let by_value = serde_json::from_str::<serde_json::Value>(&json)
                    .map_err(|e| e.to_string())
                    .and_then(|v| serde_json::from_value::<Requirement<T>>(v).map_err(|e| e.to_string()));
                let by_text = serde_json::from_str::<Requirement<T>>(&json).map_err(|e| e.to_string());
                let de_res = match (by_text, by_value) {
                    (Ok(a), Ok(b)) if a == b => Ok(a),
                    (Ok(_), Ok(_)) => Err("deserializing the JSON text and the JSON value give different requirements".to_string()),
                    (Err(a), Err(_)) => Err(a),
                    (Ok(_), Err(b)) => Err(format!("deserializes from JSON text but not from a JSON value: {}", b)),
                    (Err(a), Ok(_)) => Err(format!("deserializes from a JSON value but not from JSON text: {}", a)),
                };
                let de = match de_res {
                    Ok(r3) => {
                        let mut x = vec![S::bool(r3 == r), S::bool(r3.name == r.name), S::bool(r3.extras == r.extras),
                                         S::bool(r3.version_or_url == r.version_or_url), S::bool(r3.marker == r.marker)];
                        x.append(&mut self.push(r3.marker.clone()));
                        S::tag("ok", x)
                    }
                    Err(e) => S::tag("err", vec![S::str(&e)]),
                };
                v.push(S::str(&json));
                v.push(de);
                S::tag("ok", v)
            }
            Err(e) => error(&e),
        }
    }

    #[cfg(feature = "ext")]
    fn path_url(&mut self, text: &str, wd: &Option<String>, decode: bool) -> S {
        // replica of src/path.rs normalize_url_path on Unix (the `file:` branch only): percent-decode, else unchanged
        let decoded = if decode { urlencoding::decode(text).unwrap_or(std::borrow::Cow::Borrowed(text)) } else { std::borrow::Cow::Borrowed(text) };
        let r = match wd {
            Some(d) => VerbatimUrl::from_path(decoded.as_ref(), d),
            None => VerbatimUrl::from_absolute_path(decoded.as_ref()),
        };
        match r {
            Ok(u) => S::tag("ok", vec![S::str(&u.to_string())]),
            Err(e) => S::tag("err", vec![S::str(&e.to_string())]),
        }
    }
    #[cfg(not(feature = "ext"))]
    fn path_url(&mut self, _text: &str, _wd: &Option<String>, _decode: bool) -> S {
        S::a("unavailable")
    }

    fn run(&mut self, cmd: &S) -> S {
        let l = cmd.list();
        let op = l[0].atom();
        match op {
            // ---- names (C09)
            "name" => {
                let s = l[1].string();
                let _json = serde_json::to_string(&s).unwrap();
                let p_new = PackageName::new(s.clone());
                let dist = match &p_new {
                    Ok(p) => S::tag("ok", vec![S::str(&p.as_dist_info_name())]),
                    Err(_) => S::a("err"),
                };
                S::tag(
                    "name",
                    vec![
                        name_res(p_new),
                        name_res(PackageName::from_str(&s)),
                        name_de::<PackageName>(&s),
                        name_res(ExtraName::new(s.clone())),
                        name_res(ExtraName::from_str(&s)),
                        name_de::<ExtraName>(&s),
                        dist,
                    ],
                )
            }
            "nameeq" => {
                let a = PackageName::from_str(&l[1].string());
                let b = PackageName::from_str(&l[2].string());
                match (a, b) {
                    (Ok(a), Ok(b)) => S::tag("ok", vec![S::bool(a == b)]),
                    _ => S::a("err"),
                }
            }
            // ---- marker construction
            "parse" => {
                let s = l[1].string();
                let mut w = Vec::new();
                let r = MarkerTree::parse_reporter(&s, &mut |k, m| w.push((k, m)));
                match r {
                    Ok(t) => {
                        // from_str must agree
                        let t2 = MarkerTree::from_str(&s).ok();
                        // ... and so must the generic entry point, whatever URL type the error would carry
                        let t3 = MarkerTree::parse_str::<VerbatimUrl>(&s).ok();
                        let t4 = MarkerTree::parse_str::<url::Url>(&s).ok();
                        let same = t2.as_ref() == Some(&t) && t3.as_ref() == Some(&t) && t4.as_ref() == Some(&t);
                        let mut v = self.push(t);
                        v.push(warnings(&w));
                        v.push(S::bool(same));
                        S::tag("ok", v)
                    }
                    Err(e) => {
                        // the other entry points must refuse it too, with the same message and span
                        let shown = e.to_string();
                        let e2 = MarkerTree::from_str(&s).err().map(|x| x.to_string());
                        let e3 = MarkerTree::parse_str::<VerbatimUrl>(&s).err().map(|x| x.to_string());
                        let e4 = MarkerTree::parse_str::<url::Url>(&s).err().map(|x| x.to_string());
                        if e2.as_ref() != Some(&shown) || e3.as_ref() != Some(&shown) || e4.as_ref() != Some(&shown) {
                            return S::tag("routes-differ", vec![S::str(&shown), S::str(&format!("{e2:?} / {e3:?} / {e4:?}"))]);
                        }
                        error(&e)
                    }
                }
            }
            "expr" => {
                let s = l[1].string();
                let mut w = Vec::new();
                let r = MarkerExpression::parse_reporter(&s, &mut |k, m| w.push((k, m)));
                match r {
                    Ok(None) => S::tag("ok", vec![S::a("none"), warnings(&w)]),
                    Ok(Some(e)) => {
                        let d = expression(&e);
                        let shown = e.to_string();
                        let mut v = vec![d];
                        v.append(&mut self.push(MarkerTree::expression(e)));
                        v.push(warnings(&w));
                        v.push(S::str(&shown));
                        S::tag("ok", v)
                    }
                    Err(e) => error(&e),
                }
            }
            "const" => S::tag("ok", self.push(if l[1].atom() == "T" { MarkerTree::TRUE } else { MarkerTree::FALSE })),
            "and" | "or" => {
                let mut a = self.regs[l[1].idx()].clone();
                let b = self.regs[l[2].idx()].clone();
                if op == "and" {
                    a.and(b)
                } else {
                    a.or(b)
                }
                S::tag("ok", self.push(a))
            }
            "not" => {
                let a = self.regs[l[1].idx()].negate();
                S::tag("ok", self.push(a))
            }
            "simpx" => {
                let a = self.regs[l[1].idx()].clone();
                let ex = extras_of(&l[2]);
                let r1 = a.clone().simplify_extras(&ex);
                let r2 = a.simplify_extras_with(|n| ex.contains(n));
                let same = r1 == r2;
                let mut v = self.push(r1);
                v.push(S::bool(same));
                S::tag("ok", v)
            }
            "simppv" | "cplxpv" => {
                let a = self.regs[l[1].idx()].clone();
                let lo = bound_of(&l[2]);
                let hi = bound_of(&l[3]);
                let r = if op == "simppv" {
                    a.simplify_python_versions(lo.as_ref(), hi.as_ref())
                } else {
                    a.complexify_python_versions(lo.as_ref(), hi.as_ref())
                };
                S::tag("ok", self.push(r))
            }
            "withextra" => {
                let a = self.regs[l[1].idx()].clone();
                let ex = ExtraName::from_str(&l[2].string()).expect("harness: extra name");
                let req = Requirement::<VerbatimUrl> {
                    name: PackageName::from_str("x").unwrap(),
                    extras: vec![],
                    version_or_url: None,
                    marker: a,
                    origin: None,
                };
                S::tag("ok", self.push(req.with_extra_marker(&ex).marker))
            }
            // ---- observations
            "dump" => S::tag("ok", vec![tree(&self.regs[l[1].idx()])]),
            "flags" => {
                let a = &self.regs[l[1].idx()];
                S::tag("ok", vec![S::bool(a.is_true()), S::bool(a.is_false())])
            }
            "disjoint" => {
                let a = &self.regs[l[1].idx()];
                let b = &self.regs[l[2].idx()];
                S::tag("ok", vec![S::bool(a.is_disjoint(b))])
            }
            "rel" => {
                // == , cmp, hash equality, for a pair
                let a = &self.regs[l[1].idx()];
                let b = &self.regs[l[2].idx()];
                let h = |t: &MarkerTree| {
                    let mut s = std::collections::hash_map::DefaultHasher::new();
                    t.hash(&mut s);
                    s.finish()
                };
                let c = match a.cmp(b) {
                    std::cmp::Ordering::Less => "Lt",
                    std::cmp::Ordering::Equal => "Eq",
                    std::cmp::Ordering::Greater => "Gt",
                };
                // PartialOrd and the comparison operators must be the order Ord gives
                let po = a.partial_cmp(b) == Some(a.cmp(b)) && (a < b) == (a.cmp(b) == std::cmp::Ordering::Less) && (a > b) == (a.cmp(b) == std::cmp::Ordering::Greater)
                    && (a <= b) == (a.cmp(b) != std::cmp::Ordering::Greater)
                    && a.kind().partial_cmp(&b.kind()) == Some(a.cmp(b)) && a.kind().cmp(&b.kind()) == a.cmp(b) && (a.kind() == b.kind()) == (a == b);
                S::tag("ok", vec![S::bool(a == b), S::a(c), S::bool(h(a) == h(b)), S::bool(po)])
            }
            "eval" => {
                let a = &self.regs[l[1].idx()];
                let env = match env_of(&l[2]) {
                    Ok(e) => e,
                    Err(e) => return S::tag("badenv", vec![S::str(&e)]),
                };
                let ex = extras_of(&l[3]);
                let (_r0, w0) = a.evaluate_collect_warnings(&env, &ex);
                let r1 = a.evaluate(&env, &ex);
                let mut w2 = Vec::new();
                let r2 = a.evaluate_reporter(&env, &ex, &mut |k, m| w2.push((k, m)));
                let (r3, w3) = a.evaluate_collect_warnings(&env, &ex);
                let r4 = a.evaluate_optional_environment(Some(&env), &ex);
                let req = Requirement::<VerbatimUrl> {
                    name: PackageName::from_str("x").unwrap(),
                    extras: vec![],
                    version_or_url: None,
                    marker: a.clone(),
                    origin: None,
                };
                let r5 = req.evaluate_markers(&env, &ex);
                let (r6, w6) = req.evaluate_markers_and_report(&env, &ex);
                S::tag(
                    "ok",
                    // the last element: the first and a later evaluation of the same marker report the same warnings
                    vec![S::bool(r1), S::bool(r2), S::bool(r3), S::bool(r4), S::bool(r5), warnings(&w2), warnings(&w3), S::bool(r6), warnings(&w6), S::bool(w0 == w3 && w0 == w2)],
                )
            }
            "envcheck" => {
                // the environment built by the builder, the same built with the `with_*` setters on top of an unrelated
                // environment, and the accessors: every field must come back as given
                let v: Vec<String> = l[1].list().iter().map(|x| x.string()).collect();
                let env = match env_of(&l[1]) {
                    Ok(e) => e,
                    Err(e) => return S::tag("badenv", vec![S::str(&e)]),
                };
                let base = MarkerEnvironment::try_from(MarkerEnvironmentBuilder {
                    implementation_name: "q0",
                    implementation_version: "0.1",
                    os_name: "q2",
                    platform_machine: "q3",
                    platform_python_implementation: "q4",
                    platform_release: "q5",
                    platform_system: "q6",
                    platform_version: "q7",
                    python_full_version: "0.2.3",
                    python_version: "0.2",
                    sys_platform: "q10",
                })
                .unwrap();
                let sv = |t: &str| pep508_rs::StringVersion::from_str(t).unwrap();
                let built = base
                    .with_implementation_name(v[0].clone())
                    .with_implementation_version(sv(&v[1]))
                    .with_os_name(v[2].clone())
                    .with_platform_machine(v[3].clone())
                    .with_platform_python_implementation(v[4].clone())
                    .with_platform_release(v[5].clone())
                    .with_platform_system(v[6].clone())
                    .with_platform_version(v[7].clone())
                    .with_python_full_version(sv(&v[8]))
                    .with_python_version(sv(&v[9]))
                    .with_sys_platform(v[10].clone());
                let h = |t: &MarkerEnvironment| {
                    let mut s = std::collections::hash_map::DefaultHasher::new();
                    t.hash(&mut s);
                    s.finish()
                };
                let mut bad: Vec<S> = Vec::new();
                if built != env || h(&built) != h(&env) {
                    bad.push(S::str("with_* chain differs from the builder"));
                }
                for e in [&env, &built] {
                    let acc = [
                        (e.implementation_name().to_string(), 0),
                        (e.implementation_version().string.clone(), 1),
                        (e.os_name().to_string(), 2),
                        (e.platform_machine().to_string(), 3),
                        (e.platform_python_implementation().to_string(), 4),
                        (e.platform_release().to_string(), 5),
                        (e.platform_system().to_string(), 6),
                        (e.platform_version().to_string(), 7),
                        (e.python_full_version().string.clone(), 8),
                        (e.python_version().string.clone(), 9),
                        (e.sys_platform().to_string(), 10),
                    ];
                    for (got, i) in acc.iter() {
                        if got != &v[*i] {
                            bad.push(S::str(&format!("accessor of field {} returns {:?}", i, got)));
                        }
                    }
                    use MarkerValueString as K;
                    let gs = [
                        (K::ImplementationName, 0),
                        (K::OsName, 2),
                        (K::OsNameDeprecated, 2),
                        (K::PlatformMachine, 3),
                        (K::PlatformMachineDeprecated, 3),
                        (K::PlatformPythonImplementation, 4),
                        (K::PlatformPythonImplementationDeprecated, 4),
                        (K::PythonImplementationDeprecated, 4),
                        (K::PlatformRelease, 5),
                        (K::PlatformSystem, 6),
                        (K::PlatformVersion, 7),
                        (K::PlatformVersionDeprecated, 7),
                        (K::SysPlatform, 10),
                        (K::SysPlatformDeprecated, 10),
                    ];
                    for (k, i) in gs.iter() {
                        if e.get_string(k) != v[*i] {
                            bad.push(S::str(&format!("get_string({}) returns {:?}", k, e.get_string(k))));
                        }
                    }
                    let gv = [
                        (MarkerValueVersion::ImplementationVersion, 1),
                        (MarkerValueVersion::PythonFullVersion, 8),
                        (MarkerValueVersion::PythonVersion, 9),
                    ];
                    for (k, i) in gv.iter() {
                        if e.get_version(k) != &Version::from_str(&v[*i]).unwrap() {
                            bad.push(S::str(&format!("get_version({}) returns {}", k, e.get_version(k))));
                        }
                    }
                }
                S::tag("ok", vec![S::l(bad)])
            }
            "evalx" => {
                let a = &self.regs[l[1].idx()];
                let ex = extras_of(&l[2]);
                S::tag(
                    "ok",
                    vec![S::bool(a.evaluate_extras(&ex)), S::bool(a.evaluate_optional_environment(None, &ex))],
                )
            }
            "evalxpv" => {
                let a = &self.regs[l[1].idx()];
                let ex: HashSet<ExtraName> = extras_of(&l[2]).into_iter().collect();
                let vs: Vec<Version> =
                    l[3].list().iter().map(|v| Version::from_str(&v.string()).expect("harness: version")).collect();
                let req = Requirement::<VerbatimUrl> {
                    name: PackageName::from_str("x").unwrap(),
                    extras: vec![],
                    version_or_url: None,
                    marker: a.clone(),
                    origin: None,
                };
                S::tag(
                    "ok",
                    vec![
                        S::bool(a.evaluate_extras_and_python_version(&ex, &vs)),
                        S::bool(req.evaluate_extras_and_python_version(&ex, &vs)),
                    ],
                )
            }
            "dnf" => {
                let a = &self.regs[l[1].idx()];
                let d = a.to_dnf();
                S::tag(
                    "ok",
                    vec![S::l(d.iter().map(|c| S::l(c.iter().map(expression).collect())).collect())],
                )
            }
            "display" => {
                let a = &self.regs[l[1].idx()];
                let t = a.try_to_string();
                let c = a.contents().map(|c| c.to_string());
                let j = a.contents().map(|c| serde_json::to_string(&c).unwrap());
                let jback = j.as_ref().map(|j| serde_json::from_str::<String>(j).unwrap());
                let de = j.as_ref().and_then(|j| {
                    let a = serde_json::from_str::<MarkerTree>(j).ok();
                    let b = serde_json::from_str::<serde_json::Value>(j).ok().and_then(|v| serde_json::from_value::<MarkerTree>(v).ok());
                    if a == b { a } else { None }
                });
                // the serde helpers for fields of type MarkerTree (marker::ser): `is_empty` says "nothing to serialise" exactly when there are
                // no contents, and `serialize` writes the contents
                let ser_empty = pep508_rs::marker::ser::is_empty(a);
                let ser_text = if ser_empty { None } else {
                    match catch_unwind(AssertUnwindSafe(|| pep508_rs::marker::ser::serialize(a, serde_json::value::Serializer))) {
                        Ok(Ok(serde_json::Value::String(s))) => Some(s),
                        _ => Some("<<ser::serialize failed>>".to_string()),
                    }
                };
                let same = t == c && t == jback && ser_empty == t.is_none() && ser_text == t;
                match t {
                    None if !same => S::tag("ok", vec![S::str("<<TRUE marker>>"), S::bool(false), S::bool(true)]),
                    None => S::tag("ok", vec![S::a("none")]),
                    Some(t) => S::tag(
                        "ok",
                        vec![S::str(&t), S::bool(same), S::bool(de.as_ref() == Some(a))],
                    ),
                }
            }
            "tlextra" => {
                let a = &self.regs[l[1].idx()];
                match a.top_level_extra() {
                    None => S::tag("ok", vec![S::a("none")]),
                    Some(e) => S::tag("ok", vec![expression(&e)]),
                }
            }
            // ---- dependency oracles
            "vercmp" => {
                let a = Version::from_str(&l[1].string());
                let b = Version::from_str(&l[2].string());
                match (a, b) {
                    (Ok(a), Ok(b)) => {
                        let c = match a.cmp(&b) {
                            std::cmp::Ordering::Less => "Lt",
                            std::cmp::Ordering::Equal => "Eq",
                            std::cmp::Ordering::Greater => "Gt",
                        };
                        S::tag("ok", vec![version(&a), version(&b), S::a(c)])
                    }
                    _ => S::a("err"),
                }
            }
            "version" => match Version::from_str(&l[1].string()) {
                Ok(v) => S::tag("ok", vec![version(&v), S::str(&v.to_string())]),
                Err(_) => S::a("err"),
            },
            "specrange" => match VersionSpecifier::from_str(&l[1].string()) {
                Ok(sp) => {
                    let d = specifier(&sp);
                    let r = catch_unwind(AssertUnwindSafe(|| pep440_rs::release_specifier_to_range(sp)));
                    match r {
                        Ok(r) => S::tag("ok", vec![d, ranges(&r, &version)]),
                        Err(_) => S::tag("panic", vec![d]),
                    }
                }
                Err(_) => S::a("err"),
            },
            "strcmp" => {
                let a = l[1].string();
                let b = l[2].string();
                let c = match a.cmp(&b) {
                    std::cmp::Ordering::Less => "Lt",
                    std::cmp::Ordering::Equal => "Eq",
                    std::cmp::Ordering::Greater => "Gt",
                };
                S::tag("ok", vec![S::a(c), S::bool(a.contains(&b))])
            }
            "key" => match pep508_rs::MarkerValue::from_str(&l[1].string()) {
                Ok(pep508_rs::MarkerValue::MarkerEnvVersion(k)) => S::tag("verkey", vec![vkey(&k), S::str(&k.to_string())]),
                Ok(pep508_rs::MarkerValue::MarkerEnvString(k)) => S::tag("strkey", vec![skey(&k), S::str(&k.to_string())]),
                Ok(pep508_rs::MarkerValue::Extra) => S::a("extra"),
                _ => S::a("err"),
            },
            "vurlrel" => {
                // (vurlrel how_a text_a how_b text_b): VerbatimUrls built through the constructors (parse_url: no verbatim text;
                // given: parse_url + with_given(text); from_url: From<Url>), compared by ==, cmp both ways, hash, and by their parsed URLs
                let mk = |how: &str, t: &str| -> Option<VerbatimUrl> {
                    match how {
                        "parse" => VerbatimUrl::parse_url(t).ok(),
                        "given" => VerbatimUrl::parse_url(t).ok().map(|u| u.with_given(t.to_string())),
                        "givenx" => VerbatimUrl::parse_url(t).ok().map(|u| u.with_given(format!("{}  ", t))),
                        _ => url::Url::parse(t).ok().map(VerbatimUrl::from_url),
                    }
                };
                match (mk(l[1].atom(), &l[2].string()), mk(l[3].atom(), &l[4].string())) {
                    (Some(a), Some(b)) => {
                        let hu = |t: &VerbatimUrl| {
                            let mut s = std::collections::hash_map::DefaultHasher::new();
                            t.hash(&mut s);
                            s.finish()
                        };
                        let c = |o: std::cmp::Ordering| match o {
                            std::cmp::Ordering::Less => "Lt",
                            std::cmp::Ordering::Equal => "Eq",
                            std::cmp::Ordering::Greater => "Gt",
                        };
                        S::tag("ok", vec![S::bool(a == b), S::a(c(a.cmp(&b))), S::a(c(b.cmp(&a))), S::bool(hu(&a) == hu(&b)), S::bool(a.raw() == b.raw()),
                            S::bool(a.partial_cmp(&b) == Some(a.cmp(&b)) && (a < b) == (a.cmp(&b) == std::cmp::Ordering::Less) && (a.to_url() == b.to_url()) == (a.raw() == b.raw()) && a.clone().into_url() == *a.raw())])
                    }
                    _ => S::a("none"),
                }
            }
            "reqrel" => {
                let origin = |s: Option<&S>| -> Option<pep508_rs::RequirementOrigin> {
                    match s {
                        Some(S::L(v)) if !v.is_empty() => match v[0].atom() {
                            "file" => Some(pep508_rs::RequirementOrigin::File(std::path::PathBuf::from(v[1].string()))),
                            "project" => Some(pep508_rs::RequirementOrigin::Project(std::path::PathBuf::from(v[1].string()), PackageName::from_str(&v[2].string()).unwrap())),
                            _ => Some(pep508_rs::RequirementOrigin::Workspace),
                        },
                        _ => None,
                    }
                };
                let a = Requirement::<VerbatimUrl>::from_str(&l[1].string()).map(|r| match origin(l.get(3)) { Some(o) => r.with_origin(o), None => r });
                let b = Requirement::<VerbatimUrl>::from_str(&l[2].string()).map(|r| match origin(l.get(4)) { Some(o) => r.with_origin(o), None => r });
                match (a, b) {
                    (Ok(a), Ok(b)) => {
                        let h = |t: &Requirement<VerbatimUrl>| {
                            let mut s = std::collections::hash_map::DefaultHasher::new();
                            t.hash(&mut s);
                            s.finish()
                        };
                        let c = |o: std::cmp::Ordering| match o {
                            std::cmp::Ordering::Less => "Lt",
                            std::cmp::Ordering::Equal => "Eq",
                            std::cmp::Ordering::Greater => "Gt",
                        };
                        let urls = match (&a.version_or_url, &b.version_or_url) {
                            (Some(pep508_rs::VersionOrUrl::Url(x)), Some(pep508_rs::VersionOrUrl::Url(y))) => {
                                let hu = |t: &VerbatimUrl| {
                                    let mut s = std::collections::hash_map::DefaultHasher::new();
                                    t.hash(&mut s);
                                    s.finish()
                                };
                                S::l(vec![S::bool(x == y), S::a(c(x.cmp(y))), S::bool(hu(x) == hu(y)), S::bool(x.to_url() == y.to_url())])
                            }
                            _ => S::a("none"),
                        };
                        let po = a.partial_cmp(&b) == Some(a.cmp(&b)) && (a < b) == (a.cmp(&b) == std::cmp::Ordering::Less);
                        S::tag("ok", vec![S::bool(a == b), S::a(c(a.cmp(&b))), S::a(c(b.cmp(&a))), S::bool(h(&a) == h(&b)), urls, S::bool(po)])
                    }
                    _ => S::a("err"),
                }
            }
            "raw" => {
                let a = &self.regs[l[1].idx()];
                S::tag("ok", vec![S::a(a.verif_raw_id()), S::a(MarkerTree::verif_arena_len())])
            }
            "hammer" => {
                // (hammer nthreads iters timeout_ms (texts...) (heavy_a heavy_b)) : the main thread computes, once, and/or/is_disjoint of neighbouring
                // markers, re-parses of every text and is_disjoint of the heavy pair; then every thread repeats the same operations `iters` times
                // (thread 0 keeps working on the heavy pair) and counts results that differ from the sequential ones
                let n = l[1].idx();
                let iters = l[2].idx();
                let timeout = l[3].num();
                let texts: Vec<String> = l[4].list().iter().map(|t| t.string()).filter(|t| MarkerTree::from_str(t).is_ok()).collect();
                let trees: Vec<MarkerTree> = texts.iter().map(|t| MarkerTree::from_str(t).unwrap()).collect();
                let heavy: Option<(MarkerTree, MarkerTree)> = if l.len() > 5 && l[5].list().len() == 2 {
                    match (MarkerTree::from_str(&l[5].list()[0].string()), MarkerTree::from_str(&l[5].list()[1].string())) {
                        (Ok(a), Ok(b)) => Some((a, b)),
                        _ => None,
                    }
                } else { None };
                let heavy_expected = heavy.as_ref().map(|(a, b)| a.is_disjoint(b));
                let k = trees.len();
                let mut expected: Vec<(MarkerTree, MarkerTree, bool)> = Vec::new();
                for j in 0..k {
                    let mut x = trees[j].clone();
                    x.and(trees[(j + 1) % k].clone());
                    let mut y = trees[j].clone();
                    y.or(trees[(j + 2) % k].clone());
                    let d = trees[j].is_disjoint(&trees[(j + 1) % k]);
                    expected.push((x, y, d));
                }
                // requires-python simplification / complexification and extras restriction of every marker, for four lower bounds
                let lows: Vec<Version> = (0..4u64).map(|b| Version::new([3, 6 + b])).collect();
                // every thread restricts with its own set of active extras (thread t uses set t % 4)
                let ab: Vec<Vec<ExtraName>> = [vec!["a", "b"], vec!["a"], vec!["b"], vec!["c", "a"]].iter().map(|ns| ns.iter().map(|n| ExtraName::from_str(n).unwrap()).collect()).collect();
                let mut expected2: Vec<(Vec<MarkerTree>, Vec<MarkerTree>, Vec<MarkerTree>)> = Vec::new();
                for j in 0..k {
                    let c: Vec<MarkerTree> = lows.iter().map(|v| trees[j].clone().complexify_python_versions(Bound::Included(v), Bound::Unbounded)).collect();
                    let s: Vec<MarkerTree> = lows.iter().map(|v| trees[j].clone().simplify_python_versions(Bound::Included(v), Bound::Unbounded)).collect();
                    expected2.push((c, s, ab.iter().map(|e| trees[j].clone().simplify_extras(e)).collect()));
                }
                let expected2 = std::sync::Arc::new(expected2);
                let lows = std::sync::Arc::new(lows);
                let ab = std::sync::Arc::new(ab);
                let trees = std::sync::Arc::new(trees);
                let texts = std::sync::Arc::new(texts);
                let expected = std::sync::Arc::new(expected);
                let heavy = std::sync::Arc::new(heavy);
                let (tx, rx) = std::sync::mpsc::channel();
                let barrier = std::sync::Arc::new(std::sync::Barrier::new(n));
                let running = std::sync::Arc::new(std::sync::atomic::AtomicUsize::new(n));
                for t in 0..n {
                    let tx = tx.clone();
                    let running = running.clone();
                    let trees = trees.clone();
                    let texts = texts.clone();
                    let expected = expected.clone();
                    let expected2 = expected2.clone();
                    let lows = lows.clone();
                    let ab = ab.clone();
                    let heavy = heavy.clone();
                    let barrier = barrier.clone();
                    std::thread::spawn(move || {
                        let r = catch_unwind(AssertUnwindSafe(|| {
                            barrier.wait();
                            let mut bad = 0usize;
                            let mut first: Option<(usize, String)> = None;
                            if t == 0 {
                                // this thread keeps the interner busy with the large check until the others are done
                                if let (Some((a, b)), Some(want)) = (heavy.as_ref(), heavy_expected) {
                                    while running.load(std::sync::atomic::Ordering::Relaxed) > 1 {
                                        if a.is_disjoint(b) != want {
                                            bad += 1;
                                            if first.is_none() { first = Some((usize::MAX, "is_disjoint of the heavy pair".to_string())); }
                                        }
                                        // the mutex is not fair: give the other threads a chance to take it
                                        std::thread::sleep(std::time::Duration::from_micros(300));
                                    }
                                    running.fetch_sub(1, std::sync::atomic::Ordering::Relaxed);
                                    return (bad, first);
                                }
                            }
                            for it in 0..iters {
                                let j = (it + t * 3) % k;
                                let mut x = trees[j].clone();
                                x.and(trees[(j + 1) % k].clone());
                                let mut y = trees[j].clone();
                                y.or(trees[(j + 2) % k].clone());
                                let d = trees[j].is_disjoint(&trees[(j + 1) % k]);
                                let reparsed_ok = if it % 16 == 0 { MarkerTree::from_str(&texts[j]).ok().as_ref() == Some(&trees[j]) } else { true };
                                if it % 32 == 0 {
                                    // the other mutating entry points, and the constant TRUE complexified to a bound nobody has used yet
                                    let b = (it / 32) % lows.len();
                                    let c = trees[j].clone().complexify_python_versions(Bound::Included(&lows[b]), Bound::Unbounded);
                                    let s = trees[j].clone().simplify_python_versions(Bound::Included(&lows[b]), Bound::Unbounded);
                                    let e = trees[j].clone().simplify_extras(&ab[t % ab.len()]);
                                    let fresh = Version::new([3, 100 + (t as u64) * 10_000_000 + it as u64]);
                                    let f = MarkerTree::TRUE.complexify_python_versions(Bound::Included(&fresh), Bound::Unbounded);
                                    let f_ok = f.try_to_string() == Some(format!("python_full_version >= '{}'", fresh));
                                    if c != expected2[j].0[b] || s != expected2[j].1[b] || e != expected2[j].2[t % ab.len()] || !f_ok {
                                        bad += 1;
                                        if first.is_none() {
                                            first = Some((j, format!("complexify {:?} / simplify {:?} / simplify_extras {:?} / TRUE complexified to >= {}: {:?}", c.try_to_string(), s.try_to_string(), e.try_to_string(), fresh, f.try_to_string())));
                                        }
                                    }
                                }
                                if x != expected[j].0 || y != expected[j].1 || d != expected[j].2 || !reparsed_ok {
                                    bad += 1;
                                    if first.is_none() {
                                        first = Some((j, format!("and {:?} / or {:?} / disjoint {} (sequential {}) / re-parse equal {}", x.try_to_string(), y.try_to_string(), d, expected[j].2, reparsed_ok)));
                                    }
                                }
                            }
                            running.fetch_sub(1, std::sync::atomic::Ordering::Relaxed);
                            (bad, first)
                        }));
                        if r.is_err() { running.fetch_sub(1, std::sync::atomic::Ordering::Relaxed); }
                        let _ = tx.send(r.ok());
                    });
                }
                drop(tx);
                let deadline = std::time::Instant::now() + std::time::Duration::from_millis(timeout);
                let mut got = 0;
                let mut bad = 0;
                let mut panicked = 0;
                let mut first: Option<(usize, String)> = None;
                while got < n {
                    let left = deadline.saturating_duration_since(std::time::Instant::now());
                    match rx.recv_timeout(left) {
                        Ok(Some((b, f))) => { bad += b; if first.is_none() { first = f; } got += 1; }
                        Ok(None) => { panicked += 1; got += 1; }
                        Err(_) => break,
                    }
                }
                if got < n {
                    return S::tag("deadlock", vec![S::a(got)]);
                }
                if panicked > 0 {
                    return S::tag("panicked", vec![S::a(panicked)]);
                }
                S::tag("ok", vec![S::a(bad), S::a(n * iters), match first { Some((j, t)) => S::l(vec![S::a(j), S::str(&t)]), None => S::a("none") }])
            }
            "reent" => {
                // (reent env timeout_ms): read-side calls are lock-free, so user code they call back (a Reporter) may itself use markers, a
                // predicate running under simplify_extras_with may evaluate, and a Reporter that panics leaves the interner usable; run on
                // a thread with a watchdog (a deadlock must not hang the harness)
                let env = match env_of(&l[1]) { Ok(e) => e, Err(m) => return S::tag("bad-env", vec![S::str(&m)]) };
                let timeout = l[2].num();
                let (tx, rx) = std::sync::mpsc::channel();
                std::thread::spawn(move || {
                    let r = catch_unwind(AssertUnwindSafe(|| {
                        let mut problems: Vec<String> = Vec::new();
                        let m = MarkerTree::from_str("os_name < 'posix' or sys_platform == 'linux'").unwrap();
                        // (a) a reporter that builds markers while evaluate_reporter is reporting
                        let mut n = 0usize;
                        let v = m.evaluate_reporter(&env, &[], &mut |_k, _msg| {
                            n += 1;
                            let mut x = MarkerTree::from_str(&format!("platform_machine == 'reent-{n}'")).unwrap();
                            x.and(MarkerTree::from_str("os_name == 'posix'").unwrap());
                            let _ = x.try_to_string();
                        });
                        if n == 0 { problems.push("no warning reported for a lexicographic comparison".to_string()); }
                        if v != m.evaluate(&env, &[]) { problems.push("evaluate_reporter and evaluate disagree".to_string()); }
                        // (b) a predicate that evaluates another marker while simplify_extras_with runs
                        let other = MarkerTree::from_str("extra == 'gpu' and os_name == 'posix'").unwrap();
                        let gpu = ExtraName::from_str("gpu").unwrap();
                        let s = MarkerTree::from_str("sys_platform == 'linux' and extra == 'gpu'").unwrap().simplify_extras_with(|e| {
                            let _ = other.evaluate(&env, std::slice::from_ref(e));
                            let _ = other.try_to_string();
                            *e == gpu
                        });
                        if Some(s) != MarkerTree::from_str("sys_platform == 'linux'").ok() { problems.push("simplify_extras_with gave another result".to_string()); }
                        // (c) a reporter that panics: only that call fails, the interner stays usable
                        let p = catch_unwind(AssertUnwindSafe(|| m.evaluate_reporter(&env, &[], &mut |_k, _msg| panic!("strict reporter"))));
                        if p.is_ok() { problems.push("the strict reporter was never called".to_string()); }
                        let after = catch_unwind(AssertUnwindSafe(|| {
                            let mut y = MarkerTree::from_str("platform_machine == 'reent-after'").unwrap();
                            y.or(MarkerTree::from_str("os_name == 'nt'").unwrap());
                            y.evaluate(&env, &[])
                        }));
                        if after.is_err() { problems.push("after a panicking reporter every marker operation panics (poisoned interner)".to_string()); }
                        problems
                    }));
                    let _ = tx.send(r);
                });
                match rx.recv_timeout(std::time::Duration::from_millis(timeout)) {
                    Ok(Ok(p)) => S::tag("ok", p.iter().map(|x| S::str(x)).collect()),
                    Ok(Err(_)) => S::a("panicked"),
                    Err(_) => S::a("deadlock"),
                }
            }
            "bulk" => {
                // (bulk n) : n distinct conjunctions, to fill caches and tables
                let n = l[1].idx();
                for i in 0..n {
                    let t = format!("extra == 'bulk-a{i}' and extra == 'bulk-b{i}'");
                    let _ = MarkerTree::from_str(&t);
                }
                S::tag("ok", vec![S::a(MarkerTree::verif_arena_len())])
            }
            "stress" => {
                // (stress nthreads timeout_ms (texts...)) : every thread parses all texts (rotated), combines neighbours,
                // renders, evaluates; returns per-thread observation lists
                let n = l[1].idx();
                let timeout = l[2].num();
                let texts: Vec<String> = l[3].list().iter().map(|t| t.string()).collect();
                let texts = std::sync::Arc::new(texts);
                let (tx, rx) = std::sync::mpsc::channel();
                let barrier = std::sync::Arc::new(std::sync::Barrier::new(n));
                for t in 0..n {
                    let tx = tx.clone();
                    let texts = texts.clone();
                    let barrier = barrier.clone();
                    std::thread::spawn(move || {
                        let r = catch_unwind(AssertUnwindSafe(|| {
                            barrier.wait();
                            let env = env_of(&S::l(vec![
                                S::str("cpython"), S::str("3.8.1"), S::str("posix"), S::str("x86_64"), S::str("CPython"), S::str("5.4"),
                                S::str("Linux"), S::str("v1"), S::str("3.8.1"), S::str("3.8"), S::str("linux"),
                            ])).unwrap();
                            let k = texts.len();
                            let mut trees: Vec<Option<MarkerTree>> = vec![None; k];
                            for i in 0..k {
                                // even threads walk the texts forwards from their offset, odd threads backwards: every pair of texts is
                                // reached in both orders by some thread
                                let j = if t % 2 == 0 { (i + t * 7) % k } else { (k - 1 - i + t * 7) % k };
                                trees[j] = MarkerTree::from_str(&texts[j]).ok();
                            }
                            let mut obs: Vec<S> = Vec::new();
                            for j in 0..k {
                                let a = match &trees[j] { Some(a) => a.clone(), None => { obs.push(S::a("err")); continue; } };
                                let b = trees[(j + 1) % k].clone().unwrap_or(MarkerTree::TRUE);
                                let mut x = a.clone();
                                x.and(b.clone());
                                let mut y = a.negate();
                                y.or(b.clone());
                                let z = x.clone().simplify_extras(&[ExtraName::from_str("a").unwrap()]);
                                let ex = [ExtraName::from_str("b").unwrap()];
                                obs.push(S::l(vec![
                                    tree(&a), tree(&x), tree(&y), tree(&z),
                                    S::str(&x.try_to_string().unwrap_or_default()),
                                    S::str(&y.try_to_string().unwrap_or_default()),
                                    S::bool(x.evaluate(&env, &ex)), S::bool(y.evaluate(&env, &ex)),
                                    S::bool(a.is_disjoint(&b)), S::bool(x == y), S::bool(x < y),
                                ]));
                            }
                            // the order of all markers this thread built (Ord must not depend on who interned what first)
                            let mut idx: Vec<usize> = (0..k).filter(|j| trees[*j].is_some()).collect();
                            idx.sort_by(|a, b| trees[*a].as_ref().unwrap().cmp(trees[*b].as_ref().unwrap()).then(a.cmp(b)));
                            obs.push(S::l(idx.iter().map(|j| S::a(*j)).collect()));
                            (obs, trees)
                        }));
                        let _ = tx.send((t, r.ok()));
                    });
                }
                drop(tx);
                let mut results: Vec<Option<(Vec<S>, Vec<Option<MarkerTree>>)>> = (0..n).map(|_| None).collect();
                let deadline = std::time::Instant::now() + std::time::Duration::from_millis(timeout);
                let mut got = 0;
                let mut panicked = 0;
                while got < n {
                    let left = deadline.saturating_duration_since(std::time::Instant::now());
                    match rx.recv_timeout(left) {
                        Ok((t, Some(r))) => { results[t] = Some(r); got += 1; }
                        Ok((_, None)) => { panicked += 1; got += 1; }
                        Err(_) => break,
                    }
                }
                if got < n {
                    return S::tag("deadlock", vec![S::a(got)]);
                }
                if panicked > 0 {
                    return S::tag("panicked", vec![S::a(panicked)]);
                }
                // cross-thread: the same inputs give == markers
                let mut cross = true;
                let first = results[0].as_ref().unwrap();
                for r in results.iter().skip(1) {
                    let r = r.as_ref().unwrap();
                    for (a, b) in first.1.iter().zip(r.1.iter()) {
                        if a != b { cross = false; }
                    }
                }
                S::tag("ok", vec![S::bool(cross), S::l(results.iter().map(|r| S::l(r.as_ref().unwrap().0.clone())).collect())])
            }
            "cc" => {
                let c = char::from_u32(l[1].num() as u32).expect("harness: code point");
                S::tag("ok", vec![S::bool(c.is_whitespace()), S::bool(c.is_alphabetic()), S::bool(c.is_alphanumeric()),
                                  S::a(c.len_utf8()), S::a(unicode_width(c))])
            }
            "specpat" | "specver" => {
                let o = match l[1].atom() {
                    "eq" => pep440_rs::Operator::Equal, "ne" => pep440_rs::Operator::NotEqual,
                    "gt" => pep440_rs::Operator::GreaterThan, "ge" => pep440_rs::Operator::GreaterThanEqual,
                    "lt" => pep440_rs::Operator::LessThan, "le" => pep440_rs::Operator::LessThanEqual,
                    "tilde" => pep440_rs::Operator::TildeEqual, x => panic!("harness: operator {x}"),
                };
                let t = l[2].string();
                let r = if op == "specpat" {
                    pep440_rs::VersionPattern::from_str(&t).ok().and_then(|p| VersionSpecifier::from_pattern(o, p).ok())
                } else {
                    Version::from_str(&t).ok().and_then(|v| VersionSpecifier::from_version(o, v).ok())
                };
                match r {
                    Some(sp) => S::tag("ok", vec![specifier(&sp)]),
                    None => S::a("err"),
                }
            }
            // ---- requirement level
            "req" => {
                let wd = wd_of(&l[2]);
                let text = l[3].string();
                if l[1].atom() == "url" { self.req::<url::Url>(&text, &wd) } else { self.req::<VerbatimUrl>(&text, &wd) }
            }
            "reqrt" => {
                let wd = wd_of(&l[2]);
                let text = l[3].string();
                if l[1].atom() == "url" { self.reqrt::<url::Url>(&text, &wd) } else { self.reqrt::<VerbatimUrl>(&text, &wd) }
            }
            #[cfg(feature = "ext")]
            "unnamed" => {
                let wd = wd_of(&l[1]);
                let text = l[2].string();
                let mut w = Vec::new();
                match parse_unnamed(&text, &wd, &mut w) {
                    Ok(r) => {
                        let (d, g) = r.url.view();
                        let shown = r.to_string();
                        let contents = r.marker.contents().map_or(S::a("none"), |c| S::str(&c.to_string()));
                        let mut v = vec![S::str(&d), g.map_or(S::a("none"), |g| S::str(&g)),
                                         S::l(r.extras.iter().map(|e| S::str(e.as_ref())).collect())];
                        v.append(&mut self.push(r.marker.clone()));
                        v.push(if wd.is_some() { warnings(&w) } else { S::a("na") });
                        v.push(S::str(&shown));
                        v.push(contents);
                        // the requirement-level evaluators against the marker's own, on a few extras sets
                        let env = env_of(&S::l(["cpython", "3.8.1", "posix", "x86_64", "CPython", "5.4", "Linux", "#1 SMP", "3.8.1", "3.8", "linux"].iter().map(|x| S::str(x)).collect())).unwrap();
                        let mut bad: Vec<S> = Vec::new();
                        for names in [vec![], vec!["a"], vec!["b"], vec!["dev"], vec!["x"], vec!["a", "b", "dev", "x", "x-y"]] {
                            let ex: Vec<ExtraName> = names.iter().map(|n| ExtraName::from_str(n).unwrap()).collect();
                            if r.evaluate_markers(&env, &ex) != r.marker.evaluate(&env, &ex) {
                                bad.push(S::str(&format!("evaluate_markers differs from marker.evaluate with extras {:?}", names)));
                            }
                            if r.evaluate_optional_environment(Some(&env), &ex) != r.marker.evaluate(&env, &ex) {
                                bad.push(S::str(&format!("evaluate_optional_environment(Some) differs from marker.evaluate with extras {:?}", names)));
                            }
                            if r.evaluate_optional_environment(None, &ex) != r.marker.evaluate_optional_environment(None, &ex) {
                                bad.push(S::str(&format!("evaluate_optional_environment(None) differs from the marker's with extras {:?}", names)));
                            }
                        }
                        v.push(S::l(bad));
                        S::tag("ok", v)
                    }
                    Err(e) => error(&e),
                }
            }
            #[cfg(feature = "ext")]
            "unnamedrt" => {
                let wd = wd_of(&l[1]);
                let text = l[2].string();
                let mut w = Vec::new();
                match parse_unnamed(&text, &wd, &mut w) {
                    Ok(r) => {
                        let s1 = r.to_string();
                        let mut v = vec![S::str(&s1)];
                        v.append(&mut self.push(r.marker.clone()));
                        let back = match parse_unnamed(&s1, &wd, &mut w) {
                            Ok(r2) => {
                                let mut x = vec![S::bool(r2 == r), S::bool(r2.url == r.url), S::bool(r2.extras == r.extras), S::bool(r2.marker == r.marker)];
                                x.append(&mut self.push(r2.marker.clone()));
                                x.push(S::str(&r2.to_string()));
                                x.push(S::bool(r2.url.given() == r.url.given()));
                                S::tag("ok", x)
                            }
                            Err(e) => error(&e),
                        };
                        v.push(back);
                        S::tag("ok", v)
                    }
                    Err(e) => error(&e),
                }
            }
            "extras" => {
                let text = l[1].string();
                match pep508_rs::Extras::parse::<VerbatimUrl>(&text) {
                    Ok(e) => {
                        let d = format!("{:?}", e);
                        let names: Vec<S> = d.split("ExtraName(\"").skip(1).map(|p| S::str(p.split('"').next().unwrap())).collect();
                        S::tag("ok", vec![S::l(names)])
                    }
                    Err(e) => error(&e),
                }
            }
            "vshow" => {
                let rel: Vec<u64> = l[1].list().iter().map(|x| x.num()).collect();
                S::tag("ok", vec![S::str(&Version::new(rel).to_string())])
            }
            "spec" => match VersionSpecifier::from_str(&l[1].string()) {
                Ok(sp) => { let o = spec_out(&sp); let v = o.list(); S::tag("ok", vec![v[0].clone(), v[1].clone()]) }
                Err(e) => S::tag("err", vec![S::str(&e.to_string())]),
            },
            "urlparse" => {
                let text = l[3].string();
                let wd = wd_of(&l[2]);
                match l[1].atom() {
                    "F" => match url::Url::parse(&text) {
                        Ok(u) => S::tag("ok", vec![S::str(&u.to_string())]),
                        Err(e) => S::tag("err", vec![S::str(&e.to_string())]),
                    },
                    "P" => self.path_url(&text, &wd, false),
                    _ => self.path_url(&text, &wd, true),
                }
            }
            "expandenv" => S::tag("ok", vec![S::str(&pep508_rs::expand_env_vars(&l[1].string()))]),
            "splitscheme" => match pep508_rs::split_scheme(&l[1].string()) {
                Some((a, b)) => S::tag("ok", vec![S::str(a), S::str(b)]),
                None => S::a("none"),
            },
            "schemeparse" => match pep508_rs::Scheme::parse(&l[1].string()) {
                Some(sc) => S::tag("ok", vec![S::bool(sc.is_file()), S::str(&sc.to_string())]),
                None => S::a("none"),
            },
            "striphost" => S::tag("ok", vec![S::str(pep508_rs::strip_host(&l[1].string()))]),
            "splitextras" => match pep508_rs::split_extras(&l[1].string()) {
                Some((a, b)) => S::tag("ok", vec![S::str(a), S::str(b)]),
                None => S::a("none"),
            },
            // FromStr / Display of MarkerOperator (public; the marker parser recognises `not in` by itself)
            "opparse" => match pep508_rs::MarkerOperator::from_str(&l[1].string()) {
                Ok(o) => S::tag("ok", vec![S::str(&format!("{:?}", o)), S::str(&o.to_string())]),
                Err(_) => S::a("err"),
            },
            "getenv" => match std::env::var(l[1].string()) {
                Ok(v) => S::tag("ok", vec![S::str(&v)]),
                Err(_) => S::a("none"),
            },
            "setenv" => {
                std::env::set_var(l[1].string(), l[2].string());
                S::a("ok")
            }
            "unsetenv" => {
                std::env::remove_var(l[1].string());
                S::a("ok")
            }
            "cwd" => S::tag("ok", vec![S::str(&std::env::current_dir().unwrap().to_string_lossy())]),
            "features" => S::tag("ok", vec![S::bool(cfg!(feature = "ext"))]),
            "ping" => S::a("pong"),
            _ => S::tag("unknown-op", vec![S::a(op)]),
        }
    }
}

fn main() {
    // keep panic messages off stderr unless asked for
    if std::env::var("HARNESS_PANIC_TRACE").is_err() {
        std::panic::set_hook(Box::new(|_| {}));
    }
    let stdin = std::io::stdin();
    let stdout = std::io::stdout();
    let mut out = std::io::BufWriter::new(stdout.lock());
    let mut st = St { regs: Vec::new() };
    for line in stdin.lock().lines() {
        let line = line.unwrap();
        if line.trim().is_empty() {
            continue;
        }
        let cmd = sexp::parse(&line);
        let r = catch_unwind(AssertUnwindSafe(|| st.run(&cmd)));
        match r {
            Ok(s) => writeln!(out, "{}", s).unwrap(),
            Err(p) => {
                let msg = if let Some(s) = p.downcast_ref::<&str>() {
                    s.to_string()
                } else if let Some(s) = p.downcast_ref::<String>() {
                    s.clone()
                } else {
                    "?".to_string()
                };
                writeln!(out, "{}", S::tag("panic", vec![S::str(&msg)])).unwrap()
            }
        }
        out.flush().unwrap();
    }
}
