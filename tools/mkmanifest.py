#!/usr/bin/env python3
"""Regenerates MANIFEST.json from the table below (kept here so that the manifest stays valid and in step)."""
import json

LEVEL_NOTE = ("Trusted: Coq 8.16.1 kernel; Print Assumptions of each pinned theorem reports no axioms; extraction "
              "(ExtrOcamlBasic only) + ocaml/driver.ml; the Rust correspondence harness and the Python orchestrator "
              "(generators bound what the tie can see). Dependencies (pep440_rs, version-ranges, url, std) are modelled "
              "or oracles, not verified. See DESIGN.md section 6.")

CHECKS = {
    'C09': dict(
        text=("Machine-checked proof (Coq) over all byte strings of a hand-written model of validate_and_normalize_ref / "
              "is_normalized / validate_and_normalize_owned / as_dist_info_name: acceptance iff the PEP 508 shape, result = "
              "specified normal form, owned = ref, idempotence, equality iff equal normal forms, dist-info escaping. The "
              "model is tied to /repo by an exhaustive differential run (all strings up to length 6/7 over an 8-class "
              "alphabet + boundary characters + random long names) of the extracted model against the six constructors."),
        design_ref='DESIGN.md section 7 / C09',
        technique='Coq proof over a hand-written model + exhaustive differential correspondence (extracted OCaml vs crate)'),
    'C02': dict(
        text=("Machine-checked proof (Coq): for all sorted, well-typed diagrams a b and every valuation (environments and extras are "
              "instances), the model's and/or/negate evaluate to the pointwise conjunction/disjunction/negation; results are again "
              "admissible operands, so the law holds for every expression over the three operations in any order, grouping and "
              "repetition (induction over expressions); TRUE/FALSE are identities/annihilators as diagrams. The model functions are "
              "the extracted ones run step-wise against the crate on the operands the crate itself produced (long histories in one "
              "process, so the AND memo cache and unique table are warm), and every operand passes the verified checker m_wfb, which "
              "implies the theorems' hypothesis. The memo cache and complemented edges: the crate's recursion on ids (and_i: shortcuts, cache, Edges::map/apply, "
              "negate, create_node) is modelled and proved to return, for every store and every correct cache, an id denoting m_and of the operands (C02_and_memoised)."),
        design_ref='DESIGN.md section 7 / C02',
        technique='Coq proof (structural induction on diagrams, merge lemma) + step-wise differential correspondence + grid oracle on evaluate()'),
    'C20': dict(
        text=("Machine-checked proof (Coq) that the executable checker m_wfb decides the property's well-formedness predicate wf "
              "(ordered along every path in the crate's variable order, >= 2 edges, cuts strictly increasing = non-empty sorted disjoint "
              "covering ranges, adjacent children different, boolean children different) and that the model's evaluation is the hand "
              "walk; the checker (extracted) runs on every diagram the crate produces along random histories of all constructing "
              "operations, after a checked conversion of the kind() walk into cut form that fails unless the edges are simple ranges "
              "forming a sorted contiguous cover; the hand walk is compared with evaluate() at the cut values. Preservation of wf by "
              "every operation is proved for whole programs: after any sequence of parse / and / or / negate / simplify_extras / simplify / complexify steps, "
              "executed by the model of the crate's own recursions on ids with the memo cache, every register holds a diagram the checker accepts, and the "
              "walk over kind() rebuilds exactly that diagram (C20_every_reachable_marker_wf, C20_every_reachable_walk_wf)."
              " On ids: the view of a valid id shows one node whose children are valid ids of smaller rank, the recursive walk rebuilds exactly the diagram of the id, and choosing edges by hand along the views is evaluate; the derived order of the Variable enum (regenerated from the source) is the model's variable order."),
        design_ref='DESIGN.md section 7 / C20',
        technique='Coq proof of checker correctness + verified runtime monitor on every produced diagram + differential evaluation'),
    'C03': dict(
        text=("Machine-checked proof (Coq) of canonicity: two well-formed diagrams that agree on every admissible valuation are the "
              "same diagram, provided the cuts occurring in them lie in the dense part of the value domains (release-only version "
              "bounds; string bounds without the minimum '' as exclusive upper bound and without successor pairs s / s+U+0000); "
              "density of the concrete version and string orders is proved, not assumed; is_true/is_false are exact under the same "
              "proviso; and/or/negate preserve well-formedness (the other constructors are covered by C11/C12/C10 and by the verified "
              "monitor m_wfb on every produced diagram). Outside the proviso the statement is refuted in Coq with a witness "
              "(`os_name < ''`); that class is the known finding F10 and is reported as such. Tie: every dump goes through m_wfb; "
              "==/cmp/hash are compared with an exact region-enumeration decision of semantic equality for pairs built through "
              "14 boolean laws and random pairs."),
        design_ref='DESIGN.md section 7 / C03',
        technique='Coq proof (canonicity of reduced ordered diagrams over dense orders) + verified monitor + exact semantic-equality search'),
    'C04': dict(
        text=("Machine-checked proof (Coq): m_disjoint a b = is_false (m_and a b) for all diagrams (no hypothesis), m_disjoint is "
              "symmetric (no hypothesis), a positive verdict excludes every common valuation for sorted well-typed operands "
              "(via C02), is_true/is_false are sound. Tie: m_disjoint (extracted) vs is_disjoint on the operands the crate produced, "
              "both argument orders, vs (a and b).is_false(); the crate's recursion on ids (disjoint_i) is modelled and proved to compute m_disjoint of the unfolded diagrams; positive verdicts are attacked by an exact region search replayed on "
              "evaluate()."),
        design_ref='DESIGN.md section 7 / C04',
        technique='Coq proof (simultaneous induction with tand) + step-wise differential correspondence + counter-model search'),
    'C10': dict(
        text=("Machine-checked proof (Coq): for every operator, every literal release (any length; ~= with >= 2 segments) and every final "
              "X.Y.Z, the diagram the model builds for `python_version OP V` evaluates to the direct PEP 440 reading of X.Y OP V "
              "(zero-padded release comparison, prefix matching for .*, ~= as >= and prefix) outside the carve-out; in / not in lists "
              "likewise; `not in` = negation of `in` and `!=` = negation of `==` as diagrams for all literals; the result is literally the "
              "python_full_version expression with that meaning; PEP 440 zero padding coincides with the order used in diagrams. The model's "
              "`expression` is extracted and compared with MarkerTree::expression on the typed expressions the crate produces for 7 operators x "
              "24-80 literals x both operand orders, wildcards and lists; evaluate() is compared with an independent PEP 440 reading on an X.Y.Z grid."),
        design_ref='DESIGN.md section 7 / C10',
        technique='Coq proof (range semantics + case analysis of the rewrite, arithmetic by lia) + differential correspondence + grid oracle'),
    'C11': dict(
        text=("Machine-checked proof (Coq): `extra == N` evaluates to membership of the normalised name, an invalid name never matches, `!=` is the "
              "negation as a diagram; simplify_extras(E) evaluates on S exactly as the original on E u S for every environment, the result does not "
              "mention any extra of E (hence flipping it changes no evaluation) and stays canonical; with_extra_marker is marker AND extra == e. "
              "The recursion below an eliminated extra (two provided extras on one path) is part of the proved function. top_level_extra is modelled as the crate's loop "
              "over the modelled to_dnf (Marker/TopExtra.v) and proved sound: the expression it returns is in every clause, hence holds in every satisfying assignment, "
              "a valid name is then among the active extras and an invalid name is returned only for unsatisfiable markers. Tie: extracted m_simplify_extras / "
              "m_with_extra / top_level_extra vs the crate on the crate's own operands; evaluate() on S vs S u E on grid environments."),
        design_ref='DESIGN.md section 7 / C11',
        technique='Coq proof (restriction semantics by induction on diagrams) + step-wise differential correspondence + evaluation oracle'),
    'C13': dict(
        text=("Machine-checked proof (Coq): evaluate_extras (= evaluate_optional_environment(None)) is true whenever some environment - indeed any "
              "valuation of the diagram variables agreeing on the extras - satisfies the marker; on canonical diagrams over dense domains a positive answer "
              "has a witness (exactness for independent variables); the python-version variant never consults its list because no diagram node is keyed by "
              "python_version (proved for every expression diagram, monitored on every dump), so it equals evaluate_extras. Tie: extracted functions vs the "
              "crate on the crate's dumps; negative verdicts are attacked by an exact region search replayed on evaluate(). Markers with an uninhabited "
              "string range are the known finding F10b (over-approximation stays sound there)."
              " On ids: the walks of evaluate_extras / evaluate_extras_and_python_version over kind() are the L1 evaluators on every valid id."),
        design_ref='DESIGN.md section 7 / C13',
        technique='Coq proof (any-edge traversal soundness/exactness) + differential correspondence + satisfiability search'),
    'C12': dict(
        text=("Machine-checked proof (Coq) over the cut form: complexify(m,R) evaluates as m AND python_full_version in R for every valuation and "
              "is that conjunction as the identical diagram (canonicity, for release-only cuts); simplify(m,R) agrees with m wherever python_full_version "
              "lies in R; both preserve well-formedness (ordered, reduced, partitioning) for every window incl. exclusive/degenerate bounds; the "
              "composition laws hold pointwise and, for release-only bounds and cuts, as identities of diagrams; markers that agree inside R simplify to the same "
              "marker (C12_simplify_local) because outside R the simplified marker only takes values it takes inside (C12_outside_is_inside); off the release-only "
              "proviso locality is refuted in the model with a witness (a cut at the successor of 3.8, which the crate never produces); empty and inverted ranges "
              "give FALSE; the functions are total. "
              "Tie: extracted m_simplify_pv / m_complexify_pv vs the crate on its own dumps for random markers x bound pairs (incl. pre/post/dev bounds)."),
        design_ref='DESIGN.md section 7 / C12',
        technique='Coq proof (window restriction/clipping lemmas on partitions) + step-wise differential correspondence + law oracle'),
    'C16': dict(
        text=("Machine-checked proof (Coq): the model of Ord for MarkerTree (structural comparison through kind(): kind, key, value, edges "
              "lexicographically with the version-ranges bound order, children recursively) is a decidable strict total order on diagrams whose "
              "Equal case is exactly identity of diagrams (cmp = Equal <=> ==), antisymmetric and transitive; it is a function of the unfolded diagrams "
              "only, hence reproducible across runs; lexicographic products of such orders (Requirement's derived Ord) are again total orders "
              "consistent with equality. Tie: extracted m_cmp vs MarkerTree::cmp on pairs of dumps; ==, cmp, hash coherence, antisymmetry and "
              "transitivity on the crate; same sort order in a second process with a different history; Requirement / VerbatimUrl pairs "
              "(url ordering itself is the url crate's and is assumed coherent)."
              " The crate's Ord is modelled as the walk over kind() of two ids it is (CmpModel) and proved to be m_cmp of the diagrams: Eq exactly for the same id, antisymmetric, transitive, unchanged by later interning; the replay compares the extracted walk with MarkerTree::cmp."),
        design_ref='DESIGN.md section 7 / C16',
        technique='Coq proof (total order by induction on diagrams via head comparison) + differential correspondence + cross-process sort'),
    'C14': dict(
        text=("Machine-checked proof (Coq) about a faithful model of the hash-consing store (arena, unique table as arena search, complement "
              "bit, create_node's normalisation and reduction): the store invariant is preserved, the arena only grows, existing ids keep their "
              "diagram, and two ids are equal exactly when they show the same diagram - for every reachable store, i.e. whatever was interned "
              "before; every constructor yields well-formed diagrams; a program of marker operations observes the same diagrams and the same "
              "pattern of equal markers after any two histories (hist_indep). Programs use the L1 meaning of each operation (unfold / operate / intern); for and/or "
              "this abstraction is proved sound against the model of the memoised recursion on ids (C14_and_refines, C14_cache_irrelevant); the recursions of restrict / "
              "simplify / complexify on ids are modelled and proved against their L1 meaning too (C11_simplify_extras_on_ids, C12_simplify_on_ids, "
              "C12_complexify_on_ids). Tie: raw ids through the "
              "cfg(pep508_rs_verif) hook (id equality <=> equal dumps, id^1 <=> negation, complement bit = model prediction, no new nodes on repetition); "
              "fresh-process runs of the same program alone / after warm-ups / after the same versions under other spellings / permuted, comparing "
              "raw dumps, Display, DNF, evaluate, ==/cmp/hash."
              " The id-for-id replay also compares, on the final store, evaluate / evaluate_extras / cmp / is_disjoint with the extracted walks on ids, and runs every program after several kinds of warm-up (other spellings, deprecated keys, other extras sets, one comparison of every kind)."),
        design_ref='DESIGN.md section 7 / C14',
        technique='Coq proof (hash-consing store invariant, injectivity of unfolding, refinement of programs) + hook-based id correspondence + cross-history differential'),
    'C15': dict(
        text=("Machine-checked proof (Coq) of the logic: for every schedule of atomic locked operations of several threads over one shared store, "
              "each thread observes exactly what it observes running alone on an empty store, and equal diagrams are the same id across threads "
              "(corollary of the store theorems of C14 by induction on the schedule); the same for schedules of the crate's own memoised recursions with the shared "
              "memo cache; and lock-free reads (kind(), on which evaluate / to_dnf / Display / cmp are built) are linearizable: a traversal that reads every node at an "
              "arbitrary later instant of an arena that other threads keep extending, pushing the complement bit down lazily, never gets stuck and returns the diagram "
              "the id had when it was learnt, which is the diagram of the same register in the sequential run of the reader's own program. PARTIAL by nature: atomicity of each operation (std::sync::Mutex), "
              "publication safety of boxcar::Vec, the memory model and absence of deadlock in the OS primitive are assumed; they are backed by a textual "
              "audit of the lock discipline in every run and by a thread stress test (barrier-started races to intern the same fresh markers, "
              "cross-thread ==, identical observations vs a single-threaded fresh process, deadlock watchdog), which is test evidence, not proof."),
        design_ref='DESIGN.md section 7 / C15',
        technique='Coq proof of schedule independence of the locked state machine + lock-discipline audit + thread stress (supporting evidence)'),
    'C01': dict(
        text=("Machine-checked proof (Coq): for every typed marker syntax tree in scope (interpretable comparisons; carve-out of the property; in-list members that are "
              "final releases) and every final-release environment X.Y.Z with python_version = X.Y and every extras set, the diagram the parser builds evaluates to "
              "sem508, the direct PEP 508 reading (boolean connectives with dropped operands skipped, PEP 440 release comparison, string order / equality / substring "
              "in both directions, extras by normalised membership). The text-to-syntax step is proved too (C01_text_accept / C01_text_eval): every marker text derivable "
              "from the grammar, with any optional white space, redundant parentheses, either quote and operand order, parses to the syntax tree of its derivation; "
              "deprecated spellings are entries of the keyword table (read from the crate at run time). Tie: 3 layouts per tree must parse to the same marker, the five evaluation entry points "
              "must agree, and evaluate() is compared with an independent Python reading, with the extracted sem508 and with the extracted model diagram."
              " Evaluation itself is modelled as the crate performs it, a walk over kind() on ids (EvalModel): on every valid id of every reachable store it equals the evaluation of the diagram, the fall-through after the edge loop is dead code, later interning changes nothing; the id-for-id replay compares the extracted walk with evaluate()."),
        design_ref='DESIGN.md section 7 / C01',
        technique='Coq proof (range semantics, rewrite correctness, induction over syntax) + differential correspondence + independent-reading oracle + theorems over the operator / keyword / accessor tables regenerated from the source on every run'),
    'C17': dict(
        text=("Machine-checked proof (Coq), for every answer of the PEP 440 oracles: each uninterpretable operand/operator combination (two literals, two keys, version key "
              "against a key or non-version text, string key with ~=, extra with an ordering/containment operator) yields no expression and a warning of the matching kind; "
              "interpretable comparisons are silent apart from invalid extra names (reported, kept, arbitrary); and/or chains skip dropped operands, so the result is the "
              "marker with exactly those comparisons removed (TRUE if nothing remains); lifted to the text by the acceptance theorem: for every marker text derivable from the "
              "grammar, parsing succeeds, the matching warning kind is in the reported list, the diagram is that of the derivation with exactly the dropped comparisons "
              "(and the and/or that joined them) removed, and a text without such comparisons reports nothing but invalid extra names. Reporter independence is structural in the model (the diagram is a function of tokens "
              "and oracle answers). Tie: 150+ bogus comparisons alone and inserted at every position of random markers vs the crate (== with the pruned marker, warning kinds, "
              "parse_reporter vs from_str) and vs the extracted parser."),
        design_ref='DESIGN.md section 7 / C17',
        technique='Coq proof (exhaustive case analysis of the typed dispatch, universally quantified oracles) + differential correspondence'),
    'C05': dict(
        text=("Machine-checked proof (Coq): the DNF printer of src/marker/simplify.rs is modelled loop for loop (edge grouping, inequality and star-inequality "
              "recognition, release-only specifiers, string bounds, path collection, the negation tables, the quadratic clause simplifier) and proved to denote the "
              "marker: for every well-formed diagram with final-release cuts other than TRUE the clauses of to_dnf evaluate like the marker, recompiling them with the "
              "proved operations gives back the identical diagram (density proviso of C03), and every diagram the parser builds is in scope. The clause simplifier alone is "
              "shown unsound on clause lists nobody produces (versions compared modulo trailing zeros vs segment-count dependent operators; witnesses by computation) and "
              "sound on what collect_dnf emits. The text printer is modelled too and the printed text of every non-constant diagram is proved to parse back, without warnings, to the "
              "identical diagram, given that each printed comparison re-parses to itself (proved for string/in/contains/extra comparisons; PEP 440 version text is an oracle) - "
              "FALSE, deprecated spellings, === and arbitrary extras are the carve-outs. Tie: the extracted to_dnf vs the crate's to_dnf() clause for clause and the extracted "
              "show_marker vs the crate's Display text character for character on every marker of the run; the crate's clauses recompiled; Display / try_to_string / contents() / serde text "
              "re-parsed to an == marker (FALSE and deprecated spellings: equivalent on final-release environments)."
              " to_dnf and Display walk kind() on ids: rebuilding the diagram from the views of a valid id gives the diagram of the id (KindWalk), so both are the modelled functions of that diagram."),
        design_ref='DESIGN.md section 7 / C05',
        technique='Coq proof (path decomposition, range-to-specifier lemmas, invariant of the simplifier loops) + differential correspondence of to_dnf + executed text round trips + theorems over the Display / negate tables regenerated from the source on every run'),
    'C06': dict(
        text=("Machine-checked proof (Coq), for every input text and every answer of the dependencies (Unicode classes, PEP 440 syntax, URL parser, environment): "
              "each parsing entry point of the model (requirement incl. both URL types and both feature configurations, marker tree, marker expression, extras list, "
              "unnamed requirement) is a total function; every `expect` / `unreachable!` / out-of-fuel site of the code is the explicit error kind EPanic and is never "
              "returned (scanned names and extras always validate; fuel suffices); every returned error span starts on a character boundary within the input or at its "
              "end, has length <= 1 at the end and otherwise ends on a character boundary - exactly what Pep508Error's Display needs not to panic. Names are covered by C09. "
              "Tie: all token sequences up to length 2-3 over alphabets with multi-byte white space, letters and emoji after 40+21+24 prefixes through every entry point "
              "with catch_unwind, Display of each error, a follow-up marker operation (poisoned interner), outcome + span + components vs the extracted parser, under both "
              "feature sets. Overflow on u64::MAX release segments is the open finding F6d (inside pep440_rs arithmetic shared with the crate); stack exhaustion on "
              "unbounded nesting is outside the claim (as the property states)."),
        design_ref='DESIGN.md section 7 / C06',
        technique='Coq proof (cursor-advance / character-boundary invariant through every sub-parser; unreachability of panic sites) + exhaustive small-sequence differential correspondence with panic and poison detection'),
    'C07': dict(
        text=("Machine-checked proof (Coq): for every derivation of the requirement grammar - blanks, name, optional extras group with blanks around every identifier, "
              "no version / bare specifiers / parenthesised specifiers / `@` URL, optional `;` marker - whose components are individually well-formed (identifiers validate, "
              "each specifier piece is accepted by the PEP 440 oracle and contains no delimiter, the URL text has no blank and is accepted by the URL type, a blank separates a URL "
              "from `;`, the marker text is accepted by the marker parser), the parser returns exactly the derivation's components (normalised name, extras in order, the sorted "
              "specifier list, URL with verbatim text, marker); the result does not depend on any of the blanks (corollary). The marker hypothesis is discharged for every "
              "marker text derivable from the marker grammar (C07_marker_component, from the marker acceptance theorem). Tie: random derivations x layouts through both URL types: "
              "accepted, components equal to independent expectations (PEP 503 name, VersionSpecifier::from_str per piece, Url::parse, MarkerTree::from_str of a canonical marker "
              "text), all layouts equal, and the extracted parser on every text. `===` inside markers is the open finding F7b."),
        design_ref='DESIGN.md section 7 / C07',
        technique='Coq proof (one consumption lemma per grammar component, composed through the driver) + differential correspondence on random derivations x white-space layouts + theorems over the keyword and operator tables regenerated from the source on every run'),
    'C08': dict(
        text=("Machine-checked proof (Coq): Display of a requirement is a derivation of the grammar in a particular layout, so (corollary of the C07 theorem) it parses back to a "
              "requirement with the same name, extras, specifier list / URL and marker, and rendering that again gives the same text - provided the component round trips hold: "
              "canonical specifier texts re-parse to the same specifier (also with the blank Display puts before ` ; `), the URL text has no blank and re-parses to itself, the "
              "marker text re-parses to the same diagram (C05). Those component facts are properties of pep440_rs / url / the DNF printer and are checked per case, not proved. "
              "serde goes through the same Display/FromStr (collect_str / String::deserialize), checked by execution. Tie: Display -> FromStr -> Display and serde_json round trips "
              "on random and hand-picked requirements (URLs ending in ;/#, blanks, env expansions, FALSE and deprecated markers by equivalence), both URL types, both feature sets, "
              "unnamed requirements under the extension; Display compared with the extracted display model."),
        design_ref='DESIGN.md section 7 / C08',
        technique='Coq proof (Display is an accepted derivation: corollary of the acceptance theorem) + executed round trips (Display/FromStr/serde) with per-component equality'),
    'C18': dict(
        text=("Machine-checked proof (Coq), for every text and every white-space class: the URL scan returns the unique prefix ending at the first stopping point (end of input, "
              "line break, or a blank after which only blanks and then `;`/`#`/end follow) or just after a `;`/`#` that is directly followed by a blank, with no earlier such point; "
              "a URL that stopped at such a glued `;`/`#` and is followed by anything but a marker or the end is rejected with the ambiguity error at that character, whatever the "
              "marker oracles; given() is the scanned text unexpanded and the URL is parsed from its expansion; expansion is leftmost non-overlapping replacement of complete "
              "`${NAME}` references (NAME = A-Z 0-9 _, non-empty), set names by their value, unset names verbatim, PROJECT_ROOT falling back to the working directory. The URL parser "
              "(url crate) and the process environment are oracles. Tie: URL texts x following contexts x environments (set / unset / blank / `;` / self-referential values) against "
              "an independent reading of the property in Python (expected URL text, expected ambiguity, regex expansion) and against the extracted model."),
        design_ref='DESIGN.md section 7 / C18',
        technique='Coq proof (characterisation + uniqueness of the scan, automaton invariant for expansion) + differential correspondence against an independent reference reading under varied process environments'),
    'C19': dict(
        text=("Machine-checked proof (Coq), both URL types and both feature configurations: inputs starting with `/`, `\\` or `.` (after optional blanks), inputs `scheme:rest` with a "
              "well-formed scheme and arbitrary rest, and inputs `name/rest`, `name\\rest` are rejected with the dedicated unsupported-requirement kinds whatever follows (extras, "
              "marker, `${..}`); an accepted requirement without version/URL never has a name that looks like an archive, and `archive-name [blanks] [; marker]` is rejected with the "
              "dedicated kind; any non-empty base with one of pip's extensions is an archive name. The unnamed parser: given() is the scanned text minus its trailing bracket group, "
              "verbatim, the URL is parsed from its expansion, extras come from the bracket group, the marker from the tail. Round trip of unnamed requirements is by execution "
              "(C08 machinery). Path-to-URL conversion (filesystem, percent-decoding) is an oracle. Tie: schemes x tails, paths, names x extensions (+ negative controls) x suffixes "
              "through both requirement types under both feature sets, and through UnnamedRequirement (given(), extras, marker, Display round trip) under the extension."),
        design_ref='DESIGN.md section 7 / C19',
        technique='Coq proof (trace of the driver on each input class; looks_like_unnamed / looks_like_archive lemmas) + differential correspondence under both feature configurations + theorems over the archive-extension lists regenerated from the source on every run'),
}

PENDING = {}
for i in range(1, 21):
    pid = 'C%02d' % i
    if pid not in CHECKS:
        PENDING[pid] = 'not yet claimed: the model layer and theorems for this property are still being built in this round (see DESIGN.md section 10 build order)'

m = {
    'version': 1,
    'setup_cmd': './check setup',
    'hooks': {
        'guard': 'pep508_rs_verif',
        'enable': 'RUSTFLAGS="--cfg pep508_rs_verif" (set by lib/vlib/build.py for the harness build only)',
        'baseline_off_cmd': 'cd /repo && cargo test --workspace --no-fail-fast --offline',
        'source_commits': ['e5ead97'],
        'add_only': True,
    },
    'engines': [
        {'name': 'coq-model', 'path': 'coq', 'serves_properties': sorted(CHECKS), 'kind_free_text': 'Coq 8.16 development: executable Gallina model + theorems (Props/Cxx.v)'},
        {'name': 'rust-harness', 'path': 'harness', 'serves_properties': sorted(CHECKS), 'kind_free_text': 'runs the real crate (path dependency on /repo) on generated operations and dumps public-API observations'},
        {'name': 'ocaml-driver', 'path': 'ocaml', 'serves_properties': sorted(CHECKS), 'kind_free_text': 'runs the extracted model on the same cases'},
    ],
    'checks': [],
    'not_applicable': [{'property_id': k, 'reason': v} for k, v in sorted(PENDING.items())],
    'notes': 'Entry point: ./check <id> --tier quick|thorough. Known findings: known_findings.json. Design: DESIGN.md.',
}
for pid, c in sorted(CHECKS.items()):
    m['checks'].append({
        'property_id': pid,
        'quick_cmd': './check %s --tier quick' % pid,
        'thorough_cmd': './check %s --tier thorough' % pid,
        'evidence_file': '/verif/evidence/%s.json' % pid,
        'replay_cmd_template': './check %s --replay {path}' % pid,
        'engine': 'coq-model',
        'level_claimed': {'category': c.get('category', 'proof'), 'text': c['text'], 'design_ref': c['design_ref']},
        'level_note': LEVEL_NOTE,
        'technique': c['technique'],
    })
json.dump(m, open('/verif/MANIFEST.json', 'w'), indent=1)
print('MANIFEST.json: %d checks, %d not claimed' % (len(m['checks']), len(m['not_applicable'])))
