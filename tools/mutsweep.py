#!/usr/bin/env python3
"""A mechanical mutation sweep, complementary to the agent-written seeded changes: small syntactic slips at random places of
src/**/*.rs (comparison / boolean / arithmetic operator swaps, boundary shifts, dropped negations and early returns, swapped
arguments of two-argument calls, string-literal edits in tables). For every mutant that still compiles AND still passes the
crate's own suite, every quick check (except C15) is run in an isolated copy; the result says which checks notice it.

A mutant no check notices is NOT by itself a gap: many such edits are equivalent, or change behaviour no property speaks about.
The survivors are triaged by hand (tools/mutsweep.py report lists them with their diff).

  tools/mutsweep.py run <shard k> <of n> <count> [seed]    work in /tmp/ms<k> (copies of /verif and of /repo's files); never touches /repo
  tools/mutsweep.py report                                 summary of /tmp/ms*/results.jsonl"""
import json
import os
import random
import re
import shutil
import subprocess
import sys
import time

VERIF = '/verif'
CHECKS = ['C%02d' % i for i in range(1, 21) if i != 15]

OPS = [
    (r' <= ', [' < ']), (r' >= ', [' > ']), (r' < ', [' <= ']), (r'(?<![-=]) > ', [' >= ']),
    (r'==', ['!=']), (r'!=', ['==']), (r'&&', ['||']), (r'\|\|', ['&&']),
    (r'\+ 1\b', ['+ 0', '+ 2']), (r'- 1\b', ['- 0']), (r'\btrue\b', ['false']), (r'\bfalse\b', ['true']),
    (r'\.not\(\)', ['']), (r'!(?=[a-z_(])', ['']), (r'\.is_some\(\)', ['.is_none()']), (r'\.is_none\(\)', ['.is_some()']),
    (r'\.is_empty\(\)', ['.len() == 1']), (r'Bound::Included', ['Bound::Excluded']), (r'Bound::Excluded', ['Bound::Included']),
    (r'\.min\(', ['.max(']), (r'\.max\(', ['.min(']), (r'\bSome\(([a-z_]+)\)', [None]),
    (r'Ordering::Less', ['Ordering::Greater']), (r'Ordering::Greater', ['Ordering::Less']),
    (r'\.first\(\)', ['.last()']), (r'\.last\(\)', ['.first()']), (r'\.any\(', ['.all(']), (r'\.all\(', ['.any(']),
    (r'strictly_lower_than', ['lower_than']), (r'strictly_higher_than', ['higher_than']), (r'\blower_than', ['strictly_lower_than']), (r'\bhigher_than', ['strictly_higher_than']),
    (r'\.negate\(([a-z_.0-9]+)\)', ['']), (r'continue;', ['break;']), (r'break;', ['continue;']),
]


def sh(cmd, **kw):
    p = subprocess.run(cmd, stdout=subprocess.PIPE, stderr=subprocess.STDOUT, text=True, **kw)
    return p.returncode, p.stdout


def candidates(repo):
    out = []
    for d, _, fs in os.walk(repo + '/src'):
        for f in fs:
            if not f.endswith('.rs') or f == 'tests.rs' or '/tests' in d:
                continue
            path = os.path.join(d, f)
            lines = open(path).read().split('\n')
            in_test = False
            for i, line in enumerate(lines):
                if '#[cfg(test)]' in line:
                    in_test = True
                if in_test:
                    continue
                code = line.split('//')[0]
                if not code.strip() or code.strip().startswith(('#[', 'use ', '///', 'pub use', 'mod ')):
                    continue
                for rx, reps in OPS:
                    for m in re.finditer(rx, code):
                        for rep in reps:
                            if rep is None:
                                continue
                            out.append((os.path.relpath(path, repo), i, m.start(), m.end(), rep))
    return out


def prepare(k):
    base = '/tmp/ms%s' % k
    if os.path.isdir(base):
        shutil.rmtree(base)
    os.makedirs(base + '/repo')
    rc, files = sh(['git', '-C', '/repo', 'ls-files'])
    for f in files.split('\n'):
        if f:
            os.makedirs(os.path.dirname(base + '/repo/' + f) or base + '/repo', exist_ok=True)
            shutil.copy2('/repo/' + f, base + '/repo/' + f)
    shutil.copytree(VERIF, base + '/verif', symlinks=True, ignore=shutil.ignore_patterns('.git', 'harness-target*', 'thor', 'replays'))
    v = base + '/verif'
    for path, old, new in ((v + '/harness/Cargo.toml', 'path = "/repo"', 'path = "%s/repo"' % base),
                           (v + '/lib/vlib/props/c15.py', "'/repo/", "'%s/repo/" % base),
                           (v + '/lib/vlib/build.py', "'/repo/", "'%s/repo/" % base)):
        t = open(path).read().replace(old, new)
        open(path, 'w').write(t)
    return base


def run(k, n, count, seed):
    base = prepare(k)
    repo, v = base + '/repo', base + '/verif'
    env = dict(os.environ, VERIF_ROOT=v, VERIF_REPO_SRC=repo + '/src', CARGO_NET_OFFLINE='true', CARGO_TARGET_DIR=base + '/target')
    cands = candidates(repo)
    rng = random.Random(seed)
    rng.shuffle(cands)
    mine = [c for i, c in enumerate(cands) if i % n == k][:count]
    sh(['cargo', 'test', '--offline', '--no-run'], cwd=repo, env=env)
    res = open(base + '/results.jsonl', 'a')
    for rel, li, a, b, rep in mine:
        path = repo + '/' + rel
        orig = open(path).read()
        lines = orig.split('\n')
        old_line = lines[li]
        lines[li] = old_line[:a] + rep + old_line[b:]
        open(path, 'w').write('\n'.join(lines))
        rec = {'file': rel, 'line': li + 1, 'old': old_line.strip(), 'new': lines[li].strip()}
        try:
            rc, out = sh(['timeout', '900', 'cargo', 'build', '--offline', '--quiet', '--features', 'non-pep508-extensions'], cwd=repo, env=env)
            if rc != 0:
                rec['status'] = 'does-not-compile'
                continue
            rc, out = sh(['timeout', '1200', 'cargo', 'test', '--offline', '--quiet'], cwd=repo, env=env)
            if rc != 0:
                rec['status'] = 'killed-by-suite'
                continue
            rec['status'] = 'passes-suite'
            sh([sys.executable, '-c', 'import sys; sys.path.insert(0, %r); from vlib import build; build.harness(); build.harness(ext=True)' % (v + '/lib')], env=env)
            caught, pending, running = [], list(CHECKS), {}
            while pending or running:
                while pending and len(running) < 5:
                    c = pending.pop(0)
                    running[c] = (subprocess.Popen([v + '/check', c, '--tier', 'quick'], cwd=v, env=env, stdout=subprocess.PIPE, stderr=subprocess.STDOUT, text=True), time.time())
                for c, (p, t0) in list(running.items()):
                    if p.poll() is None:
                        if time.time() - t0 > 1500:
                            p.kill()
                        continue
                    out = p.stdout.read()
                    del running[c]
                    if p.returncode != 0 or 'VIOLATION' in out:
                        caught.append(c)
                time.sleep(0.5)
            rec['caught_by'] = sorted(caught)
        finally:
            open(path, 'w').write(orig)
            res.write(json.dumps(rec) + '\n')
            res.flush()
            print('%s:%d  %s  ->  %s   [%s]%s' % (rel, li + 1, rec['old'][:60], rec['new'][:60], rec.get('status'), (' caught by ' + ' '.join(rec['caught_by'])) if 'caught_by' in rec else ''), flush=True)


def report():
    recs = []
    for d in sorted(os.listdir('/tmp')):
        p = '/tmp/%s/results.jsonl' % d
        if d.startswith('ms') and os.path.exists(p):
            recs += [json.loads(l) for l in open(p) if l.strip()]
    by = {}
    for r in recs:
        by.setdefault(r['status'], []).append(r)
    print('%d mutants: %s' % (len(recs), ', '.join('%s %d' % (k, len(v)) for k, v in sorted(by.items()))))
    alive = [r for r in by.get('passes-suite', []) if not r.get('caught_by')]
    hit = [r for r in by.get('passes-suite', []) if r.get('caught_by')]
    print('pass the suite: %d, noticed by at least one check: %d, by none: %d' % (len(alive) + len(hit), len(hit), len(alive)))
    for r in alive:
        print('  SURVIVOR %s:%d   %s   ->   %s' % (r['file'], r['line'], r['old'][:90], r['new'][:90]))
    return recs


if __name__ == '__main__':
    if sys.argv[1] == 'run':
        run(int(sys.argv[2]), int(sys.argv[3]), int(sys.argv[4]), int(sys.argv[5]) if len(sys.argv) > 5 else 1)
    else:
        report()
