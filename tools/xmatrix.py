#!/usr/bin/env python3
"""Cross-matrix of the seeded changes against ALL checks, without touching /repo or /verif while it runs.

  tools/xmatrix.py shard <k> <id> [<id> ...]   work in /tmp/xm<k>: a copy of /verif whose harness depends on /tmp/xm<k>/repo (a plain copy
                                               of /repo's tracked files); for every id: apply seeded/<id>/patch.diff to the copy, run the
                                               quick tier of every check (C15 only for changes seeded against C15: its watchdogs are not
                                               meaningful on a loaded machine), undo the patch, write /tmp/xm<k>/results/<id>.json
  tools/xmatrix.py merge <k> [<k> ...]         copy the results into /verif/seeded/<id>/meta.json ("results")

Nothing is ever applied to /repo itself."""
import json
import os
import re
import shutil
import subprocess
import sys
import time

VERIF = '/verif'
CHECKS = ['C%02d' % i for i in range(1, 21)]


def sh(cmd, **kw):
    p = subprocess.run(cmd, stdout=subprocess.PIPE, stderr=subprocess.STDOUT, text=True, **kw)
    return p.returncode, p.stdout


def prepare(k):
    base = '/tmp/xm%s' % k
    if os.path.isdir(base):
        shutil.rmtree(base)
    os.makedirs(base + '/repo')
    os.makedirs(base + '/results')
    rc, files = sh(['git', '-C', '/repo', 'ls-files'])
    for f in files.split('\n'):
        if f:
            os.makedirs(os.path.dirname(base + '/repo/' + f) or base + '/repo', exist_ok=True)
            shutil.copy2('/repo/' + f, base + '/repo/' + f)
    shutil.copytree(VERIF, base + '/verif', symlinks=True, ignore=shutil.ignore_patterns('.git', 'harness-target*', 'thor', 'replays'))
    v = base + '/verif'
    for path, old, new in ((v + '/harness/Cargo.toml', 'path = "/repo"', 'path = "%s/repo"' % base),
                           (v + '/lib/vlib/props/c15.py', "'/repo/", "'%s/repo/" % base),
                           (v + '/lib/vlib/build.py', "'/repo/", "'%s/repo/" % base)):
        t = open(path).read().replace(old, new)
        open(path, 'w').write(t)
    return base


def run_shard(k, ids, seeds=None):
    """seeds: None = every check once with the default seed; a list = only the change's own check, once per seed"""
    base = prepare(k)
    v = base + '/verif'
    env = dict(os.environ, VERIF_ROOT=v, VERIF_REPO_SRC=base + '/repo/src', CARGO_NET_OFFLINE='true')
    for sid in ids:
        d = VERIF + '/seeded/' + sid
        meta = json.load(open(d + '/meta.json'))
        own = (re.match(r'C\d\d', meta['property']) or re.match(r'C\d\d', meta['id'])).group(0)
        if seeds:
            rc, out = sh(['patch', '-p1', '-s', '-d', base + '/repo', '-i', d + '/patch.diff'])
            if rc != 0:
                print(sid, 'patch failed', out[-300:], flush=True)
                continue
            res = {}
            try:
                for sd in seeds:
                    p = subprocess.run(['timeout', '2400', v + '/check', own, '--tier', 'quick', '--seed', str(sd)], cwd=v, env=env, stdout=subprocess.PIPE, stderr=subprocess.STDOUT, text=True)
                    res['seed%s' % sd] = bool([l for l in p.stdout.split('\n') if l.startswith('VIOLATION')]) or p.returncode != 0
            finally:
                sh(['patch', '-R', '-p1', '-s', '-d', base + '/repo', '-i', d + '/patch.diff'])
            json.dump(res, open(base + '/results/' + sid + '.seeds.json', 'w'))
            print('%s (%s): %s' % (sid, own, ' '.join('%s=%s' % (a, 'caught' if b else 'MISSED') for a, b in sorted(res.items()))), flush=True)
            continue
        rc, out = sh(['patch', '-p1', '-s', '-d', base + '/repo', '-i', d + '/patch.diff'])
        if rc != 0:
            print(sid, 'patch failed', out[-300:], flush=True)
            continue
        results = {}
        try:
            checks = [c for c in CHECKS if c != 'C15' or own == 'C15']
            # build both harnesses once, then the checks five at a time
            sh([sys.executable, '-c', 'import sys; sys.path.insert(0, %r); from vlib import build; build.harness(); build.harness(ext=True)' % (v + '/lib')], env=env)
            pending = list(checks)
            running = {}
            while pending or running:
                while pending and len(running) < 5:
                    c = pending.pop(0)
                    running[c] = (subprocess.Popen([v + '/check', c, '--tier', 'quick'], cwd=v, env=env, stdout=subprocess.PIPE, stderr=subprocess.STDOUT, text=True), time.time())
                for c, (p, t0) in list(running.items()):
                    if p.poll() is None:
                        if time.time() - t0 > 2400:
                            p.kill()
                        continue
                    out = p.stdout.read()
                    del running[c]
                    viol = [l for l in out.split('\n') if l.startswith('VIOLATION')]
                    summary = [l for l in out.split('\n') if l.startswith('[')][-1:] or ['']
                    first = None
                    if viol:
                        path = viol[0].split('replay=')[1].split()[0]
                        try:
                            body = json.load(open(path))
                            first = (body.get('what') or json.dumps(body.get('problems') or body.get('disagreements', [{}])[:1]))[:400]
                        except Exception:
                            first = None
                    results[c] = {'caught': bool(viol) or p.returncode != 0, 'exit': p.returncode, 'violations': len(viol),
                                  'no_failing_input': any('no-failing-input-found' in x for x in viol), 'first': first, 'summary': summary[0][:300], 'tier': 'quick'}
                time.sleep(0.5)
        finally:
            sh(['patch', '-R', '-p1', '-s', '-d', base + '/repo', '-i', d + '/patch.diff'])
        json.dump(results, open(base + '/results/' + sid + '.json', 'w'), indent=1)
        print('%s: caught by %s' % (sid, ' '.join(c for c in sorted(results) if results[c]['caught'])), flush=True)


def merge(ks):
    n = 0
    for k in ks:
        rd = '/tmp/xm%s/results' % k
        for f in sorted(os.listdir(rd)):
            if f.endswith('.seeds.json'):
                continue
            sid = f[:-5]
            p = VERIF + '/seeded/' + sid + '/meta.json'
            meta = json.load(open(p))
            meta.setdefault('results', {}).update(json.load(open(rd + '/' + f)))
            json.dump(meta, open(p, 'w'), indent=1)
            n += 1
    print('merged', n)


if __name__ == '__main__':
    if sys.argv[1] == 'shard':
        run_shard(sys.argv[2], sys.argv[3:])
    elif sys.argv[1] == 'seeds':
        # tools/xmatrix.py seeds <k> <seed,seed,...> <id> ...   the own check of every change under other seeds (fragility of the detection)
        run_shard(sys.argv[2], sys.argv[4:], seeds=[int(x) for x in sys.argv[3].split(',')])
    elif sys.argv[1] == 'merge':
        merge(sys.argv[2:])
