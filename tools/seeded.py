#!/usr/bin/env python3
"""Seeded property-breaking changes: confirm them in a scratch worktree, store them, run the checks against them.

  tools/seeded.py confirm <src-dir> [...]   confirm candidates produced by sub-agents (patch.diff, demo.rs, meta.json) and copy them to /verif/seeded/<id>/
  tools/seeded.py run <id> [check ...]      apply /verif/seeded/<id>/patch.diff to /repo, run the given checks (default: the change's own property), undo
  tools/seeded.py matrix [id ...]           run every stored change against its own property's check (and the checks listed in meta.json "also")

Nothing is ever committed to /repo; the patch is undone with `git -C /repo checkout -- .` even when a check crashes."""
import json
import os
import re
import shutil
import subprocess
import sys
import time

ROOT = os.environ.get('VERIF_ROOT', '/verif')
SEEDED = ROOT + '/seeded'
SCRATCH = '/tmp/seeded_confirm'
ENV = dict(os.environ, CARGO_NET_OFFLINE='true')


def sh(cmd, cwd=None, timeout=3000, env=None):
    p = subprocess.run(cmd, cwd=cwd, shell=isinstance(cmd, str), stdout=subprocess.PIPE, stderr=subprocess.STDOUT, text=True, timeout=timeout, env=env or ENV)
    return p.returncode, p.stdout


def confirm(src):
    meta = json.load(open(src + '/meta.json'))
    sid = meta['id']
    feat = meta.get('features') or ''
    fl = ['--features', feat] if feat else []
    if not os.path.isdir(SCRATCH):
        rc, out = sh(['git', '-C', '/repo', 'worktree', 'add', '--detach', SCRATCH, 'HEAD'])
        assert rc == 0, out
    sh('git checkout -- . && git clean -fdq -e target', cwd=SCRATCH)
    os.makedirs(SCRATCH + '/examples', exist_ok=True)
    shutil.copy(src + '/demo.rs', SCRATCH + '/examples/demo.rs')
    res = {'id': sid}
    rc, out = sh(['cargo', 'run', '--offline', '--quiet', '--example', 'demo'] + fl, cwd=SCRATCH)
    res['demo_exit_unchanged'] = rc
    rc, out = sh(['git', 'apply', src + '/patch.diff'], cwd=SCRATCH)
    res['applies'] = rc == 0
    if rc != 0:
        res['apply_output'] = out[-500:]
        return res
    rc, out = sh(['cargo', 'build', '--offline', '--quiet'] + fl, cwd=SCRATCH)
    res['builds'] = rc == 0
    rc2, out2 = sh(['cargo', 'build', '--offline', '--quiet', '--features', 'non-pep508-extensions'], cwd=SCRATCH)
    res['builds_ext'] = rc2 == 0
    os.remove(SCRATCH + '/examples/demo.rs')
    rc, out = sh(['cargo', 'test', '--workspace', '--no-fail-fast', '--offline'], cwd=SCRATCH)
    res['tests_pass'] = rc == 0 and 'test result: FAILED' not in out
    res['tests'] = [l for l in out.split('\n') if l.startswith('test result')]
    shutil.copy(src + '/demo.rs', SCRATCH + '/examples/demo.rs')
    rc, out = sh(['cargo', 'run', '--offline', '--quiet', '--example', 'demo'] + fl, cwd=SCRATCH)
    res['demo_exit_changed'] = rc
    res['demo_tail'] = out[-600:]
    sh('git checkout -- . && git clean -fdq -e target', cwd=SCRATCH)
    ok = res['applies'] and res['builds'] and res['builds_ext'] and res['tests_pass'] and res['demo_exit_unchanged'] == 0 and res['demo_exit_changed'] != 0
    res['confirmed'] = ok
    if ok:
        dst = SEEDED + '/' + sid
        os.makedirs(dst, exist_ok=True)
        for f in ('patch.diff', 'demo.rs', 'demo_output.txt'):
            if os.path.exists(src + '/' + f):
                shutil.copy(src + '/' + f, dst + '/' + f)
        meta['confirmed'] = {k: res[k] for k in ('builds', 'builds_ext', 'tests_pass', 'tests', 'demo_exit_unchanged', 'demo_exit_changed')}
        meta['confirmed_at_commit'] = sh(['git', '-C', '/repo', 'rev-parse', '--short', 'HEAD'])[1].strip()
        old = dst + '/meta.json'
        if os.path.exists(old):
            prev = json.load(open(old))
            for k in ('results',):
                if k in prev:
                    meta[k] = prev[k]
        json.dump(meta, open(dst + '/meta.json', 'w'), indent=1)
    return res


def run(sid, checks=None, tier='quick'):
    d = SEEDED + '/' + sid
    meta = json.load(open(d + '/meta.json'))
    prop = (re.match(r'C\d\d', meta['property']) or re.match(r'C\d\d', meta['id'])).group(0)
    checks = checks or [prop] + meta.get('also', [])
    rc, out = sh(['git', '-C', '/repo', 'status', '--porcelain'])
    assert out.strip() == '', '/repo is not clean: ' + out
    rc, out = sh(['git', '-C', '/repo', 'apply', d + '/patch.diff'])
    assert rc == 0, out
    results = meta.setdefault('results', {})
    try:
        procs = {}
        for c in checks:
            procs[c] = subprocess.Popen([ROOT + '/check', c, '--tier', tier], cwd=ROOT, stdout=subprocess.PIPE, stderr=subprocess.STDOUT, text=True)
            time.sleep(1.0 if len(procs) == 1 else 0.2)
        for c, p in procs.items():
            try:
                out, _ = p.communicate(timeout=3600)
            except subprocess.TimeoutExpired:
                p.kill()
                out = 'TIMEOUT'
            viol = [l for l in out.split('\n') if l.startswith('VIOLATION')]
            summary = [l for l in out.split('\n') if l.startswith('[')][-1:] or ['']
            first = None
            if viol:
                path = viol[0].split('replay=')[1].split()[0]
                try:
                    body = json.load(open(path))
                    first = (body.get('what') or json.dumps(body.get('problems') or body.get('disagreements', [{}])[:1]))[:400]
                except Exception:
                    first = None
            results[c] = {'caught': bool(viol) or p.returncode != 0, 'exit': p.returncode, 'violations': len(viol), 'no_failing_input': any('no-failing-input-found' in v for v in viol),
                          'first': first, 'summary': summary[0][:300], 'tier': tier}
            print('%s vs %s: %s  %s' % (sid, c, 'CAUGHT' if results[c]['caught'] else 'missed', (first or summary[0])[:200]), flush=True)
    finally:
        sh(['git', '-C', '/repo', 'checkout', '--', '.'])
    json.dump(meta, open(d + '/meta.json', 'w'), indent=1)
    return results


def main():
    cmd = sys.argv[1]
    if cmd == 'confirm':
        for src in sys.argv[2:]:
            r = confirm(src.rstrip('/'))
            print(json.dumps({k: v for k, v in r.items() if k not in ('demo_tail',)}), flush=True)
    elif cmd == 'run':
        tier = 'quick'
        args = sys.argv[2:]
        if '--thorough' in args:
            tier = 'thorough'
            args.remove('--thorough')
        run(args[0], args[1:] or None, tier)
    elif cmd in ('matrix', 'matrix-all'):
        ids = sys.argv[2:] or sorted(os.listdir(SEEDED))
        allc = ['C%02d' % i for i in range(1, 21)] if cmd == 'matrix-all' else None
        for sid in ids:
            if os.path.exists(SEEDED + '/' + sid + '/meta.json'):
                run(sid, allc)
    elif cmd == 'report':
        rows = []
        for sid in sorted(os.listdir(SEEDED)):
            f = SEEDED + '/' + sid + '/meta.json'
            if not os.path.exists(f):
                continue
            m = json.load(open(f))
            res = m.get('results', {})
            caught = [c for c, r in sorted(res.items()) if r.get('caught')]
            missed = [c for c, r in sorted(res.items()) if not r.get('caught')]
            own = (re.match(r'C\d\d', m['property']) or re.match(r'C\d\d', m['id'])).group(0)
            first = (res.get(own, {}).get('first') or '').replace('|', '/').replace('\n', ' ')[:110]
            summ = m.get('summary', '').replace('|', '/').replace('\n', ' ')
            if len(summ) > 230:
                summ = summ[:227] + '...'
            rows.append('| %s | %s | %s | %s | %s |' % (sid, summ, ', '.join(caught) or '-', ', '.join(missed) or '-', first + (' — ' + m['history'] if m.get('history') else '')))
        table = ['| id | change (passes the unedited suite) | caught by | run but not caught by | first report of the property\'s own check; history |', '|---|---|---|---|---|'] + rows
        text = open(ROOT + '/DESIGN.md').read()
        a, b = text.index('<!-- SEEDED-MATRIX-BEGIN -->'), text.index('<!-- SEEDED-MATRIX-END -->')
        text = text[:a] + '<!-- SEEDED-MATRIX-BEGIN -->\n' + '\n'.join(table) + '\n' + text[b:]
        open(ROOT + '/DESIGN.md', 'w').write(text)
        print('%d seeded changes in the table' % len(rows))
    elif cmd == 'cleanup':
        sh(['git', '-C', '/repo', 'worktree', 'remove', '--force', SCRATCH])


if __name__ == '__main__':
    main()
