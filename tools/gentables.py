#!/usr/bin/env python3
"""Translator for the table-shaped parts of the crate: reads /repo/src (or the directory given) and writes a Coq file with
the enums (in declaration order) and the match tables exactly as the source has them:

  MarkerOperator            variants; invert; negate; FromStr arms (text -> operator); Display
  MarkerValueVersion/String variants; Display; MarkerValue::from_str keyword arms; MarkerEnvironment::get_version / get_string
  looks_like_archive        the two extension lists

The theorems of coq/Gen/TableProofs.v are stated about these generated definitions, so they are re-checked against what the
source says on every run.  A source shape the translator does not recognise is an error (exit 2, message on stderr): the
check then reports the table obligations as no longer shown.  Usage: gentables.py <src dir> <output .v>"""
import re
import sys


class Shape(Exception):
    pass


def strip_comments(t):
    return re.sub(r'//[^\n]*', '', t)


def block_after(text, header_re, what):
    """the brace-balanced block that follows the first match of header_re (which must end just before or at the '{')"""
    m = re.search(header_re, text)
    if not m:
        raise Shape('not found: ' + what)
    i = text.index('{', m.end() - 1)
    depth, j = 0, i
    while True:
        c = text[j]
        if c == '{':
            depth += 1
        elif c == '}':
            depth -= 1
            if depth == 0:
                return text[i + 1:j]
        elif c == '"':
            j += 1
            while text[j] != '"':
                j += 2 if text[j] == '\\' else 1
        j += 1
        if j >= len(text):
            raise Shape('unbalanced block: ' + what)


def enum_variants(text, name):
    body = block_after(text, r'pub enum %s\s*\{' % name, 'enum ' + name)
    body = re.sub(r'#\[[^\]]*\]', '', body)
    vs = [v.strip() for v in body.split(',') if v.strip()]
    for v in vs:
        if not re.fullmatch(r'[A-Z]\w*', v):
            raise Shape('enum %s has a variant with data or an odd shape: %r' % (name, v))
    return vs


def match_body(fn_block, what):
    """the body of the (only) `match` in a function block"""
    m = re.search(r'\bmatch\s+[\*\w\.]+\s*\{', fn_block)
    if not m:
        raise Shape('no match expression in ' + what)
    return block_after(fn_block[m.start():], r'\bmatch\s+[\*\w\.]+\s*\{', 'match in ' + what)


def arms(body, what):
    """[(pattern text, expression text)] of a match body; expressions may be braced blocks"""
    out, i, n = [], 0, len(body)
    while True:
        while i < n and body[i] in ' \t\n,':
            i += 1
        if i >= n:
            break
        j = body.find('=>', i)
        if j < 0:
            raise Shape('arm without => in ' + what)
        pat = body[i:j].strip()
        k = j + 2
        while body[k] in ' \t\n':
            k += 1
        if body[k] == '{':
            depth, e = 0, k
            while True:
                if body[e] == '{':
                    depth += 1
                elif body[e] == '}':
                    depth -= 1
                    if depth == 0:
                        break
                e += 1
            expr = body[k + 1:e].strip()
            i = e + 1
        else:
            depth, e = 0, k
            while e < n and not (body[e] == ',' and depth == 0):
                if body[e] in '([{':
                    depth += 1
                elif body[e] in ')]}':
                    depth -= 1
                elif body[e] == '"':
                    e += 1
                    while body[e] != '"':
                        e += 2 if body[e] == '\\' else 1
                e += 1
            expr = body[k:e].strip()
            i = e + 1
        out.append((pat, expr))
    return out


def variants_of(pat, prefix, what):
    vs = []
    for p in pat.split('|'):
        p = p.strip()
        m = re.fullmatch(r'(?:%s)::(\w+)' % prefix, p)
        if not m:
            raise Shape('pattern %r in %s is not a plain variant (guards and wildcards are not tables)' % (p, what))
        vs.append(m.group(1))
    return vs


def total_map(arm_list, variants, prefix, conv, what, wildcard=False):
    """wildcard: a final `_ => e` arm is accepted and stands for every variant not named before it"""
    res = {}
    for n, (pat, expr) in enumerate(arm_list):
        if wildcard and pat.strip() == '_' and n == len(arm_list) - 1:
            for v in variants:
                res.setdefault(v, conv(expr))
            continue
        for v in variants_of(pat, prefix, what):
            if v in res:
                raise Shape('variant %s matched twice in %s' % (v, what))
            res[v] = conv(expr)
    missing = [v for v in variants if v not in res]
    extra = [v for v in res if v not in variants]
    if missing or extra:
        raise Shape('%s does not cover the enum exactly (missing %s, unknown %s)' % (what, missing, extra))
    return res


def fn_block(text, impl_re, fn_name, what):
    impl = block_after(text, impl_re, 'impl for ' + what)
    return block_after(impl, r'fn %s\b[^{]*\{' % fn_name, what)


def main(src, out):
    tree = strip_comments(open(src + '/marker/tree.rs').read())
    envrs = strip_comments(open(src + '/marker/environment.rs').read())
    librs = strip_comments(open(src + '/lib.rs').read())
    alg = strip_comments(open(src + '/marker/algebra.rs').read())

    def enum_with_data(text, header, name):
        """variant names, in order, of an enum whose variants carry data; the enum must derive Ord (lexicographic in declaration order)"""
        m = re.search(r'#\[derive\(([^)]*)\)\]\s*' + header, text)
        if not m or not re.search(r'\bOrd\b', m.group(1)):
            raise Shape('enum %s does not derive Ord' % name)
        body = block_after(text, header + r'\s*\{', 'enum ' + name)
        names, depth, cur = [], 0, ''
        for ch in body:
            if ch in '({':
                depth += 1
            elif ch in ')}':
                depth -= 1
            elif ch == ',' and depth == 0:
                names.append(cur)
                cur = ''
                continue
            if depth == 0 or ch in '({':
                cur += ch if depth == 0 else ''
        if cur.strip():
            names.append(cur)
        out = []
        for n in names:
            n = re.sub(r'#\[[^\]]*\]', '', n).strip()
            mm = re.match(r'([A-Z]\w*)', n)
            if not mm:
                raise Shape('enum %s: odd variant %r' % (name, n))
            out.append(mm.group(1))
        return out
    variable_order = enum_with_data(alg, r'pub\(crate\) enum Variable', 'Variable')
    extra_value_order = enum_with_data(tree, r'pub enum MarkerValueExtra', 'MarkerValueExtra')
    ops = enum_variants(tree, 'MarkerOperator')
    vkeys = enum_variants(tree, 'MarkerValueVersion')
    skeys = enum_variants(tree, 'MarkerValueString')

    def self_variant(e):
        m = re.fullmatch(r'Self::(\w+)', e.strip())
        if not m:
            raise Shape('expression %r is not a plain variant' % e)
        return m.group(1)

    impl_op = r'impl MarkerOperator\s*\{'
    inv = total_map(arms(match_body(fn_block(tree, impl_op, 'invert', 'MarkerOperator::invert'), 'invert'), 'invert'), ops, 'Self', self_variant, 'MarkerOperator::invert')

    def neg_conv(e):
        e = e.strip()
        if e == 'return None':
            return None
        return self_variant(e)
    neg = total_map(arms(match_body(fn_block(tree, impl_op, 'negate', 'MarkerOperator::negate'), 'negate'), 'negate'), ops, 'Self', neg_conv, 'MarkerOperator::negate')

    def pep440_conv(e):
        e = e.strip()
        if e == 'None':
            return None
        m = re.fullmatch(r'Some\(pep440_rs::Operator::(\w+)\)', e)
        if not m:
            raise Shape('to_pep440_operator: unexpected expression %r' % e)
        return m.group(1)
    to440 = total_map(arms(match_body(fn_block(tree, impl_op, 'to_pep440_operator', 'MarkerOperator::to_pep440_operator'), 'to_pep440_operator'), 'to_pep440_operator'),
                      ops, 'Self', pep440_conv, 'MarkerOperator::to_pep440_operator', wildcard=True)

    def lit(e):
        m = re.fullmatch(r'(?:f\.write_str\()?"([^"\\]*)"\)?', e.strip())
        if not m:
            raise Shape('expression %r is not a string literal' % e)
        return m.group(1)
    op_disp = total_map(arms(match_body(fn_block(tree, r'impl Display for MarkerOperator\s*\{', 'fmt', 'Display for MarkerOperator'), 'Display op'), 'Display op'),
                        ops, 'Self', lit, 'Display for MarkerOperator')
    op_from = []
    for pat, expr in arms(match_body(fn_block(tree, r'impl FromStr for MarkerOperator\s*\{', 'from_str', 'FromStr for MarkerOperator'), 'FromStr op'), 'FromStr op'):
        m = re.fullmatch(r'"([^"\\]*)"', pat)
        if m:
            op_from.append((m.group(1), self_variant(expr)))
        elif pat.startswith('not_space_in') or pat == 'other':
            continue        # `not <blanks> in` is code, modelled as code; the error arm
        else:
            raise Shape('FromStr for MarkerOperator: unexpected pattern %r' % pat)
    sdisp = total_map(arms(match_body(fn_block(tree, r'impl Display for MarkerValueString\s*\{', 'fmt', 'Display for MarkerValueString'), 'Display skey'), 'Display skey'),
                      skeys, 'Self', lit, 'Display for MarkerValueString')
    vdisp = total_map(arms(match_body(fn_block(tree, r'impl Display for MarkerValueVersion\s*\{', 'fmt', 'Display for MarkerValueVersion'), 'Display vkey'), 'Display vkey'),
                      vkeys, 'Self', lit, 'Display for MarkerValueVersion')
    kw = []
    for pat, expr in arms(match_body(fn_block(tree, r'impl FromStr for MarkerValue\s*\{', 'from_str', 'FromStr for MarkerValue'), 'FromStr key'), 'FromStr key'):
        m = re.fullmatch(r'"([^"\\]*)"', pat)
        if not m:
            if pat == '_':
                continue
            raise Shape('FromStr for MarkerValue: unexpected pattern %r' % pat)
        e = expr.strip()
        m1 = re.fullmatch(r'Self::MarkerEnvString\(MarkerValueString::(\w+)\)', e)
        m2 = re.fullmatch(r'Self::MarkerEnvVersion\(MarkerValueVersion::(\w+)\)', e)
        if m1 and m1.group(1) in skeys:
            kw.append((m.group(1), 'KwString S_' + m1.group(1)))
        elif m2 and m2.group(1) in vkeys:
            kw.append((m.group(1), 'KwVersion V_' + m2.group(1)))
        elif e == 'Self::Extra':
            kw.append((m.group(1), 'KwExtra'))
        else:
            raise Shape('FromStr for MarkerValue: unexpected expression %r' % e)

    def accessor(e):
        m = re.fullmatch(r'&?self\.(\w+)\(\)(?:\.version)?', e.strip())
        if not m:
            raise Shape('expression %r is not an accessor call' % e)
        return m.group(1)
    impl_env = r'impl MarkerEnvironment\s*\{'
    gs = total_map(arms(match_body(fn_block(envrs, impl_env, 'get_string', 'get_string'), 'get_string'), 'get_string'), skeys, 'MarkerValueString', accessor, 'MarkerEnvironment::get_string')
    gv = total_map(arms(match_body(fn_block(envrs, impl_env, 'get_version', 'get_version'), 'get_version'), 'get_version'), vkeys, 'MarkerValueVersion', accessor, 'MarkerEnvironment::get_version')
    fields = sorted(set(gs.values()) | set(gv.values()))
    # Scheme (src/verbatim_url.rs): variants, Scheme::parse (text -> variant), Display (variant -> text), is_file
    vurl = strip_comments(open(src + '/verbatim_url.rs').read())
    schemes = enum_variants(vurl, 'Scheme')
    sparse = []
    for pat, expr in arms(match_body(fn_block(vurl, r'impl Scheme\s*\{', 'parse', 'Scheme::parse'), 'Scheme::parse'), 'Scheme::parse'):
        m = re.fullmatch(r'"([^"\\]*)"', pat)
        if m:
            mm = re.fullmatch(r'Some\(Self::(\w+)\)', expr.strip())
            if not mm or mm.group(1) not in schemes:
                raise Shape('Scheme::parse: unexpected expression %r' % expr)
            sparse.append((m.group(1), mm.group(1)))
        elif pat == '_' and expr.strip() == 'None':
            continue
        else:
            raise Shape('Scheme::parse: unexpected pattern %r' % pat)

    def write_lit(e):
        m = re.fullmatch(r'write!\(f,\s*"([^"\\{}]*)"\)', e.strip())
        if not m:
            raise Shape('expression %r is not write!(f, "literal")' % e)
        return m.group(1)
    sdisp_scheme = total_map(arms(match_body(fn_block(vurl, r'impl std::fmt::Display for Scheme\s*\{', 'fmt', 'Display for Scheme'), 'Display for Scheme'), 'Display for Scheme'),
                             schemes, 'Self', write_lit, 'Display for Scheme')
    isfile = fn_block(vurl, r'impl Scheme\s*\{', 'is_file', 'Scheme::is_file')
    m = re.fullmatch(r'\s*matches!\(self,\s*((?:Self::\w+\s*\|?\s*)+)\)\s*', isfile)
    if not m:
        raise Shape('Scheme::is_file has another shape')
    file_schemes = re.findall(r'Self::(\w+)', m.group(1))
    arch = block_after(librs, r'fn looks_like_archive\b[^{]*\{', 'looks_like_archive')
    m = re.search(r'matches!\(\s*\(pre_extension, extension\),\s*\(_,\s*((?:"\w+"\s*\|?\s*)+)\)\s*\|\s*\(Some\("tar"\),\s*((?:"\w+"\s*\|?\s*)+)\)\s*\)', arch)
    if not m:
        raise Shape('looks_like_archive: the matches! table has another shape')
    ext1 = re.findall(r'"(\w+)"', m.group(1))
    ext2 = re.findall(r'"(\w+)"', m.group(2))

    w = []
    w.append('(** GENERATED by tools/gentables.py from the crate source (src/marker/tree.rs, src/marker/environment.rs, src/lib.rs).')
    w.append('    Do not edit: it is rewritten on every run.  Enums in declaration order, match tables arm for arm. *)')
    w.append('From Coq Require Import List String.')
    w.append('Import ListNotations.')
    w.append('Open Scope string_scope.')
    w.append('')

    def enum(name, prefix, vs):
        w.append('Inductive %s := %s.' % (name, ' | '.join(prefix + v for v in vs)))
        w.append('Definition %s_all : list %s := [%s].' % (name, name, '; '.join(prefix + v for v in vs)))
    enum('rop', 'O_', ops)
    enum('vkey', 'V_', vkeys)
    enum('skey', 'S_', skeys)
    w.append('Inductive field := %s.' % ' | '.join('F_' + f for f in fields))
    w.append('Inductive kwv := KwString (k : skey) | KwVersion (k : vkey) | KwExtra.')
    w.append('')

    def fn(name, ty_in, prefix, vs, table, render, ty_out):
        w.append('Definition %s (x : %s) : %s :=' % (name, ty_in, ty_out))
        w.append('  match x with')
        for v in vs:
            w.append('  | %s%s => %s' % (prefix, v, render(table[v])))
        w.append('  end.')
    fn('invert', 'rop', 'O_', ops, inv, lambda r: 'O_' + r, 'rop')
    fn('negate', 'rop', 'O_', ops, neg, lambda r: 'None' if r is None else 'Some O_' + r, 'option rop')
    fn('op_text', 'rop', 'O_', ops, op_disp, lambda r: '"%s"' % r, 'string')
    fn('to_pep440_operator', 'rop', 'O_', ops, to440, lambda r: 'None' if r is None else 'Some "%s"' % r, 'option string')
    w.append('Definition op_of_text : list (string * rop) := [%s].' % '; '.join('("%s", O_%s)' % (t, o) for t, o in op_from))
    fn('vkey_text', 'vkey', 'V_', vkeys, vdisp, lambda r: '"%s"' % r, 'string')
    fn('skey_text', 'skey', 'S_', skeys, sdisp, lambda r: '"%s"' % r, 'string')
    w.append('Definition kw_table : list (string * kwv) :=\n  [%s].' % ';\n   '.join('("%s", %s)' % (t, v) for t, v in kw))
    fn('get_version', 'vkey', 'V_', vkeys, gv, lambda r: 'F_' + r, 'field')
    fn('get_string', 'skey', 'S_', skeys, gs, lambda r: 'F_' + r, 'field')
    w.append('(* the variable order of the diagrams: derived Ord of `Variable` (algebra.rs) and of `MarkerValueExtra` (tree.rs), i.e. declaration order *)')
    w.append('Definition variable_order : list string := [%s].' % '; '.join('"%s"' % e for e in variable_order))
    w.append('Definition extra_value_order : list string := [%s].' % '; '.join('"%s"' % e for e in extra_value_order))
    enum('scheme', 'Sch_', schemes)
    w.append('Definition scheme_of_text : list (string * scheme) := [%s].' % '; '.join('("%s", Sch_%s)' % (t, v) for t, v in sparse))
    fn('scheme_text', 'scheme', 'Sch_', schemes, sdisp_scheme, lambda r: '"%s"' % r, 'string')
    w.append('Definition scheme_is_file (x : scheme) : bool := match x with %s => true | _ => false end.' % ' | '.join('Sch_' + v for v in file_schemes))
    w.append('Definition archive_ext : list string := [%s].' % '; '.join('"%s"' % e for e in ext1))
    w.append('Definition archive_tar_ext : list string := [%s].' % '; '.join('"%s"' % e for e in ext2))
    text = '\n'.join(w) + '\n'
    import json
    js = {'operators': ops, 'version_keys': vkeys, 'string_keys': skeys, 'keywords': [[t, v] for t, v in kw],
          'string_display': sdisp, 'version_display': vdisp, 'get_string': gs, 'get_version': gv}
    jtext = json.dumps(js, indent=1, sort_keys=True)
    jpath = out[:-2] + '.json'
    try:
        jold = open(jpath).read()
    except OSError:
        jold = None
    if jold != jtext:
        open(jpath, 'w').write(jtext)
    try:
        old = open(out).read()
    except OSError:
        old = None
    if old != text:
        open(out, 'w').write(text)
    return 0


if __name__ == '__main__':
    try:
        sys.exit(main(sys.argv[1], sys.argv[2]))
    except Shape as e:
        sys.stderr.write('gentables: %s\n' % e)
        sys.exit(2)
