(* Driver for the extracted Coq model: reads one S-expression per line, applies the model
   function named by the head atom, prints one S-expression per line.  No logic lives here:
   only parsing, conversion between decimal text and the extracted [N], and dispatch. *)
open BinNums

type sexp = A of string | L of sexp list

let parse (s : string) : sexp =
  let n = Stdlib.String.length s in
  let pos = ref 0 in
  let is_ws c = c = ' ' || c = '\t' || c = '\n' || c = '\r' in
  let rec skip () = if !pos < n && is_ws s.[!pos] then (incr pos; skip ()) in
  let rec item () =
    skip ();
    if !pos >= n then failwith "driver: unexpected end";
    if s.[!pos] = '(' then begin
      incr pos;
      let rec items acc =
        skip ();
        if !pos >= n then failwith "driver: unclosed";
        if s.[!pos] = ')' then (incr pos; Stdlib.List.rev acc) else items (item () :: acc)
      in
      L (items [])
    end else begin
      let st = !pos in
      while !pos < n && not (is_ws s.[!pos]) && s.[!pos] <> '(' && s.[!pos] <> ')' do incr pos done;
      A (Stdlib.String.sub s st (!pos - st))
    end
  in
  item ()

let rec print (b : Stdlib.Buffer.t) (x : sexp) : unit =
  match x with
  | A a -> Stdlib.Buffer.add_string b a
  | L l ->
      Stdlib.Buffer.add_char b '(';
      Stdlib.List.iteri (fun i y -> if i > 0 then Stdlib.Buffer.add_char b ' '; print b y) l;
      Stdlib.Buffer.add_char b ')'

(* ---- numbers ---- *)
let rec pos_of_int (i : int) : positive =
  if i = 1 then Coq_xH else if i land 1 = 0 then Coq_xO (pos_of_int (i lsr 1)) else Coq_xI (pos_of_int (i lsr 1))
let n_of_int (i : int) : coq_N = if i = 0 then N0 else Npos (pos_of_int i)
let rec int_of_pos (p : positive) : int =
  match p with Coq_xH -> 1 | Coq_xO q -> 2 * int_of_pos q | Coq_xI q -> 2 * int_of_pos q + 1
let int_of_n (x : coq_N) : int = match x with N0 -> 0 | Npos p -> int_of_pos p

let ten = n_of_int 10
let n_of_string (s : string) : coq_N =
  if Stdlib.String.length s <= 17 then n_of_int (int_of_string s)
  else begin
    let acc = ref N0 in
    Stdlib.String.iter (fun c -> acc := BinNat.N.add (BinNat.N.mul !acc ten) (n_of_int (Stdlib.Char.code c - 48))) s;
    !acc
  end
let string_of_n (x : coq_N) : string =
  let rec small p k = (* Some int if p < 2^60 *)
    if k > 60 then None else
    match p with
    | Coq_xH -> Some 1
    | Coq_xO q -> (match small q (k + 1) with Some v -> Some (2 * v) | None -> None)
    | Coq_xI q -> (match small q (k + 1) with Some v -> Some (2 * v + 1) | None -> None)
  in
  match x with
  | N0 -> "0"
  | Npos p ->
    (match small p 0 with
     | Some v -> string_of_int v
     | None ->
       let b = Stdlib.Buffer.create 24 in
       let rec go x acc =
         match x with
         | N0 -> acc
         | _ -> let (q, r) = BinNat.N.div_eucl x ten in go q (Stdlib.Char.chr (48 + int_of_n r) :: acc)
       in
       Stdlib.List.iter (Stdlib.Buffer.add_char b) (go x []);
       Stdlib.Buffer.contents b)

let num = function A a -> n_of_string a | _ -> failwith "driver: number expected"
let an (x : coq_N) = A (string_of_n x)
let str = function L (A "s" :: cps) -> Stdlib.List.map num cps | _ -> failwith "driver: string expected"
let sstr (l : coq_N list) = L (A "s" :: Stdlib.List.map an l)
let bool_ b = A (if b then "T" else "F")
let to_bool = function A "T" -> true | A "F" -> false | _ -> failwith "driver: bool expected"
let optres f = function Some x -> L [A "ok"; f x] | None -> A "err"

(* ---- dispatch ---- *)
let run (cmd : sexp) : sexp =
  match cmd with
  | L [A "name"; s] ->
      let s = str s in
      let owned = NameModel.normalize_owned s in
      L [A "name";
         optres sstr (NameModel.normalize_ref s);
         optres sstr owned;
         bool_ (NameModel.valid_name s);
         sstr (NameModel.spec_norm false s);
         (match owned with Some n -> L [A "ok"; sstr (NameModel.dist_info n); sstr (NameModel.spec_dist_info n)] | None -> A "err")]
  | L (A op :: _) -> L [A "unknown-op"; A op]
  | _ -> failwith "driver: bad command"

let () =
  let b = Stdlib.Buffer.create 65536 in
  (try
     while true do
       let line = input_line stdin in
       if Stdlib.String.trim line <> "" then begin
         (try print b (run (parse line))
          with Failure m -> Stdlib.Buffer.add_string b ("(driver-failure " ^ Stdlib.String.escaped m ^ ")")
             | Not_found -> Stdlib.Buffer.add_string b "(driver-failure not-found)"
             | Stack_overflow -> Stdlib.Buffer.add_string b "(driver-failure stack-overflow)");
         Stdlib.Buffer.add_char b '\n';
         if Stdlib.Buffer.length b > 60000 then (print_string (Stdlib.Buffer.contents b); Stdlib.Buffer.clear b)
       end
     done
   with End_of_file -> ());
  print_string (Stdlib.Buffer.contents b)
