(* Driver for the extracted Coq model: reads one S-expression per line, applies the model
   function named by the head atom, prints one S-expression per line.  No logic lives here:
   only parsing, conversion between decimal text and the extracted [N], and dispatch. *)
open BinNums

type sexp = A of string | L of sexp list

let parse (s : string) : sexp =
  let n = Stdlib.String.length s in
  let pos = ref 0 in
  let is_ws c = c = ' ' || c = '\t' || c = '\n' || c = '\r' in
  let rec skip () = if !pos < n && is_ws (Stdlib.String.get s !pos) then (incr pos; skip ()) in
  let rec item () =
    skip ();
    if !pos >= n then failwith "driver: unexpected end";
    if (Stdlib.String.get s !pos) = '(' then begin
      incr pos;
      let rec items acc =
        skip ();
        if !pos >= n then failwith "driver: unclosed";
        if (Stdlib.String.get s !pos) = ')' then (incr pos; Stdlib.List.rev acc) else items (item () :: acc)
      in
      L (items [])
    end else begin
      let st = !pos in
      while !pos < n && not (is_ws (Stdlib.String.get s !pos)) && (Stdlib.String.get s !pos) <> '(' && (Stdlib.String.get s !pos) <> ')' do incr pos done;
      A (Stdlib.String.sub s st (!pos - st))
    end
  in
  item ()

let rec print (b : Stdlib.Buffer.t) (x : sexp) : unit =
  match x with
  | A a -> Stdlib.Buffer.add_string b a
  | L l ->
      Stdlib.Buffer.add_char b '(';
      Stdlib.List.iteri (fun i y -> if i > 0 then Stdlib.Buffer.add_char b ' '; print b y) l;
      Stdlib.Buffer.add_char b ')'

(* ---- numbers ---- *)
let rec pos_of_int (i : int) : positive =
  if i = 1 then Coq_xH else if i land 1 = 0 then Coq_xO (pos_of_int (i lsr 1)) else Coq_xI (pos_of_int (i lsr 1))
let n_of_int (i : int) : coq_N = if i = 0 then N0 else Npos (pos_of_int i)
let rec int_of_pos (p : positive) : int =
  match p with Coq_xH -> 1 | Coq_xO q -> 2 * int_of_pos q | Coq_xI q -> 2 * int_of_pos q + 1
let int_of_n (x : coq_N) : int = match x with N0 -> 0 | Npos p -> int_of_pos p

let ten = n_of_int 10
let n_of_string (s : string) : coq_N =
  if Stdlib.String.length s <= 17 then n_of_int (int_of_string s)
  else begin
    let acc = ref N0 in
    Stdlib.String.iter (fun c -> acc := BinNat.N.add (BinNat.N.mul !acc ten) (n_of_int (Stdlib.Char.code c - 48))) s;
    !acc
  end
let string_of_n (x : coq_N) : string =
  let rec small p k = (* Some int if p < 2^60 *)
    if k > 60 then None else
    match p with
    | Coq_xH -> Some 1
    | Coq_xO q -> (match small q (k + 1) with Some v -> Some (2 * v) | None -> None)
    | Coq_xI q -> (match small q (k + 1) with Some v -> Some (2 * v + 1) | None -> None)
  in
  match x with
  | N0 -> "0"
  | Npos p ->
    (match small p 0 with
     | Some v -> string_of_int v
     | None ->
       let b = Stdlib.Buffer.create 24 in
       let rec go x acc =
         match x with
         | N0 -> acc
         | _ -> let (q, r) = BinNat.N.div_eucl x ten in go q (Stdlib.Char.chr (48 + int_of_n r) :: acc)
       in
       Stdlib.List.iter (Stdlib.Buffer.add_char b) (go x []);
       Stdlib.Buffer.contents b)

let num = function A a -> n_of_string a | _ -> failwith "driver: number expected"
let an (x : coq_N) = A (string_of_n x)
let str = function L (A "s" :: cps) -> Stdlib.List.map num cps | _ -> failwith "driver: string expected"
let sstr (l : coq_N list) = L (A "s" :: Stdlib.List.map an l)
let bool_ b = A (if b then "T" else "F")
let to_bool = function A "T" -> true | A "F" -> false | _ -> failwith "driver: bool expected"
let optres f = function Some x -> L [A "ok"; f x] | None -> A "err"

(* ---- diagrams ---- *)
open Datatypes
let nlist = function L l -> Stdlib.List.map num l | _ -> failwith "driver: list expected"
let value (x : sexp) : Concrete.coq_val =
  match x with
  | L [A "v"; e; rel; suf] -> Coq_inl (num e, (nlist rel, nlist suf))
  | L (A "s" :: _) -> Coq_inr (str x)
  | _ -> failwith "driver: value expected"
let svalue (v : Concrete.coq_val) : sexp =
  match v with
  | Coq_inl (e, (rel, suf)) -> L [A "v"; an e; L (Stdlib.List.map an rel); L (Stdlib.List.map an suf)]
  | Coq_inr s -> sstr s
let var_ (x : sexp) : Concrete.var =
  match x with
  | L [A "ver"; k] -> Concrete.VVersion (num k)
  | L [A "str"; k] -> Concrete.VString (num k)
  | L [A "in"; k; s] -> Concrete.VIn (num k, str s)
  | L [A "co"; k; s] -> Concrete.VContains (num k, str s)
  | L [A "ex"; a; s] -> Concrete.VExtra (num a <> N0, str s)
  | _ -> failwith "driver: var expected"
let svar (v : Concrete.var) : sexp =
  match v with
  | Concrete.VVersion k -> L [A "ver"; an k]
  | Concrete.VString k -> L [A "str"; an k]
  | Concrete.VIn (k, s) -> L [A "in"; an k; sstr s]
  | Concrete.VContains (k, s) -> L [A "co"; an k; sstr s]
  | Concrete.VExtra (a, s) -> L [A "ex"; A (if a then "1" else "0"); sstr s]
let cut_ (x : sexp) : Concrete.coq_val CutDef.cut =
  match x with
  | L [v; A "b"] -> (value v, CutDef.Below)
  | L [v; A "a"] -> (value v, CutDef.Above)
  | _ -> failwith "driver: cut expected"
let scut ((v, s) : Concrete.coq_val CutDef.cut) : sexp =
  L [svalue v; A (match s with CutDef.Below -> "b" | CutDef.Above -> "a")]
let rec tree (x : sexp) : (Concrete.var, Concrete.coq_val) DDModel.dd =
  match x with
  | A "T" -> DDModel.Leaf true
  | A "F" -> DDModel.Leaf false
  | L [A "R"; k; d0; L ds] ->
      DDModel.RNode (var_ k, tree d0,
        Stdlib.List.map (function L [c; d] -> (cut_ c, tree d) | _ -> failwith "driver: edge expected") ds)
  | L [A "B"; k; hi; lo] -> DDModel.BNode (var_ k, tree hi, tree lo)
  | _ -> failwith "driver: tree expected"
let rec stree (t : (Concrete.var, Concrete.coq_val) DDModel.dd) : sexp =
  match t with
  | DDModel.Leaf b -> bool_ b
  | DDModel.RNode (k, d0, ds) ->
      L [A "R"; svar k; stree d0; L (Stdlib.List.map (fun (c, d) -> L [scut c; stree d]) ds)]
  | DDModel.BNode (k, hi, lo) -> L [A "B"; svar k; stree hi; stree lo]
let scmp (c : comparison) : sexp = A (match c with Eq -> "Eq" | Lt -> "Lt" | Gt -> "Gt")
let n_eq (a : coq_N) (b : coq_N) : bool = BinNat.N.eqb a b
(* environment: ((k version) ...) ((k string) ...) *)
let env_ (vs : sexp) (ss : sexp) : Concrete.env =
  let vtab = match vs with L l -> Stdlib.List.map (function L [k; v] -> (num k, (match value v with Coq_inl x -> x | _ -> failwith "driver: version expected")) | _ -> failwith "driver: env") l | _ -> failwith "driver: env" in
  let stab = match ss with L l -> Stdlib.List.map (function L [k; s] -> (num k, str s) | _ -> failwith "driver: env") l | _ -> failwith "driver: env" in
  let rec find k = function [] -> None | (k', v) :: r -> if n_eq k k' then Some v else find k r in
  { Concrete.env_version = (fun k -> match find k vtab with Some v -> v | None -> failwith "driver: env lacks a version key");
    Concrete.env_string = (fun k -> match find k stab with Some v -> v | None -> failwith "driver: env lacks a string key") }
let strs = function L l -> Stdlib.List.map str l | _ -> failwith "driver: string list expected"

let optcut = function A "U" -> None | c -> Some (cut_ c)

(* ---- expressions ---- *)
let vop_ = function
  | A "eq" -> Expr.OEq | A "eqstar" -> Expr.OEqStar | A "exact" -> Expr.OExact | A "ne" -> Expr.ONe
  | A "nestar" -> Expr.ONeStar | A "tilde" -> Expr.OTilde | A "lt" -> Expr.OLt | A "le" -> Expr.OLe
  | A "gt" -> Expr.OGt | A "ge" -> Expr.OGe | _ -> failwith "driver: version operator expected"
let sop_ = function
  | A "eq" -> Expr.SEq | A "ne" -> Expr.SNe | A "gt" -> Expr.SGt | A "ge" -> Expr.SGe
  | A "lt" -> Expr.SLt | A "le" -> Expr.SLe | _ -> failwith "driver: string operator expected"
let rawver = function
  | L [A "v"; e; rel; suf] -> (num e, (nlist rel, nlist suf))
  | _ -> failwith "driver: raw version expected"
let mexpr (x : sexp) : Expr.mexpr =
  match x with
  | L [A "ver"; k; op; rel] -> Expr.EVersion (num k, vop_ op, nlist rel)
  | L [A "verin"; k; L vs; neg] -> Expr.EVersionIn (num k, Stdlib.List.map rawver vs, to_bool neg)
  | L [A "str"; k; op; s] -> Expr.EString (num k, sop_ op, str s)
  | L [A "in"; k; s; neg] -> Expr.EIn (num k, str s, to_bool neg)
  | L [A "contains"; k; s; neg] -> Expr.EContains (num k, str s, to_bool neg)
  | L [A "extra"; neg; arb; s] -> Expr.EExtra (to_bool neg, to_bool arb, str s)
  | _ -> failwith "driver: expression expected"
let srange ((d0, l) : Expr.range) : sexp =
  L [bool_ d0; L (Stdlib.List.map (fun (c, b) -> L [scut c; bool_ b]) l)]

(* ---- marker text parser with oracle tables ---- *)
exception Miss of sexp
let svop = function
  | Expr.OEq -> A "eq" | Expr.OEqStar -> A "eqstar" | Expr.OExact -> A "exact" | Expr.ONe -> A "ne"
  | Expr.ONeStar -> A "nestar" | Expr.OTilde -> A "tilde" | Expr.OLt -> A "lt" | Expr.OLe -> A "le"
  | Expr.OGt -> A "gt" | Expr.OGe -> A "ge"
let rec text_eq (a : coq_N list) (b : coq_N list) = match a, b with
  | [], [] -> true | x :: a', y :: b' -> n_eq x y && text_eq a' b' | _ -> false
let cls_table (l : sexp) : coq_N -> bool =
  let l = nlist l in fun c -> Stdlib.List.exists (fun x -> n_eq x c) l
let cls_known (l : sexp) (which : string) : coq_N -> unit =
  let l = nlist l in fun c -> if c = N0 || Stdlib.List.exists (fun x -> n_eq x c) l then () else raise (Miss (L [A "cc"; an c]))
let wkind_s = function
  | MarkerParse.WDeprecated -> "deprecated" | MarkerParse.WExtraInvalid -> "extrainvalid" | MarkerParse.WLexicographic -> "lexicographic"
  | MarkerParse.WMarkerMarker -> "markermarker" | MarkerParse.WPep440 -> "pep440" | MarkerParse.WStringString -> "stringstring"
let ekind_s = function
  | MarkerParse.EValueEnd -> A "value-end" | MarkerParse.EValueName -> A "value-name" | MarkerParse.EOperator -> A "operator"
  | MarkerParse.ENotEnd -> A "not-end" | MarkerParse.ENotOther -> A "not-other"
  | MarkerParse.ECharEnd c -> L [A "char-end"; an c] | MarkerParse.ECharOther c -> L [A "char-other"; an c]
  | MarkerParse.EUnexpectedAndOr -> A "unexpected-andor" | MarkerParse.EUnexpectedEnd -> A "unexpected-end"
  | MarkerParse.EEmpty -> A "empty" | MarkerParse.ENameStart -> A "name-start" | MarkerParse.ENameEnd -> A "name-end"
  | MarkerParse.EUnsupportedPath -> A "unsupported-path" | MarkerParse.EUnsupportedUrl -> A "unsupported-url"
  | MarkerParse.EExtrasComma -> A "extras-comma" | MarkerParse.EExtrasSep -> A "extras-sep" | MarkerParse.EExtrasEof -> A "extras-eof"
  | MarkerParse.EExtrasStart -> A "extras-start" | MarkerParse.EExtrasChar -> A "extras-char" | MarkerParse.EExtrasEnd -> A "extras-end"
  | MarkerParse.EExpectedUrl -> A "expected-url" | MarkerParse.EUrl -> A "url" | MarkerParse.ESpec -> A "spec"
  | MarkerParse.EParenMissing -> A "paren-missing" | MarkerParse.EExpectedOneOf -> A "expected-one-of"
  | MarkerParse.EAmbiguous c -> L [A "ambiguous"; an c] | MarkerParse.EEndOrSemi -> A "end-or-semi" | MarkerParse.EEnd -> A "end"
  | MarkerParse.EPanic -> A "model-panic-site"
let smexpr (e : Expr.mexpr) : sexp =
  match e with
  | Expr.EVersion (k, op, rel) -> L [A "ver"; an k; svop op; L (Stdlib.List.map an rel)]
  | Expr.EVersionIn (k, vs, neg) -> L [A "verin"; an k; L (Stdlib.List.map (fun (e, (r, s)) -> L [A "v"; an e; L (Stdlib.List.map an r); L (Stdlib.List.map an s)]) vs); bool_ neg]
  | Expr.EString (k, op, s) -> L [A "str"; an k; A (match op with Expr.SEq -> "eq" | Expr.SNe -> "ne" | Expr.SGt -> "gt" | Expr.SGe -> "ge" | Expr.SLt -> "lt" | Expr.SLe -> "le"); sstr s]
  | Expr.EIn (k, s, neg) -> L [A "in"; an k; sstr s; bool_ neg]
  | Expr.EContains (k, s, neg) -> L [A "contains"; an k; sstr s; bool_ neg]
  | Expr.EExtra (neg, arb, s) -> L [A "extra"; bool_ neg; bool_ arb; sstr s]
(* oracle tables live in the driver process and are filled by (tab ...) commands *)
let t_cc : (string, bool * bool * bool) Stdlib.Hashtbl.t = Stdlib.Hashtbl.create 64
let t_vparse : (string, sexp) Stdlib.Hashtbl.t = Stdlib.Hashtbl.create 64
let t_specpat : (string, sexp) Stdlib.Hashtbl.t = Stdlib.Hashtbl.create 64
let t_specver : (string, sexp) Stdlib.Hashtbl.t = Stdlib.Hashtbl.create 64
let t_kw : (Cursor.text * MarkerParse.mvalue) list ref = ref []
let t_keys : (coq_N * coq_N) ref = ref (N0, N0)
let t_spec : (string, sexp) Stdlib.Hashtbl.t = Stdlib.Hashtbl.create 64
let t_url : (string, sexp) Stdlib.Hashtbl.t = Stdlib.Hashtbl.create 64
let t_env : (string, sexp) Stdlib.Hashtbl.t = Stdlib.Hashtbl.create 16
let t_root : coq_N list ref = ref []
let t_vshow : (string, sexp) Stdlib.Hashtbl.t = Stdlib.Hashtbl.create 64
let t_keytext : (string, coq_N list) Stdlib.Hashtbl.t = Stdlib.Hashtbl.create 32
let key_of_text (t : coq_N list) = Stdlib.String.concat "," (Stdlib.List.map string_of_n t)
let tab (cmd : sexp list) : sexp =
  (match cmd with
   | [A "cc"; cp; w; a; n] -> Stdlib.Hashtbl.replace t_cc (string_of_n (num cp)) (to_bool w, to_bool a, to_bool n)
   | [A "vparse"; t; r] -> Stdlib.Hashtbl.replace t_vparse (key_of_text (str t)) r
   | [A "specpat"; A o; t; r] -> Stdlib.Hashtbl.replace t_specpat (o ^ ":" ^ key_of_text (str t)) r
   | [A "specver"; A o; t; r] -> Stdlib.Hashtbl.replace t_specver (o ^ ":" ^ key_of_text (str t)) r
   | [A "kw"; L l] -> t_kw := Stdlib.List.map (function
       | L [t; A "extra"] -> (str t, MarkerParse.MVExtra)
       | L [t; L [A "ver"; k]] -> (str t, MarkerParse.MVVersion (num k))
       | L [t; L [A "str"; k]] -> (str t, MarkerParse.MVString (num k))
       | _ -> failwith "driver: keyword table") l
   | [A "keys"; pv; pfv] -> t_keys := (num pv, num pfv)
   | [A "spec"; t; r] -> Stdlib.Hashtbl.replace t_spec (key_of_text (str t)) r
   | [A "url"; A k; t; r] -> Stdlib.Hashtbl.replace t_url (k ^ ":" ^ key_of_text (str t)) r
   | [A "env"; t; r] -> Stdlib.Hashtbl.replace t_env (key_of_text (str t)) r
   | [A "root"; t] -> t_root := str t
   | [A "vshow"; L rel; t] -> Stdlib.Hashtbl.replace t_vshow (key_of_text (Stdlib.List.map num rel)) t
   | [A "keytext"; A kind; k; t] -> Stdlib.Hashtbl.replace t_keytext (kind ^ ":" ^ string_of_n (num k)) (str t)
   | [A "resetenv"] -> Stdlib.Hashtbl.reset t_env; Stdlib.Hashtbl.reset t_url
   | [A "reset"] -> Stdlib.Hashtbl.reset t_vparse; Stdlib.Hashtbl.reset t_specpat; Stdlib.Hashtbl.reset t_specver;
                    Stdlib.Hashtbl.reset t_spec; Stdlib.Hashtbl.reset t_url
   | _ -> failwith "driver: tab");
  A "ok"
let cc_get c = match Stdlib.Hashtbl.find_opt t_cc (string_of_n c) with Some v -> v | None -> raise (Miss (L [A "cc"; an c]))
let o_ws c = let (w, _, _) = cc_get c in w
let o_alpha c = let (_, a, _) = cc_get c in a
let o_alnum c = let (_, _, n) = cc_get c in n
let vop_name (o : Expr.vop) = match svop o with A a -> a | _ -> "?"
let o_vparse t = match Stdlib.Hashtbl.find_opt t_vparse (key_of_text t) with
  | Some (A "err") -> None | Some v -> Some (rawver v) | None -> raise (Miss (L [A "vparse"; sstr t]))
let o_spec which tbl o t = match Stdlib.Hashtbl.find_opt tbl (vop_name o ^ ":" ^ key_of_text t) with
  | Some (A "err") -> None
  | Some (L [o2; rel]) -> Some (vop_ o2, nlist rel)
  | Some _ -> failwith "driver: spec entry"
  | None -> raise (Miss (L [A which; svop o; sstr t]))
let o_specparse t = match Stdlib.Hashtbl.find_opt t_spec (key_of_text t) with
  | Some (A "err") -> None
  | Some (L [A "ok"; key; txt]) -> Some { ReqParse.sp_key = nlist key; ReqParse.sp_text = str txt }
  | Some _ -> failwith "driver: spec table entry"
  | None -> raise (Miss (L [A "spec"; sstr t]))
let ukind_tag = function ReqParse.UParse -> "F" | ReqParse.UPath -> "P" | ReqParse.UFilePath -> "T"
let o_url k t = match Stdlib.Hashtbl.find_opt t_url (ukind_tag k ^ ":" ^ key_of_text t) with
  | Some (A "err") -> None
  | Some (L [A "ok"; d]) -> Some (str d)
  | Some _ -> failwith "driver: url table entry"
  | None -> raise (Miss (L [A "url"; A (ukind_tag k); sstr t]))
let o_getenv t = match Stdlib.Hashtbl.find_opt t_env (key_of_text t) with
  | Some (A "none") -> None
  | Some (L [A "ok"; v]) -> Some (str v)
  | Some _ -> failwith "driver: env table entry"
  | None -> raise (Miss (L [A "env"; sstr t]))
let swarn w = L (Stdlib.List.map (fun k -> A (wkind_s k)) w)
let sperr (e : MarkerParse.perr) = L [A "err"; ekind_s e.MarkerParse.e_kind; an e.MarkerParse.e_start; an e.MarkerParse.e_len]
let sopt f = function Some x -> f x | None -> A "none"
let skind = function
  | ReqParse.KNone -> A "none"
  | ReqParse.KSpecs l -> L (A "specs" :: Stdlib.List.map (fun sp -> L [L (Stdlib.List.map an sp.ReqParse.sp_key); sstr sp.ReqParse.sp_text]) l)
  | ReqParse.KUrl (d, g) -> L [A "url"; sstr d; sopt sstr g]

(* ---- typed marker syntax ---- *)
let rec mast (x : sexp) : Sem508.mast =
  match x with
  | L [A "e"; e] -> Sem508.AExpr (Some (mexpr e))
  | L [A "none"] -> Sem508.AExpr None
  | L [A "and"; a; b] -> Sem508.AAnd (mast a, mast b)
  | L [A "or"; a; b] -> Sem508.AOr (mast a, mast b)
  | _ -> failwith "driver: marker syntax expected"
let penv_ (rels : sexp) (strs_ : sexp) (extras : sexp) : Sem508.penv =
  let rt = match rels with L l -> Stdlib.List.map (function L [k; r] -> (num k, nlist r) | _ -> failwith "driver: penv") l | _ -> failwith "driver: penv" in
  let st = match strs_ with L l -> Stdlib.List.map (function L [k; s] -> (num k, str s) | _ -> failwith "driver: penv") l | _ -> failwith "driver: penv" in
  let rec find k = function [] -> None | (k', v) :: r -> if n_eq k k' then Some v else find k r in
  { Sem508.pe_release = (fun k -> match find k rt with Some v -> v | None -> failwith "driver: penv lacks a version key");
    Sem508.pe_string = (fun k -> match find k st with Some v -> v | None -> failwith "driver: penv lacks a string key");
    Sem508.pe_extras = strs extras }

(* ---- dispatch ---- *)
let rec run (cmd : sexp) : sexp =
  match cmd with
  | L [A "name"; s] ->
      let s = str s in
      let owned = NameModel.normalize_owned s in
      L [A "name";
         optres sstr (NameModel.normalize_ref s);
         optres sstr owned;
         bool_ (NameModel.valid_name s);
         sstr (NameModel.spec_norm false s);
         (match owned with Some n -> L [A "ok"; sstr (NameModel.dist_info n); sstr (NameModel.spec_dist_info n)] | None -> A "err")]
  | L [A "and"; a; b] -> stree (Concrete.m_and (tree a) (tree b))
  | L [A "or"; a; b] -> stree (Concrete.m_or (tree a) (tree b))
  | L [A "not"; a] -> stree (Concrete.m_not (tree a))
  | L [A "disjoint"; a; b] -> bool_ (Concrete.m_disjoint (tree a) (tree b))
  | L [A "wfb"; a] -> bool_ (Concrete.m_wfb (tree a))
  | L [A "eqb"; a; b] -> bool_ (Concrete.m_eqb (tree a) (tree b))
  | L [A "eval"; a; vs; ss; ex] -> bool_ (Concrete.m_eval (env_ vs ss) (strs ex) (tree a))
  | L [A "simpx"; a; ex] -> stree (Concrete.m_simplify_extras (strs ex) (tree a))
  | L [A "evalx"; a; ex] -> bool_ (Concrete.m_eval_extras (strs ex) (tree a))
  | L [A "evalxpv"; pvk; L vs; ex; a] ->
      bool_ (Concrete.m_eval_extras_pv (num pvk) (Stdlib.List.map (fun v -> match value v with Coq_inl x -> x | _ -> failwith "driver: version expected") vs) (strs ex) (tree a))
  | L [A "withextra"; pv; pfv; a; name] -> stree (ExtrasProofs.m_with_extra (num pv) (num pfv) (tree a) (str name))
  | L [A "simppv"; pfv; lo; hi; a] -> stree (Concrete.m_simplify_pv (num pfv) (optcut lo, optcut hi) (tree a))
  | L [A "cplxpv"; pfv; lo; hi; a] -> stree (Concrete.m_complexify_pv (num pfv) (optcut lo, optcut hi) (tree a))
  | L [A "cmp"; a; b] -> scmp (CmpConcrete.m_cmp (tree a) (tree b))
  | L [A "compl"; a] -> bool_ (Intern.m_compl (tree a))
  | L [A "nodes"; a] -> A (string_of_int (Stdlib.List.length (let rec f n = match n with Datatypes.O -> [] | Datatypes.S m -> () :: f m in f (Intern.m_nodes (tree a)))))
  | L (A "tab" :: rest) -> tab rest
  | L [A "pmarker"; t] ->
      (try
        let (pv, pfv) = !t_keys in
        (match MarkerParse.parse_markers o_ws o_alpha o_alnum !t_kw o_vparse (o_spec "specpat" t_specpat) (o_spec "specver" t_specver) pv pfv (str t) with
         | MarkerParse.POk (m, w) -> L [A "ok"; stree m; L (Stdlib.List.map (fun k -> A (wkind_s k)) w)]
         | MarkerParse.PErr e -> L [A "err"; ekind_s e.MarkerParse.e_kind; an e.MarkerParse.e_start; an e.MarkerParse.e_len])
      with Miss m -> L [A "oracle-miss"; m])
  | L [A "pexpr"; t] ->
      (try
        (match MarkerParse.parse_expression o_ws o_alpha !t_kw o_vparse (o_spec "specpat" t_specpat) (o_spec "specver" t_specver) (str t) with
         | MarkerParse.POk (e, w) -> L [A "ok"; (match e with Some e -> smexpr e | None -> A "none"); L (Stdlib.List.map (fun k -> A (wkind_s k)) w)]
         | MarkerParse.PErr e -> L [A "err"; ekind_s e.MarkerParse.e_kind; an e.MarkerParse.e_start; an e.MarkerParse.e_len])
      with Miss m -> L [A "oracle-miss"; m])
  | L [A "preq"; verb; ext; t] | L [A "showreq"; verb; ext; t; _] ->
      (try
        let (pv, pfv) = !t_keys in
        (match ReqParse.parse_requirement o_ws o_alpha o_alnum !t_kw o_vparse (o_spec "specpat" t_specpat) (o_spec "specver" t_specver) pv pfv
                 o_specparse o_url o_getenv !t_root (to_bool verb) (to_bool ext) (str t) with
         | MarkerParse.POk (r, w) ->
             (match cmd with
              | L [A "showreq"; _; _; _; mt] -> L [A "ok"; sstr (ReqParse.display_req r (match mt with A "none" -> None | m -> Some (str m)))]
              | _ -> L [A "ok"; sstr r.ReqParse.r_name; L (Stdlib.List.map sstr r.ReqParse.r_extras); skind r.ReqParse.r_kind;
                        sopt stree r.ReqParse.r_marker; swarn w])
         | MarkerParse.PErr e -> sperr e)
      with Miss m -> L [A "oracle-miss"; m])
  | L [A "punnamed"; t] | L [A "showunnamed"; t; _] ->
      (try
        let (pv, pfv) = !t_keys in
        (match ReqParse.parse_unnamed o_ws o_alpha o_alnum !t_kw o_vparse (o_spec "specpat" t_specpat) (o_spec "specver" t_specver) pv pfv
                 o_url o_getenv !t_root true (str t) with
         | MarkerParse.POk (r, w) ->
             (match cmd with
              | L [A "showunnamed"; _; mt] -> L [A "ok"; sstr (ReqParse.display_unnamed r (match mt with A "none" -> None | m -> Some (str m)))]
              | _ -> L [A "ok"; sstr r.ReqParse.u_disp; sopt sstr r.ReqParse.u_given; L (Stdlib.List.map sstr r.ReqParse.u_extras);
                        sopt stree r.ReqParse.u_marker; swarn w])
         | MarkerParse.PErr e -> sperr e)
      with Miss m -> L [A "oracle-miss"; m])
  | L [A "pextras"; t] ->
      (try
        (match ReqParse.parse_extras_text o_ws (str t) with
         | MarkerParse.POk l -> L [A "ok"; L (Stdlib.List.map sstr l)]
         | MarkerParse.PErr e -> sperr e)
      with Miss m -> L [A "oracle-miss"; m])
  | L [A "expand"; t] -> (try L [A "ok"; sstr (ReqParse.expand o_getenv !t_root (str t))] with Miss m -> L [A "oracle-miss"; m])
  | L [A "splitscheme"; t] -> (match ReqParse.split_scheme (str t) with Some (a, b) -> L [A "ok"; sstr a; sstr b] | None -> A "none")
  | L [A "splitextras"; t] -> (match ReqParse.split_extras (str t) with Some (a, b) -> L [A "ok"; sstr a; sstr b] | None -> A "none")
  | L [A "archive"; t] -> bool_ (ReqParse.looks_like_archive (str t))
  | L [A "striphost"; t] -> sstr (ReqParse.strip_host (str t))
  | L [A "showmarker"; pv; a] ->
      (try
        let keytext kind k = match Stdlib.Hashtbl.find_opt t_keytext (kind ^ ":" ^ string_of_n k) with Some t -> t | None -> failwith "driver: key text table" in
        let vshow rel = match Stdlib.Hashtbl.find_opt t_vshow (key_of_text rel) with
          | Some t -> str t | None -> raise (Miss (L [A "vshow"; L (Stdlib.List.map an rel)])) in
        (match MarkerDisplay.show_marker (keytext "ver") (keytext "str") vshow (fun _ -> failwith "driver: in-list member text") (num pv) (tree a) with
         | Some t -> L [A "ok"; sstr t] | None -> A "none")
      with Miss m -> L [A "oracle-miss"; m])
  | L [A "tlextra"; a] -> (match TopExtra.top_level_extra (tree a) with Some e -> L [A "some"; smexpr e] | None -> A "none")
  | L [A "dnf"; a] -> L (Stdlib.List.map (fun cl -> L (Stdlib.List.map smexpr cl)) (DnfModel.to_dnf (tree a)))
  | L [A "runi"; pv; pfv; L steps] -> run (L [A "runi"; pv; pfv; L steps; L []])
  | L [A "runi"; pv; pfv; L steps; L envs] ->
      (* a whole program with the crate's own recursions on ids: per step the raw id, the arena length, the cache length *)
      let rec nat_of_int i = if i <= 0 then Datatypes.O else Datatypes.S (nat_of_int (i - 1)) in
      let rec int_of_nat = function Datatypes.O -> 0 | Datatypes.S m -> 1 + int_of_nat m in
      let idx = function A a -> nat_of_int (int_of_string a) | _ -> failwith "driver: index expected" in
      let raw = function
        | Store.NTrue -> 0 | Store.NFalse -> 1
        | Store.NNode (i, c) -> ((int_of_nat i + 1) * 2) + (if c then 1 else 0) in
      let step_of = function
        | L [A "expr"; e] -> Intern.MExpr (mexpr e)
        | L [A "and"; i; j] -> Intern.MAnd (idx i, idx j)
        | L [A "or"; i; j] -> Intern.MOr (idx i, idx j)
        | L [A "not"; i] -> Intern.MNot (idx i)
        | L [A "simpx"; ex; i] -> Intern.MSimplifyExtras (strs ex, idx i)
        | L [A "simppv"; lo; hi; i] -> Intern.MSimplifyPv ((optcut lo, optcut hi), idx i)
        | L [A "cplxpv"; lo; hi; i] -> Intern.MComplexifyPv ((optcut lo, optcut hi), idx i)
        | _ -> failwith "driver: program step expected" in
      let st = ref InternI.init_i in
      let out = Stdlib.List.map (fun sx ->
        st := InternI.mstep_i (num pv) (num pfv) !st (step_of sx);
        let regs = (!st).InternI.si_regs in
        let last = Stdlib.List.nth regs (Stdlib.List.length regs - 1) in
        L [A (string_of_int (raw last)); A (string_of_int (Stdlib.List.length (!st).InternI.si_arena)); A (string_of_int (Stdlib.List.length (!st).InternI.si_cache));
           stree (Store.unfold (!st).InternI.si_arena last)]) steps in
      (* evaluation on ids (EvalModel.m_eval_i / m_eval_extras_i: the crate's walk over kind()) of every register in the final store, per environment *)
      let a = (!st).InternI.si_arena in
      let fuel = EvalModel.eval_fuel a in
      let ob = function Some true -> A "T" | Some false -> A "F" | None -> A "stuck" in
      let evals = Stdlib.List.map (function
        | L [rels; ss; ex] ->
            let e = penv_ rels ss ex in
            L (Stdlib.List.map (fun x -> L [ob (EvalModel.m_eval_i fuel a (Sem508.env_of_penv e) e.Sem508.pe_extras x); ob (EvalModel.m_eval_extras_i fuel a e.Sem508.pe_extras x)]) (!st).InternI.si_regs)
        | _ -> failwith "driver: environment expected") envs in
      (* the order on ids (CmpModel.m_cmp_i: the crate's Ord walk over kind()) for a band of register pairs of the final store *)
      let regs = Stdlib.Array.of_list (!st).InternI.si_regs in
      let n = Stdlib.Array.length regs in
      let oc = function Some Datatypes.Eq -> A "Eq" | Some Datatypes.Lt -> A "Lt" | Some Datatypes.Gt -> A "Gt" | None -> A "stuck" in
      let cmps = ref [] in
      for i = n - 1 downto 0 do
        for d = 3 downto 0 do
          let j = (i * 7 + d * 5 + 1) mod (if n = 0 then 1 else n) in
          let dfuel = nat_of_int (2 * (int_of_nat (EvalModel.eval_fuel a)) + 2) in
          cmps := L [A (string_of_int i); A (string_of_int j); oc (CmpModel.m_cmp_i a regs.(i) regs.(j));
                     bool_ (Extract.m_disjoint_i dfuel a regs.(i) regs.(j)); bool_ (Extract.m_disjoint_i dfuel a regs.(i) (Store.nnot regs.(j)))] :: !cmps
        done
      done;
      L (A "ok" :: out @ (if envs = [] then [] else [L (A "cmps" :: !cmps); L (A "evals" :: evals)]))
  | L [A "sem508"; pv; pfv; rels; ss; ex; a] ->
      let e = penv_ rels ss ex in
      let t = Sem508.compile (num pv) (num pfv) (mast a) in
      L [bool_ (Sem508.sem508 (num pv) (num pfv) e (mast a)); bool_ (Concrete.m_eval (Sem508.env_of_penv e) e.Sem508.pe_extras t); stree t]
  | L [A "compile"; pv; pfv; a] -> stree (Sem508.compile (num pv) (num pfv) (mast a))
  | L [A "valcmp"; a; b] -> scmp (Concrete.m_val_cmp (value a) (value b))
  | L [A "varcmp"; a; b] -> scmp (Concrete.m_var_cmp (var_ a) (var_ b))
  | L [A "substring"; a; b] -> bool_ (Concrete.substring (str a) (str b))
  | L [A "expr"; pv; pfv; e] -> stree (Expr.expression (num pv) (num pfv) (mexpr e))
  | L [A "specrange"; op; rel] -> let op = vop_ op in srange (Expr.spec_range op (Expr.normalize_spec op (nlist rel)))
  | L [A "echo"; a] -> stree (tree a)
  | L (A op :: _) -> L [A "unknown-op"; A op]
  | _ -> failwith "driver: bad command"

let () =
  let b = Stdlib.Buffer.create 65536 in
  (try
     while true do
       let line = input_line stdin in
       if Stdlib.String.trim line <> "" then begin
         Stdlib.Buffer.clear b;
         (try print b (run (parse line))
          with Failure m -> Stdlib.Buffer.add_string b ("(driver-failure " ^ Stdlib.String.escaped m ^ ")")
             | Not_found -> Stdlib.Buffer.add_string b "(driver-failure not-found)"
             | Stack_overflow -> Stdlib.Buffer.add_string b "(driver-failure stack-overflow)");
         Stdlib.Buffer.add_char b '\n';
         print_string (Stdlib.Buffer.contents b);
         flush stdout
       end
     done
   with End_of_file -> ())
