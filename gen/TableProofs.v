(** Theorems about the tables that [tools/gentables.py] regenerates from the crate source on every run
    ([Gen/Tables.v]): operator inversion / negation / spelling, the keyword table of marker variables, their
    Display names, the environment accessors, the archive extensions.

    Each table is compared with (a) a specification written down here from PEP 508 / PEP 440 / pip, independent
    of the crate, and (b) the corresponding definition of the hand-written model, so that the theorems of the
    model speak about what the source says now.  All domains are finite: the proofs are case analyses closed by
    computation, which is a proof, not a sample.

    Not in _CoqProject on purpose: a change of a table must break only the obligations of the properties that rest
    on it, not the build of everything (lib/vlib/framework.py compiles this file on demand after the main build). *)
From Coq Require Import List String Ascii Bool NArith.
From PV Require Import Base.Order Base.CutDef DD.DDModel Marker.Concrete Marker.Expr Marker.DnfModel
  Text.Cursor Text.MarkerParse Text.MarkerDisplay Text.ReqParse.
From PVGen Require Import Tables.
Import ListNotations.
Open Scope string_scope.

(** * operators *)

(** what a comparison operator means on the outcome of comparing the key's value with the literal *)
Definition holds (o : rop) (c : comparison) : option bool :=
  match o, c with
  | O_Equal, Eq => Some true | O_Equal, _ => Some false
  | O_NotEqual, Eq => Some false | O_NotEqual, _ => Some true
  | O_LessThan, Lt => Some true | O_LessThan, _ => Some false
  | O_LessEqual, Gt => Some false | O_LessEqual, _ => Some true
  | O_GreaterThan, Gt => Some true | O_GreaterThan, _ => Some false
  | O_GreaterEqual, Lt => Some false | O_GreaterEqual, _ => Some true
  | _, _ => None                      (* ~=, in, not in, contains: not functions of the ordering outcome *)
  end.

(** [invert] is for `'literal' OP key`: the same comparison read from the other side *)
Theorem invert_mirrors : forall o c b, holds o c = Some b -> holds (invert o) (CompOpp c) = Some b.
Proof. intros o c b; destruct o, c; cbn; intros H; try discriminate; exact H. Qed.

Theorem invert_involutive : forall o, invert (invert o) = o.
Proof. intros o; destruct o; reflexivity. Qed.

Theorem invert_containment : invert O_In = O_Contains /\ invert O_NotIn = O_NotContains /\
  invert O_Contains = O_In /\ invert O_NotContains = O_NotIn /\ invert O_TildeEqual = O_TildeEqual.
Proof. repeat split; reflexivity. Qed.

(** [negate] is the logical complement; only ~= has none *)
Theorem negate_complements : forall o o' c b, negate o = Some o' -> holds o c = Some b -> holds o' c = Some (negb b).
Proof. intros o o' c b; destruct o, c; cbn; intros H1 H2; try discriminate; injection H1 as <-; injection H2 as <-; reflexivity. Qed.

Theorem negate_involutive : forall o o', negate o = Some o' -> negate o' = Some o.
Proof. intros o o'; destruct o; cbn; intros H; try discriminate; injection H as <-; reflexivity. Qed.

Theorem negate_none_iff : forall o, negate o = None <-> o = O_TildeEqual.
Proof. intros o; destruct o; cbn; split; intros H; try discriminate; reflexivity. Qed.

Theorem negate_containment : negate O_In = Some O_NotIn /\ negate O_NotIn = Some O_In /\
  negate O_Contains = Some O_NotContains /\ negate O_NotContains = Some O_Contains.
Proof. repeat split; reflexivity. Qed.

(** the hand-written model's operators *)
Definition to_mop (o : rop) : option mop :=
  match o with
  | O_Equal => Some OpEq | O_NotEqual => Some OpNe | O_GreaterThan => Some OpGt | O_GreaterEqual => Some OpGe
  | O_LessThan => Some OpLt | O_LessEqual => Some OpLe | O_TildeEqual => Some OpTilde
  | O_In => Some OpIn | O_NotIn => Some OpNotIn | O_Contains | O_NotContains => None
  end.
Definition to_sop (o : rop) : option sop :=
  match o with
  | O_Equal => Some SEq | O_NotEqual => Some SNe | O_GreaterThan => Some SGt | O_GreaterEqual => Some SGe
  | O_LessThan => Some SLt | O_LessEqual => Some SLe | _ => None
  end.
Definition to_vop (o : rop) : option vop :=
  match o with
  | O_Equal => Some OEq | O_NotEqual => Some ONe | O_GreaterThan => Some OGt | O_GreaterEqual => Some OGe
  | O_LessThan => Some OLt | O_LessEqual => Some OLe | O_TildeEqual => Some OTilde | _ => None
  end.

(** the model's [invert] (Text/MarkerParse.v) is the source's on every operator a text can contain; the two
    containment operators exist only as results of inverting in / not in, which the model expresses by the
    constructors [EContains] / [EIn] *)
Theorem invert_is_model : forall o m, to_mop o = Some m -> o <> O_In -> o <> O_NotIn ->
  to_mop (Tables.invert o) = Some (MarkerParse.invert m).
Proof. intros o m; destruct o; cbn; intros H N1 N2; try discriminate; try (injection H as <-; reflexivity); congruence. Qed.

(** the model's negation table of string comparisons (Marker/DnfModel.v, used by the DNF simplifier) *)
Theorem negate_is_model_sop : forall o s, to_sop o = Some s ->
  exists o', negate o = Some o' /\ to_sop o' = Some (sop_negate s).
Proof. intros o s; destruct o; cbn; intros H; try discriminate; injection H as <-; eexists; split; reflexivity. Qed.

(** spelling: FromStr arms and Display *)
Fixpoint lookup {A} (l : list (string * A)) (s : string) : option A :=
  match l with [] => None | (k, v) :: l' => if String.eqb k s then Some v else lookup l' s end.

Lemma lookup_In {A} (l : list (string * A)) (s : string) (v : A) : lookup l s = Some v -> In (s, v) l.
Proof.
  induction l as [|[k w] l IH]; cbn; [discriminate|]. destruct (String.eqb_spec k s) as [->|_].
  - intros [= ->]. now left.
  - intros H. right. now apply IH.
Qed.

Definition T (s : string) : text := ReqParse.T s.

Theorem op_text_parses_back : forall o, o <> O_Contains -> o <> O_NotContains -> o <> O_NotIn ->
  lookup op_of_text (op_text o) = Some o.
Proof. intros o; destruct o; cbn; intros; try reflexivity; congruence. Qed.

Theorem op_text_containment : op_text O_Contains = op_text O_In /\ op_text O_NotContains = op_text O_NotIn /\
  op_text O_NotIn = "not in".
Proof. repeat split; reflexivity. Qed.

Theorem op_of_text_is_pep508 : map fst op_of_text = ["=="; "!="; ">"; ">="; "<"; "<="; "~="; "in"] /\ NoDup (map fst op_of_text).
Proof.
  split; [reflexivity|]. cbn. repeat (constructor; [cbn; intuition discriminate|]). constructor.
Qed.

(** the model's operator recogniser and printers use the same spellings *)
Theorem op_of_text_is_model : forall s o, In (s, o) op_of_text -> MarkerParse.op_of_text (T s) = to_mop o.
Proof.
  intros s o H. cbn in H.
  repeat (destruct H as [H|H]; [injection H as <- <-; vm_compute; reflexivity|]). destruct H.
Qed.

Theorem op_text_is_model_sop : forall o s, to_sop o = Some s -> T (op_text o) = sop_text s.
Proof. intros o s; destruct o; cbn; intros H; try discriminate; injection H as <-; vm_compute; reflexivity. Qed.

Theorem op_text_is_model_vop : forall o v, to_vop o = Some v -> T (op_text o) = vop_text v.
Proof. intros o v; destruct o; cbn; intros H; try discriminate; injection H as <-; vm_compute; reflexivity. Qed.

Theorem in_text_is_model : T (op_text O_In) = in_text false /\ T (op_text O_NotIn) = in_text true.
Proof. split; vm_compute; reflexivity. Qed.

(** * marker variables *)

(** PEP 508 (and the deprecated PEP 345 spellings the crate accepts): which environment value a name denotes *)
Definition pep508_field (name : string) : option field :=
  lookup [("os_name", F_os_name); ("sys_platform", F_sys_platform); ("platform_machine", F_platform_machine);
          ("platform_python_implementation", F_platform_python_implementation); ("platform_release", F_platform_release);
          ("platform_system", F_platform_system); ("platform_version", F_platform_version);
          ("python_version", F_python_version); ("python_full_version", F_python_full_version);
          ("implementation_name", F_implementation_name); ("implementation_version", F_implementation_version);
          ("os.name", F_os_name); ("sys.platform", F_sys_platform); ("platform.version", F_platform_version);
          ("platform.machine", F_platform_machine); ("platform.python_implementation", F_platform_python_implementation);
          ("python_implementation", F_platform_python_implementation)] name.

Definition field_of (v : kwv) : option field :=
  match v with KwString k => Some (get_string k) | KwVersion k => Some (get_version k) | KwExtra => None end.

(** every name the parser knows reads the environment value PEP 508 gives that name, and `extra` is `extra` *)
Theorem keyword_reads_its_own_field : forall name v, In (name, v) kw_table ->
  (v = KwExtra /\ name = "extra") \/ (field_of v <> None /\ field_of v = pep508_field name).
Proof.
  intros name v H. cbn in H.
  repeat (destruct H as [H|H]; [injection H as <- <-; (left; split; reflexivity) || (right; split; [discriminate|reflexivity])|]).
  destruct H.
Qed.

(** every PEP 508 name is known, once *)
Theorem keyword_table_complete : forall name f, pep508_field name = Some f -> exists v, lookup kw_table name = Some v /\ field_of v = Some f.
Proof.
  intros name f H. unfold pep508_field in H. apply lookup_In in H. cbn in H.
  repeat (destruct H as [H|H]; [injection H as <- <-; eexists; split; reflexivity|]). destruct H.
Qed.

Theorem keyword_table_nodup : NoDup (map fst kw_table).
Proof. cbn. repeat (constructor; [cbn; intuition discriminate|]). constructor. Qed.

(** version-valued names are exactly the three version keys; all others are strings *)
Theorem keyword_kinds : forall name v, In (name, v) kw_table ->
  match v with
  | KwVersion _ => In name ["python_version"; "python_full_version"; "implementation_version"]
  | KwString _ => ~ In name ["python_version"; "python_full_version"; "implementation_version"; "extra"]
  | KwExtra => name = "extra"
  end.
Proof.
  intros name v H. cbn in H.
  repeat (destruct H as [H|H]; [injection H as <- <-; cbn; try reflexivity; try tauto; intuition discriminate|]). destruct H.
Qed.

(** Display gives a name that parses to a key with the same meaning and the same Display: rendering normalises the
    deprecated spellings and is stable afterwards *)
Theorem skey_display_roundtrip : forall k, exists k',
  lookup kw_table (skey_text k) = Some (KwString k') /\ get_string k' = get_string k /\ skey_text k' = skey_text k.
Proof. intros k; destruct k; eexists; cbn; repeat split; reflexivity. Qed.

Theorem vkey_display_roundtrip : forall k, lookup kw_table (vkey_text k) = Some (KwVersion k).
Proof. intros k; destruct k; reflexivity. Qed.

(** Display is the PEP 508 name of the value the key reads (never a deprecated spelling) *)
Theorem skey_display_is_modern : forall k, pep508_field (skey_text k) = Some (get_string k) /\
  ~ In (skey_text k) ["os.name"; "sys.platform"; "platform.version"; "platform.machine"; "platform.python_implementation"; "python_implementation"].
Proof. intros k; destruct k; split; try reflexivity; cbn; intuition discriminate. Qed.

Theorem vkey_display_is_modern : forall k, pep508_field (vkey_text k) = Some (get_version k).
Proof. intros k; destruct k; reflexivity. Qed.

(** the key indices of the model are positions in declaration order (`key as usize` in the harness) *)
Fixpoint index_of {A} (eqb : A -> A -> bool) (x : A) (l : list A) : N :=
  match l with [] => 0%N | y :: l' => if eqb x y then 0%N else N.succ (index_of eqb x l') end.
Definition skey_eqb (a b : skey) : bool := String.eqb (skey_text a) (skey_text b) &&
  match a, b with
  | S_ImplementationName, S_ImplementationName | S_OsName, S_OsName | S_OsNameDeprecated, S_OsNameDeprecated
  | S_PlatformMachine, S_PlatformMachine | S_PlatformMachineDeprecated, S_PlatformMachineDeprecated
  | S_PlatformPythonImplementation, S_PlatformPythonImplementation
  | S_PlatformPythonImplementationDeprecated, S_PlatformPythonImplementationDeprecated
  | S_PythonImplementationDeprecated, S_PythonImplementationDeprecated | S_PlatformRelease, S_PlatformRelease
  | S_PlatformSystem, S_PlatformSystem | S_PlatformVersion, S_PlatformVersion
  | S_PlatformVersionDeprecated, S_PlatformVersionDeprecated | S_SysPlatform, S_SysPlatform
  | S_SysPlatformDeprecated, S_SysPlatformDeprecated => true
  | _, _ => false
  end.
Definition vkey_eqb (a b : vkey) : bool :=
  match a, b with
  | V_ImplementationVersion, V_ImplementationVersion | V_PythonFullVersion, V_PythonFullVersion | V_PythonVersion, V_PythonVersion => true
  | _, _ => false
  end.
Definition to_mvalue (v : kwv) : mvalue :=
  match v with
  | KwString k => MVString (index_of skey_eqb k skey_all)
  | KwVersion k => MVVersion (index_of vkey_eqb k vkey_all)
  | KwExtra => MVExtra
  end.
(** the keyword table in the form the model's parser takes as its [kw] argument *)
Definition source_kw : list (text * mvalue) := map (fun p => (T (fst p), to_mvalue (snd p))) kw_table.

Theorem source_kw_lookup : forall name v, In (name, v) kw_table -> lookup_kw source_kw (T name) = Some (to_mvalue v).
Proof.
  intros name v H. cbn in H.
  repeat (destruct H as [H|H]; [injection H as <- <-; vm_compute; reflexivity|]). destruct H.
Qed.

Theorem skey_all_complete : forall k, In k skey_all.
Proof. intros k; destruct k; cbn; tauto. Qed.
Theorem vkey_all_complete : forall k, In k vkey_all.
Proof. intros k; destruct k; cbn; tauto. Qed.
Theorem rop_all_complete : forall o, In o rop_all.
Proof. intros o; destruct o; cbn; tauto. Qed.

(** * archive extensions *)

(** pip's ARCHIVE_EXTENSIONS + the wheel extension (pip/_internal/utils/filetypes.py), as the crate splits them:
    a last extension that is enough by itself, and a last extension that counts after `.tar` *)
Theorem archive_ext_is_pip : archive_ext = ["whl"; "tbz"; "txz"; "tlz"; "zip"; "tgz"; "tar"] /\
  archive_tar_ext = ["bz2"; "xz"; "lz"; "lzma"; "gz"].
Proof. split; reflexivity. Qed.

(** the model's [looks_like_archive] (Text/ReqParse.v) with the lists of the source *)
Definition looks_like_archive_src (p : text) : bool :=
  match path_extension p with
  | None => false
  | Some ext =>
      mem_text ext (map T archive_ext) ||
      (match file_name p with
       | Some f => match path_extension (file_stem f) with Some pre => str_eqb pre (T "tar") | None => false end
       | None => false
       end && mem_text ext (map T archive_tar_ext))
  end.
Theorem looks_like_archive_is_model : forall p, looks_like_archive_src p = looks_like_archive p.
Proof. intros p. reflexivity. Qed.

(** * the variable order of the diagrams *)

(** `Variable` (src/marker/algebra.rs) and `MarkerValueExtra` derive [Ord]: variants compare in declaration order, then
    field by field.  The model's [var_code] (Marker/Concrete.v) numbers the kinds of variable in that order and puts
    valid extra names before arbitrary ones, so [var_cmp] is the source's order *)
Definition var_kind_name (v : var) : string :=
  match v with
  | VVersion _ => "Version" | VString _ => "String" | VIn _ _ => "In" | VContains _ _ => "Contains" | VExtra _ _ => "Extra"
  end.
Fixpoint sindex (x : string) (l : list string) : N :=
  match l with nil => 0%N | cons y l' => if String.eqb x y then 0%N else N.succ (sindex x l') end.

Theorem variable_order_is_model : forall v, fst (var_code v) = sindex (var_kind_name v) variable_order.
Proof. intros v; destruct v; reflexivity. Qed.

Theorem variable_order_covers : forall v, List.In (var_kind_name v) variable_order /\ NoDup variable_order /\ List.length variable_order = 5%nat.
Proof.
  intros v. split; [destruct v; cbn; tauto|]. split; [|reflexivity].
  cbn. repeat (constructor; [cbn; intuition discriminate|]). constructor.
Qed.

Theorem extra_value_order_is_model : forall a s, fst (snd (snd (var_code (VExtra a s)))) = a /\
  sindex (if a then "Arbitrary" else "Extra") extra_value_order = (if a then 1 else 0)%N.
Proof. intros a s; destruct a; split; reflexivity. Qed.

(** * URL schemes (src/verbatim_url.rs [Scheme]) *)

Theorem scheme_display_parses_back : forall x : Tables.scheme, lookup scheme_of_text (scheme_text x) = Some x.
Proof. intros x; destruct x; reflexivity. Qed.

Theorem scheme_table_nodup : NoDup (map fst scheme_of_text) /\ List.length scheme_of_text = List.length scheme_all.
Proof. split; [|reflexivity]. cbn. repeat (constructor; [cbn; intuition discriminate|]). constructor. Qed.

(** the model's scheme recogniser (Text/ReqParse.v [scheme_parse]: `file`, or one of [other_schemes]) uses exactly the
    texts of the source's table, split by [is_file] *)
Theorem scheme_lists_are_model :
  map (fun p => T (fst p)) (filter (fun p => negb (scheme_is_file (snd p))) scheme_of_text) = ReqParse.other_schemes /\
  map fst (filter (fun p => scheme_is_file (snd p)) scheme_of_text) = ["file"].
Proof. split; reflexivity. Qed.

Theorem scheme_parse_is_model : forall s x, List.In (s, x) scheme_of_text ->
  ReqParse.scheme_parse (T s) = Some (if scheme_is_file x then SFile else SOther).
Proof.
  intros s x H. cbn in H.
  repeat (destruct H as [H|H]; [injection H as <- <-; vm_compute; reflexivity|]). destruct H.
Qed.

(** * marker operator -> PEP 440 operator (used for version keys) *)
Definition vop_name (v : vop) : string :=
  match v with
  | OEq => "Equal" | OEqStar => "EqualStar" | OExact => "ExactEqual" | ONe => "NotEqual" | ONeStar => "NotEqualStar"
  | OTilde => "TildeEqual" | OLt => "LessThan" | OLe => "LessThanEqual" | OGt => "GreaterThan" | OGe => "GreaterThanEqual"
  end.

(** the model's [vop_of] (Text/MarkerParse.v) is the source's [to_pep440_operator] *)
Theorem to_pep440_is_model : forall o m, to_mop o = Some m ->
  to_pep440_operator o = option_map vop_name (MarkerParse.vop_of m).
Proof. intros o m; destruct o; cbn; intros H; try discriminate; injection H as <-; reflexivity. Qed.

(** ... and it names the PEP 440 operator with the same meaning on the outcome of a comparison *)
Theorem to_pep440_same_meaning : forall o n c b, to_pep440_operator o = Some n -> holds o c = Some b ->
  n = match o with O_Equal => "Equal" | O_NotEqual => "NotEqual" | O_GreaterThan => "GreaterThan" | O_GreaterEqual => "GreaterThanEqual"
             | O_LessThan => "LessThan" | O_LessEqual => "LessThanEqual" | _ => n end.
Proof. intros o n c b; destruct o; cbn; intros H1 H2; try discriminate; injection H1 as <-; reflexivity. Qed.
