(** C20 — "one fixed global order": the derived order of the source's `Variable` enum is the order of the model's
    variables, which the ordered-ness theorems are about. *)
From Coq Require Import List String Bool NArith.
From PV Require Import Base.Order Marker.Concrete.
From PVGen Require Import Tables TableProofs.
Import ListNotations.
Open Scope string_scope.

Theorem C20_tab_variable_order_is_model : forall v, fst (var_code v) = sindex (var_kind_name v) variable_order.
Proof. exact variable_order_is_model. Qed.

Theorem C20_tab_variable_order_covers : forall v, List.In (var_kind_name v) variable_order /\ NoDup variable_order /\ List.length variable_order = 5%nat.
Proof. exact variable_order_covers. Qed.

Theorem C20_tab_extra_value_order_is_model : forall a s, fst (snd (snd (var_code (VExtra a s)))) = a /\
  sindex (if a then "Arbitrary" else "Extra") extra_value_order = (if a then 1 else 0)%N.
Proof. exact extra_value_order_is_model. Qed.

Print Assumptions C20_tab_variable_order_is_model.
Print Assumptions C20_tab_variable_order_covers.
Print Assumptions C20_tab_extra_value_order_is_model.
