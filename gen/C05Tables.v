(** C05 — the tables of the source that rendering rests on: Display of keys and operators parses back to a key /
    operator with the same meaning, and [negate] (used by the DNF simplifier) is the logical complement. *)
From Coq Require Import List String Bool NArith.
From PV Require Import Marker.Expr Marker.DnfModel Text.MarkerDisplay.
From PVGen Require Import Tables TableProofs.
Import ListNotations.
Open Scope string_scope.

Theorem C05_tab_skey_display_roundtrip : forall k, exists k',
  lookup kw_table (skey_text k) = Some (KwString k') /\ get_string k' = get_string k /\ skey_text k' = skey_text k.
Proof. exact skey_display_roundtrip. Qed.

Theorem C05_tab_vkey_display_roundtrip : forall k, lookup kw_table (vkey_text k) = Some (KwVersion k).
Proof. exact vkey_display_roundtrip. Qed.

Theorem C05_tab_skey_display_is_modern : forall k, pep508_field (skey_text k) = Some (get_string k) /\
  ~ In (skey_text k) ["os.name"; "sys.platform"; "platform.version"; "platform.machine"; "platform.python_implementation"; "python_implementation"].
Proof. exact skey_display_is_modern. Qed.

Theorem C05_tab_op_text_parses_back : forall o, o <> O_Contains -> o <> O_NotContains -> o <> O_NotIn ->
  lookup op_of_text (op_text o) = Some o.
Proof. exact op_text_parses_back. Qed.

Theorem C05_tab_op_text_containment : op_text O_Contains = op_text O_In /\ op_text O_NotContains = op_text O_NotIn /\
  op_text O_NotIn = "not in".
Proof. exact op_text_containment. Qed.

Theorem C05_tab_op_text_is_model : (forall o s, to_sop o = Some s -> T (op_text o) = sop_text s) /\
  (forall o v, to_vop o = Some v -> T (op_text o) = vop_text v) /\
  T (op_text O_In) = in_text false /\ T (op_text O_NotIn) = in_text true.
Proof. split; [exact op_text_is_model_sop|]. split; [exact op_text_is_model_vop|]. exact in_text_is_model. Qed.

Theorem C05_tab_negate_complements : forall o o' c b, negate o = Some o' -> holds o c = Some b -> holds o' c = Some (negb b).
Proof. exact negate_complements. Qed.

Theorem C05_tab_negate_involutive : forall o o', negate o = Some o' -> negate o' = Some o.
Proof. exact negate_involutive. Qed.

Theorem C05_tab_negate_is_model : forall o s, to_sop o = Some s -> exists o', negate o = Some o' /\ to_sop o' = Some (sop_negate s).
Proof. exact negate_is_model_sop. Qed.

Print Assumptions C05_tab_skey_display_roundtrip.
Print Assumptions C05_tab_vkey_display_roundtrip.
Print Assumptions C05_tab_skey_display_is_modern.
Print Assumptions C05_tab_op_text_parses_back.
Print Assumptions C05_tab_op_text_containment.
Print Assumptions C05_tab_op_text_is_model.
Print Assumptions C05_tab_negate_complements.
Print Assumptions C05_tab_negate_involutive.
Print Assumptions C05_tab_negate_is_model.
