(** C07 — the grammar's terminals as the source has them: every PEP 508 marker variable and every comparison
    operator of the grammar is known, once, with the meaning PEP 508 gives it. *)
From Coq Require Import List String Bool NArith.
From PV Require Import Text.Cursor Text.MarkerParse.
From PVGen Require Import Tables TableProofs.
Import ListNotations.
Open Scope string_scope.

Theorem C07_tab_keyword_table_complete : forall name f, pep508_field name = Some f ->
  exists v, lookup kw_table name = Some v /\ field_of v = Some f.
Proof. exact keyword_table_complete. Qed.

Theorem C07_tab_keyword_table_nodup : NoDup (map fst kw_table).
Proof. exact keyword_table_nodup. Qed.

Theorem C07_tab_keyword_kinds : forall name v, In (name, v) kw_table ->
  match v with
  | KwVersion _ => In name ["python_version"; "python_full_version"; "implementation_version"]
  | KwString _ => ~ In name ["python_version"; "python_full_version"; "implementation_version"; "extra"]
  | KwExtra => name = "extra"
  end.
Proof. exact keyword_kinds. Qed.

Theorem C07_tab_operators : map fst op_of_text = ["=="; "!="; ">"; ">="; "<"; "<="; "~="; "in"] /\ NoDup (map fst op_of_text).
Proof. exact op_of_text_is_pep508. Qed.

Print Assumptions C07_tab_keyword_table_complete.
Print Assumptions C07_tab_keyword_table_nodup.
Print Assumptions C07_tab_keyword_kinds.
Print Assumptions C07_tab_operators.
