(** C19 — the archive extensions of the source are pip's, and the model's [looks_like_archive] uses them. *)
From Coq Require Import List String Bool NArith.
From PV Require Import Text.Cursor Text.ReqParse.
From PVGen Require Import Tables TableProofs.
Import ListNotations.
Open Scope string_scope.

Theorem C19_tab_archive_ext_is_pip : archive_ext = ["whl"; "tbz"; "txz"; "tlz"; "zip"; "tgz"; "tar"] /\
  archive_tar_ext = ["bz2"; "xz"; "lz"; "lzma"; "gz"].
Proof. exact archive_ext_is_pip. Qed.

Theorem C19_tab_looks_like_archive_is_model : forall p, looks_like_archive_src p = looks_like_archive p.
Proof. exact looks_like_archive_is_model. Qed.

Print Assumptions C19_tab_archive_ext_is_pip.
Print Assumptions C19_tab_looks_like_archive_is_model.
