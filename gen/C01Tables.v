(** C01 — the tables of the source that the meaning of a marker text rests on (regenerated from /repo/src on every run):
    operand order (`'literal' OP key` is read through [invert]), the keyword table of marker variables, and the
    environment accessors. *)
From Coq Require Import List String Bool NArith.
From PV Require Import Text.Cursor Text.MarkerParse.
From PVGen Require Import Tables TableProofs.
Import ListNotations.
Open Scope string_scope.

Theorem C01_tab_invert_mirrors : forall o c b, holds o c = Some b -> holds (Tables.invert o) (CompOpp c) = Some b.
Proof. exact invert_mirrors. Qed.

Theorem C01_tab_invert_is_model : forall o m, to_mop o = Some m -> o <> O_In -> o <> O_NotIn ->
  to_mop (Tables.invert o) = Some (MarkerParse.invert m).
Proof. exact invert_is_model. Qed.

Theorem C01_tab_invert_containment : Tables.invert O_In = O_Contains /\ Tables.invert O_NotIn = O_NotContains /\
  Tables.invert O_Contains = O_In /\ Tables.invert O_NotContains = O_NotIn /\ Tables.invert O_TildeEqual = O_TildeEqual.
Proof. exact invert_containment. Qed.

Theorem C01_tab_keyword_reads_its_own_field : forall name v, In (name, v) kw_table ->
  (v = KwExtra /\ name = "extra") \/ (field_of v <> None /\ field_of v = pep508_field name).
Proof. exact keyword_reads_its_own_field. Qed.

Theorem C01_tab_keyword_table_complete : forall name f, pep508_field name = Some f ->
  exists v, lookup kw_table name = Some v /\ field_of v = Some f.
Proof. exact keyword_table_complete. Qed.

Theorem C01_tab_operator_spellings : forall s o, In (s, o) op_of_text -> MarkerParse.op_of_text (T s) = to_mop o.
Proof. exact op_of_text_is_model. Qed.

Theorem C01_tab_source_kw : forall name v, In (name, v) kw_table -> lookup_kw source_kw (T name) = Some (to_mvalue v).
Proof. exact source_kw_lookup. Qed.

Print Assumptions C01_tab_invert_mirrors.
Print Assumptions C01_tab_invert_is_model.
Print Assumptions C01_tab_invert_containment.
Print Assumptions C01_tab_keyword_reads_its_own_field.
Print Assumptions C01_tab_keyword_table_complete.
Print Assumptions C01_tab_operator_spellings.
Print Assumptions C01_tab_source_kw.

Theorem C01_tab_to_pep440_is_model : forall o m, to_mop o = Some m ->
  to_pep440_operator o = option_map vop_name (MarkerParse.vop_of m).
Proof. exact to_pep440_is_model. Qed.
Print Assumptions C01_tab_to_pep440_is_model.
