(** C18 / C19 — which texts count as a URL scheme: the source's table is the model's, and Display parses back. *)
From Coq Require Import List String Bool NArith.
From PV Require Import Text.Cursor Text.ReqParse.
From PVGen Require Import Tables TableProofs.
Import ListNotations.
Open Scope string_scope.

Theorem C18_tab_scheme_display_parses_back : forall x : Tables.scheme, lookup scheme_of_text (scheme_text x) = Some x.
Proof. exact scheme_display_parses_back. Qed.

Theorem C18_tab_scheme_lists_are_model :
  map (fun p => T (fst p)) (filter (fun p => negb (scheme_is_file (snd p))) scheme_of_text) = ReqParse.other_schemes /\
  map fst (filter (fun p => scheme_is_file (snd p)) scheme_of_text) = ["file"].
Proof. exact scheme_lists_are_model. Qed.

Theorem C18_tab_scheme_parse_is_model : forall s x, List.In (s, x) scheme_of_text ->
  ReqParse.scheme_parse (T s) = Some (if scheme_is_file x then SFile else SOther).
Proof. exact scheme_parse_is_model. Qed.

Print Assumptions C18_tab_scheme_display_parses_back.
Print Assumptions C18_tab_scheme_lists_are_model.
Print Assumptions C18_tab_scheme_parse_is_model.
