"""Running the extracted text-layer model with oracle tables filled on demand from the crate's dependencies."""
import re

from . import build, framework as fw, markers, trees
from .sexp import S, unS, dump, is_S

OPS = ['eq', 'ne', 'gt', 'ge', 'lt', 'le', 'tilde']


def err_kind(msg):
    """small enum of the crate's marker error messages (messages are compared by kind only)"""
    m = msg
    if m.startswith('Expected marker value, found end'):
        return 'value-end'
    if m.startswith('Expected a quoted string or a valid marker name'):
        return 'value-name'
    if m.startswith('Expected a valid marker operator'):
        return 'operator'
    if m.startswith("Expected whitespace after 'not', found end"):
        return 'not-end'
    if m.startswith('Expected whitespace after `not`'):
        return 'not-other'
    mm = re.match(r"^Expected '(.)', found end of dependency specification", m, flags=re.S)
    if mm:
        return ['char-end', str(ord(mm.group(1)))]
    mm = re.match(r"^Expected `(.)`, found `", m, flags=re.S)
    if mm:
        return ['char-other', str(ord(mm.group(1)))]
    if "expected 'and', 'or' or end of input" in m:
        return 'unexpected-andor'
    if m.startswith('Unexpected character') and 'expected end of input' in m:
        return 'unexpected-end'
    return 'other:' + m[:60]


class MarkerTextModel:
    """the extracted marker parser with oracle tables kept inside the driver process and filled on demand"""

    def __init__(self, harness_proc, keys):
        self.h = harness_proc
        self.keys = keys
        self.drv = fw.Proc(build.DRIVER)
        kw = [[S(sp), [kind, idx]] for sp, (kind, idx) in keys.spelling.items()] + [[S('extra'), 'extra']]
        self.drv.ask(['tab', 'kw', kw])
        self.drv.ask(['tab', 'keys', keys.spelling['python_version'][1], keys.spelling['python_full_version'][1]])
        self.misses = 0
        self.cc = {}

    def close(self):
        self.drv.close()

    def _spec(self, which, op, t):
        r = self.h.ask([which, op, t])
        if r == 'err' or r[0] != 'ok':
            return 'err'
        o, v = r[1]
        return [o, [str(int(x)) for x in v[2]]]

    def _fill(self, miss):
        self.misses += 1
        kind = miss[0]
        if kind == 'cc':
            r = self.h.ask(['cc', miss[1]])
            self.cc[int(miss[1])] = r
            self.drv.ask(['tab', 'cc', miss[1], r[1], r[2], r[3]])
        elif kind == 'vparse':
            r = self.h.ask(['version', miss[1]])
            if r == 'err' or r[0] != 'ok':
                v = 'err'
            else:
                x = r[1]
                suf = ['9', '0', '0', '0'] if x[7] != '0' else [str(y) for y in trees.suffix_key(x[3], x[4], x[5], x[6])]
                v = ['v', x[1], [str(int(y)) for y in x[2]], suf]
            self.drv.ask(['tab', 'vparse', miss[1], v])
        elif kind in ('specpat', 'specver'):
            self.drv.ask(['tab', kind, miss[1], miss[2], self._spec(kind, miss[1], miss[2])])
        else:
            raise RuntimeError('unknown oracle miss ' + dump(miss))

    def parse(self, text, what='pmarker'):
        for _ in range(400):
            r = self.drv.ask([what, S(text)])
            if r[0] == 'oracle-miss':
                self._fill(r[1])
                continue
            return r
        return ['oracle-loop']

    def reset_tables(self):
        self.drv.ask(['tab', 'reset'])


def impl_parse_outcome(r):
    """harness output of parse/expr -> canonical outcome: ('ok', ...) | ('err', kind, start, len, start_ok, display_ok) | ('panic',)"""
    if r[0] == 'ok':
        return ('ok',)
    if r[0] == 'err':
        return ('err', err_kind(unS(r[6])), int(r[2]), int(r[3]), r[4] == 'T', r[5] == 'T')
    if r[0] == 'panic':
        return ('panic', unS(r[1])[:80])
    return ('other', dump(r)[:80])
