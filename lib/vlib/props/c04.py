"""C04 — is_true / is_false / is_disjoint verdicts are never wrong."""
from .. import build, framework as fw, markers, trees, semantics
from ..sexp import S, dump, pretty
from . import c02


def related_pairs(ctx, sess, regs, n):
    """pairs that are often disjoint: a vs (not a) and c, complementary comparisons, random pairs"""
    pairs = []
    for _ in range(n):
        r = ctx.rng.random()
        a = ctx.rng.choice(regs)
        if r < .3:
            b = ctx.rng.choice(regs)
        elif r < .6:
            na, _ = sess.op('not', a)
            c = ctx.rng.choice(regs)
            b, _ = sess.op('and', na, c)
        elif r < .8:
            na, _ = sess.op('not', a)
            c = ctx.rng.choice(regs)
            b, _ = sess.op('or', na, c)
        else:
            c = ctx.rng.choice(regs)
            x, _ = sess.op('and', a, c)
            nc, _ = sess.op('not', c)
            b, _ = sess.op('and', a, nc)
            a = x
        if a is None or b is None:
            continue
        pairs.append((a, b))
        if len(pairs) % 4 == 1:
            # the same nodes again with the other polarities, in this order in one process: a verdict remembered for a pair of
            # nodes must not be reused for their complements
            na, _ = sess.op('not', a)
            nb, _ = sess.op('not', b)
            if na is not None and nb is not None:
                pairs += [(a, nb), (na, b), (na, nb), (a, b)]
    # fixed sequences of that kind
    for ta, tb in (("os_name == 'posix' and extra == 'x'", "extra != 'x'"), ("python_version >= '3.8' and (sys_platform == 'linux' or extra == 'y')", "sys_platform != 'linux' and extra != 'y'"),
                   ("'nt' in os_name and python_full_version < '3.9'", "python_full_version >= '3.9'"), ("os_name == 'a' or extra == 'b'", "os_name != 'a' and extra != 'b'")):
        a, b = sess.parse(ta)[0], sess.parse(tb)[0]
        if a is None or b is None:
            continue
        nb, _ = sess.op('not', b)
        na, _ = sess.op('not', a)
        pairs += [(a, b), (a, nb), (na, b), (na, nb)]
    return pairs


def run(ctx):
    ctx.proofs('Props/C04.v')
    build.extract_and_driver()
    h = build.harness()
    quick = ctx.tier == 'quick'
    ctx.extra['rule'] = ('pairs of markers from random histories (random pairs; a vs (not a) and c; a vs (not a) or c; a and c vs a and not c): '
                         'is_disjoint both ways vs the extracted m_disjoint on the dumps vs (a and b).is_false(); every positive verdict '
                         '(is_disjoint / is_false / is_true) is attacked by an exact region search for a counter-model, replayed on evaluate(); '
                         'non-trivial = distinct pairs of non-constant markers')
    for rd in range(2 if quick else 10):
        sess = markers.Session(h)
        keys = markers.Keys(sess.p)
        regs, _ = c02.build_history(ctx, sess, 100 if quick else 250, 150 if quick else 600, battery=(rd == 0))
        pairs = related_pairs(ctx, sess, regs, 400 if quick else 1500)
        if rd == 0:
            # operands on different variables whose combination leaves neighbouring ranges with the same child (first / middle / last range):
            # the result must still be a partition, and disjointness must be decided on it
            for k, ta, tb in (('and', "(python_full_version < '3.8' and os_name == 'x') or python_full_version >= '3.9'", "os_name == 'y'"),
                              ('and', "(python_full_version >= '3.9' and os_name == 'x') or python_full_version < '3.8'", "os_name == 'y'"),
                              ('and', "(python_full_version >= '3.8' and python_full_version < '3.9' and os_name == 'x') or python_full_version < '3.7' or python_full_version >= '3.10'", "os_name == 'y'"),
                              ('and', "(os_name < 'b' and extra == 'x') or os_name >= 'c'", "extra != 'x'"),
                              ('or', "(python_full_version < '3.8' or os_name == 'x') and python_full_version < '3.9'", "os_name != 'x'"),
                              ('and', "(implementation_version < '3' and sys_platform == 'a') or (implementation_version >= '3' and implementation_version < '4' and sys_platform == 'a') or implementation_version >= '4'", "sys_platform == 'a'")):
                ra, rb = sess.parse(ta)[0], sess.parse(tb)[0]
                if ra is None or rb is None:
                    continue
                rc, _ = sess.op(k, ra, rb)
                if rc is not None:
                    regs.append(rc)
                    pairs += [(rc, ra), (rc, rb), (ra, rb)]
            # comparisons of two DIFFERENT environment fields are never disjoint, under whatever spelling (a keyword read as another field's
            # variable would make them so); the witness is written down here, not computed from the diagram
            spell = dict(markers.OFFICIAL_STRING)
            for ka, fa in spell.items():
                a, _ = sess.parse("%s == 'CPython'" % ka)
                for kb, fb in spell.items():
                    if fa == fb or a is None:
                        continue
                    for tb in ("%s == 'cpython'" % kb, "%s != 'CPython'" % kb):
                        b, _ = sess.parse(tb)
                        if b is None:
                            continue
                        d = sess.ask(['disjoint', str(a), str(b)])
                        ctx.oracle_cases += 1
                        if d[0] == 'ok' and d[1] == 'T':
                            env = dict(markers.DEFAULT_ENV)
                            env[fa], env[fb] = 'CPython', 'cpython'
                            ctx.failure("is_disjoint(%s == 'CPython', %s) is true, yet the two read different environment fields and %s = 'CPython', %s = 'cpython' satisfies both"
                                        % (ka, tb, fa, fb), {'a': "%s == 'CPython'" % ka, 'b': tb, 'env': env})
            def parse_eval(text, env):
                reg, _ = sess.parse(text)
                if reg is None:
                    return None
                g = c02.eval_all(sess, reg, env, [])
                return g[1] if g[0] == 'ok' else None
            markers.key_table_battery(ctx, parse_eval)
        cmds, meta = [], []
        for a, b in pairs:
            d1 = sess.ask(['disjoint', str(a), str(b)])
            d2 = sess.ask(['disjoint', str(b), str(a)])
            ab, _ = sess.op('and', a, b)
            fl = sess.ask(['flags', str(ab)])
            ctx.evaluations += 1
            ctx.oracle_cases += 1
            how = {'a': markers.describe(sess, a), 'b': markers.describe(sess, b)}
            if d1[0] != 'ok' or d2[0] != 'ok' or fl[0] != 'ok':
                ctx.failure('is_disjoint/and panicked: %s %s %s' % (dump(d1), dump(d2), dump(fl)), how)
                continue
            v1, v2, isf = d1[1] == 'T', d2[1] == 'T', fl[2] == 'T'
            ctx.count('disjoint=%s' % v1)
            if v1 != v2:
                ctx.failure('is_disjoint is not symmetric: %s vs %s' % (v1, v2), how)
            if v1 != isf:
                ctx.failure('is_disjoint = %s but (a and b).is_false() = %s' % (v1, isf), how)
            try:
                ma, mb = sess.model(a), sess.model(b)
            except Exception:
                continue
            if ma not in ('T', 'F') and mb not in ('T', 'F'):
                ctx.nontrivial((dump(ma), dump(mb)))
            cmds.append(['disjoint', ma, mb])
            meta.append((a, b, v1, how))
            cmds.append(['disjoint', mb, ma])
            meta.append((b, a, v2, how))
            # attack positive verdicts with a counter-model search
            if v1:
                try:
                    path = semantics.find_model([ma, mb], [True, True], dense=False)
                except semantics.Unsupported:
                    path = None
                if path is not None:
                    eo = semantics.env_of_path(keys, path, markers.DEFAULT_ENV)
                    if eo is not None:
                        env, ex = eo
                        env['python_version'] = markers.major_minor(env['python_full_version'])
                        ra, rb = c02.eval_all(sess, a, env, ex), c02.eval_all(sess, b, env, ex)
                        if ra[0] == 'ok' and rb[0] == 'ok' and ra[1] == 'T' and rb[1] == 'T':
                            ctx.failure('is_disjoint returned true but an environment satisfies both', dict(how, env=env, extras=ex))
            if len(ctx.samples) < 8 and v1 and ma not in ('T', 'F') and mb not in ('T', 'F') and ctx.rng.random() < .1:
                ctx.sample(dict(how, is_disjoint=v1))
        outs = fw.batch_parallel(build.DRIVER, cmds)
        for (a, b, v, how), o in zip(meta, outs):
            ctx.corr_cases += 1
            if (o == 'T') != v:
                ctx.disagreement('is_disjoint ~ m_disjoint', how, dump(o), v)
        # is_true / is_false verdicts on all registers
        for r in regs:
            fl = sess.ask(['flags', str(r)])
            try:
                m = sess.model(r)
            except Exception:
                continue
            ctx.oracle_cases += 1
            for flag, want in ((fl[1], False), (fl[2], True)):
                if flag == 'T':
                    try:
                        path = semantics.find_model([m], [want], dense=False)
                    except semantics.Unsupported:
                        path = None
                    if path is not None:
                        ctx.failure('is_true/is_false verdict contradicted by a region', {'how': markers.describe(sess, r), 'path': [dump(list(p)) for p in path]})
        # the operands are "markers parsed from text": what the text denotes is the extracted parser's diagram
        markers.check_parses(ctx, sess, keys, 150 if quick else 400)
        c02.monitor(ctx, sess, list(sess.models.keys()))      # every marker this session produced, the operands built for the pairs included
        sess.close()
    if not ctx.samples:
        ctx.sample('(no disjoint non-trivial pair sampled)')
    return fw.finish(ctx, 'make -C /verif/coq Props/C04.vo  (coqc, Print Assumptions under each theorem)')
