"""C18 — URL requirements: where the URL ends, the ambiguity diagnosis, verbatim text, ${NAME} expansion."""
import itertools
import re

from .. import build, framework as fw, markers, trees, reqmodel
from ..sexp import S, unS, dump

PIECES = [';', '#', '@', '[', ']', '$', '{', '}', ' ', '\t', 'a', '/', ':', '${VERIF_V}', '${VERIF_UNSET}', '${PROJECT_ROOT}', '${3RD_V}', '${9}', '${_U}', '${verif_v}', '$VERIF_V', '${VERIF_V', '${}', '%20', 'é', '　', '\n', '?q=1', '.']
BASES = ['https://h/p', 'file:///a/b', 'git+https://h/r@v1', 'https://h', '${VERIF_V}', 'https://${VERIF_V}/p', 'hg+static-http://h/repo@v1', 'x-y.z+w://h/p']
CONTEXTS = ['', ' ', " ; os_name == 'a'", ";os_name == 'a'", "; os_name == 'a'", " ;os_name == 'a'", ' #c', '# c', ' # c', '#c', '\n', "\n; os_name == 'a'", ' x', '　;os_name=="a"',
            # a line break after other white space ends the URL too
            ' \n x', "\t\n; os_name == 'a'", ' \r\n', '  \n', " \t \n ;os_name=='a'"]
ENVS = [None, 'x', 'a b', ' ;', '', 'é', 'https://q/', '${VERIF_V}', '#', '${VERIF_W}', 'a${VERIF_W}b/${VERIF_UNSET}']      # VERIF_W is always set to 'inner': expansion happens once


def py_isspace(c, wsmap):
    return wsmap[c]


def reference(text_after_at, ws):
    """The property, read directly: the URL and what the parser must do.  Returns ('url', url_text, rest) or ('ambiguous', pos_of_char)"""
    s = text_after_at
    i = 0
    while i < len(s) and ws(s[i]):
        i += 1
    start = i
    while i < len(s):
        c = s[i]
        if c in '\r\n':
            return ('url', s[start:i], s[i + 1:], None)
        if ws(c):
            j = i
            while j < len(s) and ws(s[j]):
                j += 1
            if j == len(s) or s[j] in ';#':
                return ('url', s[start:i], s[i + 1:], None)
        if c in ';#' and i + 1 < len(s) and ws(s[i + 1]):
            return ('url', s[start:i + 1], s[i + 1:], c)
        i += 1
    return ('url', s[start:], '', None)


def expand_ref(text, env, root):
    def rep(m):
        n = m.group(1)
        if n in env:
            return env[n]
        if n == 'PROJECT_ROOT':
            return root
        return m.group(0)
    return re.sub(r'\$\{([A-Z0-9_]+)\}', rep, text)


def run(ctx):
    ctx.proofs('Props/C18.v')
    ctx.table_proofs('C18Tables.v')
    build.extract_and_driver()
    h = build.harness()
    quick = ctx.tier == 'quick'
    ctx.extra['rule'] = ('URL texts = %d bases followed by every sequence of up to 2 of %d pieces (;, #, @, brackets, $, braces, blanks incl. U+3000, line break, ${NAME} forms: set / unset / reserved / '
                         'lower-case / unbraced / unterminated / empty) x %d following contexts (end, marker with and without blanks on either side of `;`, comment-like tails, line break) x %d '
                         'environments for the referenced variable (unset, plain, with blank, with ` ;`, empty, non-ASCII, a URL, a self-reference, `#`), and PROJECT_ROOT unset / set / empty; for each: the reference reading of the property in '
                         'Python (URL = text up to the first blank followed by blanks* and `;`/`#`/end, or to a line break; a glued `;`/`#` followed by a blank is ambiguous unless a marker or the end '
                         'follows) decides the expected URL text / error kind; expected URL = Url::parse of the regex-expanded text; given() must be the unexpanded text; plus expand_env_vars vs the regex '
                         'reference and the model on the same texts; plus the full model comparison (C07 machinery). sampling rate of length-2 sequences %.2f. non-trivial = distinct (outcome kind, stop reason, '
                         'expansion changed, env class) classes' % (len(BASES), len(PIECES), len(CONTEXTS), len(ENVS), 0.04 if quick else 0.5))
    sess = markers.Session(h)
    keys = markers.Keys(sess.p)
    rm = reqmodel.ReqModel(sess.p, keys, wd=None)
    root = unS(sess.ask(['cwd'])[1])
    wsmap = {}

    def ws(c):
        if c not in wsmap:
            wsmap[c] = sess.ask(['cc', str(ord(c))])[1] == 'T'
        return wsmap[c]

    urls = []
    for b in BASES:
        for k in (0, 1, 2):
            for t in itertools.product(PIECES, repeat=k):
                if k == 2 and ctx.rng.random() > (0.04 if quick else 0.5):
                    continue
                urls.append(b + ''.join(t))
    sess.ask(['setenv', S('VERIF_W'), S('inner')])
    ALWAYS = {'VERIF_W': 'inner', '3RD_V': 'third', '9': 'nine', '_U': 'under'}     # a name is any non-empty run of A-Z 0-9 _ : a digit may come first
    for nm, vl in ALWAYS.items():
        sess.ask(['setenv', S(nm), S(vl)])
    for envval in ENVS:
        if envval is None:
            sess.ask(['unsetenv', S('VERIF_V')])
            env = dict(ALWAYS)
        else:
            sess.ask(['setenv', S('VERIF_V'), S(envval)])
            env = dict(ALWAYS, VERIF_V=envval)
        rm.env_changed()
        sample = urls if envval in (None, 'a b') else ctx.rng.sample(urls, max(40, len(urls) // 6))
        for u in sample:
            # expansion alone
            ctx.evaluations += 1
            want = expand_ref(u, env, root)
            got = sess.ask(['expandenv', S(u)])
            ctx.oracle_cases += 1
            if got[0] != 'ok' or unS(got[1]) != want:
                ctx.failure('expand_env_vars(%r) with VERIF_V=%r gives %r, the property reads %r' % (u, envval, unS(got[1]) if got[0] == 'ok' else dump(got), want),
                            {'entry': 'expand_env_vars', 'input': u, 'env': env})
            m = rm.run(['expand', S(u)])
            ctx.corr_cases += 1
            if m[0] != 'ok' or unS(m[1]) != (unS(got[1]) if got[0] == 'ok' else None):
                ctx.disagreement('expand ~ expand_env_vars', u, dump(m)[:200], dump(got)[:200])
            for cx in (CONTEXTS if ctx.rng.random() < (.25 if quick else 1) else ctx.rng.sample(CONTEXTS, 3)):
                w0 = ctx.rng.choice(['', ' ', '  '])
                text = 'name @' + w0 + u + cx
                ctx.evaluations += 1
                r, io, mm = reqmodel.compare_req(ctx, sess, rm, text, True, None)
                ctx.oracle_cases += 1
                if not reqmodel.impl_span_checks(ctx, 'Requirement::<VerbatimUrl>::from_str', text, io):
                    continue
                ref = reference(w0 + u + cx, ws)
                _, utext, rest, glued = ref
                # what must follow the URL
                rest_stripped = rest.lstrip(''.join(c for c in set(rest) if ws(c)))
                follows_marker = rest_stripped.startswith(';')
                follows_end = rest_stripped == ''
                stop = 'glued' if glued else ('end' if rest == '' and cx == '' else 'blank-or-break')
                ctx.nontrivial((io[0], io[1] if io[0] == 'err' and isinstance(io[1], str) else (io[1][0] if io[0] == 'err' else None), stop, want != u, envval))
                ctx.count('url:%s:%s' % (stop, io[0] if io[0] != 'err' else (io[1] if isinstance(io[1], str) else io[1][0])))
                if utext == '':
                    if not (io[0] == 'err' and io[1] == 'expected-url'):
                        ctx.failure('%r has no URL text after `@` but the parser does not say so: %r' % (text, io[:4]), {'entry': 'Requirement::from_str', 'input': text, 'env': env})
                    continue
                if glued and not follows_marker and not follows_end:
                    # `;` / `#` glued to the URL, a blank, then something that is neither a marker nor the end: ambiguous
                    exp_url = sess.ask(['urlparse', 'F', 'none', S(expand_ref(utext, env, root))])
                    scheme_ok = sess.ask(['req', 'verbatim', 'none', S('name @ ' + utext)])[0] == 'ok'
                    if scheme_ok and not (io[0] == 'err' and isinstance(io[1], list) and io[1][0] == 'ambiguous' and io[1][1] == str(ord(glued))):
                        ctx.failure('in %r the %r glued to the URL and followed by a blank must be rejected as ambiguous; got %r' % (text, glued, io[:4] if io[0] == 'err' else 'accepted'),
                                    {'entry': 'Requirement::from_str', 'input': text, 'env': env}, cls='ambiguity-not-diagnosed')
                    continue
                if io[0] == 'ok':
                    kind = r[3]
                    if kind == 'none' or kind[0] != 'url':
                        ctx.failure('%r parsed without a URL' % text, {'entry': 'Requirement::from_str', 'input': text})
                        continue
                    given = unS(kind[2]) if kind[2] != 'none' else None
                    if given != utext:
                        ctx.failure('in %r the URL must be %r (up to the first blank followed by `;`, `#` or the end / a line break); given() is %r' % (text, utext, given),
                                    {'entry': 'Requirement::from_str', 'input': text, 'env': env, 'expected_url_text': utext})
                    exp = sess.ask(['urlparse', 'F', 'none', S(expand_ref(utext, env, root))])
                    if exp[0] != 'ok' or unS(exp[1]) != unS(kind[1]):
                        ctx.failure('the URL of %r is %r; Url::parse of the expanded text %r gives %s' % (text, unS(kind[1]), expand_ref(utext, env, root), dump(exp)[:120]),
                                    {'entry': 'Requirement::from_str', 'input': text, 'env': env})
                elif io[0] == 'err':
                    # a rejection must be explained by the reference reading: URL type refuses the text, or what follows is not a marker / end, or the marker is malformed
                    exp = sess.ask(['urlparse', 'F', 'none', S(expand_ref(utext, env, root))])
                    solo = sess.ask(['req', 'verbatim', 'none', S('name @ ' + utext)])
                    if solo[0] == 'ok' and (follows_end or follows_marker):
                        if follows_marker:
                            mk = sess.ask(['parse', S(rest_stripped[1:])])
                            if mk[0] == 'ok' and mk[2] != 'T' or (mk[0] == 'ok'):
                                ctx.failure('%r = URL %r followed by a well-formed marker is rejected: %r' % (text, utext, io[:4]), {'entry': 'Requirement::from_str', 'input': text, 'env': env})
                        else:
                            ctx.failure('%r = URL %r followed only by blanks is rejected: %r' % (text, utext, io[:4]), {'entry': 'Requirement::from_str', 'input': text, 'env': env})
        rm.reset_tables()
    sess.ask(['unsetenv', S('VERIF_V')])
    # the reserved name: the working directory only when PROJECT_ROOT is unset; a set variable wins
    for pr in (None, '/opt/verif/project', '', 'rel dir'):
        if pr is None:
            sess.ask(['unsetenv', S('PROJECT_ROOT')])
            env = {}
        else:
            sess.ask(['setenv', S('PROJECT_ROOT'), S(pr)])
            env = {'PROJECT_ROOT': pr}
        rm.env_changed()
        for u in ['file://${PROJECT_ROOT}/pkg.whl', 'https://h/${PROJECT_ROOT}', '${PROJECT_ROOT}', 'https://h/${PROJECT_ROOT}${PROJECT_ROOT}x', 'https://h/$PROJECT_ROOT/${project_root}']:
            ctx.evaluations += 1
            want = expand_ref(u, env, root)
            got = sess.ask(['expandenv', S(u)])
            ctx.oracle_cases += 1
            ctx.nontrivial(('project-root', pr, u))
            if got[0] != 'ok' or unS(got[1]) != want:
                ctx.failure('expand_env_vars(%r) with PROJECT_ROOT=%r gives %r, the property reads %r' % (u, pr, unS(got[1]) if got[0] == 'ok' else dump(got), want),
                            {'entry': 'expand_env_vars', 'input': u, 'env': env})
            m = rm.run(['expand', S(u)])
            ctx.corr_cases += 1
            if m[0] != 'ok' or unS(m[1]) != (unS(got[1]) if got[0] == 'ok' else None):
                ctx.disagreement('expand ~ expand_env_vars', u, dump(m)[:200], dump(got)[:200])
            text = 'name @ ' + u + " ; os_name == 'a'"
            r, io, mm = reqmodel.compare_req(ctx, sess, rm, text, True, None)
            if io[0] == 'ok':
                exp = sess.ask(['urlparse', 'F', 'none', S(want)])
                if exp[0] != 'ok' or unS(exp[1]) != unS(r[3][1]) or unS(r[3][2]) != u:
                    ctx.failure('the URL of %r with PROJECT_ROOT=%r is %r (given %r); expected Url::parse(%r) and the source text' % (text, pr, unS(r[3][1]), dump(r[3][2])[:60], want),
                                {'entry': 'Requirement::from_str', 'input': text, 'env': env})
    sess.ask(['unsetenv', S('PROJECT_ROOT')])
    ctx.extra['oracle_table_fills'] = rm.misses
    rm.close()
    sess.close()
    # with the extension feature a URL text without a scheme is a path: the same expansion applies, with and without a working directory
    hx = build.harness(ext=True)
    for wd in (None, '/work'):
        sx = markers.Session(hx)
        sx.ask(['setenv', S('VERIF_V'), S('wheels')])
        sx.ask(['setenv', S('VERIF_R'), S('/srv/project')])
        rx = reqmodel.ReqModel(sx.p, markers.Keys(sx.p), wd=wd)
        sx.ask(['setenv', S('VERIF_P'), S('/opt/wheel%20house')])
        for u in ['file:///opt/wheel%20house/p-1.0.whl', 'file://${VERIF_P}/p.whl', 'file:///opt/a%2Fb/c%C3%A9.whl', '/opt/wheel%20house/p.whl',
                  '/opt/${VERIF_V}/p-1.0.whl', '${VERIF_R}/dist/p-1.0.whl', './${VERIF_V}/p.whl', 'file:///opt/${VERIF_V}/p.whl', 'file://localhost/opt/${VERIF_V}/p.whl',
                  '/opt/${VERIF_UNSET}/p.whl', 'https://h/${VERIF_V}/p.whl', '${VERIF_V}', '/opt/${VERIF_V}/${VERIF_V}#frag']:
            for cx in ('', " ; os_name == 'a'"):
                text = 'name @ ' + u + cx
                ctx.evaluations += 1
                ctx.oracle_cases += 1
                r, io, mm = reqmodel.compare_req(ctx, sx, rx, text, True, wd)
                if io[0] == 'ok' and (r[3][0] != 'url' or unS(r[3][2]) != u):
                    ctx.failure('given() of %r is %s, not the unexpanded source text' % (text, dump(r[3][2])[:80]), {'entry': 'Requirement::parse', 'input': text, 'working_dir': wd})
        rx.close()
        sx.close()
    if not ctx.samples:
        ctx.sample('(none)')
    return fw.finish(ctx, 'make -C /verif/coq Props/C18.vo  (coqc, Print Assumptions under each theorem)')
