"""C20 — the decision diagram exposed by kind() is ordered, reduced and partitioning."""
from .. import build, framework as fw, markers, trees
from ..sexp import S, dump, pretty
from . import c02

BOUND_VERSIONS = ['3.7', '3.8', '3.8.1', '3.9', '3.10', '3', '4', '2.7', '3.8.0', '3.0']


def rand_bound(rng, odd=False):
    r = rng.random()
    if r < .3:
        return 'U'
    pool = BOUND_VERSIONS + (['3.8a1', '3.8.post1', '3.9.dev0'] if odd else [])
    return [('I' if rng.random() < .5 else 'E'), S(rng.choice(pool))]


def extend_history(ctx, sess, regs, n_ops, odd_bounds=False):
    """simplify_extras / simplify_python_versions / complexify_python_versions steps over earlier results"""
    steps = []
    # fixed battery: markers whose python_full_version root is / is not a complemented node, against bounds below, inside and above all
    # their cuts, with every kind of bound (the shapes random bounds reach only by luck)
    for text in ("python_full_version == '3.8'", "python_full_version != '3.8'", "python_full_version >= '3.8' and python_full_version < '3.10'",
                 "python_full_version == '3.8' or python_full_version == '3.9'", "python_full_version < '3.8'", "python_full_version >= '3.8'",
                 "python_full_version == '3.8' and os_name == 'posix'", "extra == 'a' or python_full_version < '3.9'"):
        base, _ = sess.parse(text)
        if base is None:
            continue
        regs.append(base)
        for lo, hi in (('U', ['E', S('3.11')]), ('U', ['I', S('3.11')]), (['I', S('3.0')], 'U'), (['E', S('3.0')], 'U'), (['I', S('3.0')], ['E', S('3.11')]),
                       ('U', ['E', S('3.8')]), (['I', S('3.8')], 'U'), (['E', S('3.8')], ['I', S('3.9')]), (['I', S('3.9')], ['E', S('3.9')])):
            for k in ('cplxpv', 'simppv'):
                reg, r = sess.op(k, base, lo, hi)
                ctx.count('op:' + k)
                if reg is None:
                    ctx.failure('%s panicked or failed: %s' % (k, dump(r)[:200]), {'op': k, 'operand': {'parse': text}, 'args': [pretty(lo), pretty(hi)], 'result': dump(r)[:500]}, cls=None)
                    continue
                regs.append(reg)
                steps.append((k, (base, lo, hi), reg))
    # and / or of two markers that split one key at the same points, where the combined children of neighbouring ranges coincide: must be merged
    for k, ta, tb in (('or', "(python_full_version == '3.8.*' and os_name == 'a') or python_full_version >= '3.9'", "(python_full_version == '3.8.*' and os_name != 'a') or python_full_version >= '3.9'"),
                      ('or', "(python_full_version < '3.8' and os_name == 'posix') or (python_full_version >= '3.9' and sys_platform == 'linux')", "python_full_version >= '3.8' and python_full_version < '3.9' and os_name == 'posix'"),
                      ('or', "os_name < 'b' or (os_name == 'b' and extra == 'x')", "os_name < 'b' or (os_name == 'b' and extra != 'x')"),
                      ('and', "(python_full_version == '3.8.*' or os_name == 'a') and python_full_version >= '3.8'", "(python_full_version == '3.8.*' or os_name != 'a') and python_full_version >= '3.8'"),
                      ('and', "python_full_version >= '3.8' and (python_full_version < '3.9' or extra == 'x')", "python_full_version >= '3.8' and (python_full_version < '3.9' or extra != 'x')")):
        ra, rb = sess.parse(ta)[0], sess.parse(tb)[0]
        if ra is None or rb is None:
            continue
        reg, r = sess.op(k, ra, rb)
        if reg is not None:
            regs.append(reg)
            steps.append((k, (ra, rb), reg))
    for _ in range(n_ops):
        k = ctx.rng.choice(['simpx', 'simppv', 'cplxpv'])
        a = ctx.rng.choice(regs)
        if k == 'simpx':
            ex = [e for e in markers.EXTRAS if ctx.rng.random() < .4]
            args = (a, [S(e) for e in ex])
        else:
            args = (a, rand_bound(ctx.rng, odd_bounds), rand_bound(ctx.rng, odd_bounds))
            if ctx.rng.random() < .25:
                # a bound beyond every cut of typical markers: the first / last range survives whole and only the always-false edge is added
                args = (a, args[1], ['E' if ctx.rng.random() < .5 else 'I', S(ctx.rng.choice(['3.11', '3.13', '4', '99']))]) if ctx.rng.random() < .5 else \
                       (a, ['E' if ctx.rng.random() < .5 else 'I', S(ctx.rng.choice(['0', '1', '2.6', '3'])), ], args[2])
        reg, r = sess.op(k, *args)
        ctx.count('op:' + k)
        if reg is None:
            ctx.failure('%s panicked or failed: %s' % (k, dump(r)[:200]),
                        {'op': k, 'operand': markers.describe(sess, a), 'args': [pretty(x) for x in args[1:]], 'result': dump(r)[:500]},
                        cls=None)
            continue
        regs.append(reg)
        steps.append((k, args, reg))
    return steps


def run(ctx):
    ctx.proofs('Props/C20.v')
    ctx.table_proofs('C20Tables.v')
    build.extract_and_driver()
    h = build.harness()
    quick = ctx.tier == 'quick'
    ctx.extra['rule'] = ('every diagram produced along random histories (parse, and, or, negate, simplify_extras, '
                         'simplify/complexify_python_versions): checked conversion of the kind() walk into cut form (fails unless the '
                         'edges are simple ranges forming a sorted contiguous cover) + the verified checker m_wfb; hand walk (model eval of '
                         'the dump) vs evaluate() on environments at the cut values; non-trivial = distinct non-constant diagrams')
    for rd in range(2 if quick else 10):
        sess = markers.Session(h)
        keys = markers.Keys(sess.p)
        regs, steps = c02.build_history(ctx, sess, 120 if quick else 300, 300 if quick else 1200, battery=(rd == 0))
        if rd == 0:
            # one comparison for every key with every operator (both operand orders, decorated version literals), each also negated
            for t in markers.op_key_grid(deprecated=True):
                ra, _ = sess.parse(t)
                if ra is not None:
                    regs.append(ra)
                    rn, _ = sess.op('not', ra)
                    if rn is not None:
                        regs.append(rn)
        extend_history(ctx, sess, regs, 150 if quick else 600)
        _, more = c02.build_history(ctx, sess, 0, 0)
        # monitor
        for r in regs:
            m = sess.models[r]
            ctx.evaluations += 1
            if isinstance(m, trees.Unmodelled):
                continue
            if isinstance(m, Exception):
                ctx.failure('edges are not a sorted contiguous cover by simple ranges: %s' % m,
                            {'how': markers.describe(sess, r), 'dump': dump(sess.dumps[r])[:2000]})
            else:
                ctx.nontrivial(dump(m)) if m not in ('T', 'F') else None
        bad = c02.monitor(ctx, sess, regs)
        for r in bad[:20]:
            ctx.failure('diagram is not ordered/reduced (m_wfb = false)',
                        {'how': markers.describe(sess, r), 'diagram': pretty(sess.models[r])[:3000]}, cls=classify(sess.models[r]))
        # hand walk vs evaluate()
        cmds, meta = [], []
        # one marker per kind of node, positive and negated, alone and above another node: always walked, on more environments
        always = []
        for t in ("'nt' not in os_name", "'nt' in os_name or extra == 'a'", "os_name not in 'posix nt' and extra != 'b'", "os_name in 'posix nt'", "extra != 'a'",
                  "extra == 'a' and extra != 'b'", "python_full_version != '3.8'", "os_name != 'posix'", "os_name > 'a' and 'x' in sys_platform",
                  "python_version < '3.9' or 'win' not in sys_platform"):
            ra, _ = sess.parse(t)
            if ra is not None:
                always.append(ra)
                rn, _ = sess.op('not', ra)
                if rn is not None:
                    always.append(rn)
        for r in always + ctx.rng.sample(regs, min(len(regs), 150 if quick else 400)):
            m = sess.models[r]
            if isinstance(m, Exception):
                continue
            for env, ex in markers.grid_envs(ctx.rng, keys, [m], 10 if r in always else 4):
                em = markers.env_model(keys, env, sess.p)
                if em is None:
                    continue
                try:
                    vs, ss = em
                except trees.Unmodelled:
                    continue
                got = c02.eval_all(sess, r, env, ex)
                if got[0] != 'ok':
                    ctx.failure('evaluate failed: ' + dump(got)[:200], {'how': markers.describe(sess, r), 'env': env, 'extras': ex})
                    continue
                cmds.append(['eval', m, vs, ss, [S(x) for x in ex]])
                meta.append((r, env, ex, got[1]))
        outs = fw.batch_parallel(build.DRIVER, cmds)
        for (r, env, ex, got), o in zip(meta, outs):
            ctx.corr_cases += 1
            ctx.oracle_cases += 1
            if o != got:
                ctx.failure('walking kind() by hand gives %s, evaluate() gives %s' % (dump(o), got),
                            {'how': markers.describe(sess, r), 'env': env, 'extras': ex})
        for r in regs[:6]:
            if not isinstance(sess.models[r], Exception) and sess.models[r] not in ('T', 'F'):
                ctx.sample({'how': markers.describe(sess, r), 'diagram': pretty(sess.models[r])[:400]}, limit=6)
        sess.close()
    if not ctx.samples:
        ctx.sample('(no sample)')
    return fw.finish(ctx, 'make -C /verif/coq Props/C20.vo  (coqc, Print Assumptions under each theorem)')


def classify(m):
    return None
