"""C16 — ordering, equality and hashing of markers and requirements are coherent."""
import subprocess

from .. import build, framework as fw, markers, trees
from ..sexp import S, unS, dump, pretty
from . import c02, c20

REQS = ["foo", "foo>=1", "foo >=1,<2", "Foo[a,b]>=1", "foo[b,a]>=1", "foo ; os_name == 'a'", "foo; os_name=='a'", "bar @ https://example.org/a",
        "bar @ https://example.org/a ", "bar @ https://EXAMPLE.org/a", "bar @ https://example.org/b", "foo ; python_version >= '3.8'",
        "foo ; python_full_version >= '3.8'", "foo==1.0", "foo==1.0.0", "foo ; extra == 'x'", "foo[x]", "baz @ file:///tmp/x", "foo.bar", "foo-bar", "foo_bar"]


def run(ctx):
    ctx.proofs('Props/C16.v')
    build.extract_and_driver()
    h = build.harness()
    quick = ctx.tier == 'quick'
    ctx.extra['rule'] = ('pairs and triples of markers from random histories and near-miss pairs (markers differing in one value / child / bound): cmp vs the extracted structural order m_cmp on the dumps; == <=> cmp Equal <=> '
                         'identical dumps; equal => equal hashes; antisymmetry and transitivity on the crate; the sorted order of the same marker texts in a '
                         'second process with a different history and parse order; Requirement / VerbatimUrl pairs (==, cmp both ways, hash; urls compared '
                         'ignoring the verbatim text), also with RequirementOrigin values attached; non-trivial = distinct unordered pairs of different non-constant diagrams')
    sess = markers.Session(h)
    keys = markers.Keys(sess.p)
    # first of all, while the arena is empty: for every kind of node two markers that differ in a child only, the structurally GREATER one
    # interned first (an order that looks at node ids instead of the children then disagrees with the structural order)
    early = []
    for hi_, lo_ in (("'x' in os_name and extra == 'q'", "'x' in os_name and extra == 'p'"), ("os_name in 'x y' and extra == 'q'", "os_name in 'x y' and extra == 'p'"),
                     ("extra == 'e' and sys_platform == 'q'", "extra == 'e' and sys_platform == 'p'"), ("os_name == 'k' and 'q' in platform_machine", "os_name == 'k' and 'p' in platform_machine"),
                     ("python_full_version >= '3.8' and platform_system == 'q'", "python_full_version >= '3.8' and platform_system == 'p'"),
                     ("'gnu' in platform_version and extra == 'c'", "'gnu' in platform_version and (extra == 'a' or extra == 'b')")):
        rh, _ = sess.parse(hi_)
        rl, _ = sess.parse(lo_)
        if rh is not None and rl is not None:
            early.append((rh, rl))
    regs, _ = c02.build_history(ctx, sess, 150 if quick else 500, 250 if quick else 1200)
    c20.extend_history(ctx, sess, regs, 60 if quick else 300)
    # near misses: markers that differ in exactly one place (the value of an `in` / `contains` / extra / == node, one child, one bound):
    # the pairs a comparison that skips a field cannot tell apart
    fam = list(early)
    regs += [r_ for pr in early for r_ in pr]
    for a_, b_ in [("extra == 'a b'", "extra == 'c d'"), ("extra != 'a b'", "extra != 'c d'"), ("extra == 'a b' and os_name == 'posix'", "extra == 'c d' and os_name == 'posix'"),
                   ("os.name == 'posix'", "os_name == 'posix'"), ("sys.platform == 'linux'", "sys_platform == 'linux'"), ("platform.machine < 'x86_64'", "platform_machine < 'x86_64'"),
                   ("'Ubuntu' in platform.version", "'Ubuntu' in platform_version"), ("platform.version in 'Ubuntu Debian'", "platform_version in 'Ubuntu Debian'"),
                   ("python_implementation == 'CPython'", "platform_python_implementation == 'CPython'"), ("platform.python_implementation != 'PyPy'", "python_implementation != 'PyPy'"),
                   ("python_version >= '3.8' and os.name == 'posix'", "python_version >= '3.8' and os_name == 'posix'"),
                   ("os_name in 'nt posix'", "os_name in 'linux'"), ("'nt' in os_name", "'posix' in os_name"), ("extra == 'a'", "extra == 'b'"),
                   ("sys_platform not in 'a b'", "sys_platform not in 'a c'"), ("os_name == 'a'", "os_name == 'b'"), ("python_full_version >= '3.8'", "python_full_version >= '3.9'"),
                   ("python_full_version >= '3.8'", "python_full_version > '3.8'"), ("os_name == 'a' and extra == 'x'", "os_name == 'a' and extra == 'y'"),
                   ("python_version >= '3.8' or os_name in 'java'", "python_version >= '3.8' or os_name in 'nt'"), ("platform_machine in 'x'", "platform_system in 'x'")]:
        ra, _ = sess.parse(a_)
        rb, _ = sess.parse(b_)
        if ra is not None and rb is not None:
            fam.append((ra, rb))
            regs += [ra, rb]
    # a marker and its negation share one interned node and differ in the complement bit only
    for t in ("os_name == 'posix'", "sys_platform == 'linux' and os_name == 'posix'", "'nt' in os_name", "os_name in 'posix nt'", "extra == 'a'",
              "python_full_version >= '3.8'", "implementation_name < 'b' or extra != 'x'"):
        ra, _ = sess.parse(t)
        if ra is None:
            continue
        rb, _ = sess.op('not', ra)
        if rb is not None:
            fam.append((ra, rb))
            regs += [ra, rb]
    cmds, meta = [], []
    n = 1500 if quick else 8000
    rels = {}
    for i_ in range(n):
        a, b = ctx.rng.choice(regs), ctx.rng.choice(regs)
        if ctx.rng.random() < .15:
            b = a
        if i_ < 2 * len(fam):
            a, b = fam[i_ // 2] if i_ % 2 == 0 else fam[i_ // 2][::-1]
        r = sess.ask(['rel', str(a), str(b)])
        ctx.evaluations += 1
        ctx.oracle_cases += 1
        if r[0] != 'ok':
            ctx.failure('==/cmp/hash failed', {'a': markers.describe(sess, a), 'b': markers.describe(sess, b)})
            continue
        eq, cm, hs = r[1] == 'T', r[2], r[3] == 'T'
        if len(r) > 4 and r[4] != 'T':
            ctx.failure('partial_cmp / < / > / <= of two markers is not the order cmp gives', {'a': markers.describe(sess, a), 'b': markers.describe(sess, b)})
        rels[(a, b)] = cm
        how = {'a': markers.describe(sess, a), 'b': markers.describe(sess, b)}
        same_dump = sess.dumps[a] == sess.dumps[b]
        if eq != (cm == 'Eq'):
            ctx.failure('== is %s but cmp is %s' % (eq, cm), how)
        if eq and not hs:
            ctx.failure('equal markers hash differently', how)
        if eq != same_dump:
            ctx.failure('== is %s but the kind() walks are %s' % (eq, 'identical' if same_dump else 'different'), how)
        r2 = sess.ask(['rel', str(b), str(a)])
        if {'Lt': 'Gt', 'Gt': 'Lt', 'Eq': 'Eq'}[cm] != r2[2]:
            ctx.failure('cmp is not antisymmetric: %s / %s' % (cm, r2[2]), how)
        try:
            ma, mb = sess.model(a), sess.model(b)
        except Exception:
            continue
        if ma != mb and ma not in ('T', 'F') and mb not in ('T', 'F'):
            ctx.nontrivial(tuple(sorted((dump(ma), dump(mb)))))
        cmds.append(['cmp', ma, mb])
        meta.append((how, cm))
        if len(ctx.samples) < 5 and cm != 'Eq' and ctx.rng.random() < .01:
            ctx.sample(dict(how, cmp=cm))
    outs = fw.batch_parallel(build.DRIVER, cmds)
    for (how, want), got in zip(meta, outs):
        ctx.corr_cases += 1
        if got != want:
            ctx.disagreement('MarkerTree::cmp ~ m_cmp', how, dump(got), want)
    # transitivity on triples
    for _ in range(1500 if quick else 8000):
        a, b, c = (ctx.rng.choice(regs) for _ in range(3))
        ab = sess.ask(['rel', str(a), str(b)])[2]
        bc = sess.ask(['rel', str(b), str(c)])[2]
        ac = sess.ask(['rel', str(a), str(c)])[2]
        ctx.oracle_cases += 1
        if ab in ('Lt', 'Eq') and bc in ('Lt', 'Eq'):
            want = 'Eq' if (ab, bc) == ('Eq', 'Eq') else 'Lt'
            if ac != want:
                ctx.failure('cmp is not transitive: a?b %s, b?c %s, a?c %s' % (ab, bc, ac),
                            {'a': markers.describe(sess, a), 'b': markers.describe(sess, b), 'c': markers.describe(sess, c)})
    # the order depends only on the markers: same texts, another process, another history
    texts = list(dict.fromkeys(sess.texts[r] for r in regs if r in sess.texts))[:120]
    order1 = sort_in_process(ctx, h, texts, warm=False)
    order2 = sort_in_process(ctx, h, list(reversed(texts)), warm=True)
    ctx.oracle_cases += 1
    if order1 != order2:
        i = next(i for i, (x, y) in enumerate(zip(order1, order2)) if x != y)
        ctx.failure('sorted order of the same markers differs between two processes with different histories', {'first_difference': [order1[i], order2[i]]})
    # Requirement / VerbatimUrl
    for a in REQS:
        for b in REQS:
            r = sess.ask(['reqrel', S(a), S(b)])
            ctx.oracle_cases += 1
            if r[0] != 'ok':
                continue
            eq, c1, c2, hs, urls = r[1] == 'T', r[2], r[3], r[4] == 'T', r[5]
            how = {'a': a, 'b': b}
            if len(r) > 6 and r[6] != 'T':
                ctx.failure('Requirement: partial_cmp / < is not the order cmp gives', how)
            if eq != (c1 == 'Eq') or {'Lt': 'Gt', 'Gt': 'Lt', 'Eq': 'Eq'}[c1] != c2 or (eq and not hs):
                ctx.failure('Requirement ==/cmp/hash incoherent: == %s cmp %s/%s hash-equal %s' % (eq, c1, c2, hs), how)
            if urls != 'none':
                ueq, uc, uh, parsed_eq = urls[0] == 'T', urls[1], urls[2] == 'T', urls[3] == 'T'
                if ueq != (uc == 'Eq') or (ueq and not uh) or ueq != parsed_eq:
                    ctx.failure('VerbatimUrl ==/cmp/hash incoherent or not on the parsed URL only', how)
    # VerbatimUrls from every constructor (with and without verbatim text): == / cmp / hash on the parsed URL only
    VURLS = ['https://example.org/pkg/a-1.0.tar.gz', 'https://example.org/pkg/b-2.0.tar.gz', 'https://EXAMPLE.org/pkg/a-1.0.tar.gz', 'file:///a/b', 'https://h/a/../b', 'https://h/b']
    HOWS = ['parse', 'given', 'givenx', 'from_url']
    for ta in VURLS:
        for tb in VURLS:
            for ha in HOWS:
                for hb in HOWS:
                    r = sess.ask(['vurlrel', ha, S(ta), hb, S(tb)])
                    ctx.oracle_cases += 1
                    if r[0] != 'ok':
                        continue
                    eq, c1, c2, hs, raw = r[1] == 'T', r[2], r[3], r[4] == 'T', r[5] == 'T'
                    if eq != (c1 == 'Eq') or {'Lt': 'Gt', 'Gt': 'Lt', 'Eq': 'Eq'}[c1] != c2 or (eq and not hs) or eq != raw:
                        ctx.failure('VerbatimUrl ==/cmp/hash incoherent or not on the parsed URL only: == %s cmp %s/%s hash-equal %s parsed URLs equal %s' % (eq, c1, c2, hs, raw),
                                    {'a': ta, 'built_a': ha, 'b': tb, 'built_b': hb})
                    if len(r) > 6 and r[6] != 'T':
                        ctx.failure('VerbatimUrl: partial_cmp / < is not the order cmp gives, or to_url / into_url is not the parsed URL', {'a': ta, 'built_a': ha, 'b': tb, 'built_b': hb})
    # ... and with origins attached: every field that == looks at must also separate under cmp and hash
    # ... including paths that are equal as paths but written differently (trailing / doubled separator, `.` component)
    ORIGINS = ['none', ['file', S('requirements.txt')], ['file', S('other.txt')], ['project', S('/p'), S('proj')], ['project', S('/p'), S('other')], ['workspace'],
               ['project', S('/p/'), S('proj')], ['file', S('requirements/base.txt')], ['file', S('requirements//base.txt')], ['file', S('./requirements/./base.txt')]]
    for a in REQS[:6]:
        for b in REQS[:6]:
            for oa in ORIGINS:
                for ob in ORIGINS:
                    r = sess.ask(['reqrel', S(a), S(b), oa, ob])
                    ctx.oracle_cases += 1
                    if r[0] != 'ok':
                        continue
                    eq, c1, c2, hs = r[1] == 'T', r[2], r[3], r[4] == 'T'
                    if len(r) > 6 and r[6] != 'T':
                        ctx.failure('Requirement: partial_cmp / < is not the order cmp gives', {'a': a, 'b': b, 'origin_a': dump(oa), 'origin_b': dump(ob)})
                    if eq != (c1 == 'Eq') or {'Lt': 'Gt', 'Gt': 'Lt', 'Eq': 'Eq'}[c1] != c2 or (eq and not hs):
                        ctx.failure('Requirement ==/cmp/hash incoherent: == %s cmp %s/%s hash-equal %s' % (eq, c1, c2, hs), {'a': a, 'b': b, 'origin_a': dump(oa), 'origin_b': dump(ob)})
    c02.monitor(ctx, sess, regs)
    sess.close()
    if not ctx.samples:
        ctx.sample('(none)')
    return fw.finish(ctx, 'make -C /verif/coq Props/C16.vo  (coqc, Print Assumptions under each theorem)')


def sort_in_process(ctx, h, texts, warm):
    """parse the texts in the given order in a fresh process and return them sorted by MarkerTree::cmp"""
    s = markers.Session(h)
    if warm:
        for _ in range(200):
            s.parse(markers.gen_marker(ctx.rng, 2))
    regs = []
    for t in texts:
        r, _ = s.parse(t)
        if r is not None:
            regs.append((t, r))
    import functools

    def cmp(x, y):
        c = s.ask(['rel', str(x[1]), str(y[1])])[2]
        return {'Lt': -1, 'Eq': 0, 'Gt': 1}[c]
    out = [t for t, _ in sorted(regs, key=functools.cmp_to_key(cmp))]
    # equal markers may appear in either order: canonicalise runs of equal markers
    res, i = [], 0
    while i < len(out):
        j = i
        reg_i = dict(regs)[out[i]]
        while j + 1 < len(out) and s.ask(['rel', str(reg_i), str(dict(regs)[out[j + 1]])])[2] == 'Eq':
            j += 1
        res.append(tuple(sorted(out[i:j + 1])))
        i = j + 1
    s.close()
    return res
