"""C15 — markers can be built and used from many threads at once."""
import re

from .. import build, framework as fw, markers, trees
from ..sexp import S, unS, dump, pretty
from . import c14


def audit(ctx):
    """textual audit of the lock discipline the theorem assumes: every mutating operation runs under INTERNER.lock() for
    its whole recursion (methods of InternerGuard), the guard is a statement-level temporary or a local that is not held
    across another INTERNER.lock(), and the arena/unique table/cache are only touched inside InternerGuard."""
    problems = []
    alg = open('/repo/src/marker/algebra.rs').read()
    files = {'algebra.rs': alg}
    for f in ('tree.rs', 'simplify.rs', 'parse.rs', 'mod.rs', 'environment.rs'):
        files[f] = open('/repo/src/marker/' + f).read()
    files['lib.rs'] = open('/repo/src/lib.rs').read()
    # 1. state (unique, cache) only via self.state inside impl InternerGuard
    m = re.search(r'impl InternerGuard<\'_> \{', alg)
    if not m:
        problems.append('impl InternerGuard not found')
        return problems
    start = m.end()
    depth, i = 1, start
    while depth and i < len(alg):
        if alg[i] == '{':
            depth += 1
        elif alg[i] == '}':
            depth -= 1
        i += 1
    guard_body = alg[start:i]
    outside = alg[:start] + alg[i:]
    code_outside = re.sub(r'//.*', '', outside)
    if re.search(r'\.state\b\s*\.(unique|cache)', code_outside) or re.search(r'\bnodes\s*\.push', code_outside):
        problems.append('unique table / cache / arena push touched outside impl InternerGuard')
    if 'INTERNER.lock()' in re.sub(r'//.*', '', guard_body):
        problems.append('INTERNER.lock() called while a guard is held (re-entrancy => deadlock)')
    # 1b. no other shared mutable state in the marker code: the only `static` is the interner, no atomics / cells / thread-locals / other locks
    #     (state that several threads can touch outside the one mutex is outside the atomicity assumption of the theorem)
    for name, text in files.items():
        code = re.sub(r'//.*', '', text)
        code = code.split('#[cfg(test)]')[0]
        for mm in re.finditer(r'\b(static\s+(mut\s+)?\w+|Atomic\w+|thread_local!|RwLock|RefCell|\bCell<|OnceCell|OnceLock|UnsafeCell|static\s+mut)\b', code):
            tok = mm.group(0)
            if re.match(r'static\s+INTERNER$', tok) and name == 'algebra.rs':
                continue
            if name == 'lib.rs':
                continue
            problems.append('shared mutable state outside the interner mutex in %s: `%s`' % (name, tok))
            break
    # 1c. one lock only: with a second lock the order of acquisition matters and the single-mutex argument (no deadlock
    #     without re-entrancy) no longer applies
    for name, text in files.items():
        code = re.sub(r'//.*', '', text).split('#[cfg(test)]')[0]
        locks = re.findall(r'\bMutex\s*<\s*(\w+)|\b(Condvar|parking_lot|DashMap|Semaphore|Barrier)\b|\bMutex::new', code)
        for g in locks:
            if g[0] == 'InternerState' and name == 'algebra.rs':
                continue
            if name == 'lib.rs':
                continue
            problems.append('a second lock / synchroniser in %s: %s' % (name, g[0] or g[1] or 'Mutex::new'))
            break
    # 2. the state sits behind one Mutex; lock() is the only way in
    if not re.search(r'state:\s*Mutex<InternerState>', alg):
        problems.append('InternerState is not behind a Mutex')
    if len(re.findall(r'\.state\s*\.lock\(\)', re.sub(r'//.*', '', alg))) != 1:
        problems.append('the state mutex is locked in more than one place')
    # 3. every use of INTERNER.lock() is `INTERNER.lock().method(...)` (guard dropped at the end of the statement) or `let mut guard = INTERNER.lock();` in a
    #    function that does not call back into a locking API before the guard dies
    for name, text in files.items():
        code = re.sub(r'//.*', '', text)
        for mm in re.finditer(r'INTERNER\s*\.lock\(\)', code):
            tail = code[mm.end():mm.end() + 80].lstrip()
            if tail.startswith('.'):
                continue
            line = code[:mm.start()].split('\n')[-1]
            if re.search(r'let\s+(mut\s+)?\w+\s*=\s*$', line.strip() + ' ') or re.search(r'let\s+(mut\s+)?\w+\s*=', line):
                # a named guard: the enclosing function must not call MarkerTree APIs that lock again
                fn_start = code.rfind('fn ', 0, mm.start())
                fn_text = code[fn_start:mm.end() + 4000]
                end = fn_text.find('\n    }\n')
                body = fn_text[:end if end > 0 else None]
                after = body[body.find('INTERNER'):]
                if re.search(r'MarkerTree::(expression|from_str)|\.and\(|\.or\(|\.is_disjoint\(|\.simplify_', re.sub(r'interner\.\w+\(', '', after.replace('guard.', 'interner.'))) and name != 'parse.rs':
                    problems.append('%s: a named guard may be held across a call that locks again' % name)
            else:
                problems.append('%s: unrecognised use of INTERNER.lock(): %r' % (name, (line + tail)[:80]))
    # 3b. one operation = one critical section: a function that takes the lock twice is two steps of the scheduler model, and state it
    #     sets up under the first acquisition (a memo, a mode flag) can be changed by another thread before the second
    for name, text in files.items():
        code = re.sub(r'//.*', '', text)
        for mm in re.finditer(r'\bfn\s+(\w+)[^{;]*\{', code):
            i, d = mm.end(), 1
            while d and i < len(code):
                d += (code[i] == '{') - (code[i] == '}')
                i += 1
            if len(re.findall(r'INTERNER\s*\.lock\(\)', code[mm.end():i])) > 1:
                problems.append('%s: fn %s takes INTERNER.lock() more than once (one API call is no longer one atomic step)' % (name, mm.group(1)))
    # 3c. the read side is lock-free (the model's `aread`): kind(), evaluation, rendering, comparison and negation never take the lock, so
    #     user code they call (a Reporter) never runs under it
    code = re.sub(r'//.*', '', files['tree.rs'])
    for mm in re.finditer(r'\bfn\s+(\w+)[^{;]*\{', code):
        i, d = mm.end(), 1
        while d and i < len(code):
            d += (code[i] == '{') - (code[i] == '}')
            i += 1
        if re.match(r'(evaluate|kind$|to_dnf|fmt$|cmp$|partial_cmp$|eq$|hash$|report_|is_true$|is_false$|contents$|try_to_string$|top_level_extra|negate$|children|debug_)', mm.group(1)) \
                and re.search(r'INTERNER\s*\.lock\(\)', code[mm.end():i]):
            problems.append('tree.rs: the read-side fn %s takes INTERNER.lock() (reads are lock-free in the model)' % mm.group(1))
    # 4. reads of the arena go through InternerShared::node only
    if re.search(r'\.nodes\b', re.sub(r'//.*', '', files['tree.rs'])):
        problems.append('tree.rs touches the arena directly')
    return problems


def run(ctx):
    ctx.proofs('Props/C15.v')
    build.extract_and_driver()
    h = build.harness()
    quick = ctx.tier == 'quick'
    ctx.extra['rule'] = ('(1) audit of the lock discipline assumed by the theorem (single Mutex, state touched only in InternerGuard, no re-entrant lock, arena '
                         'reads through InternerShared::node); (2) stress: 8-16 threads race, from one barrier, to parse the same fresh markers in rotated orders, '
                         'combine, simplify, render, evaluate and compare them; all threads must produce == markers and identical observations, equal to a '
                         'single-threaded fresh process; watchdog for deadlock, any panic counts; (3) hammer: and / or / is_disjoint of 17 marker pairs (one nested 85 parentheses deep), re-parses of their texts, and (every 32nd repetition) requires-python complexify / simplify, simplify_extras (with a different set of active extras on each thread) and TRUE complexified to a bound no thread has used before, computed once sequentially, then recomputed 100 000-600 000 times by each of 8 threads at once, and 2 500-40 000 times while one thread keeps the interner busy with a large is_disjoint (a 16-fold conjunction of disjunctions), every result compared with the sequential one; the audit also requires that src/marker has no shared mutable state besides the interner (no other static, atomics, cells, thread-locals, locks); this part is supporting test evidence, not proof. '
                         'non-trivial = distinct (round, marker text)')
    probs = audit(ctx)
    ctx.extra['lock_audit'] = probs or 'ok'
    ctx.oracle_cases += 1
    for p in probs:
        ctx.disagreement('lock discipline of src/marker ~ the atomicity assumption of C15_sched_indep (textual audit)', p,
                         'one mutex around all shared state; no other shared mutable state', p)
    rounds = 6 if quick else 40
    for rd in range(rounds):
        texts = []
        for _ in range(24 if quick else 40):
            r = ctx.rng.random()
            if r < .5:
                texts.append(markers.gen_marker(ctx.rng, 2))
            else:
                prog = c14.gen_program(ctx.rng, 1)
                texts.append(prog[0][1])
        # make them fresh for this process: unique literal per round so that all threads race to create the same new nodes
        texts = [t.replace("'a'", "'a%d'" % rd).replace('"a"', '"a%d"' % rd) for t in texts]
        # markers that share their root variable over different children, fresh every round: whoever interns a child first must not decide their order
        texts += ["extra == 'aa%d' and extra == 'b%d'" % (rd, rd), "extra == 'aa%d' and extra == 'c%d'" % (rd, rd), "extra == 'aa%d' and extra == 'd%d'" % (rd, rd),
                  "'w%d' in os_name and extra == 'f%d'" % (rd, rd), "'w%d' in os_name and extra == 'e%d'" % (rd, rd),
                  # one list of versions under two spellings (trailing zeros), fresh every round: whichever spelling a thread interns first must not show
                  "implementation_version in '3.8.0 %d.1'" % (100 + rd), "implementation_version in '3.8 %d.1.0'" % (100 + rd),
                  "python_full_version not in '%d.2.0 3.9'" % (100 + rd), "python_full_version not in '%d.2 3.9.0'" % (100 + rd)]
        nthreads = 8 if quick else 16
        multi = fw.batch(h, [['stress', str(nthreads), '60000', [S(t) for t in texts]]], timeout=120)[0]
        single = fw.batch(h, [['stress', '1', '60000', [S(t) for t in texts]]], timeout=120)[0]
        ctx.evaluations += 1
        ctx.oracle_cases += 1
        for t in texts:
            ctx.nontrivial((rd, t))
        how = {'round': rd, 'threads': nthreads, 'texts': texts[:6]}
        if multi[0] != 'ok':
            ctx.failure('concurrent use: %s' % dump(multi)[:200], how)
            continue
        if single[0] != 'ok':
            ctx.failure('single-threaded reference run failed: %s' % dump(single)[:200], how)
            continue
        if multi[1] != 'T':
            ctx.failure('markers built from the same text on different threads are not ==', how)
        ref = single[2][0]
        for ti, obs in enumerate(multi[2]):
            if obs != ref:
                j = next(i for i, (a, b) in enumerate(zip(obs, ref)) if a != b)
                if j >= len(texts):
                    ctx.failure('thread %d sorts the markers it built in another order than a sequential execution does' % ti,
                                dict(how, concurrent=dump(obs[j])[:300], sequential=dump(ref[j])[:300]))
                else:
                    ctx.failure('thread %d observes something else than a sequential execution for marker %r' % (ti, texts[j]),
                                dict(how, marker=texts[j], concurrent=pretty(obs[j])[:600], sequential=pretty(ref[j])[:600]))
                break
        if len(ctx.samples) < 3:
            ctx.sample({'threads': nthreads, 'markers': texts[:4]})
    # (3) hammer: results computed once sequentially, then recomputed by all threads at once, many times, over different pairs:
    # a result that depends on what another thread is doing at the same moment (unsynchronised memo, torn state) shows up as a mismatch
    for rd in range(2 if quick else 10):
        # neighbours alternate between disjoint and overlapping pairs, so that a wrong `false` as well as a wrong `true` of is_disjoint shows
        texts = ["os_name == 'posix%d'" % rd, "os_name == 'nt'", "sys_platform == 'win32' and os_name == 'nt'", "sys_platform == 'linux'",
                 "python_full_version >= '3.8' and sys_platform == 'linux'", "python_full_version < '3.8' and sys_platform == 'linux'",
                 "platform_machine == 'arm64'", "platform_machine == 'x86_64'", "extra == 'a%d'" % rd, "extra != 'a%d' and 'lin' in sys_platform" % rd, "'lin' in sys_platform"]
        # extras a, b, c guarding different branches: every thread restricts these with its own set of active extras
        texts += ["(os_name == 'posix' and extra == 'a') or (os_name == 'nt' and extra == 'b')",
                  "(sys_platform == 'linux' and extra == 'a') or (sys_platform == 'win32' and extra == 'b') or (sys_platform == 'darwin' and extra == 'c')",
                  "python_version >= '3.8' and (extra == 'a' or extra == 'c') and extra != 'b'",
                  "(extra == 'a' and extra == 'b') or (platform_machine == 'arm64' and extra == 'c')"]
        texts += [markers.gen_marker(ctx.rng, 1) for _ in range(6)]
        # deep nesting and a wide conjunction of disjunctions: per-call state (depth counters, work budgets) must not be shared between threads
        deep = "python_version >= '3.%d' and os_name == 'posix'" % rd
        for lvl in range(85):
            deep = "(extra == 'e%d' or %s)" % (lvl, deep)
        texts.append(deep)
        wide = ' and '.join("('a%02d' in os_name or 'b%02d' in os_name)" % (i, i) for i in range(16))
        heavy = [S(wide + " and extra == 'e'"), S(wide + " and extra != 'e'")]
        # phase A: all threads on the small operations; phase B: one thread keeps the interner busy with the large check
        iters = 100000 if quick else 600000
        r = fw.batch(h, [['hammer', '8', str(iters), '240000', [S(t) for t in texts], []]], timeout=600)[0]
        if r[0] != 'ok':
            # deadlocked or panicked: nothing further can be learnt from this tree, and every further phase would wait for its watchdog
            ctx.evaluations += 1
            ctx.oracle_cases += 1
            ctx.failure('concurrent use (hammer): %s' % dump(r)[:200], {'hammer-round': rd, 'threads': 8, 'iterations': iters, 'texts': texts})
            break
        rb = fw.batch(h, [['hammer', '8', str(2500 if quick else 40000), '400000', [S(t) for t in texts], heavy]], timeout=900)[0]
        if r[0] == 'ok' and rb[0] == 'ok':
            r = ['ok', str(int(r[1]) + int(rb[1])), str(int(r[2]) + int(rb[2])), r[3] if r[3] != 'none' else rb[3]]
        elif rb[0] != 'ok':
            r = rb
        ctx.evaluations += 1
        ctx.oracle_cases += 1
        how = {'hammer-round': rd, 'threads': 8, 'iterations': iters, 'texts': texts}
        if r[0] != 'ok':
            ctx.failure('concurrent use (hammer): %s' % dump(r)[:200], how)
            break
        elif r[1] != '0':
            ctx.failure('%s of %s and/or results computed concurrently differ from the sequential result, e.g. pair %s' % (r[1], r[2], dump(r[3])[:200]), how)
    # (4) reads are lock-free (C15_lock_free_read_*): user code called back by a read (a Reporter) or running under a mutating call (the
    # predicate of simplify_extras_with) may itself read markers, and a panicking Reporter poisons nothing
    r = fw.batch(h, [['reent', markers.env_sexp(markers.DEFAULT_ENV), '20000']], timeout=60)[0]
    ctx.evaluations += 1
    ctx.oracle_cases += 1
    if r == 'deadlock' or r == 'panicked' or r[0] != 'ok':
        ctx.failure('marker operations issued from inside a Reporter / a simplify_extras_with predicate: %s' % dump(r)[:200], {'op': 'reent'})
    elif len(r) > 1:
        ctx.failure('call-backs during marker operations: ' + '; '.join(unS(x) for x in r[1:]), {'op': 'reent'})
    return fw.finish(ctx, 'make -C /verif/coq Props/C15.vo  (coqc, Print Assumptions under each theorem)')
