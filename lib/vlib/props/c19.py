"""C19 — bare URLs, paths and archive names are never taken for package names; the unnamed parser recovers them."""
from .. import build, framework as fw, markers, trees, reqmodel
from ..sexp import S, unS, dump
from . import c08

SCHEMES = ['https', 'http', 'file', 'git+https', 'git+ssh', 'hg+static-http', 'svn+svn', 'bzr+lp', 'ftp', 'a+b', 'C', 'x-y.z', 's3', 'HTTPS']
URL_TAILS = ['//h/p', '//h/p.whl', '///a/b', '//localhost/abs/dir/p.whl', '//localhost', '//u:pw@h:8080/p?q=1#f', '//h/${HOME}/p', 'p', '//h/[x]/p', '//h/p@v1', '\\path', '//h/a%20b', '///home/x/../dist/pkg-1.0.tar.gz', '//localhost/opt/a/b/../../pkg-1.0.zip']
PATHS = ['/srv/wheels/../cache/p-1.0.whl', '/home/x/project/../shared/editable', '/a/./b/p.whl', 'proj/é', './résumé', 'é/p', './p', '../up/p.whl', '/abs/p', '/abs/dir/', 'rel/p', 'rel\\p', '.hidden', '.', '..', './a b', '\\\\unc\\p', '/p.tar.gz', './${HOME}/p', 'a/b@c', './p#frag', '~/p', 'dir.d/p']
NAMES = ['foo', 'requests-2.26.0', 'Foo_Bar', 'a', 'x.y', 'pkg-1.0-py3-none-any', 'torch-2.1.0+cu118-cp310-cp310-linux_x86_64', 'pkg-1.0+local', 'résumé-1.0', 'päckage', 'größe-2.0', 'パッケージ-1.0']
EXTS = ['.whl', '.tbz', '.txz', '.tlz', '.zip', '.tgz', '.tar', '.tar.bz2', '.tar.xz', '.tar.lz', '.tar.lzma', '.tar.gz']
NON_EXTS = ['.gz', '.txt', '.tar.txt', '.whl.txt', '', '.egg', '.bz2']
SUFFIXES = ['', '[a]', '[a,b]', ' ; os_name == "a"', "[a] ; python_version >= '3.8'", ' ;os_name=="a"', '[ a , B_c ]', " ; extra == 'x' and os_name != 'b'",
            '  ; os_name == "a"', "[a,b]  ; python_version >= '3.8'", ' \t; os_name == "a"', "[a]\t \t;os_name=='a'", '  ', '[a] \t', '[]', '[ ]', "[] ; python_version >= '3.8'"]


def run(ctx):
    ctx.proofs('Props/C19.v')
    ctx.table_proofs('C19Tables.v')
    build.extract_and_driver()
    quick = ctx.tier == 'quick'
    ctx.extra['rule'] = ('inputs = {%d schemes x %d URL tails} + %d paths + {%d names x %d pip archive extensions} (and, as negative controls, %d non-archive extensions), each x %d suffixes (nothing, extras, '
                         'marker, both, odd spacing); default features: Requirement::<VerbatimUrl>::from_str and Requirement::<Url>::from_str must fail with Pep508ErrorSource::UnsupportedRequirement '
                         '(or, for inputs whose first token is not the whole URL/path, at least never succeed as a name), and the extracted model must agree on kind and span; '
                         'non-pep508-extensions: the same, plus UnnamedRequirement::from_str / parse must accept, given() must be the URL/path text, extras and marker as in the suffix, and Display -> '
                         'FromStr -> Display must reproduce value and text (texts without inner brackets). non-trivial = distinct (input class, suffix, outcome kind, feature set) classes'
                         % (len(SCHEMES), len(URL_TAILS), len(PATHS), len(NAMES), len(EXTS), len(NON_EXTS), len(SUFFIXES)))
    cases = []
    for s in SCHEMES:
        for t in URL_TAILS:
            cases.append(('url', s + ':' + t))
    for p in PATHS:
        cases.append(('path', p))
    for n in NAMES:
        for e in EXTS:
            cases.append(('archive', n + e))
        for e in NON_EXTS:
            if '+' not in n and n.isascii():          # the negative control needs a valid package name
                cases.append(('plain-name', n + e))
    if quick:
        keep = [c for c in cases if c[0] != 'url' or c[1].startswith('file://localhost') or c[1].startswith('C:') or '/../' in c[1] or '${' in c[1]] + ctx.rng.sample([c for c in cases if c[0] == 'url'], 60)
        cases = keep
    for ext in (False, True):
        h = build.harness(ext=ext)
        sess = markers.Session(h)
        keys = markers.Keys(sess.p)
        wd = '/work' if ext else None
        rm = reqmodel.ReqModel(sess.p, keys, wd=wd)
        for cls, base in cases:
            for suf in (SUFFIXES if not quick else ctx.rng.sample(SUFFIXES, 4)):
                text = base + suf
                for verbatim in (True, False):
                    ctx.evaluations += 1
                    r, io, m = reqmodel.compare_req(ctx, sess, rm, text, verbatim, wd, what='Requirement' if verbatim else 'Requirement<Url>')
                    ctx.oracle_cases += 1
                    kind = io[1] if io[0] == 'err' else None
                    ctx.count('%s%s:%s' % ('ext:' if ext else '', cls, io[0] if io[0] != 'err' else (kind if isinstance(kind, str) else kind[0])))
                    ctx.nontrivial((ext, cls, suf[:3], io[0], kind if isinstance(kind, str) else None, verbatim))
                    if not reqmodel.impl_span_checks(ctx, 'Requirement::from_str', text, io):
                        continue
                    if cls == 'plain-name':
                        # negative control: ordinary names are still accepted
                        if io[0] != 'ok':
                            ctx.failure('the ordinary requirement %r is rejected: %r' % (text, io[:4]), {'entry': 'Requirement::from_str', 'input': text})
                        continue
                    if io[0] == 'ok':
                        ctx.failure('%r (%s) is accepted as the named requirement %r' % (text, cls, unS(r[1])), {'entry': 'Requirement::from_str', 'input': text, 'class': cls})
                    elif ' ' in base or (cls == 'url' and not scheme_wf(base.split(':')[0])):
                        pass        # first token is not the whole path / not a well-formed scheme: any rejection will do
                    elif kind not in ('unsupported-path', 'unsupported-url'):
                        # tracked finding F17: the recognition reads the first white-space-delimited token; when the first blank of the input lies
                        # inside the extras brackets and the archive name is not a valid package name up to its extension, the token is `name.whl[`
                        import re
                        mws = re.search(r'\s', text)
                        inside = mws is not None and text[:mws.start()].count('[') > text[:mws.start()].count(']')
                        fcls = 'archive-spaced-extras' if (cls == 'archive' and inside and not re.fullmatch(r'[A-Za-z0-9._-]+', base)) else None
                        ctx.failure('%r (%s) is rejected with %r, not with the dedicated unsupported-requirement kind' % (text, cls, io[1:4]),
                                    {'entry': 'Requirement::from_str', 'input': text, 'class': cls}, fcls)
                if ext and cls != 'plain-name':
                    unnamed_case(ctx, sess, keys, rm, cls, base, suf, wd)
        ctx.extra['oracle_table_fills' + ('_ext' if ext else '')] = rm.misses
        rm.close()
        sess.close()
    helper_correspondence(ctx)
    if not ctx.samples:
        ctx.sample('(none)')
    return fw.finish(ctx, 'make -C /verif/coq Props/C19.vo  (coqc, Print Assumptions under each theorem)')


def helper_correspondence(ctx):
    """the public helpers the recognition rests on, directly: split_scheme, strip_host, split_extras against their models, on scheme-like,
    host-like and bracket-like texts (single-letter schemes, odd punctuation, empty pieces)"""
    h = build.harness()
    heads = ['', 'a', 'C', 'c', 'ab', 'a1', '1a', 'a+b', 'a-b', 'a.b', 'a+', 'a-', 'a.', '+a', '-a', 'ab-c.d+e', 'hg+static-http', 'file', 'FILE', 'é', 'a é', 'a_b', 'a:b', ' a', '\x01a', '\tab', 'a\x00']
    tails = ['', ':', ':p', '://h/p', ':\\p', ':/p', '::', ' :p']
    texts = [x + y for x in heads for y in tails]
    hosts = ['', '/', '//', '///a', '//localhost', '//localhost/', '//localhost/a', '//localhostx/a', '//LOCALHOST/a', '/localhost/a', '//localhost//a', 'a//localhost/b', '//h/p']
    brs = ['', '[', ']', '[]', 'a[]', 'a[b]', 'a[b', 'ab]', 'a[b]c', 'a[b][c]', '[a]', 'a[[b]]', 'a[b,c]', 'a [b]', 'a[b] ', 'a]b[', 'a[é]', 'é[a]', 'a[b]]']
    cmds_h = [['splitscheme', S(t)] for t in texts] + [['striphost', S(t)] for t in hosts] + [['splitextras', S(t)] for t in brs]
    cmds_m = cmds_h
    hs = fw.batch(h, cmds_h)
    ms = fw.batch(build.DRIVER, cmds_m)
    for c, a, b in zip(cmds_h, hs, ms):
        ctx.corr_cases += 1
        ha = a[1:] if isinstance(a, list) and a and a[0] == 'ok' and c[0] != 'striphost' else (a[1] if isinstance(a, list) and a and a[0] == 'ok' else a)
        mb = b[1:] if isinstance(b, list) and b and b[0] == 'ok' else b
        if dump(ha) != dump(mb):
            ctx.disagreement('%s (model) ~ pep508_rs::%s' % (c[0], {'splitscheme': 'split_scheme', 'striphost': 'strip_host', 'splitextras': 'split_extras'}[c[0]]), unS(c[1]), dump(mb)[:200], dump(ha)[:200])


def scheme_wf(s):
    import re
    return re.match(r'^[A-Za-z]([A-Za-z0-9+]|[-.](?=[A-Za-z0-9]))*$', s) is not None


def unnamed_case(ctx, sess, keys, rm, cls, base, suf, wd):
    text = base + suf
    ctx.evaluations += 1
    with_wd = None
    for use_wd in (True, False):
        r = sess.ask(['unnamed', S(wd) if use_wd else 'none', S(text)])
        if use_wd:
            with_wd = r
        elif r[0] == 'ok' and with_wd is not None and with_wd[0] == 'ok' and (cls == 'url' or base.startswith('/')) and '${' not in base:
            # an absolute path / a URL does not depend on the working directory: parse and from_str give the same requirement
            ctx.oracle_cases += 1
            if [dump(x) for x in r[1:4]] != [dump(x) for x in with_wd[1:4]]:
                ctx.failure('UnnamedRequirement::parse (with a working directory) and from_str disagree on the absolute %r: %s vs %s'
                            % (text, ' '.join(dump(x) for x in with_wd[1:4])[:200], ' '.join(dump(x) for x in r[1:4])[:200]), {'entry': 'UnnamedRequirement::parse / from_str', 'input': text})
        io = reqmodel.outcome(r)
        ctx.oracle_cases += 1
        entry = 'UnnamedRequirement::parse' if use_wd else 'UnnamedRequirement::from_str'
        if not reqmodel.impl_span_checks(ctx, entry, text, io):
            return
        if use_wd:
            m = rm.unnamed(text)
            ctx.corr_cases += 1
            if not reqmodel.same_outcome(ctx, sess, 'UnnamedRequirement', text, reqmodel.model_outcome(m), io):
                ctx.disagreement('parse_unnamed ~ UnnamedRequirement::parse (outcome)', text, repr(reqmodel.model_outcome(m)), repr(io[:4]))
            elif io[0] == 'ok' and [dump(x) for x in m[1:4]] != [dump(x) for x in r[1:4]]:
                ctx.disagreement('parse_unnamed ~ UnnamedRequirement::parse (url, given, extras)', text, ' '.join(dump(x) for x in m[1:4])[:400], ' '.join(dump(x) for x in r[1:4])[:400])
        if io[0] == 'err':
            # acceptable only when the URL type itself refuses the text (relative path without working directory, unparsable URL)
            if io[1] == 'url' and base.startswith('file://localhost/'):
                ctx.failure('%s rejects the absolute file URL %r: %s' % (entry, text, io[6][:120]), {'entry': entry, 'input': text, 'class': cls})
            elif io[1] != 'url':
                if '[' in base or ']' in base or ' ' in base:
                    continue
                ctx.failure('%s rejects %r (%s) with %r' % (entry, text, cls, io[1:4]), {'entry': entry, 'input': text, 'class': cls})
            elif use_wd and cls == 'path':
                ctx.failure('%s cannot turn the path %r into a URL: %s' % (entry, text, io[6][:120]), {'entry': entry, 'input': text, 'class': cls})
            continue
        # (ok disp given extras reg dump warnings shown contents evaluator-problems)
        if len(r) > 9 and r[9]:
            ctx.failure('%s(%r): the requirement-level evaluators disagree with the marker: %s' % (entry, text, '; '.join(unS(x) for x in r[9])[:300]), {'entry': entry, 'input': text})
        given = unS(r[2]) if r[2] != 'none' else None
        if '[' in base or ' ' in base:
            continue
        if given != base:
            ctx.failure('%s(%r): given() is %r, the source text of the URL is %r' % (entry, text, given, base), {'entry': entry, 'input': text})
        want_extras = []
        if suf.startswith('['):
            import re
            want_extras = [re.sub(r'[-_.]+', '-', e.strip()).lower() for e in suf[1:suf.index(']')].split(',') if e.strip()]
        if [unS(e) for e in r[3]] != want_extras:
            ctx.failure('%s(%r): extras %r, expected %r' % (entry, text, [unS(e) for e in r[3]], want_extras), {'entry': entry, 'input': text})
        mtext = suf.split(';', 1)[1] if ';' in suf else None
        if mtext is None:
            if r[5] != 'T':
                ctx.failure('%s(%r): a marker appeared' % (entry, text), {'entry': entry, 'input': text})
        else:
            mreg, mr = sess.parse(mtext)
            if mreg is not None and dump(sess.dumps[mreg]) != dump(r[5]):
                ctx.failure('%s(%r): the marker is not MarkerTree::from_str(%r)' % (entry, text, mtext), {'entry': entry, 'input': text})
        if use_wd:
            c08.roundtrip(ctx, sess, keys, text, True, wd, unnamed=True)
            # the rendered text names the resolved URL: it reads back to the same requirement from any working directory, and without one
            shown = unS(r[7])
            for other in (S('/elsewhere/dir'), 'none'):
                r2 = sess.ask(['unnamed', other, S(shown)])
                ctx.oracle_cases += 1
                if r2[0] != 'ok' or dump(r2[1]) != dump(r[1]) or dump(r2[3]) != dump(r[3]) or dump(r2[5]) != dump(r[5]) or dump(r2[7]) != dump(r[7]):
                    ctx.failure('the rendered text %r of UnnamedRequirement::parse(%r, %r) does not read back to the same requirement %s: %s'
                                % (shown, text, wd, 'without a working directory' if other == 'none' else 'from another working directory', dump(r2)[:200]),
                                {'entry': 'UnnamedRequirement Display -> parse', 'input': text})
