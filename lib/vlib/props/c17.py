"""C17 — meaningless comparisons are reported and dropped, never silently."""
from .. import build, framework as fw, markers, trees, textmodel
from ..sexp import S, unS, dump, pretty
from . import c01, c02

VK = ['python_version', 'python_full_version', 'implementation_version']
SK = ['os_name', 'sys_platform', 'platform_machine']
OPS = ['==', '!=', '<', '<=', '>', '>=', '~=', 'in', 'not in']


def bogus_comparisons():
    """(text, expected warning kind): every operand-kind x operator combination that cannot be interpreted"""
    out = []
    operands = {'ver': VK[:2], 'str': SK[:2], 'extra': ['extra'], 'lit': ["'x'", '"3.8"']}
    for lk, ls in operands.items():
        for rk, rs in operands.items():
            for op in OPS:
                for l in ls[:1]:
                    for r in rs[:2]:
                        exp = None
                        if lk == 'lit' and rk == 'lit':
                            exp = 'stringstring'
                        elif lk == 'ver' and rk != 'lit':
                            exp = 'pep440'
                        elif lk == 'str' and rk != 'lit':
                            exp = 'markermarker'
                        elif lk == 'extra' and rk != 'lit':
                            exp = 'extrainvalid'
                        elif (lk, rk) in (('str', 'lit'), ('lit', 'str')) and op == '~=':
                            exp = 'lexicographic'
                        elif (lk, rk) in (('extra', 'lit'), ('lit', 'extra')) and op not in ('==', '!='):
                            exp = 'extrainvalid'
                        elif (lk, rk) == ('ver', 'lit') and r == "'x'":
                            exp = 'pep440'
                        elif (lk, rk) == ('lit', 'ver') and l == "'x'":
                            exp = 'pep440'
                        elif (lk, rk) == ('lit', 'ver') and op in ('in', 'not in'):
                            exp = 'pep440'
                        if exp:
                            out.append(('%s %s %s' % (l, op, r), exp))
    # long quoted texts with multi-byte characters around the 64- / 128- / 256-byte marks (whatever a message does with an overlong value)
    for n in (61, 62, 63, 64, 125, 126, 127, 253, 254, 255):
        long_text = 'x' * n + 'é€😀é€😀'
        out += [("python_version >= '%s'" % long_text, 'pep440'), ("'%s' < python_full_version" % long_text, 'pep440'), ("implementation_version in '3.8 %s'" % long_text, 'pep440'),
                ("extra < '%s'" % long_text, 'extrainvalid')]
    out += [("python_version ~= '3'", 'pep440'), ("python_version > '3.*'", 'pep440'), ("python_full_version in '3.8 x'", 'pep440'),
            ("'3.8.*' == python_version", 'pep440')]
    return list(dict.fromkeys(out))


def run(ctx):
    ctx.proofs('Props/C17.v')
    build.extract_and_driver()
    h = build.harness()
    quick = ctx.tier == 'quick'
    sess = markers.Session(h)
    keys = markers.Keys(sess.p)
    tm = textmodel.MarkerTextModel(sess.p, keys)
    bogus = bogus_comparisons()
    ctx.extra['rule'] = ('%d uninterpretable comparisons (4x4 operand kinds x 9 operators, both orders, + invalid operator/version combinations), each alone and '
                         'inserted at every position (first / middle / last operand of and / or chains, inside parentheses) of random well-formed markers: parsing must '
                         'succeed, the reporter must receive a warning of the matching kind, and the result must == the marker with that operand removed (TRUE if nothing '
                         'remains); well-formed markers must parse silently (apart from invalid extra names); parse_reporter vs from_str and evaluate vs evaluate_collect_'
                         'warnings must agree; the extracted parser model must predict diagram and warning kinds. non-trivial = distinct (bogus comparison, position, host shape)' % len(bogus))
    # each bogus comparison alone: TRUE + warning
    for text, kind in bogus:
        r = sess.ask(['parse', S(text)])
        ctx.evaluations += 1
        ctx.oracle_cases += 1
        if r[0] != 'ok':
            ctx.failure('a marker consisting of an uninterpretable comparison was not accepted: %r -> %s' % (text, dump(r)[:160]), {'text': text}, cls=None)
            if r[0] in ('panic', 'died'):
                sess.close(); tm.close(); sess = markers.Session(h); tm = textmodel.MarkerTextModel(sess.p, keys)
            continue
        if r[2] != 'T':
            ctx.failure('an uninterpretable comparison alone should give TRUE: %r' % text, {'text': text, 'diagram': pretty(r[2])[:300]})
        if kind not in r[3]:
            ctx.failure('no %s warning was reported for %r (reported: %s)' % (kind, text, dump(r[3])), {'text': text})
        if r[4] != 'T':
            ctx.failure('parse_reporter and from_str give different markers for %r' % text, {'text': text})
        m = tm.parse(text)
        ctx.corr_cases += 1
        if m[0] != 'ok' or m[1] != 'T' or m[2] != r[3]:
            ctx.disagreement('parse_markers ~ parse_reporter (dropped comparison)', text, dump(m)[:200], dump(r[1:4])[:200])
    # inserted into well-formed markers
    n = 300 if quick else 3000
    for _ in range(n):
        k = ctx.rng.randint(1, 4)
        parts = [c01.render(ctx.rng, c01.gen_ast(ctx.rng, ctx.rng.choice([0, 0, 1]))) for _ in range(k)]
        if any(p is None for p in parts):
            continue
        op = ctx.rng.choice([' and ', ' or '])
        pos = ctx.rng.randrange(k + 1)
        btext, kind = ctx.rng.choice(bogus)
        wrap = lambda p: '(%s)' % p if (' and ' in p or ' or ' in p or '\tand' in p or '\tor' in p or ' and' in p or ' or' in p) else p
        clean = op.join(wrap(p) for p in parts)
        with_bogus = op.join([wrap(p) for p in parts[:pos]] + [ctx.rng.choice([btext, '(%s)' % btext])] + [wrap(p) for p in parts[pos:]])
        rc = sess.ask(['parse', S(clean)])
        rb = sess.ask(['parse', S(with_bogus)])
        ctx.evaluations += 1
        ctx.oracle_cases += 1
        how = {'with': with_bogus, 'without': clean, 'expected_warning': kind}
        if rc[0] != 'ok' or rb[0] != 'ok':
            ctx.failure('parsing failed: %s / %s' % (dump(rc)[:100], dump(rb)[:100]), how)
            if 'panic' in (rc[0], rb[0]):
                sess.close(); tm.close(); sess = markers.Session(h); tm = textmodel.MarkerTextModel(sess.p, keys)
            continue
        ctx.nontrivial((btext, pos, k, op))
        if sess.ask(['rel', rc[1], rb[1]])[1] != 'T':
            ctx.failure('the marker with an uninterpretable comparison is not the marker with that comparison removed', how)
        if kind not in rb[3]:
            ctx.failure('no %s warning for the uninterpretable comparison (reported: %s)' % (kind, dump(rb[3])), how)
        extra_inv = 'extrainvalid'
        if [w for w in rc[3] if w != extra_inv]:
            ctx.failure('a marker without uninterpretable comparisons reported %s at parse time' % dump(rc[3]), {'text': clean})
        if rb[4] != 'T' or rc[4] != 'T':
            ctx.failure('the choice of reporter changes the parsed marker', how)
        m = tm.parse(with_bogus)
        ctx.corr_cases += 1
        try:
            want = trees.to_model(rb[2])
            if m[0] != 'ok' or m[1] != want or m[2] != rb[3]:
                ctx.disagreement('parse_markers ~ parse_reporter (diagram, warning kinds)', with_bogus, dump(m)[:300], dump(rb[2:4])[:300])
        except (trees.NotPartition, trees.Unmodelled):
            pass
        if len(ctx.samples) < 6 and ctx.rng.random() < .02:
            ctx.sample(how)
    # extra compared with a text that is not a valid extra name: reported, kept, and it never matches - under every evaluator,
    # whatever extras are active (the normalised spelling of the text included)
    from . import c02
    for bad in ('a b', 'not a name!', '-dash', 'trailing-', 'é', ''):
        for tmpl, want in (("extra == %s", 'F'), ("%s == extra", 'F'), ("extra != %s", 'T'), ("os_name == 'posix' and extra == %s", 'F'), ("os_name == 'nt' or extra != %s", 'T')):
            text = tmpl % markers.q(ctx.rng, bad)
            reg, r = sess.parse(text)
            ctx.oracle_cases += 1
            if reg is None:
                ctx.failure('a comparison of extra with an invalid name was not accepted: %r' % text, {'text': text})
                continue
            if 'extra-invalid' not in dump(r[3]) and 'extra' not in dump(r[3]):
                ctx.failure('no warning for extra compared with the invalid name %r (reported: %s)' % (bad, dump(r[3])), {'text': text})
            for active in ([], ['a-b'], ['dev'], ['a-b', 'dash', 'trailing']):
                env = dict(markers.DEFAULT_ENV)
                g = c02.eval_all(sess, reg, env, active)
                gx = sess.ask(['evalx', str(reg), [S(x) for x in active]])
                gp = sess.ask(['evalxpv', str(reg), [S(x) for x in active], [S('3.8')]])
                vals = {'evaluate': g[1], 'evaluate_reporter': g[2], 'evaluate_collect_warnings': g[3], 'evaluate_optional_environment(Some)': g[4], 'Requirement::evaluate_markers': g[5],
                        'evaluate_extras': gx[1], 'evaluate_optional_environment(None)': gx[2], 'evaluate_extras_and_python_version': gp[1], 'Requirement::evaluate_extras_and_python_version': gp[2]}
                wrong = [k for k, v in vals.items() if v != want]
                if wrong:
                    ctx.failure('%r with active extras %r: %s give %s, an invalid extra name never matches (expected %s)' % (text, active, ', '.join(wrong), 'T' if want == 'F' else 'F', want),
                                {'text': text, 'extras': active})
    tm.close()
    sess.close()
    if not ctx.samples:
        ctx.sample('(none)')
    return fw.finish(ctx, 'make -C /verif/coq Props/C17.vo  (coqc, Print Assumptions under each theorem)')
