"""C14 — results do not depend on what the process did before."""
from .. import build, framework as fw, markers, trees, pep440
from ..sexp import S, unS, dump, pretty
from . import c02, c10, c12, c20

ENVS = [dict(markers.DEFAULT_ENV), dict(markers.DEFAULT_ENV, python_full_version='3.9.0', python_version='3.9', os_name='nt', sys_platform='win32'),
        dict(markers.DEFAULT_ENV, python_full_version='3.7.2', python_version='3.7', implementation_version='3.9')]

SPELLINGS = ['3.8', '3.8.0', '3.8.0.0', '3.9', '3.9.0', '3', '3.0', '3.0.0', '3.10', '3.10.0', '3.7.2', '3.7.2.0', '0', '0.0']


def gen_program(rng, n):
    """a program: steps are ('parse', text) | (op, i, j...) over earlier steps; built to contain version literals whose
    spellings differ only in trailing zeros"""
    prog = []
    for _ in range(n):
        r = rng.random()
        if r < .45 or len(prog) < 2:
            rr = rng.random()
            if rr < .35:
                key = rng.choice(['python_full_version', 'implementation_version', 'python_version'])
                k = rng.randint(1, 3)
                vs = ' '.join(rng.choice(SPELLINGS) for _ in range(k))
                t = "%s %s '%s'" % (key, rng.choice(['in', 'not in']), vs)
            elif rr < .7:
                key = rng.choice(['python_full_version', 'implementation_version', 'python_version'])
                t = "%s %s '%s'" % (key, rng.choice(['<', '<=', '>', '>=', '==', '!=', '~=']), rng.choice([s for s in SPELLINGS if '.' in s]))
            else:
                t = markers.gen_marker(rng, 2)
            prog.append(('parse', t))
        elif r < .75:
            prog.append((rng.choice(['and', 'or']), rng.randrange(len(prog)), rng.randrange(len(prog))))
        elif r < .82:
            prog.append(('not', rng.randrange(len(prog))))
        elif r < .9:
            lo = rng.choice(['U', ['I', S(rng.choice(SPELLINGS))], ['E', S(rng.choice(SPELLINGS))]])
            hi = rng.choice(['U', ['I', S(rng.choice(SPELLINGS))], ['E', S(rng.choice(SPELLINGS))]])
            prog.append((rng.choice(['simppv', 'cplxpv']), rng.randrange(len(prog)), lo, hi))
        else:
            prog.append(('simpx', rng.randrange(len(prog)), [S(e) for e in markers.EXTRAS if rng.random() < .3]))
    return prog


def exec_program(sess, prog, order):
    regs = {}
    idxs = order or list(range(len(prog)))
    pending = list(idxs)
    done = set()
    # execute respecting dependencies (a permuted order only permutes independent steps)
    while pending:
        for i in list(pending):
            st = prog[i]
            deps = [x for x in st[1:] if isinstance(x, int)] if st[0] != 'parse' else []
            if all(d in done for d in deps):
                if st[0] == 'parse':
                    r, _ = sess.parse(st[1])
                else:
                    args = [regs[x] if isinstance(x, int) else x for x in st[1:]]
                    if any(a is None for a in args):
                        r = None
                    else:
                        r, _ = sess.op(st[0], *args)
                regs[i] = r
                done.add(i)
                pending.remove(i)
                break
        else:
            break
    return regs


def run_program(h, prog, warm, rng_seed, order=None, warm_prog=None, obs_reversed=False):
    """execute in a fresh process after a warm-up; returns the list of observations per step + pair matrices"""
    import random
    sess = markers.Session(h)
    for t in warm:
        if isinstance(t, str):
            wr, _ = sess.parse(t)
            if wr is not None:
                # reads too: whatever a read remembers process-wide (reported warnings, rendered texts) is remembered before the program runs
                sess.ask(['eval', str(wr), markers.env_sexp(ENVS[0]), []])
                sess.ask(['display', str(wr)])
        else:
            k = t[0]
            try:
                sess.op(k, *t[1:])
            except Exception:
                pass
    if warm_prog:
        exec_program(sess, warm_prog, None)
    regs = exec_program(sess, prog, order)
    obs = [None] * len(prog)
    for i in (reversed(range(len(prog))) if obs_reversed else range(len(prog))):
        r = regs.get(i)
        if r is None:
            continue
        d = sess.dumps[r]
        disp = sess.ask(['display', str(r)])
        dnf = sess.ask(['dnf', str(r)])
        fl = sess.ask(['flags', str(r)])
        ev = [dump(c02.eval_all(sess, r, e, ['a'])[1:]) for e in ENVS]       # values of all entry points and the warnings each reports
        obs[i] = {'dump': dump(d), 'display': dump(disp), 'dnf': dump(dnf), 'flags': dump(fl), 'eval': ev}
    n = len(prog)
    rel = {}
    rng = random.Random(rng_seed)
    for _ in range(min(150, n * n)):
        i, j = rng.randrange(n), rng.randrange(n)
        if regs.get(i) is not None and regs.get(j) is not None:
            rel[(i, j)] = dump(sess.ask(['rel', str(regs[i]), str(regs[j])]))
    sess.close()
    return obs, rel


def respell_version(v):
    """the same version with one trailing zero segment more or less"""
    if v.endswith('.0') and v.count('.') >= 1 and v not in ('0.0',):
        return v[:-2]
    return v + '.0'


def respell(prog):
    """the same program with every version literal spelled with other trailing zeros (denotes the same markers)"""
    import re
    out = []
    for st in prog:
        if st[0] == 'parse':
            t = st[1]
            m = re.match(r"^(python_full_version|implementation_version|python_version) (in|not in|<|<=|>|>=|==|!=) '([0-9. ]+)'$", t)
            if m and m.group(1) != 'python_version':
                t = "%s %s '%s'" % (m.group(1), m.group(2), ' '.join(respell_version(v) for v in m.group(3).split()))
            out.append(('parse', t))
        elif st[0] in ('simppv', 'cplxpv'):
            f = lambda b: b if b == 'U' else [b[0], S(respell_version(unS(b[1])))]
            out.append((st[0], st[1], f(st[2]), f(st[3])))
        else:
            out.append(st)
    return out


def family_program(rng):
    """markers sharing their root variable with different subtrees, and versions under two spellings: what a
    history-dependent tie-break (ids instead of structure) or a missing normalisation would make observable"""
    # the tails sort after the root in the variable order, so the root stays the root and the tails are its children
    root, pool = rng.choice([
        ("extra == 'alpha'", ["extra == 'beta'", "extra == 'gamma'", "extra != 'delta'", "extra == 'beta' or extra == 'gamma'"]),
        ("extra != 'alpha'", ["extra == 'beta'", "extra == 'gamma'", "extra != 'delta'", "extra == 'zeta'"]),
        ("'lin' in sys_platform", ["extra == 'beta'", "extra == 'gamma'", "'x' in sys_platform", "'y' in sys_platform"]),
        ("os_name == 'nt'", ["sys_platform == 'linux'", "platform_machine != 'arm64'", "extra == 'beta'", "'x' in platform_release"]),
        ("python_full_version >= '3.8'", ["extra == 'beta'", "sys_platform == 'linux'", "platform_machine != 'arm64'", "os_name in 'nt posix'"]),
    ])
    tails = rng.sample(pool, 3)
    prog = [('parse', t) for t in tails]
    for t in tails:
        prog.append(('parse', "%s and %s" % (root, t)))
    for t in tails[:2]:
        prog.append(('parse', "%s or %s" % (root, t)))
    v = rng.choice(['3.10', '3.9', '3.8', '4'])
    prog.append(('parse', "python_full_version < '%s'" % v))
    k = len(prog)
    prog.append(('cplxpv', rng.randrange(3), ['I', S('3.7')], ['E', S(v + '.0')]))
    prog.append(('cplxpv', k - 1, 'U', ['I', S(v + '.0.0')]))
    prog.append(('simppv', k - 1, ['I', S('3.6.0')], ['E', S(v + '.0')]))
    prog.append(('and', 3, 4))
    prog.append(('or', 4, 5))
    return prog


def fixed_program():
    """a program every run executes: string keys that have deprecated aliases, a contradiction between two values of one key,
    simplify_extras of one marker and of a marker sharing a node with it"""
    return [('parse', "os_name == 'posix'"), ('parse', "os_name == 'nt'"), ('and', 0, 1), ('parse', "sys_platform == 'linux' and 'x' in platform_version"),
            ('parse', "platform_machine != 'arm64' or platform_python_implementation == 'CPython'"), ('or', 2, 3), ('and', 3, 4),
            ('parse', "sys_platform == 'linux' and extra == 'cuda'"), ('simpx', 7, [S('cuda')]), ('parse', "os_name == 'nt' and extra == 'cuda'"), ('simpx', 9, [S('cuda')]),
            ('parse', "extra == 'cuda' or extra == 'cpu'"), ('simpx', 11, [S('cpu')]), ('and', 8, 10), ('not', 12)]


def fixed_program2():
    """no `extra == ...` anywhere: simplify_extras / with_extra of markers that mention extras negatively only, and markers without extras"""
    return [('parse', "sys_platform == 'linux' and extra != 'test'"), ('simpx', 0, [S('test')]), ('parse', "extra != 'a' or os_name == 'x'"), ('simpx', 2, [S('a')]),
            ('parse', "os_name == 'y'"), ('simpx', 4, [S('a')]), ('not', 0), ('simpx', 6, [S('test')]), ('and', 0, 2), ('simpx', 8, [S('a'), S('test')])]


def fixed_program3():
    """deprecated key spellings (their evaluation reports a warning every time) and parenthesised markers"""
    return [('parse', "python_version >= '3.8' and os.name == 'posix'"), ('parse', "sys.platform != 'win32' or extra == 'a'"), ('and', 0, 1),
            ('parse', "(os_name == 'nt' or sys_platform == 'win32') and python_version >= '3.8'"), ('parse', "python_version < '3.8' or (extra == 'cli' and (os_name == 'posix' or os_name == 'nt'))"),
            ('or', 2, 3), ('parse', "'x86' in platform.machine and python_implementation != 'PyPy'"), ('not', 6), ('and', 4, 6), ('parse', "platform.version >= '#1'")]


def fixed_program4():
    """markers and markers built over them (a disjunction and two markers that contain it as a subtree): rendering one must not depend on
    whether a part of it was rendered before"""
    return [('parse', "extra == 'b' or extra == 'c'"), ('parse', "extra == 'c' or (extra == 'a' and extra == 'b')"),
            ('parse', "(sys_platform == 'linux' and (extra == 'b' or extra == 'c')) or (sys_platform != 'linux' and extra == 'c')"), ('parse', "os_name == 'posix' or python_version >= '3.8'"),
            ('parse', "extra == 'x' and (os_name == 'posix' or python_version >= '3.8')"), ('and', 0, 3), ('or', 1, 4), ('not', 2), ('simpx', 2, [S('b')])]


# texts the parser rejects, most of them inside an open parenthesis: per-thread / per-process parser state must be left as it was found
REJECTED_WARMUP = [t % i for i in range(40) for t in ("(extra == 'a%d' or os_name == 'x'", "(os_name = 'x%d')", "((python_version >= '3.%d'", "(os_name == 'a%d' and (extra == 'b' or", "os_name == 'x%d' and")]
DEPRECATED_WARMUP = ["os.name == 'posix'", "'posix' == os.name", "sys.platform != 'win32'", "'x86' in platform.machine", "python_implementation != 'PyPy'", "platform.version >= '#1'",
                     "platform.python_implementation != 'PyPy'"]


# one comparison of every kind: whatever process-wide fact the crate derives from "having seen" a kind of comparison is derived before the program runs
KINDS_WARMUP = ["extra == 'docs'", "extra != 'docs2'", "'x' in os_name", "'x' not in os_name", "os_name in 'x y'", "os_name not in 'x y'", "os_name == 'q'", "os_name < 'q'",
                "python_full_version >= '1'", "python_full_version == '1.*'", "python_version in '1 2'", "python_version not in '1 2'", "implementation_version ~= '1.2'",
                "python_version < '3.5.1'", "os.name != 'q'", "extra == 'not a name'"]


ALIASES = [('os_name', 'os.name'), ('sys_platform', 'sys.platform'), ('platform_machine', 'platform.machine'), ('platform_version', 'platform.version'),
           ('platform_python_implementation', 'python_implementation')]


def alias_program(prog):
    """the same program with every string key written in its deprecated spelling (as a warm-up: the same nodes, reached through other keys first)"""
    out = []
    for st in prog:
        if st[0] == 'parse':
            t = st[1]
            for a, b in ALIASES:
                t = t.replace(a, b)
            out.append(('parse', t))
        else:
            out.append(st)
    return out


def other_extras_program(prog):
    """the same program with every simplify_extras called for other extras (as a warm-up: the same nodes restricted for another set first)"""
    out = []
    for st in prog:
        if st[0] == 'simpx':
            had = [unS(e) for e in st[2]]
            out.append(('simpx', st[1], [S(e) for e in ['cpu', 'a', 'dev', 'x-y'] if e not in had]))
        else:
            out.append(st)
    return out


def warmups(rng, prog, kind):
    if kind == 'none':
        return []
    w = []
    if kind == 'random':
        for _ in range(150):
            w.append(markers.gen_marker(rng, 2))
        return w
    # 'spellings': the same literals spelled with other trailing zeros, interned first
    for key in ('python_full_version', 'implementation_version'):
        for v in SPELLINGS:
            for alt in (v + '.0', v + '.0.0', v[:-2] if v.endswith('.0') else v):
                w.append("%s in '%s'" % (key, alt))
                w.append("%s >= '%s'" % (key, alt))
                w.append("%s == '%s'" % (key, alt))
                w.append("%s ~= '%s'" % (key, alt if '.' in alt else alt + '.0'))
    w.append("os_name == 'x'")
    n = len(w) - 1
    for v in SPELLINGS:
        for alt in (v + '.0', v + '.0.0'):
            w.append(('simppv', n, ['I', S(alt)], 'U'))
            w.append(('cplxpv', n, ['E', S(alt)], ['I', S('9.' + alt)]))
    return w


def run(ctx):
    ctx.proofs('Props/C14.v')
    build.extract_and_driver()
    h = build.harness()
    quick = ctx.tier == 'quick'
    ctx.extra['rule'] = ('(1) programs of 12-25 marker operations (parse incl. in-lists and trailing-zero spellings, and/or/not, simplify_extras, '
                         'simplify/complexify_python_versions) run in fresh processes: alone, after a random warm-up, after a warm-up that interns the same '
                         'versions under other spellings first, with independent steps permuted / reversed, and after the same program with every version literal spelled with other trailing zeros; one program in three is a family (markers sharing their root variable over different subtrees, bounds under two spellings); every observation (raw kind() dump incl. un-normalised '
                         'segments, Display, DNF, is_true/false, evaluate, ==/cmp/hash between results) must coincide. (2) raw node ids through the '
                         'verification hook: id equality <=> equal dumps, id^1 <=> negated dump, complement bit = the extracted store model\'s prediction, '
                         'repeating an operation adds no node, markers re-built after 80 000-400 000 unrelated conjunctions keep their ids, stored versions are normalised. (3) id-for-id replay: programs of 14-30 API operations (MarkerTree::expression, and, or, negate, simplify_extras, simplify/complexify_python_versions) in a fresh process against the extracted model of the recursions on ids (and_i with memo cache, restrict_i, simplify/complexify_pv_i, create_node): the raw node id (index and complement bit), the arena length and the diagram must coincide after every step. non-trivial = distinct programs / distinct non-constant dumps')
    # ---- (1) cross-history, fresh processes
    n_prog = 12 if quick else 60
    for p in range(n_prog):
        prog = fixed_program() if p == 0 else fixed_program2() if p == 1 else fixed_program3() if p == 2 else fixed_program4() if p == 3 else (gen_program(ctx.rng, ctx.rng.randint(12, 25)) if p % 3 else family_program(ctx.rng))
        base, rel0 = run_program(h, prog, [], 7)
        ctx.evaluations += 1
        ctx.nontrivial(('prog', tuple(str(s) for s in prog)))
        variants = [('random warm-up', warmups(ctx.rng, prog, 'random'), None), ('other spellings first', warmups(ctx.rng, prog, 'spellings'), None)]
        perm = list(range(len(prog)))
        ctx.rng.shuffle(perm)
        variants.append(('independent steps permuted', [], perm))
        variants.append(('independent steps in reverse order', [], list(reversed(range(len(prog))))))
        variants.append(('the same program with other version spellings first', 'respell', None))
        variants.append(('after one comparison of every kind', list(KINDS_WARMUP), None))
        variants.append(('the same program with deprecated key spellings first', 'alias', None))
        variants.append(('after 200 rejected marker texts', list(REJECTED_WARMUP), None))
        variants.append(('after the deprecated-key comparisons were parsed and evaluated alone', list(DEPRECATED_WARMUP), None))
        variants.append(('the same program with simplify_extras for other extras first', 'extras', None))
        variants.append(('observed in reverse order (the last result rendered and evaluated first)', 'obs-reversed', None))
        for name, warm, order in variants:
            if warm == 'obs-reversed':
                obs, rel = run_program(h, prog, [], 7, None, obs_reversed=True)
            elif warm in ('respell', 'alias', 'extras'):
                wp = {'respell': respell, 'alias': alias_program, 'extras': other_extras_program}[warm](prog)
                obs, rel = run_program(h, prog, [], 7, None, warm_prog=wp)
            else:
                obs, rel = run_program(h, prog, warm, 7, order)
            ctx.oracle_cases += 1
            for i, (a, b) in enumerate(zip(base, obs)):
                if a != b:
                    what = [k for k in (a or {}) if (b or {}).get(k) != a[k]] if a and b else ['panic/none']
                    ctx.failure('step %d of a program observes a different %s %s' % (i, '/'.join(what), name),
                                {'program': [str(s) for s in prog], 'step': i, 'history': name,
                                 'alone': {k: (a or {}).get(k) for k in what} if a else None, 'after': {k: (b or {}).get(k) for k in what} if b else None})
                    break
            else:
                if rel != rel0:
                    ctx.failure('==/cmp/hash between results differ %s' % name, {'program': [str(s) for s in prog], 'history': name})
        if len(ctx.samples) < 4:
            ctx.sample({'program': [str(s) for s in prog][:8]})
    # ---- (2) the store through the hook
    sess = markers.Session(h)
    keys = markers.Keys(sess.p)
    regs, steps = c02.build_history(ctx, sess, 120 if quick else 400, 250 if quick else 1200)
    c20.extend_history(ctx, sess, regs, 60 if quick else 300)
    raws = {}
    for r in regs:
        x = sess.ask(['raw', str(r)])
        raws[r] = (int(x[1]), int(x[2]))
    cmds, meta = [], []
    by_dump = {}
    for r in regs:
        try:
            m = sess.model(r)
        except Exception:
            continue
        by_dump.setdefault(dump(m), set()).add(raws[r][0])
        if m not in ('T', 'F'):
            ctx.nontrivial(('dump', dump(m)))
        cmds.append(['compl', m]); meta.append(('compl', r))
        cmds.append(['not', m]); meta.append(('neg', r))
    outs = fw.batch_parallel(build.DRIVER, cmds)
    neg_of = {}
    for (kind, r), o in zip(meta, outs):
        ctx.corr_cases += 1
        if kind == 'compl':
            if (o == 'T') != bool(raws[r][0] & 1):
                ctx.disagreement('complement bit of the interned id ~ m_compl', markers.describe(sess, r), dump(o), raws[r][0])
        else:
            neg_of[r] = dump(o)
    for d, ids in by_dump.items():
        ctx.oracle_cases += 1
        if len(ids) != 1:
            ctx.failure('the same diagram is interned under different ids', {'diagram': d[:500], 'ids': sorted(ids)})
    id_to_dump = {}
    for d, ids in by_dump.items():
        for i in ids:
            if id_to_dump.setdefault(i, d) != d:
                ctx.failure('one id shows two different diagrams', {'id': i})
    for r in regs:
        nd = neg_of.get(r)
        if nd in by_dump:
            ctx.oracle_cases += 1
            if by_dump[nd] != {raws[r][0] ^ 1}:
                ctx.failure('a marker and its negation do not share a node', {'marker': markers.describe(sess, r)})
    # repeating operations adds no node
    before = int(sess.ask(['raw', str(regs[0])])[2])
    for k, ops, reg in ctx.rng.sample(steps, min(len(steps), 100)):
        sess.op(k, *ops)
    for t in list(sess.texts.values())[:100]:
        sess.parse(t)
    after = int(sess.ask(['raw', str(regs[0])])[2])
    ctx.oracle_cases += 1
    if after != before:
        ctx.failure('repeating operations already performed added %d nodes to the arena' % (after - before), {})
    # a long unrelated history (tens of thousands of fresh conjunctions: caches and tables grow, any size-triggered housekeeping runs):
    # markers built again afterwards must be the very same ids
    probe = [(t, r) for r, t in list(sess.texts.items())[:80]]
    bulk = sess.ask(['bulk', '80000' if quick else '400000'])
    ctx.oracle_cases += 1
    if bulk[0] != 'ok':
        ctx.failure('a long history of unrelated markers failed: %s' % dump(bulk)[:200], {'bulk': True})
    else:
        for t, r in probe:
            r2, _ = sess.parse(t)
            if r2 is None:
                continue
            a, b = sess.ask(['raw', str(r)]), sess.ask(['raw', str(r2)])
            rel = sess.ask(['rel', str(r), str(r2)])
            ctx.oracle_cases += 1
            if a[1] != b[1] or rel[1] != 'T':
                ctx.failure('after a long unrelated history (%s more nodes) the marker %r is interned under another id / is not == to its earlier self' % (bulk[1], t),
                            {'marker': t, 'history': 'bulk of unrelated conjunctions', 'ids': [a[1], b[1]]})
                break
    # versions stored in nodes are normalised (otherwise Display depends on which spelling came first)
    for v in sess.raw_versions:
        ctx.oracle_cases += 1
        if not trees.raw_is_normal(v):
            ctx.failure('a version with trailing zeros is stored in a node: %s' % pretty(v), {'version': pretty(v)}, cls=None)
            break
    sess.close()
    # ---- (3) id-for-id replay: the same program through the crate (fresh process, raw ids and arena length through the hook) and through the
    # extracted model of the crate's own recursions on ids (and_i with its memo cache, restrict_i, simplify/complexify_pv_i, create_node):
    # every step must yield the same raw id (index and complement bit) and the same arena length
    POOL = ["extra == 'a'", "extra != 'a'", "extra == 'b'", "os_name == 'a'", "os_name != 'b'", "os_name < 'b'", "python_full_version >= '3.8'", "python_full_version < '3.9'",
            "python_full_version == '3.8.*'", "python_version > '3.8'", "'x' in sys_platform", "sys_platform not in 'ab'", "implementation_version <= '3.9'", "python_full_version != '3.8.1'"]
    for pi in range(30 if quick else 200):
        sess = markers.Session(h)
        keys = markers.Keys(sess.p)
        pv, pfv = keys.spelling['python_version'][1], keys.spelling['python_full_version'][1]
        start = sess.ask(['const', 'T'])
        base_len = int(sess.ask(['raw', str(start[1])])[2])
        if base_len != 0:
            ctx.count('replay:arena-not-empty-at-start')
            sess.close()
            continue
        msteps, regs = [], []          # model steps; harness registers by program index
        def record(reg, mstep):
            x = sess.ask(['raw', str(reg)])
            regs.append(reg)
            msteps.append(mstep)
            return (int(x[1]), int(x[2]))
        impl = []
        tries = 0
        # one program in three starts with a fixed template: same-variable merges with mixed complement bits, touching bounds,
        # complexify / simplify on complemented python_full_version nodes, restrict with two extras on one path
        template = []
        if pi % 3 == 0:
            fam = [("extra == 'a'", "extra == 'b'"), ("'x' in sys_platform", "extra == 'a'"), ("os_name == 'a'", "os_name == 'b'"),
                   ("python_full_version >= '3.8'", "python_full_version < '3.10'"), ("python_full_version <= '3.8.1'", "python_full_version >= '3.8.1'")][(pi // 3) % 5]
            template = [('expr', fam[0]), ('expr', fam[1]), ('or', 0, 1), ('not', 0), ('and', 2, 3), ('or', 2, 3), ('and', 3, 1), ('and', 0, 1), ('and', 1, 0),
                        ('expr', "python_full_version >= '3.8'"), ('cplxpv', 9, 'U', ['E', S('3.11')]), ('cplxpv', 9, ['I', S('3.9')], ['I', S('3.12')]),
                        ('not', 9), ('cplxpv', 12, ['E', S('3.7')], ['E', S('3.8')]), ('simppv', 10, ['I', S('3.8')], 'U'), ('and', 10, 4),
                        ('expr', "extra == 'a'"), ('expr', "extra == 'b'"), ('and', 16, 17), ('simpx', 18, ['a', 'b']), ('or', 18, 2), ('simpx', 20, ['a']), ('simpx', 18, ['a']), ('simpx', 18, ['b']), ('simpx', 18, ['a', 'b']), ('simpx', 20, ['b'])]
            # absorption first, the complement afterwards: a conjunction that equals one of its operands, then the other operand with that
            # operand's negation (whatever was remembered about the first must not answer the second), in both operand orders
            n0 = len(template)
            p_, q_ = [("platform_machine == 'p'", "platform_machine == 'q'"), ("'p' in platform_system", "extra == 'q'"), ("platform_release < 'p'", "platform_release >= 'q'")][(pi // 3) % 3]
            template += [('expr', p_), ('expr', q_), ('or', n0, n0 + 1), ('and', n0 + 2, n0), ('not', n0), ('and', n0 + 2, n0 + 4), ('and', n0 + 1, n0 + 2), ('not', n0 + 1), ('and', n0 + 7, n0 + 2),
                         ('not', n0 + 2), ('or', n0 + 9, n0), ('or', n0 + 4, n0 + 9), ('or', n0 + 5, n0 + 3)]
        for st in template:
            if st[0] == 'expr':
                a = sess.ask(['expr', S(st[1])])
                impl.append(record(int(a[2]), ['expr', c10.typed_to_model(a[1])]))
            elif st[0] in ('and', 'or'):
                reg, _ = sess.op(st[0], regs[st[1]], regs[st[2]])
                impl.append(record(reg, [st[0], str(st[1]), str(st[2])]))
            elif st[0] == 'not':
                reg, _ = sess.op('not', regs[st[1]])
                impl.append(record(reg, ['not', str(st[1])]))
            elif st[0] == 'simpx':
                reg, _ = sess.op('simpx', regs[st[1]], [S(e) for e in st[2]])
                impl.append(record(reg, ['simpx', [S(e) for e in st[2]], str(st[1])]))
            else:
                reg, _ = sess.op(st[0], regs[st[1]], st[2], st[3])
                impl.append(record(reg, [st[0], c12.model_cut(sess, st[2], True), c12.model_cut(sess, st[3], False), str(st[1])]))
        while len(regs) < (22 if quick else 40) + len(template) and tries < 300:
            tries += 1
            r = ctx.rng.random()
            if r < .4 or len(regs) < 3:
                text = ctx.rng.choice(POOL) if ctx.rng.random() < .7 else markers.gen_atom(ctx.rng, deprecated=0.0)
                a = sess.ask(['expr', S(text)])
                if a[0] != 'ok' or a[1] == 'none':
                    continue
                try:
                    me = c10.typed_to_model(a[1])
                except trees.Unmodelled:
                    continue
                impl.append(record(int(a[2]), ['expr', me]))
            elif r < .7:
                k = ctx.rng.choice(['and', 'or'])
                i, j = ctx.rng.randrange(len(regs)), ctx.rng.randrange(len(regs))
                reg, _ = sess.op(k, regs[i], regs[j])
                if reg is None:
                    break
                impl.append(record(reg, [k, str(i), str(j)]))
            elif r < .78:
                i = ctx.rng.randrange(len(regs))
                reg, _ = sess.op('not', regs[i])
                impl.append(record(reg, ['not', str(i)]))
            elif r < .88:
                i = ctx.rng.randrange(len(regs))
                ex = [e for e in markers.EXTRAS if ctx.rng.random() < .3]
                exn = [S(markers.pep_norm(e)) for e in ex]
                reg, _ = sess.op('simpx', regs[i], [S(e) for e in ex])
                if reg is None:
                    break
                impl.append(record(reg, ['simpx', exn, str(i)]))
            else:
                i = ctx.rng.randrange(len(regs))
                k = ctx.rng.choice(['simppv', 'cplxpv'])
                lo, hi = c12.rand_bound(ctx.rng, False), c12.rand_bound(ctx.rng, False)
                reg, _ = sess.op(k, regs[i], lo, hi)
                if reg is None:
                    break
                try:
                    impl.append(record(reg, [k, c12.model_cut(sess, lo, True), c12.model_cut(sess, hi, False), str(i)]))
                except trees.Unmodelled:
                    regs.pop(); msteps.pop()
                    break
        sess_models = []
        for rg in regs:
            m_ = sess.models.get(rg)
            sess_models.append(None if isinstance(m_, Exception) or m_ is None else m_)
        # evaluation of every register of the final store: the crate's evaluate / evaluate_extras against eval_i / eval_extras_i on the model's ids
        envs, impl_evals = [], []
        try:
            cand = markers.grid_envs(ctx.rng, keys, [m_ for m_ in sess_models if m_ is not None], 4)
        except Exception:
            cand = []
        for env, ex in cand:
            if not all(c.isdigit() or c == '.' for c in env['python_full_version'] + env['implementation_version'] + env['python_version']):
                continue
            rels = [[keys.spelling[k][1], [str(x) for x in pep440.release_of(env[k])]] for k in markers.VERSION_KEYS]
            ss = [[idx, S(env[field])] for idx, field in keys.str.items()]
            exn = [markers.pep_norm(e) for e in ex]
            row = []
            for rg in regs:
                g = c02.eval_all(sess, rg, env, ex)
                gx = sess.ask(['evalx', str(rg), [S(x) for x in ex]])
                row.append([g[1] if g[0] == 'ok' else '?', gx[1] if gx[0] == 'ok' else '?'])
            envs.append([rels, ss, [S(e) for e in exn]])
            impl_evals.append((env, ex, row))
        # the order of register pairs (the same band of pairs the driver compares with m_cmp_i)
        impl_cmps, impl_disj = {}, {}
        nreg = len(regs)
        for i in range(nreg):
            for d in range(4):
                j = (i * 7 + d * 5 + 1) % nreg
                rr = sess.ask(['rel', str(regs[i]), str(regs[j])])
                if rr[0] == 'ok':
                    impl_cmps[(i, j)] = rr[2]
                # is_disjoint of the pair, then of the same nodes with the other polarity, in this order (a verdict remembered per pair of nodes would show)
                d1 = sess.ask(['disjoint', str(regs[i]), str(regs[j])])
                nj, _ = sess.op('not', regs[j])
                d2 = sess.ask(['disjoint', str(regs[i]), str(nj)]) if nj is not None else ['?']
                if d1[0] == 'ok' and d2[0] == 'ok':
                    impl_disj[(i, j)] = (d1[1], d2[1])
        sess.close()
        out = fw.batch(build.DRIVER, [['runi', pv, pfv, msteps, envs]])[0]
        if out[0] == 'ok' and envs and isinstance(out[-1], list) and out[-1] and out[-1][0] == 'evals':
            for (env, ex, row), mrow in zip(impl_evals, out[-1][1:]):
                for n, (iv, mv) in enumerate(zip(row, mrow)):
                    ctx.corr_cases += 1
                    if '?' in iv:
                        continue
                    if list(mv) != iv:
                        ctx.disagreement('m_eval_i / m_eval_extras_i ~ evaluate / evaluate_extras on the register of step %d' % n,
                                         {'program': [dump(m)[:160] for m in msteps[:n + 1]], 'env': env, 'extras': ex}, dump(mv), dump(iv))
                        break
            if isinstance(out[-2], list) and out[-2] and out[-2][0] == 'cmps':
                for it in out[-2][1:]:
                    i, j, mv = int(it[0]), int(it[1]), it[2]
                    if (i, j) in impl_cmps:
                        ctx.corr_cases += 1
                        if (i, j) in impl_disj and len(it) >= 5 and (it[3], it[4]) != impl_disj[(i, j)]:
                            ctx.disagreement('disjoint_i ~ MarkerTree::is_disjoint on the registers of steps %d and %d (the pair, then with the second negated)' % (i, j),
                                             {'program': [dump(m)[:160] for m in msteps[:max(i, j) + 1]]}, dump([it[3], it[4]]), dump(list(impl_disj[(i, j)])))
                            break
                        if impl_cmps[(i, j)] != mv:
                            ctx.disagreement('m_cmp_i ~ MarkerTree::cmp on the registers of steps %d and %d' % (i, j),
                                             {'program': [dump(m)[:160] for m in msteps[:max(i, j) + 1]]}, mv, impl_cmps[(i, j)])
                            break
                out = out[:-2]
            else:
                out = out[:-1]
        ctx.evaluations += 1
        ctx.nontrivial(('replay', tuple(dump(m)[:40] for m in msteps)))
        if out[0] != 'ok' or len(out) - 1 != len(impl):
            ctx.disagreement('mrun_i ~ the crate (program replay)', [dump(m)[:120] for m in msteps], dump(out)[:300], 'program of %d steps' % len(impl))
            continue
        for n, (got, want) in enumerate(zip(out[1:], impl)):
            ctx.corr_cases += 1
            mid, mlen = int(got[0]), int(got[1])
            try:
                mdump = sess_models[n]
            except Exception:
                mdump = None
            if mdump is not None and (mid, mlen) == want and got[3] != mdump:
                ctx.disagreement('mstep_i ~ the crate: diagram of the result of step %d (%s)' % (n, dump(msteps[n])[:120]),
                                 [dump(m)[:160] for m in msteps[:n + 1]], pretty(got[3])[:400], pretty(mdump)[:400])
                break
            if (mid, mlen) != want:
                ctx.disagreement('mstep_i ~ the crate: raw node id and arena length after step %d (%s)' % (n, dump(msteps[n])[:120]),
                                 [dump(m)[:160] for m in msteps[:n + 1]], 'id %d, arena %d' % (mid, mlen), 'id %d, arena %d' % want)
                break
        ctx.extra['replay_cache_entries'] = ctx.extra.get('replay_cache_entries', 0) + int(out[-1][2])
    if not ctx.samples:
        ctx.sample('(none)')
    return fw.finish(ctx, 'make -C /verif/coq Props/C14.vo  (coqc, Print Assumptions under each theorem)')
