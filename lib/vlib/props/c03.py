"""C03 — canonical form: functionally equivalent markers are identical."""
from .. import build, framework as fw, markers, trees, semantics
from ..sexp import S, dump, pretty
from . import c02, c20

# texts whose meaning coincides only because the string order has a minimum / successor pairs (finding F10)
GAP_TEXTS = [("os_name >= ''", None), ("os_name < ''", 'F'), ("os_name <= 'a' or os_name >= 'a\x00'", None),
             ("os_name > 'a' and os_name < 'a\x00'", 'F'), ("sys_platform != '' or sys_platform <= ''", None)]


def identities(ctx, sess, regs, fam=None):
    """(lhs reg, rhs reg, law) built through different API paths; both sides denote the same function"""
    rng = ctx.rng
    a, b, c = rng.choice(regs), rng.choice(regs), rng.choice(regs)
    if fam and rng.random() < .4:
        # operands over the same few boolean variables, in both polarities
        a, b, c = rng.choice(fam), rng.choice(fam), rng.choice(fam)
    op = lambda k, *xs: sess.op(k, *xs)[0]
    law = rng.choice(['comm-and', 'comm-or', 'assoc-and', 'assoc-or', 'distr', 'demorgan', 'dneg', 'absorb-or', 'absorb-and',
                      'idem', 'excl-middle', 'contradiction', 'distr2', 'consensus'])
    if law == 'comm-and':
        return op('and', a, b), op('and', b, a), law
    if law == 'comm-or':
        return op('or', a, b), op('or', b, a), law
    if law == 'assoc-and':
        return op('and', a, op('and', b, c)), op('and', op('and', a, b), c), law
    if law == 'assoc-or':
        return op('or', a, op('or', b, c)), op('or', op('or', a, b), c), law
    if law == 'distr':
        return op('and', a, op('or', b, c)), op('or', op('and', a, b), op('and', a, c)), law
    if law == 'distr2':
        return op('or', a, op('and', b, c)), op('and', op('or', a, b), op('or', a, c)), law
    if law == 'demorgan':
        return op('not', op('and', a, b)), op('or', op('not', a), op('not', b)), law
    if law == 'dneg':
        return op('not', op('not', a)), a, law
    if law == 'absorb-or':
        return op('or', a, op('and', a, b)), a, law
    if law == 'absorb-and':
        return op('and', a, op('or', a, b)), a, law
    if law == 'idem':
        return op('and', a, a), op('or', a, a), law
    if law == 'excl-middle':
        return op('or', a, op('not', a)), op('const', 'T'), law
    if law == 'contradiction':
        return op('and', a, op('not', a)), op('const', 'F'), law
    # consensus: ab + a'c + bc = ab + a'c
    na = op('not', a)
    l = op('or', op('or', op('and', a, b), op('and', na, c)), op('and', b, c))
    r = op('or', op('and', a, b), op('and', na, c))
    return l, r, law


def compare(ctx, sess, keys, x, y, how, same=False):
    """impl == vs exact semantic equality of the two dumps; same: the two sides were built by a boolean law and must denote one function"""
    rel = sess.ask(['rel', str(x), str(y)])
    if rel[0] != 'ok':
        ctx.failure('==/cmp/hash panicked', how)
        return
    eq, cm, hs = rel[1] == 'T', rel[2], rel[3] == 'T'
    ctx.oracle_cases += 1
    if eq != (cm == 'Eq') or (eq and not hs):
        ctx.failure('==, cmp and hash disagree: == %s, cmp %s, equal hashes %s' % (eq, cm, hs), how)
    try:
        mx, my = sess.model(x), sess.model(y)
        d_real = semantics.differ(mx, my, dense=False)
        d_dense = semantics.differ(mx, my, dense=True)
    except (semantics.Unsupported, trees.NotPartition, trees.Unmodelled):
        ctx.count('pair:unsupported')
        return
    ctx.count('pair:%s' % ('equal' if d_real is None else 'different'))
    if same and d_real is not None:
        eo = semantics.env_of_path(keys, d_real, markers.DEFAULT_ENV)
        ctx.failure('the two sides of a boolean law (or two texts with the same reading) denote different functions (and are %s)' % ('==' if eq else 'not =='),
                    dict(how, distinguishing=str(eo)))
        return
    if eq and d_real is not None:
        eo = semantics.env_of_path(keys, d_real, markers.DEFAULT_ENV)
        ctx.failure('markers compare equal but denote different functions', dict(how, distinguishing=str(eo)))
    if not eq and d_real is None:
        if d_dense is None:
            ctx.failure('markers denote the same function but are not ==', dict(how, left=pretty(mx)[:1500], right=pretty(my)[:1500]))
        else:
            ctx.failure('markers denote the same function (a range between their bounds has no inhabitant) but are not ==',
                        dict(how, left=pretty(mx)[:600], right=pretty(my)[:600]), cls='vacuous-gap')


def run(ctx):
    ctx.proofs('Props/C03.v')
    build.extract_and_driver()
    h = build.harness()
    quick = ctx.tier == 'quick'
    ctx.extra['rule'] = ('pairs built along different construction paths (14 boolean laws over random markers, constants, known '
                         'vacuous-gap texts, random pairs, each marker against its negation and against near misses): == / cmp / hash vs an exact region-enumeration decision of semantic equality '
                         'of the two kind() dumps (real domains and the dense idealisation); the verified checker m_wfb on every dump; '
                         'non-trivial = distinct (law, lhs dump) with non-constant sides')
    for rd in range(2 if quick else 10):
        sess = markers.Session(h)
        keys = markers.Keys(sess.p)
        regs, _ = c02.build_history(ctx, sess, 100 if quick else 250, 150 if quick else 500, battery=(rd == 0))
        c20.extend_history(ctx, sess, regs, 60 if quick else 200)
        fam = [r for r in (sess.parse(t)[0] for t in markers.boolean_family(ctx.rng)) if r is not None]
        # near misses on one variable: same key, same operator, another value - never ==, never Equal
        NEAR = [("extra == 'a b'", "extra == 'c d'"), ("extra != 'a b'", "extra != 'c d'"), ("extra == 'a b' and os_name == 'posix'", "extra == 'c d' and os_name == 'posix'"),
                   ("os.name == 'posix'", "os_name == 'posix'"), ("sys.platform == 'linux'", "sys_platform == 'linux'"), ("platform.machine < 'x86_64'", "platform_machine < 'x86_64'"),
                   ("'Ubuntu' in platform.version", "'Ubuntu' in platform_version"), ("platform.version in 'Ubuntu Debian'", "platform_version in 'Ubuntu Debian'"),
                   ("python_implementation == 'CPython'", "platform_python_implementation == 'CPython'"), ("platform.python_implementation != 'PyPy'", "python_implementation != 'PyPy'"),
                   ("python_version >= '3.8' and os.name == 'posix'", "python_version >= '3.8' and os_name == 'posix'"),
                ("'nt' in os_name", "'posix' in os_name"), ("'nt' not in os_name", "'posix' not in os_name"), ("os_name in 'posix nt'", "os_name in 'linux'"),
                ("os_name not in 'posix nt'", "os_name not in 'nt posix'"), ("extra == 'a'", "extra == 'b'"), ("extra != 'a'", "extra != 'b'"),
                ("'win' in sys_platform", "'win' in os_name"), ("os_name == 'a'", "os_name == 'b'"), ("python_version >= '3.8'", "python_version >= '3.9'"),
                ("implementation_version == '3.8'", "python_full_version == '3.8'")]
        # a list of versions is the disjunction of its members, whatever pre / post / dev / epoch / local decoration a member carries
        SAME_TEXTS = []
        for k in ('implementation_version', 'python_full_version'):
            for lit in ('3.9rc1', '3.9.0b1', '3.9.post1', '3.9.dev0', '1!3.9', '3.9+local', '3.9.0'):
                SAME_TEXTS += [("%s in '%s'" % (k, lit), "%s == '%s'" % (k, lit)), ("%s not in '3.11 %s'" % (k, lit), "%s != '3.11' and %s != '%s'" % (k, k, lit)),
                         ("%s in '%s 3.11'" % (k, lit), "%s == '%s' or %s == '3.11'" % (k, lit, k)), ("%s in '%s' or %s != '%s'" % (k, lit, k, lit), "os_name == 'x' or os_name != 'x'")]
        # (two texts with the same PEP 508 reading: they must denote the same function, hence be the same marker)
        # python_version only takes X.Y values: comparisons against X.Y.Z read like the neighbouring X.Y comparisons
        SAME_TEXTS += [("python_version <= '3.7.8'", "python_version < '3.8'"), ("python_version <= '3.7.8'", "python_version <= '3.7'"), ("python_version < '3.7.8'", "python_version <= '3.7'"),
                       ("python_version > '3.7.8'", "python_version >= '3.8'"), ("python_version >= '3.7.8'", "python_version > '3.7'"), ("'3.7.8' >= python_version", "python_version < '3.8'"),
                       ("python_version <= '3.7.8' and python_version >= '3.8'", "os_name == 'x' and os_name != 'x'"), ("python_version > '3.7.8' or python_version < '3.8'", "os_name == 'x' or os_name != 'x'"),
                       ("python_version ~= '3.7.0'", "python_version == '3.7'"), ("python_full_version ~= '3.8.0'", "python_full_version == '3.8.*'"),
                       ("python_full_version ~= '3.6.2.1'", "python_full_version >= '3.6.2.1' and python_full_version < '3.6.3'")]
        for ta, tb in SAME_TEXTS:
            x, y = sess.parse(ta)[0], sess.parse(tb)[0]
            if x is None or y is None:
                continue
            ctx.evaluations += 1
            compare(ctx, sess, keys, x, y, {'lhs': {'parse': ta}, 'rhs': {'parse': tb}}, same=True)
        for ta, tb in NEAR:
            for wrap in ('%s', "%s and sys_platform == 'x'", "sys_platform == 'x' or %s"):
                x, y = sess.parse(wrap % ta)[0], sess.parse(wrap % tb)[0]
                if x is None or y is None:
                    continue
                ctx.evaluations += 1
                compare(ctx, sess, keys, x, y, {'lhs': {'parse': wrap % ta}, 'rhs': {'parse': wrap % tb}})
        # edges that must be merged after an operation rewrote only some of the children (first / last / middle range; and, or, restrict)
        MERGE = [(('and', "(python_full_version < '3.8' and os_name == 'x') or python_full_version >= '3.9'", "os_name == 'y'"), "python_full_version >= '3.9' and os_name == 'y'"),
                 (('and', "(python_full_version >= '3.9' and os_name == 'x') or python_full_version < '3.8'", "os_name == 'y'"), "python_full_version < '3.8' and os_name == 'y'"),
                 (('and', "(python_full_version >= '3.8' and python_full_version < '3.9' and os_name == 'x') or python_full_version < '3.7' or python_full_version >= '3.10'", "os_name == 'y'"),
                  "(python_full_version < '3.7' or python_full_version >= '3.10') and os_name == 'y'"),
                 (('and', "(os_name < 'b' and extra == 'x') or os_name >= 'c'", "extra != 'x'"), "os_name >= 'c' and extra != 'x'"),
                 (('or', "(python_full_version < '3.8' or os_name == 'x') and python_full_version < '3.9'", "os_name != 'x'"), "python_full_version < '3.9' or os_name != 'x'"),
                 (('or', "(python_full_version == '3.8.*' and os_name == 'a') or python_full_version >= '3.9'", "(python_full_version == '3.8.*' and os_name != 'a') or python_full_version >= '3.9'"), "python_full_version >= '3.8'"),
                 (('or', "os_name < 'b' or (os_name == 'b' and extra == 'x')", "os_name < 'b' or (os_name == 'b' and extra != 'x')"), "os_name <= 'b'"),
                 (('and', "(python_full_version == '3.8.*' or os_name == 'a') and python_full_version >= '3.8'", "(python_full_version == '3.8.*' or os_name != 'a') and python_full_version >= '3.8'"), "python_full_version == '3.8.*'"),
                 (('and', "python_full_version >= '3.8' and (python_full_version < '3.9' or extra == 'x')", "python_full_version >= '3.8' and (python_full_version < '3.9' or extra != 'x')"), "python_full_version >= '3.8' and python_full_version < '3.9'"),
                 (('simpx', "(python_full_version < '3.8' and extra == 'a') or (python_full_version >= '3.8' and python_full_version < '3.9')", ['a']), "python_full_version < '3.9'"),
                 (('simpx', "(os_name < 'b' and extra != 'a') or os_name >= 'b'", ['a']), "os_name >= 'b'"),
                 (('simpx', "(python_full_version >= '3.9' and extra == 'a') or (python_full_version >= '3.8' and python_full_version < '3.9')", ['a']), "python_full_version >= '3.8'")]
        for (k, ta, arg), tw in MERGE:
            ra, rw = sess.parse(ta)[0], sess.parse(tw)[0]
            if ra is None or rw is None:
                continue
            x = sess.op(k, ra, sess.parse(arg)[0])[0] if k in ('and', 'or') else sess.op('simpx', ra, [S(e) for e in arg])[0]
            if x is None:
                ctx.failure('an operation panicked while building an identity', {'op': k, 'operand': ta})
                continue
            ctx.evaluations += 1
            compare(ctx, sess, keys, x, rw, {'law': 'merge-after-' + k, 'lhs': markers.describe(sess, x), 'rhs': {'parse': tw}}, same=True)
        # markers that agree inside a requires-python range simplify to one marker, whatever variable is at their root
        SAME_INSIDE = [("implementation_version >= '3' and python_full_version >= '3.8'", "implementation_version >= '3'", ['I', S('3.8')], 'U'),
                       ("implementation_version >= '3' or python_full_version >= '3.8'", "python_full_version >= '0'", ['I', S('3.8')], 'U'),
                       ("implementation_version < '3' or python_full_version < '3.8'", "implementation_version < '3'", ['I', S('3.8')], 'U'),
                       ("os_name == 'a' and python_full_version < '3.10'", "os_name == 'a'", 'U', ['E', S('3.10')]),
                       ("(implementation_version == '3.9' and python_full_version >= '3.9') or extra == 'x'", "implementation_version == '3.9' or extra == 'x'", ['I', S('3.9')], ['E', S('3.12')])]
        for t1, t2, lo, hi in SAME_INSIDE:
            r1, r2 = sess.parse(t1)[0], sess.parse(t2)[0]
            if r1 is None or r2 is None:
                continue
            x, y = sess.op('simppv', r1, lo, hi)[0], sess.op('simppv', r2, lo, hi)[0]
            if x is None or y is None:
                ctx.failure('an operation panicked while building an identity', {'op': 'simppv', 'operand': t1})
                continue
            ctx.evaluations += 1
            compare(ctx, sess, keys, x, y, {'law': 'simplify-of-markers-equal-inside-the-range', 'lhs': markers.describe(sess, x), 'rhs': markers.describe(sess, y)}, same=True)
        for _ in range(350 if quick else 1500):
            try:
                x, y, law = identities(ctx, sess, regs, fam)
            except Exception as e:
                ctx.failure('operation failed while building an identity: %r' % e, {})
                continue
            if x is None or y is None:
                ctx.failure('an operation panicked while building an identity', {})
                continue
            ctx.count('law:' + law)
            ctx.evaluations += 1
            how = {'law': law, 'lhs': markers.describe(sess, x), 'rhs': markers.describe(sess, y)}
            compare(ctx, sess, keys, x, y, how, same=True)
            try:
                if sess.model(x) not in ('T', 'F'):
                    ctx.nontrivial((law, dump(sess.model(x))))
            except Exception:
                pass
            if len(ctx.samples) < 6 and ctx.rng.random() < .01:
                ctx.sample({'law': law, 'lhs': markers.describe(sess, x)})
        # random pairs (mostly different functions: exercises the other direction)
        for _ in range(200 if quick else 800):
            x, y = ctx.rng.choice(regs), ctx.rng.choice(regs)
            r = ctx.rng.random()
            if r < .25:
                # a marker and its negation share their interned node: the pair most easily confused by == / cmp / hash
                y = sess.op('not', x)[0]
            elif r < .4:
                # a marker and a near miss (one more conjunct / disjunct)
                y = sess.op(ctx.rng.choice(['and', 'or']), x, y)[0]
            if y is None:
                continue
            ctx.evaluations += 1
            compare(ctx, sess, keys, x, y, {'lhs': markers.describe(sess, x), 'rhs': markers.describe(sess, y)})
        # the known exception class
        t, _ = sess.op('const', 'T')
        f, _ = sess.op('const', 'F')
        for text, const in GAP_TEXTS:
            x, r = sess.parse(text)
            if x is None:
                continue
            compare(ctx, sess, keys, x, f if const == 'F' else t, {'lhs': {'parse': text}, 'rhs': 'FALSE' if const == 'F' else 'TRUE'})
        bad = c02.monitor(ctx, sess, list(sess.models.keys()))
        for r in bad[:10]:
            ctx.failure('a reachable marker is not in canonical form (m_wfb = false)',
                        {'how': markers.describe(sess, r), 'diagram': pretty(sess.models[r])[:2000]})
        sess.close()
    if not ctx.samples:
        ctx.sample('(none)')
    return fw.finish(ctx, 'make -C /verif/coq Props/C03.vo  (coqc, Print Assumptions under each theorem)')
