"""C11 — extras: matching, simplify_extras, with_extra_marker, top_level_extra."""
from .. import build, framework as fw, markers, trees, semantics
from ..sexp import S, unS, dump, pretty
from . import c02, c10


def extras_marker(rng, n):
    """markers rich in extras, with several extras co-occurring on one path"""
    names = markers.EXTRAS
    parts = []
    for _ in range(n):
        r = rng.random()
        if r < .6:
            parts.append("extra %s %s" % (rng.choice(['==', '==', '!=']), markers.q(rng, rng.choice(names))))
        else:
            parts.append(markers.gen_atom(rng))
    out = parts[0]
    for p in parts[1:]:
        out = "(%s) %s %s" % (out, rng.choice(['and', 'and', 'or']), p)
    return out


def run(ctx):
    ctx.proofs('Props/C11.v')
    build.extract_and_driver()
    h = build.harness()
    quick = ctx.tier == 'quick'
    ctx.extra['rule'] = ('markers rich in extras (2-6 atoms, several extras on one path, both operators, normalised and unnormalised spellings, '
                         'invalid names) and random markers; simplify_extras(E) for random E: extracted m_simplify_extras on the dump vs the crate; '
                         'result must not mention E and must evaluate on S as the original on S u E (grid environments, all S subsets sampled); '
                         'with_extra_marker vs m_with_extra; extra == / != evaluation; top_level_extra(): when it returns extra == e, the proved conjunction of the dump with extra != e must be unsatisfiable (exact region search); non-trivial = distinct (diagram, E) with E hitting the diagram')
    for rd in range(2 if quick else 8):
        sess = markers.Session(h)
        keys = markers.Keys(sess.p)
        pv, pfv = keys.spelling['python_version'][1], keys.spelling['python_full_version'][1]
        regs = []
        for _ in range(150 if quick else 500):
            t = extras_marker(ctx.rng, ctx.rng.randint(2, 6)) if ctx.rng.random() < .7 else markers.gen_marker(ctx.rng, 2, extras=.5)
            reg, r = sess.parse(t)
            if reg is not None:
                regs.append(reg)
        more, _ = c02.build_history(ctx, sess, 0, 0)
        for _ in range(60 if quick else 300):
            k = ctx.rng.choice(['and', 'or'])
            reg, _ = sess.op(k, ctx.rng.choice(regs), ctx.rng.choice(regs))
            if reg is not None:
                regs.append(reg)
        cmds, meta = [], []
        for a in regs:
            try:
                ma = sess.model(a)
            except Exception:
                continue
            present = [unS(b[2]) for b in trees.bool_vars([ma]) if b[0] == 'ex' and b[1] == '0']
            E = [e for e in markers.EXTRAS if ctx.rng.random() < .35]
            norm = lambda x: S(markers.pep_norm(x))
            En = [unS(norm(e)) for e in E]
            reg, r = sess.op('simpx', a, [S(e) for e in E])
            ctx.evaluations += 1
            how = {'marker': markers.describe(sess, a), 'extras': E}
            if reg is None:
                ctx.failure('simplify_extras failed: ' + dump(r)[:200], how)
                continue
            if r[3] != 'T':
                ctx.failure('simplify_extras and simplify_extras_with disagree', how)
            try:
                ms = sess.model(reg)
            except Exception:
                continue
            if set(En) & set(present):
                ctx.nontrivial((dump(ma), tuple(sorted(En))))
            cmds.append(['simpx', ma, [S(e) for e in En]])
            meta.append((a, reg, how, ms))
            # the result does not mention E
            left = [unS(b[2]) for b in trees.bool_vars([ms]) if b[0] == 'ex' and b[1] == '0']
            ctx.oracle_cases += 1
            if set(left) & set(En):
                ctx.failure('simplify_extras(%r) still depends on %r' % (E, sorted(set(left) & set(En))), dict(how, result=pretty(ms)[:800]))
            # evaluates on S as the original on S u E
            for env, S_ in markers.grid_envs(ctx.rng, keys, [ma], 5):
                S_ = [x for x in S_ if ctx.rng.random() < .7]
                r1 = c02.eval_all(sess, reg, env, S_)
                r2 = c02.eval_all(sess, a, env, sorted(set(S_) | set(En)))
                ctx.oracle_cases += 1
                if r1[0] != 'ok' or r2[0] != 'ok':
                    ctx.failure('evaluate failed', dict(how, env=env))
                elif r1[1] != r2[1]:
                    ctx.failure('simplify_extras(E) on S evaluates to %s, the original on S u E to %s' % (r1[1], r2[1]),
                                dict(how, env=env, S=S_))
            if len(ctx.samples) < 6 and set(En) & set(present) and ctx.rng.random() < .1:
                ctx.sample(dict(how, result=pretty(ms)[:300]))
        outs = fw.batch_parallel(build.DRIVER, cmds)
        for (a, reg, how, want), got in zip(meta, outs):
            ctx.corr_cases += 1
            if got != want:
                ctx.disagreement('simplify_extras ~ m_simplify_extras', how, pretty(got)[:800], pretty(want)[:800])
        # with_extra_marker
        cmds, meta = [], []
        for a in ctx.rng.sample(regs, min(len(regs), 80)):
            name = ctx.rng.choice(markers.EXTRAS)
            reg, r = sess.op('withextra', a, S(name))
            if reg is None:
                ctx.failure('with_extra_marker failed', {'marker': markers.describe(sess, a), 'extra': name})
                continue
            nn = S(markers.pep_norm(name))
            x, _ = sess.parse("extra == '%s'" % name)
            y, _ = sess.op('and', a, x)
            rel = sess.ask(['rel', str(reg), str(y)])
            ctx.oracle_cases += 1
            if rel[1] != 'T':
                ctx.failure('with_extra_marker(e) is not marker and extra == e', {'marker': markers.describe(sess, a), 'extra': name})
            try:
                cmds.append(['withextra', pv, pfv, sess.model(a), nn])
                meta.append((a, name, sess.model(reg)))
            except Exception:
                pass
        outs = fw.batch_parallel(build.DRIVER, cmds)
        for (a, name, want), got in zip(meta, outs):
            ctx.corr_cases += 1
            if got != want:
                ctx.disagreement('with_extra_marker ~ m_with_extra', {'marker': markers.describe(sess, a), 'extra': name}, pretty(got)[:500], pretty(want)[:500])
        # extra == 'N' matching: normalised membership, invalid names never match, != is the negation
        for name in markers.EXTRAS + markers.BAD_EXTRAS:
            for active in ([], ['a'], ['a-b'], ['x-y', 'a.b'], ['dev', 'A_b'], ['bob-s', 'bobs'], ['zstd', 'lz4']):
                x, r = sess.parse("extra == %s" % markers.q(ctx.rng, name))
                y, _ = sess.parse("%s != extra" % markers.q(ctx.rng, name))
                if x is None or y is None:
                    continue
                # the PEP 508 / 685 reading written down here, not asked of the crate: valid shape, lower case, runs of - _ . as one -
                import re
                norm = lambda t: re.sub(r'[-_.]+', '-', t).lower() if re.fullmatch(r'[A-Za-z0-9]([A-Za-z0-9._-]*[A-Za-z0-9])?', t) else None
                an = [norm(e) for e in active]
                want = norm(name) is not None and norm(name) in an
                r1 = c02.eval_all(sess, x, markers.DEFAULT_ENV, active)
                r2 = c02.eval_all(sess, y, markers.DEFAULT_ENV, active)
                ctx.oracle_cases += 1
                if (r1[1] == 'T') != want or (r2[1] == 'T') != (not want):
                    ctx.failure('extra == %r with active %r evaluates to %s / != to %s' % (name, active, r1[1], r2[1]), {'name': name, 'active': active})
        # active extras built by the owned constructor (ExtraName::new, as `pkg[Name]` parsing does) in non-normalised spellings
        for spelled, norm_ in (('Dev', 'dev'), ('A_b', 'a-b'), ('X..Y', 'x-y'), ('dev', 'dev')):
            for mt, want in (("extra == '%s'" % norm_, 'T'), ("extra != '%s'" % norm_, 'F'), ("extra == '%s'" % spelled, 'T'), ("os_name == 'posix' and extra == '%s'" % norm_, 'T')):
                x, _ = sess.parse(mt)
                if x is None:
                    continue
                r1 = sess.ask(['eval', str(x), markers.env_sexp(markers.DEFAULT_ENV), [S('new:' + spelled)]])
                ctx.oracle_cases += 1
                if r1[0] != 'ok' or r1[1] != want:
                    ctx.failure('%s with the active extra ExtraName::new(%r) evaluates to %s, expected %s' % (mt, spelled, r1[1] if r1[0] == 'ok' else dump(r1)[:80], want), {'marker': mt, 'extra': spelled})
            x, _ = sess.parse("os_name == 'posix' and extra == '%s'" % norm_)
            y, r = sess.op('simpx', x, [S('new:' + spelled)]) if x is not None else (None, None)
            z, _ = sess.parse("os_name == 'posix'")
            if y is not None and z is not None and sess.ask(['rel', str(y), str(z)])[1] != 'T':
                ctx.failure('simplify_extras([ExtraName::new(%r)]) does not remove extra == %r' % (spelled, norm_), {'extra': spelled})
        # top_level_extra(): `extra == e` only if e is active in every satisfying assignment, i.e. marker AND extra != e is unsatisfiable
        cmds, meta, tl_cmds, tl_meta = [], [], [], []
        for a in regs:
            r = sess.ask(['tlextra', str(a)])
            ctx.oracle_cases += 1
            if r[0] != 'ok':
                ctx.failure('top_level_extra panicked', {'marker': markers.describe(sess, a)})
                continue
            ctx.count('tlextra:' + ('none' if r[1] == 'none' else 'some'))
            try:
                ma = sess.model(a)
            except Exception:
                continue
            # the extracted model of top_level_extra (the loop over the model's to_dnf) on the same diagram
            try:
                want = 'none' if r[1] == 'none' else ['some', c10.typed_to_model(r[1])]
                tl_cmds.append(['tlextra', ma])
                tl_meta.append((a, want))
            except trees.Unmodelled:
                pass
            if r[1] == 'none':
                continue
            ex = r[1]
            if ex[0] != 'extra' or ex[1] != 'eq':
                ctx.failure('top_level_extra returned something other than `extra == e`: %s' % dump(ex)[:100], {'marker': markers.describe(sess, a)})
                continue
            arb = '1' if ex[2][0] == 'arb' else '0'
            name = ex[2][1]
            neq = ['B', ['ex', arb, name], 'F', 'T']
            cmds.append(['and', ma, neq])
            meta.append((a, name))
        for (a, want), got in zip(tl_meta, fw.batch_parallel(build.DRIVER, tl_cmds)):
            ctx.corr_cases += 1
            if got != want:
                ctx.disagreement('top_level_extra ~ MarkerTree::top_level_extra', markers.describe(sess, a), dump(got)[:300], dump(want)[:300])
        outs = fw.batch_parallel(build.DRIVER, cmds)
        for (a, name), conj in zip(meta, outs):
            ctx.corr_cases += 1
            try:
                d = semantics.differ(conj, 'F', dense=False)
            except semantics.Unsupported:
                continue
            if d is not None:
                eo = semantics.env_of_path(keys, d, markers.DEFAULT_ENV)
                ctx.failure('top_level_extra() returned extra == %r, but the marker holds in an assignment where that extra is not active' % unS(name),
                            {'marker': markers.describe(sess, a), 'extra': unS(name), 'assignment': str(eo)})
        c02.monitor(ctx, sess, list(sess.models.keys()))
        sess.close()
    if not ctx.samples:
        ctx.sample('(none)')
    return fw.finish(ctx, 'make -C /verif/coq Props/C11.vo  (coqc, Print Assumptions under each theorem)')
