"""C08 — requirement round trip through Display and serde (named; unnamed under the extension feature)."""
from .. import build, framework as fw, markers, trees, reqmodel, reqgen, semantics
from ..sexp import S, unS, dump, pretty

ODD = ["foo @ https://h/p;", "foo @ https://h/#", "foo @ https://h/p# ; os_name == 'a'", "foo @ https://h/p; ; os_name == 'a'", "foo[a] @ https://h/a b ;python_version<'3'",
       "foo ; python_version < '0'", "foo ; os_name == 'a' and os_name == 'b'", "foo ; os.name == 'nt'", "foo>=1 ; sys.platform in 'linux' or python_implementation == 'CPython'",
       "foo ; extra == 'a' and extra != 'a'", "foo ; python_version in '3.8a1 3.9'", "foo @ git+https://h/p@v1#egg=x ; 'it\"s' in platform_version", "foo ; platform_version == \"it's\"",
       "foo ; python_full_version ~= '3.8.0'", "foo==1.0,==1.0", "foo<2,>=1,<2", "foo>=1.0,>=1.0.0,>=1", "foo @ file:///a/b%20c", "foo @ https://h/%5Bx%5D", "foo @ https://h/[x]",
       "foo @ https://h/p?x=;y", "Foo.BAR_baz[A_b,a.B]", "foo @ https://h/p ;extra=='x'", "foo @ HTTPS://H/P", "foo @ https://h:443/p", "foo @ https://h/a/../b",
       "pkg @ ./repo.zip#subdirectory=python/", "pkg[cli] @ /opt/src/repo.zip#subdirectory=a/../python ; os_name == 'posix'", "pkg @ file:///opt/src/repo.zip#subdirectory=python/",
       "pkg @ ../up/repo.zip#egg=x&subdirectory=./a/", "pkg @ /opt/a/./b/../c.whl#frag/../x", "numpy ; platform_version == \"it's\"", "numpy [extra1] (>=1.0) ; os_name != 'say \"hi\"'",
       "numpy;\"it's\"==platform_version", "numpy ; os_name not\tin 'nt posix'", "numpy ; 'win' not\t in sys_platform and extra == 'a'"]
UODD = ["https://h/p", "https://h/p[a,b]", "https://h/p[a] ; os_name == 'a'", "./p", "/a/b.whl[x]", "file:///a/b", "../up/x ; python_version < '3'", "/a b/c", "https://h/p#frag", "/a/b;c",
        "/a/${HOME}/b", "https://h/p;[a]", "https://h/a%20b", "/a/%41", "git+https://h/p@v1#egg=x[a]"]


def equivalent(ctx, sess, keys, reg_a, reg_b):
    """C05's notion for FALSE / deprecated spellings: same truth value on environments around every cut"""
    from . import c02, c05
    try:
        ma, mb = sess.model(reg_a), sess.model(reg_b)
    except Exception:
        return True
    for env, ex in markers.grid_envs(ctx.rng, keys, [ma, mb], 10):
        if not all(c.isdigit() or c == '.' for c in env['python_full_version'] + env['implementation_version']):
            continue
        g1, g2 = c02.eval_all(sess, reg_a, env, ex), c02.eval_all(sess, reg_b, env, ex)
        if g1[0] == 'ok' and g2[0] == 'ok' and g1[1] != g2[1]:
            return False
    return True


def marker_is_special(sess, keys, reg):
    """the marker is the constant FALSE or uses a deprecated key spelling"""
    try:
        m = sess.model(reg)
    except Exception:
        return True
    if m == 'F':
        return True
    used = set()
    trees.walk(m, lambda n: used.add(n[1][1]) if n[1][0] in ('str', 'in', 'co') else None)
    modern = set(keys.spelling[k][1] for k in markers.STRING_KEYS)
    return bool(used - modern)


def roundtrip(ctx, sess, keys, text, verbatim, wd=None, unnamed=False):
    entry = 'UnnamedRequirement' if unnamed else ('Requirement<VerbatimUrl>' if verbatim else 'Requirement<Url>')
    if unnamed:
        r = sess.ask(['unnamedrt', S(wd) if wd else 'none', S(text)])
    else:
        r = sess.ask(['reqrt', 'verbatim' if verbatim else 'url', S(wd) if wd else 'none', S(text)])
    ctx.oracle_cases += 1
    if r[0] == 'err':
        ctx.count(entry + ':rejected')
        return None
    if r[0] != 'ok':
        ctx.failure('%s round trip machinery panicked on %r: %s' % (entry, text, dump(r)[:200]), {'entry': entry, 'input': text})
        return None
    ctx.count(entry + ':accepted')
    s1, reg1, dump1, back = unS(r[1]), int(r[2]), r[3], r[4]
    sess._record(reg1, dump1)
    how = {'entry': entry, 'input': text, 'rendered': s1}
    if back[0] != 'ok':
        ctx.failure('%s: the rendered text %r of %r does not parse back: %s' % (entry, s1, text, unS(back[6]) if back[0] == 'err' else dump(back)[:100]), how)
        return s1
    if unnamed:
        eq, url_eq, ex_eq, m_eq, reg2, dump2, s2 = back[1], back[2], back[3], back[4], int(back[5]), back[6], unS(back[7])
        name_eq = 'T'
        kind_eq = url_eq
    else:
        eq, name_eq, ex_eq, kind_eq, m_eq, reg2, dump2, s2 = back[1], back[2], back[3], back[4], back[5], int(back[6]), back[7], unS(back[8])
    sess._record(reg2, dump2)
    if name_eq != 'T' or ex_eq != 'T' or kind_eq != 'T':
        ctx.failure('%s: %r renders as %r, which parses back to a different requirement (name %s, extras %s, version/url %s)' % (entry, text, s1, name_eq, ex_eq, kind_eq), how)
    elif m_eq != 'T':
        if marker_is_special(sess, keys, reg1):
            if not equivalent(ctx, sess, keys, reg1, reg2):
                ctx.failure('%s: the marker of %r and of its rendered text %r are not equivalent' % (entry, text, s1), how)
        else:
            ctx.failure('%s: %r renders as %r, whose marker is a different marker' % (entry, text, s1), how)
    elif eq != 'T':
        ctx.failure('%s: all components of the re-parsed %r are equal but the requirements compare unequal' % (entry, s1), how)
    special = marker_is_special(sess, keys, reg1)
    if special:
        # FALSE renders as `python_version < '0'` and deprecated spellings as their modern key: the marker part is compared by equivalence (above)
        cut1, cut2 = s1.split(' ; ')[0], s2.split(' ; ')[0]
    else:
        cut1, cut2 = s1, s2
    if cut2 != cut1:
        ctx.failure('%s: rendering the re-parsed requirement gives %r, not %r again' % (entry, s2, s1), how)
    if not unnamed:
        json_text, de = unS(r[5]), r[6]
        if de[0] != 'ok':
            ctx.failure('%s: serde deserialisation of the serialised %r fails: %s' % (entry, text, dump(de)[:200]), dict(how, json=json_text))
        else:
            deq, dname, dex, dkind, dm, dreg, ddump = de[1], de[2], de[3], de[4], de[5], int(de[6]), de[7]
            sess._record(dreg, ddump)
            if dname != 'T' or dex != 'T' or dkind != 'T':
                ctx.failure('%s: serde round trip of %r changes name/extras/version-or-url' % (entry, text), dict(how, json=json_text))
            elif dm != 'T' and not (marker_is_special(sess, keys, reg1) and equivalent(ctx, sess, keys, reg1, dreg)):
                ctx.failure('%s: serde round trip of %r changes the marker' % (entry, text), dict(how, json=json_text))
    return s1


def run(ctx):
    ctx.proofs('Props/C08.v')
    build.extract_and_driver()
    h = build.harness()
    quick = ctx.tier == 'quick'
    n = 900 if quick else 8000
    ctx.extra['rule'] = ('%d random derivations of the requirement grammar (see C07) in a loose layout plus %d hand-picked texts (URLs ending in ; or #, blanks inside URLs, FALSE markers, deprecated keys, '
                         'quotes inside marker strings, duplicate / reordered specifiers, names needing normalisation, pre-release in-lists), plus, with an environment variable set, URLs with ${V} '
                         'references; each accepted one through Display -> FromStr -> Display and serde_json to_string -> from_str, for Requirement<VerbatimUrl> and Requirement<Url>; equality by == per '
                         'component (marker by equivalence on environments around every cut when it is FALSE or uses a deprecated spelling); second rendering must reproduce the first; and the rendered '
                         'text is checked against the extracted display model (C07 machinery).  A second harness built with non-pep508-extensions repeats this and adds UnnamedRequirement texts whose '
                         'URL part has no bracket except the trailing extras. non-trivial = distinct (kind, has extras, has marker, marker special, URL type) classes' % (n, len(ODD)))
    for ext in (False, True):
        hh = build.harness(ext=ext)
        sess = markers.Session(hh)
        keys = markers.Keys(sess.p)
        wd = '/work' if ext else None
        rm = reqmodel.ReqModel(sess.p, keys, wd=wd)
        texts = list(ODD) + list(reqgen.NEAR_GRAMMAR) + ['numpy>=1 ; ' + t for t in markers.DNF_SHAPES] + ['pip @ https://h/pip-1.3.1.zip ; ' + t for t in markers.DNF_SHAPES[::3]]
        for i in range(n if not ext else n // 3):
            d = reqgen.gen_derivation(ctx.rng)
            texts.append((reqgen.render(ctx.rng, d, loose=True), d))
        for item in texts:
            text, d = item if isinstance(item, tuple) else (item, None)
            if d is None and text in reqgen.NEAR_GRAMMAR:
                # at the edge of the grammar: acceptance itself is compared with the model first
                reqmodel.compare_req(ctx, sess, rm, text, True, wd)
            for verbatim in (True, False):
                ctx.evaluations += 1
                s1 = roundtrip(ctx, sess, keys, text, verbatim, wd)
                if s1 is not None and verbatim:
                    # the rendered text through the model as well (display_req ~ Display is part of compare_req)
                    reqmodel.compare_req(ctx, sess, rm, s1, True, wd)
                ctx.nontrivial((ext, d['kind'] if d else 'odd', bool(d and d['extras']), bool(d and d['marker']), verbatim, s1 is not None))
            if len(ctx.samples) < 6 and ctx.rng.random() < .004:
                ctx.sample({'input': text, 'rendered': s1})
        # environment-dependent URLs
        for val in ['x', 'a b', 'sub/dir', 'é', '']:
            sess.ask(['setenv', S('VERIF_V'), S(val)])
            rm.env_changed()
            for text in ["foo @ https://h/${VERIF_V}/p", "foo @ https://h/p?${VERIF_V}", "foo @ file:///${VERIF_V}", "foo @ https://h/${VERIF_UNSET}/${VERIF_V} ; os_name == 'a'"]:
                ctx.evaluations += 1
                s1 = roundtrip(ctx, sess, keys, text, True, wd)
                if s1 is not None:
                    reqmodel.compare_req(ctx, sess, rm, text, True, wd)
                ctx.nontrivial((ext, 'env', val))
        sess.ask(['unsetenv', S('VERIF_V')])
        if ext:
            for text in UODD + list(reqgen.NEAR_GRAMMAR_UNNAMED) + [u + suffix for u in ['https://h/p', './rel/p.whl', '/abs/p', 'file:///a/b', 'git+https://h/r.git@main'] for suffix in ['', '[a]', '[a,b] ; os_name == "a"', ' ; python_version >= "3.8"']]:
                ctx.evaluations += 1
                s1 = roundtrip(ctx, sess, keys, text, True, wd, unnamed=True)
                ctx.nontrivial(('unnamed', text[:6], '[' in text, ';' in text, s1 is not None))
        ctx.extra['oracle_table_fills' + ('_ext' if ext else '')] = rm.misses
        rm.close()
        sess.close()
    if not ctx.samples:
        ctx.sample('(none)')
    return fw.finish(ctx, 'make -C /verif/coq Props/C08.vo  (coqc, Print Assumptions under each theorem)')
