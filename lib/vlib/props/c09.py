"""C09 — package and extra names."""
import itertools

from .. import build, framework as fw
from ..sexp import S, unS, dump

ALPHABET = ['a', 'Z', '7', '-', '_', '.', '!', 'é']   # one representative per byte class (+ non-ASCII)
EXTRA_CHARS = ['A', 'z', '0', '9', '@', '[', '`', '{', '/', ':', ' ', '\x7f', 'Ā', 'm']


def utf8(s):
    return ['s'] + [str(b) for b in s.encode('utf-8')]


def gen(ctx):
    n = 6 if ctx.tier == 'quick' else 7
    cases = ['']
    for k in range(1, n + 1):
        for t in itertools.product(ALPHABET, repeat=k):
            cases.append(''.join(t))
    # boundary characters around every range test in the code, in every position of short names
    # ... and every one of the 128 ASCII characters (control characters included) and the first characters beyond, likewise
    for c in EXTRA_CHARS + [chr(i) for i in range(0, 0x82) if chr(i) not in EXTRA_CHARS]:
        for pat in ('%s', 'a%s', '%sa', 'a%sa', 'a-%s', '%s-a', 'a%s%sb', '-%s', '%s-'):
            cases.append(pat.replace('%s', c))
    # random longer names
    pool = ALPHABET + EXTRA_CHARS
    for _ in range(3000 if ctx.tier == 'quick' else 30000):
        k = ctx.rng.randint(7, 24)
        cases.append(''.join(ctx.rng.choice(pool[:8] if ctx.rng.random() < .8 else pool) for _ in range(k)))
    return cases


def res(x):
    return None if x == 'err' else x[1]


def run(ctx):
    ctx.proofs('Props/C09.v')
    build.extract_and_driver()
    h = build.harness()
    cases = gen(ctx)
    ctx.extra['rule'] = ('every string up to length %d over the 8-class alphabet %r (exhaustive), every ASCII character (and boundary characters beyond) '
                         'in 9 positions, random names of length 7-24; each through PackageName::new/from_str/'
                         'Deserialize, ExtraName::new/from_str/Deserialize, as_dist_info_name; non-trivial = distinct '
                         '(accepted?, normal form) outcome classes by shape' % (6 if ctx.tier == 'quick' else 7, ALPHABET))
    ctx.extra['exhaustive_up_to_length'] = 6 if ctx.tier == 'quick' else 7
    impl = fw.batch_parallel(h, [['name', S(c)] for c in cases])
    model = fw.batch_parallel(build.DRIVER, [['name', utf8(c)] for c in cases])
    ctx.evaluations = len(cases)
    for c, i, m in zip(cases, impl, model):
        ctx.corr_cases += 1
        if i[0] != 'name' or m[0] != 'name':
            ctx.disagreement('name', c, dump(m), dump(i))
            continue
        _, p_new, p_from, p_de, e_new, e_from, e_de, dist = i
        _, m_ref, m_owned, m_valid, m_spec, m_dist = m
        enc = lambda r: None if r == 'err' else ['s'] + [str(b) for b in unS(r[1]).encode('utf-8')]
        ctx.count('accepted' if m_ref != 'err' else 'rejected')
        ctx.count('len%02d' % min(len(c), 8))
        shape = (m_ref != 'err', len(c) > 0 and c[0] in '-_.', len(c) > 0 and c[-1] in '-_.', any(ch in c for ch in '!é@[`{/: '),
                 '--' in c or '_.' in c or '-_' in c, any(ch.isupper() for ch in c), min(len(c), 4))
        ctx.nontrivial(shape)
        # correspondence: model function = implementation function
        for fn, iv, mv in (('PackageName::new ~ normalize_owned', p_new, m_owned), ('ExtraName::new ~ normalize_owned', e_new, m_owned),
                           ('PackageName::from_str ~ normalize_ref', p_from, m_ref), ('ExtraName::from_str ~ normalize_ref', e_from, m_ref),
                           ('PackageName::deserialize ~ normalize_ref', p_de, m_ref), ('ExtraName::deserialize ~ normalize_ref', e_de, m_ref)):
            if enc(iv) != res(mv):
                ctx.disagreement(fn, c, dump(mv), dump(iv))
        if (dist == 'err') != (m_dist == 'err') or (dist != 'err' and enc(dist) != m_dist[1]):
            ctx.disagreement('as_dist_info_name ~ dist_info', c, dump(m_dist), dump(dist))
        # implementation-level oracle: the property read directly (independent of the model)
        ctx.oracle_cases += 1
        ok_chars = set('abcdefghijklmnopqrstuvwxyzABCDEFGHIJKLMNOPQRSTUVWXYZ0123456789-_.')
        should = len(c) > 0 and all(ch in ok_chars for ch in c) and c[0] not in '-_.' and c[-1] not in '-_.'
        import re
        want = re.sub(r'[-_.]+', '-', c).lower() if should else None
        got = [None if r == 'err' else unS(r[1]) for r in (p_new, p_from, p_de, e_new, e_from, e_de)]
        if any(g != want for g in got):
            cls = 'empty-name-accepted' if c == '' else None
            ctx.failure('name %r: constructors give %r, PEP 503/508 reading gives %r' % (c, got, want),
                        {'input': c, 'got': got, 'want': want}, cls)
        elif want is not None:
            d = unS(dist[1])
            if d != want.replace('-', '_'):
                ctx.failure('as_dist_info_name(%r) = %r' % (c, d), {'input': c, 'got': d})
        if len(ctx.samples) < 10 and ctx.rng.random() < 0.0005:
            ctx.sample({'input': c, 'impl': got[0], 'model': None if m_ref == 'err' else bytes(int(b) for b in m_ref[1][1:]).decode()})
    if not ctx.samples:
        ctx.sample({'input': cases[5], 'impl': dump(impl[5])})
    # equality of names is equality of normal forms (Eq is derived on the stored string): pairs
    pairs = []
    acc = [c for c, m in zip(cases, model) if m[0] == 'name' and m[1] != 'err']
    for _ in range(2000):
        a = ctx.rng.choice(acc)
        b = ctx.rng.choice(acc) if ctx.rng.random() < .5 else a.replace('-', ctx.rng.choice(['_', '.', '--', '-.'])).swapcase()
        pairs.append((a, b))
    out = fw.batch(h, [['nameeq', S(a), S(b)] for a, b in pairs])
    import re
    for (a, b), o in zip(pairs, out):
        ctx.oracle_cases += 1
        na, nb = re.sub(r'[-_.]+', '-', a).lower(), re.sub(r'[-_.]+', '-', b).lower()
        if o == 'err':
            continue
        if (o[1] == 'T') != (na == nb):
            ctx.failure('PackageName %r == %r is %s' % (a, b, o[1]), {'a': a, 'b': b})
    return fw.finish(ctx, 'make -C /verif/coq Props/C09.vo  (coqc, Print Assumptions under each theorem)')
