"""C07 — every PEP 508 requirement is accepted and decomposed correctly; optional white space never matters."""
from .. import build, framework as fw, markers, trees, reqmodel, reqgen
from ..sexp import S, unS, dump, pretty


def expected_specs(sess, pieces):
    out = []
    for p in pieces:
        r = sess.ask(['spec', S(p.strip())])
        if r[0] != 'ok':
            return None
        out.append(dump([r[1], r[2]]))
    return sorted(out)


# the schemes src/verbatim_url.rs lists (Scheme::parse), exactly as written there
LISTED_SCHEMES = ['file', 'git+git', 'git+http', 'git+file', 'git+ssh', 'git+https', 'bzr+http', 'bzr+https', 'bzr+ssh', 'bzr+sftp', 'bzr+ftp', 'bzr+lp', 'bzr+file', 'hg+file', 'hg+http',
                  'hg+https', 'hg+ssh', 'hg+static-http', 'svn+ssh', 'svn+http', 'svn+https', 'svn+svn', 'svn+file', 'http', 'https']


def run(ctx):
    ctx.proofs('Props/C07.v')
    ctx.table_proofs('C07Tables.v')
    build.extract_and_driver()
    h = build.harness()
    quick = ctx.tier == 'quick'
    n_der = 700 if quick else 6000
    n_layouts = 3 if quick else 5
    ctx.extra['rule'] = ('%d random derivations of the PEP 508 grammar (names x extras lists x {no version, bare specifiers, parenthesised specifiers, @ URL} x optional marker tree of depth <= 2 '
                         'over pools of %d names, %d extras, %d specifiers, %d URLs and the marker atom generator), each rendered in %d layouts with white space from %r at every optional position '
                         '(none between and/or and a parenthesis or quote); every layout through Requirement::<VerbatimUrl>::from_str and Requirement::<Url>::from_str; accepted? components equal to the '
                         'derivation (PEP 503 name, extras in order, specifier multiset via VersionSpecifier::from_str on each piece, URL via Url::parse, marker == MarkerTree::from_str of the canonical '
                         'marker text)? all layouts the same value? and the extracted parser model on the same text. non-trivial = distinct (kind, #extras, #specs, marker shape, layout has/lacks '
                         'white space) classes' % (n_der, len(reqgen.NAMES), len(reqgen.EXTRA_IDS), len(reqgen.SPECS), len(reqgen.URLS), n_layouts, reqgen.WS))
    sess = markers.Session(h)
    keys = markers.Keys(sess.p)
    markers.check_source_tables(ctx, keys)
    rm = reqmodel.ReqModel(sess.p, keys, wd=None)
    # the grammar's arbitrary equality inside markers (tracked finding F7b)
    for text in ["foo ; python_version === '3.8'", "foo;python_full_version==='3.8.1' and os_name=='a'"]:
        ctx.evaluations += 1
        ctx.oracle_cases += 1
        r = sess.ask(['req', 'verbatim', 'none', S(text)])
        if r[0] != 'ok':
            ctx.failure('the grammatical requirement %r is rejected: %s' % (text, unS(r[6]) if r[0] == 'err' else dump(r)[:80]),
                        {'entry': 'Requirement::<VerbatimUrl>::from_str', 'input': text}, cls='arbitrary-equality-marker')
    # "the marker denoted by the marker text": each PEP 508 variable name reads its own environment field
    from . import c02

    def parse_eval(text, env):
        r = sess.ask(['req', 'verbatim', 'none', S('pkg[x] >=1.0 ; ' + text)])
        if r[0] != 'ok':
            return None
        g = c02.eval_all(sess, int(r[4]), env, [])
        return g[1] if g[0] == 'ok' else None
    markers.key_table_battery(ctx, parse_eval)
    # grammatical shapes the random derivations reach only by luck: a quoted string holding the other kind of quote, any white space
    # between `not` and `in`, operators glued to quotes, every comparison operator once
    FIXED = [("numpy>=1.0 ; platform_version == \"it's\"", "platform_version == \"it's\""), ("numpy [extra1] (>=1.0) ; os_name != 'say \"hi\"'", "os_name != 'say \"hi\"'"),
             ("numpy;\"it's\"==platform_version", "platform_version == \"it's\""), ("numpy ; os_name not\tin 'nt posix'", "os_name not in 'nt posix'"),
             ("numpy (>=1.0) ; python_version not\tin '3.8 3.9'", "python_version not in '3.8 3.9'"), ("numpy ; 'win' not\t in sys_platform and extra == 'a'", "'win' not in sys_platform and extra == 'a'"),
             ("numpy ; 'it\"s' in platform_version or \"it's\" not  in platform_version", "'it\"s' in platform_version or \"it's\" not in platform_version"),
             ("numpy;python_version<'3.9'and python_version>='3.7'or python_version~='3.10.0'", "python_version < '3.9' and python_version >= '3.7' or python_version ~= '3.10.0'"),
             ("numpy ; python_full_version<='3.9' and implementation_version>'3' and os_name!='a' and sys_platform<'b'", "python_full_version <= '3.9' and implementation_version > '3' and os_name != 'a' and sys_platform < 'b'")]
    FIXED += [("numpy>=1.0 ; 'a' == 'b' and os_name == 'nt'", "os_name == 'nt'"), ("numpy>=1.0;'a'=='b' and os_name=='nt'", "os_name == 'nt'"),
              ("numpy ; os_name ~= 'x' and os_name == 'nt'", "os_name == 'nt'"), ("numpy ; python_version == 'Linux' or os_name == 'nt' or sys_platform == 'win32'", "os_name == 'nt' or sys_platform == 'win32'"),
              ("numpy ; ('a' == 'b' and os_name == 'nt') or sys_platform == 'win32'", "os_name == 'nt' or sys_platform == 'win32'"), ("numpy ; os_name == 'nt' and 'a' == 'b' and sys_platform == 'win32'", "os_name == 'nt' and sys_platform == 'win32'"),
              ("numpy ; os_name == sys_platform or extra == 'x'", "extra == 'x'")]
    for text, mtext in FIXED:
        ctx.evaluations += 1
        ctx.oracle_cases += 1
        r, io, m = reqmodel.compare_req(ctx, sess, rm, text, True, None)
        if io[0] != 'ok':
            ctx.failure('the grammatical requirement %r is rejected by Requirement::<VerbatimUrl>::from_str: %s' % (text, io[1:4] if io[0] == 'err' else io),
                        {'entry': 'Requirement::<VerbatimUrl>::from_str', 'input': text})
            continue
        mreg, mr = sess.parse(mtext)
        if mreg is None or dump(sess.dumps[mreg]) != dump(r[5]):
            ctx.failure('the marker of %r is not the marker denoted by %r' % (text, mtext), {'entry': 'Requirement::<VerbatimUrl>::from_str', 'input': text})
    # FromStr / Display of MarkerOperator (a public entry point of its own; the marker parser recognises `not in` by itself): the operators
    # of the grammar, `not` + white space + `in` with any non-empty white space, and nothing else
    OPS = {'==': 'Equal', '!=': 'NotEqual', '>': 'GreaterThan', '>=': 'GreaterEqual', '<': 'LessThan', '<=': 'LessEqual', '~=': 'TildeEqual', 'in': 'In',
           'not in': 'NotIn', 'not  in': 'NotIn', 'not\tin': 'NotIn', 'not \t in': 'NotIn', 'not\nin': 'NotIn',
           'notin': None, 'not': None, 'not i': None, ' in': None, 'in ': None, 'not in ': None, ' not in': None, '=': None, '===': None, '=>': None, '': None, 'IN': None, 'Not in': None, 'not\u3000in': 'NotIn'}
    for text, want in OPS.items():
        r = sess.ask(['opparse', S(text)])
        ctx.oracle_cases += 1
        got = unS(r[1]) if r[0] == 'ok' else None
        if got != want:
            ctx.failure('MarkerOperator::from_str(%r) gives %r; the grammar reads %r' % (text, got, want), {'entry': 'MarkerOperator::from_str', 'input': text})
        elif r[0] == 'ok':
            shown = unS(r[2])
            back = sess.ask(['opparse', S(shown)])
            if back[0] != 'ok' or unS(back[1]) != got:
                ctx.failure('Display of the operator %s is %r, which does not parse back to it' % (got, shown), {'entry': 'MarkerOperator::from_str', 'input': shown})
    for n in range(n_der):
        d = reqgen.gen_derivation(ctx.rng)
        canon_marker = reqgen.canonical_marker(ctx.rng, d)
        # expectations, independent of the requirement parser
        want_name = reqgen.pep503(d['name'])
        want_extras = [reqgen.pep503(e) for e in (d['extras'] or [])]
        want_specs = expected_specs(sess, d['specs']) if d['kind'] in ('bare', 'paren') else None
        want_url = None
        if d['kind'] == 'url':
            u = sess.ask(['urlparse', 'F', 'none', S(d['url'])])
            want_url = unS(u[1]) if u[0] == 'ok' else None
        want_marker = None
        if canon_marker is not None:
            mreg, mr = sess.parse(canon_marker)
            if mreg is None:
                ctx.count('marker-text-rejected')
                continue
            want_marker = sess.dumps[mreg]
        first = None
        for layout in range(n_layouts):
            text = reqgen.render(ctx.rng, d, loose=layout > 0)
            for verbatim in ((True, False) if layout < 2 else (True,)):
                ctx.evaluations += 1
                r, io, m = reqmodel.compare_req(ctx, sess, rm, text, verbatim, None, what='Requirement' if verbatim else 'Requirement<Url>')
                ctx.oracle_cases += 1
                ctx.count('%s:%s' % (d['kind'], io[0]))
                ctx.nontrivial((d['kind'], len(d['extras'] or []), len(d.get('specs', [])), d['marker'][0] if d['marker'] else None, layout > 0, verbatim))
                entry = 'Requirement::<%s>::from_str' % ('VerbatimUrl' if verbatim else 'Url')
                if io[0] != 'ok':
                    # tracked finding F16: with the default features Requirement<VerbatimUrl> takes a URL whose scheme is not in its own list
                    # (src/verbatim_url.rs Scheme, matched as written) for a path and refuses it; the class applies only to schemes outside that list
                    cls = 'unknown-url-scheme' if (verbatim and d['kind'] == 'url' and d['url'].split(':')[0] not in LISTED_SCHEMES and io[0] == 'err' and io[1] == 'url') else None
                    ctx.failure('the grammatical requirement %r is rejected by %s: %s' % (text, entry, io[1:4] if io[0] == 'err' else io),
                                {'entry': entry, 'input': text, 'derivation': repr(d)}, cls)
                    continue
                name, extras, kind, reg, dmp = r[1:6]
                problems = []
                if unS(name) != want_name:
                    problems.append('name %r, expected %r' % (unS(name), want_name))
                if [unS(e) for e in extras] != want_extras:
                    problems.append('extras %r, expected %r' % ([unS(e) for e in extras], want_extras))
                if d['kind'] == 'none' and kind != 'none':
                    problems.append('a version/url component appeared: ' + dump(kind)[:80])
                if d['kind'] in ('bare', 'paren'):
                    got = sorted(dump(x) for x in kind[1:]) if kind != 'none' and kind[0] == 'specs' else None
                    if got != want_specs:
                        problems.append('specifier set %r, expected %r' % (got, want_specs))
                if d['kind'] == 'url':
                    if kind == 'none' or kind[0] != 'url' or unS(kind[1]) != want_url:
                        problems.append('url %s, expected %r' % (dump(kind)[:120], want_url))
                    elif verbatim and (kind[2] == 'none' or unS(kind[2]) != d['url']):
                        problems.append('given() %s, expected the source text %r' % (dump(kind[2])[:80], d['url']))
                if want_marker is None:
                    if dmp != 'T':
                        problems.append('a marker appeared: ' + dump(dmp)[:80])
                elif dump(dmp) != dump(want_marker):
                    problems.append('marker differs from MarkerTree::from_str(%r)' % canon_marker)
                if problems:
                    ctx.failure('%s(%r) does not have the components of its derivation: %s' % (entry, text, '; '.join(problems)),
                                {'entry': entry, 'input': text, 'derivation': repr(d), 'problems': problems})
                sig = dump([name, extras, kind if kind == 'none' or kind[0] != 'url' else kind[:2], dmp])
                if verbatim:
                    if first is None:
                        first = (text, sig)
                    elif sig != first[1]:
                        ctx.failure('white space changes the result: %r and %r parse to different requirements' % (first[0], text),
                                    {'entry': entry, 'inputs': [first[0], text]})
        if n % 200 == 0:
            rm.reset_tables()
        if len(ctx.samples) < 6 and ctx.rng.random() < .01:
            ctx.sample({'derivation': repr(d)[:200], 'last_layout': text})
    ctx.extra['oracle_table_fills'] = rm.misses
    rm.close()
    sess.close()
    if not ctx.samples:
        ctx.sample('(none)')
    return fw.finish(ctx, 'make -C /verif/coq Props/C07.vo  (coqc, Print Assumptions under each theorem)')
