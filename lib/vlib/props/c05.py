"""C05 — marker text round trip: Display / serialize then parse gives the same marker; to_dnf denotes the marker."""
from .. import build, framework as fw, markers, trees, semantics
from ..sexp import S, unS, dump, pretty
from . import c01, c02, c10, c20

QUOTED = ["it's", 'say "hi"', "a'b'c", "'", '"', 'x y', "é'"]


def run(ctx):
    ctx.proofs('Props/C05.v')
    ctx.table_proofs('C05Tables.v')
    build.extract_and_driver()
    h = build.harness()
    quick = ctx.tier == 'quick'
    ctx.extra['rule'] = ('markers from random histories (parse, and/or/not, simplify_extras, simplify/complexify_python_versions), markers with values containing '
                         'quote characters, deprecated key spellings, FALSE: (1) Display == try_to_string == contents() == serde text; the text parses; the result == the '
                         'marker (for FALSE and deprecated keys: equivalent by exact region comparison); serde deserialisation gives the same; (2) the clauses of to_dnf() '
                         'are recompiled (OR of ANDs) with the extracted proved operations and must give the identical diagram. non-trivial = distinct non-constant diagrams')
    for rd in range(2 if quick else 10):
        sess = markers.Session(h)
        keys = markers.Keys(sess.p)
        pv, pfv = keys.spelling['python_version'][1], keys.spelling['python_full_version'][1]
        regs, _ = c02.build_history(ctx, sess, 150 if quick else 400, 300 if quick else 1200)
        c20.extend_history(ctx, sess, regs, 60 if quick else 300)
        for v in QUOTED:
            for key in ('os_name', 'sys_platform'):
                for form in ('%s == %s', '%s != %s', '%s in %s', '%s not in %s', '%s < %s'):
                    q = c01.quote(ctx.rng, v)
                    if q is None:
                        continue
                    for t in (form % (key, q), form.replace('%s', 'X', 1).replace('%s', key).replace('X', q) if ' in ' in form else None):
                        if t:
                            r, _ = sess.parse(t)
                            if r is not None:
                                regs.append(r)
        for name in ["a'b", 'it"s']:
            r, _ = sess.parse('extra == %s' % c01.quote(ctx.rng, name))
            if r is not None:
                regs.append(r)
        # shapes the DNF simplifier is sensitive to: complementary-looking comparisons on DIFFERENT keys with the same literal, on the same key
        # with different literals, of different kinds; gaps that look like `!= X.Y.*` but are not; a marker and a near-negation of a part of it
        for t in markers.DNF_SHAPES + markers.op_key_grid():
            r, _ = sess.parse(t)
            if r is not None:
                regs.append(r)
        f, _ = sess.op('const', 'F')
        regs.append(f)
        cmds, meta = [], []
        dcmds, dmeta = [], []
        # the extracted model of Display (Text/MarkerDisplay.v) with the key spellings and pep440's Version text as oracle tables
        drv = fw.Proc(build.DRIVER)
        for idx, name in keys.ver.items():
            drv.ask(['tab', 'keytext', 'ver', idx, S(name)])
        for idx, name in keys.str.items():
            drv.ask(['tab', 'keytext', 'str', idx, S(name)])

        def model_text(m):
            for _ in range(200):
                o = drv.ask(['showmarker', pv, m])
                if o[0] == 'oracle-miss' and o[1][0] == 'vshow':
                    t = sess.ask(['vshow', o[1][1]])
                    drv.ask(['tab', 'vshow', o[1][1], t[1]])
                    continue
                return o
            return ['oracle-loop']
        for r in regs:
            try:
                m = sess.model(r)
            except Exception:
                continue
            if trees.size(m) > 40:
                ctx.count('skipped:large-diagram')     # the DNF of a large diagram is exponential
                continue
            ctx.evaluations += 1
            if m not in ('T', 'F'):
                ctx.nontrivial(dump(m))
            how = {'marker': markers.describe(sess, r)}
            d = sess.ask(['display', str(r)])
            ctx.oracle_cases += 1
            if d[0] != 'ok':
                ctx.failure('Display / serialisation panicked: %s' % dump(d)[:200], how)
                continue
            if d[1] == 'none':
                if m != 'T':
                    ctx.failure('contents() is None for a marker that is not TRUE', how)
                continue
            text = unS(d[1])
            how['text'] = text
            mt = model_text(m)
            ctx.corr_cases += 1
            if mt[0] != 'ok' or unS(mt[1]) != text:
                ctx.disagreement('show_marker ~ Display for MarkerTreeContents', how, unS(mt[1]) if mt[0] == 'ok' else dump(mt)[:200], text)
            if d[2] != 'T':
                ctx.failure('Display, try_to_string, contents(), serde text and the marker::ser helpers (is_empty / serialize) differ', how)
                if text == '<<TRUE marker>>':
                    continue
            r2, out = sess.parse(text)
            if r2 is None:
                ctx.failure('the rendered text does not parse: %s' % dump(out)[:200], how)
                continue
            rel = sess.ask(['rel', str(r), str(r2)])
            deprecated = any(b[0] in ('in', 'co') and keys.str.get(b[1]) and b[1] not in [keys.spelling[k][1] for k in markers.STRING_KEYS] for b in trees.bool_vars([m]))
            dep_keys = set()
            trees.walk(m, lambda n: dep_keys.add(n[1][1]) if n[1][0] in ('str', 'in', 'co') else None)
            modern = set(keys.spelling[k][1] for k in markers.STRING_KEYS)
            uses_deprecated = bool(dep_keys - modern)
            if rel[1] != 'T':
                if m == 'F' or uses_deprecated:
                    # equivalence on final-release environments instead of identity
                    try:
                        mr = sess.model(r2)
                    except Exception:
                        mr = m
                    for env, ex in markers.grid_envs(ctx.rng, keys, [m, mr], 12):
                        if not all(c.isdigit() or c == '.' for c in env['python_full_version'] + env['implementation_version']):
                            continue
                        g1, g2 = c02.eval_all(sess, r, env, ex), c02.eval_all(sess, r2, env, ex)
                        if g1[0] == 'ok' and g2[0] == 'ok' and g1[1] != g2[1]:
                            ctx.failure('the re-parsed text is not equivalent to the marker (%s vs %s)' % (g1[1], g2[1]), dict(how, env=env, extras=ex))
                            break
                else:
                    ctx.failure('the rendered text parses to a different marker', how)
            elif d[3] != 'T':
                ctx.failure('serde deserialisation of the serialised marker is not the marker', how)
            # DNF: recompile the clauses with the proved operations
            dn = sess.ask(['dnf', str(r)])
            if dn[0] != 'ok':
                ctx.failure('to_dnf panicked', how)
                continue
            try:
                clauses = [[['e', c10.typed_to_model(e)] for e in cl] for cl in dn[1]]
            except trees.Unmodelled:
                continue
            if m == 'F':
                if clauses:
                    ctx.failure('to_dnf of FALSE is not empty', how)
                continue
            if not clauses or any(not c for c in clauses):
                ctx.failure('to_dnf has an empty clause list / clause for a non-constant marker', how)
                continue
            ast = None
            for cl in clauses:
                a = cl[0]
                for e in cl[1:]:
                    a = ['and', a, e]
                ast = a if ast is None else ['or', ast, a]
            cmds.append(['compile', pv, pfv, ast])
            meta.append((how, m))
            # the extracted model of to_dnf (collect_dnf + simplify) on the same diagram: the clause lists must coincide
            dcmds.append(['dnf', m])
            dmeta.append((how, [[c[1] for c in cl] for cl in clauses]))
            if len(ctx.samples) < 8 and m not in ('T', 'F') and ctx.rng.random() < .01:
                ctx.sample({'text': text})
        douts = fw.batch_parallel(build.DRIVER, dcmds)
        for (how, want), got in zip(dmeta, douts):
            ctx.corr_cases += 1
            if got != want:
                ctx.disagreement('to_dnf ~ MarkerTree::to_dnf (clauses)', how, dump(got)[:600], dump(want)[:600])
        outs = fw.batch_parallel(build.DRIVER, cmds)
        for (how, want), got in zip(meta, outs):
            ctx.corr_cases += 1
            if got != want:
                ctx.failure('the clauses of to_dnf() do not denote the marker (recompiled diagram differs)', dict(how, recompiled=pretty(got)[:600], marker_diagram=pretty(want)[:600]))
        c02.monitor(ctx, sess, regs)
        drv.close()
        sess.close()
    if not ctx.samples:
        ctx.sample('(none)')
    return fw.finish(ctx, 'make -C /verif/coq Props/C05.vo  (coqc, Print Assumptions under each theorem)')


def rename_deprecated(m, keys):
    """map deprecated key spellings to the modern key index (same environment field)"""
    modern = {}
    for k in markers.STRING_KEYS:
        modern[keys.str[keys.spelling[k][1]]] = keys.spelling[k][1]

    def ren(v):
        if v[0] in ('str', 'in', 'co'):
            return [v[0], modern[keys.str[v[1]]]] + v[2:]
        return v
    if m in ('T', 'F'):
        return m
    if m[0] == 'R':
        return ['R', ren(m[1]), rename_deprecated(m[2], keys), [[c, rename_deprecated(d, keys)] for c, d in m[3]]]
    return ['B', ren(m[1]), rename_deprecated(m[2], keys), rename_deprecated(m[3], keys)]


def normal_false(m):
    return m


def no_final_model(m):
    """`python_version < '0'`: no final release satisfies it"""
    return True
