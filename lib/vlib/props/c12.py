"""C12 — requires-python simplify / complexify preserve meaning inside the range."""
from .. import build, framework as fw, markers, trees, semantics
from ..sexp import S, unS, dump, pretty
from . import c02, c20

BOUNDS = ['3.7', '3.8', '3.8.1', '3.9', '3.10', '3', '4', '2.7', '3.8.0', '3.0', '3.7.2', '3.11.0']
ODD = ['3.8a1', '3.8.post1', '3.9.dev0', '3.8.0rc1']


def rand_bound(rng, odd):
    r = rng.random()
    if r < .25:
        return 'U'
    pool = BOUNDS + (ODD if odd and rng.random() < .3 else [])
    return [('I' if rng.random() < .5 else 'E'), S(rng.choice(pool))]


def model_cut(sess, b, lower):
    if b == 'U':
        return 'U'
    v = trees.version_to_model(sess.ask(['version', b[1]])[1])
    if lower:
        return [v, 'b' if b[0] == 'I' else 'a']
    return [v, 'a' if b[0] == 'I' else 'b']


def range_text(lo, hi):
    """marker text of python_full_version in the window (None if unbounded on both sides)"""
    parts = []
    if lo != 'U':
        parts.append("python_full_version %s '%s'" % ('>=' if lo[0] == 'I' else '>', unS(lo[1])))
    if hi != 'U':
        parts.append("python_full_version %s '%s'" % ('<=' if hi[0] == 'I' else '<', unS(hi[1])))
    return ' and '.join(parts) if parts else None


def in_window(ver_key, lo, hi):
    if lo != 'U':
        k = trees.val_key(lo[0])
        if ver_key < k or (ver_key == k and lo[1] == 'a'):
            return False
    if hi != 'U':
        k = trees.val_key(hi[0])
        if ver_key > k or (ver_key == k and hi[1] == 'b'):
            return False
    return True


def gen_marker12(rng):
    """markers with python_full_version anywhere / nowhere, under implementation_version, above string and extra variables"""
    r = rng.random()
    pf = lambda: "python_full_version %s '%s'" % (rng.choice(['<', '<=', '>', '>=', '==', '!=']), rng.choice(BOUNDS))
    pv = lambda: "python_version %s '%s'" % (rng.choice(['<', '<=', '>', '>=', '==', '!=']), rng.choice(['3.7', '3.8', '3.9', '3.10', '3']))
    iv = lambda: "implementation_version %s '%s'" % (rng.choice(['<', '>=', '==']), rng.choice(['3.8', '3.9', '7.3']))
    st = lambda: "%s %s '%s'" % (rng.choice(['os_name', 'sys_platform']), rng.choice(['==', '!=', '<']), rng.choice(['linux', 'nt', 'a']))
    ex = lambda: "extra == '%s'" % rng.choice(['a', 'b'])
    if r < .15:
        return rng.choice([st, ex])()
    atoms = [rng.choice([pf, pf, pv, iv, st, ex])() for _ in range(rng.randint(2, 4))]
    out = atoms[0]
    for a in atoms[1:]:
        out = "(%s) %s %s" % (out, rng.choice(['and', 'or']), a)
    return out


def run(ctx):
    ctx.proofs('Props/C12.v')
    build.extract_and_driver()
    h = build.harness()
    quick = ctx.tier == 'quick'
    ctx.extra['rule'] = ('markers with python_full_version anywhere / nowhere (under implementation_version, above string and extra variables, '
                         'python_version forms) x bound pairs {unbounded, included, excluded} x literals at and around the diagrams\' own cuts, incl. '
                         'empty and inverted ranges and pre/post/dev bounds: extracted m_simplify_pv / m_complexify_pv on the dump vs the crate; '
                         'complexify == and(marker, range marker); simplify agrees with the original inside the range on grid environments; '
                         'complexify(simplify) == complexify and simplify(complexify) == simplify; non-trivial = distinct (diagram, bounds) with a '
                         'non-constant diagram and at least one bound')
    for rd in range(2 if quick else 8):
        sess = markers.Session(h)
        keys = markers.Keys(sess.p)
        pfv = keys.spelling['python_full_version'][1]
        regs = []
        for _ in range(120 if quick else 400):
            t = gen_marker12(ctx.rng) if ctx.rng.random() < .75 else markers.gen_marker(ctx.rng, 2)
            reg, r = sess.parse(t)
            if reg is not None:
                regs.append(reg)
        for _ in range(40 if quick else 200):
            k = ctx.rng.choice(['and', 'or', 'not'])
            reg, _ = sess.op(k, ctx.rng.choice(regs), ctx.rng.choice(regs)) if k != 'not' else sess.op('not', ctx.rng.choice(regs))
            if reg is not None:
                regs.append(reg)
        cmds, meta = [], []
        for a in regs:
            for _ in range(2):
                lo, hi = rand_bound(ctx.rng, True), rand_bound(ctx.rng, True)
                how = {'marker': markers.describe(sess, a), 'lower': pretty(lo), 'upper': pretty(hi)}
                ctx.evaluations += 1
                s1, r1 = sess.op('simppv', a, lo, hi)
                c1, r2 = sess.op('cplxpv', a, lo, hi)
                if s1 is None or c1 is None:
                    ctx.failure('simplify/complexify_python_versions panicked: %s %s' % (dump(r1)[:150], dump(r2)[:150]), how)
                    continue
                try:
                    ma = sess.model(a)
                    mlo, mhi = model_cut(sess, lo, True), model_cut(sess, hi, False)
                    cmds.append(['simppv', pfv, mlo, mhi, ma]); meta.append(('simplify_python_versions ~ m_simplify_pv', how, sess.model(s1)))
                    cmds.append(['cplxpv', pfv, mlo, mhi, ma]); meta.append(('complexify_python_versions ~ m_complexify_pv', how, sess.model(c1)))
                except (trees.NotPartition, trees.Unmodelled) as e:
                    ctx.count('unconvertible')
                    continue
                if ma not in ('T', 'F') and (lo != 'U' or hi != 'U'):
                    ctx.nontrivial((dump(ma), dump(mlo), dump(mhi)))
                # complexify is the marker AND the range
                final = all(b == 'U' or all(ch.isdigit() or ch == '.' for ch in unS(b[1])) for b in (lo, hi))
                rt = range_text(lo, hi) if final else 'skip'
                ctx.oracle_cases += 1
                if True:
                    # pointwise, with membership in R decided here (PEP 440 order of the model, pre / post / dev environment versions next to
                    # every bound included) - for bounds a marker cannot express this is the only comparison
                    for env, ex in markers.grid_envs(ctx.rng, keys, [ma, ['R', ['ver', pfv], 'T', [[c, 'T'] for c in (mlo, mhi) if c != 'U']]], 6):
                        rv = sess.ask(['version', S(env['python_full_version'])])
                        if rv[0] != 'ok':
                            continue
                        inside = in_window(trees.val_key(trees.version_to_model(rv[1])), mlo, mhi)
                        g1, g2 = c02.eval_all(sess, c1, env, ex), c02.eval_all(sess, a, env, ex)
                        if g1[0] == 'ok' and g2[0] == 'ok' and (g1[1] == 'T') != ((g2[1] == 'T') and inside):
                            ctx.failure('complexify_python_versions(m,R) does not evaluate as m and python_full_version in R', dict(how, env=env))
                if rt == 'skip':
                    pass
                elif rt is not None:
                    rr, _ = sess.parse(rt)
                    x, _ = sess.op('and', a, rr)
                    rel = sess.ask(['rel', str(c1), str(x)])
                    if rel[1] != 'T':
                        ctx.failure('complexify_python_versions(m, R) is not the marker m and python_full_version in R', how)
                else:
                    rel = sess.ask(['rel', str(c1), str(a)])
                    if rel[1] != 'T':
                        ctx.failure('complexify with unbounded range changed the marker', how)
                # composition laws
                cs, _ = sess.op('cplxpv', s1, lo, hi)
                sc, _ = sess.op('simppv', c1, lo, hi)
                if cs is None or sc is None:
                    ctx.failure('composition panicked', how)
                    continue
                if sess.ask(['rel', str(cs), str(c1)])[1] != 'T':
                    ctx.failure('complexify(simplify(m,R),R) != complexify(m,R)', how)
                if sess.ask(['rel', str(sc), str(s1)])[1] != 'T':
                    ctx.failure('simplify(complexify(m,R),R) != simplify(m,R)', how)
                # simplify agrees with m inside R
                try:
                    ms = sess.model(s1)
                except Exception:
                    continue
                for env, ex in markers.grid_envs(ctx.rng, keys, [ma, ms, ['R', ['ver', pfv], 'T', [[c, 'T'] for c in (mlo, mhi) if c != 'U']]], 6):
                    rv = sess.ask(['version', S(env['python_full_version'])])
                    if rv[0] != 'ok':
                        continue
                    vk = trees.val_key(trees.version_to_model(rv[1]))
                    if not in_window(vk, mlo, mhi):
                        continue
                    g1, g2 = c02.eval_all(sess, s1, env, ex), c02.eval_all(sess, a, env, ex)
                    ctx.oracle_cases += 1
                    if g1[0] == 'ok' and g2[0] == 'ok' and g1[1] != g2[1]:
                        ctx.failure('simplify_python_versions changes the value inside the range (python_full_version %s): %s vs %s' % (env['python_full_version'], g1[1], g2[1]),
                                    dict(how, env=env, extras=ex))
                if len(ctx.samples) < 6 and ma not in ('T', 'F') and ctx.rng.random() < .02:
                    ctx.sample(dict(how, simplified=pretty(ms)[:300]))
        outs = fw.batch_parallel(build.DRIVER, cmds)
        for (fn, how, want), got in zip(meta, outs):
            ctx.corr_cases += 1
            if got != want:
                ctx.disagreement(fn, how, pretty(got)[:700], pretty(want)[:700])
        # markers that agree on R simplify to the same marker
        for _ in range(40 if quick else 200):
            a = ctx.rng.choice(regs)
            lo, hi = rand_bound(ctx.rng, False), rand_bound(ctx.rng, False)
            rt = range_text(lo, hi)
            if rt is None:
                continue
            rr, _ = sess.parse(rt)
            nr, _ = sess.op('not', rr)
            junk = ctx.rng.choice(regs)
            outside, _ = sess.op('and', nr, junk)
            b, _ = sess.op('or', sess.op('and', a, rr)[0], outside)     # agrees with a inside R, arbitrary outside
            sa, _ = sess.op('simppv', a, lo, hi)
            sb, _ = sess.op('simppv', b, lo, hi)
            ctx.oracle_cases += 1
            if sa is None or sb is None:
                ctx.failure('simplify panicked', {'marker': markers.describe(sess, a)})
            elif sess.ask(['rel', str(sa), str(sb)])[1] != 'T':
                ctx.failure('two markers that agree inside the range simplify to different markers',
                            {'a': markers.describe(sess, a), 'b': markers.describe(sess, b), 'lower': pretty(lo), 'upper': pretty(hi)})
        c02.monitor(ctx, sess, list(sess.models.keys()))
        sess.close()
    if not ctx.samples:
        ctx.sample('(none)')
    return fw.finish(ctx, 'make -C /verif/coq Props/C12.vo  (coqc, Print Assumptions under each theorem)')
