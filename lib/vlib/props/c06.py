"""C06 — parsing is total: no panic on any input, errors always renderable."""
import itertools

from .. import build, framework as fw, markers, trees, textmodel, reqmodel
from ..sexp import S, unS, dump, pretty

TOKENS = [' ', '\t', ' ', 'a', 'é', '漢', '😀', '0', "'", '"', '(', ')', '==', '<', '~=', '!', ',', ';', ' and ', ' or ', ' in ', ' not ', 'and', 'or',
          'os_name', 'python_version', 'extra', "'x'", "'3.8'", "'é'", '.', '-', '[', ']', '@', '#', '\n', '*']
PREFIXES = ['', "os_name == 'a'", "os_name == 'a' ", "os_name == 'a' and", "os_name == 'a' and ", "(os_name == 'a'", "python_version >= '3.8' or ",
            "python_version", "python_version ", "python_version >", "python_version > ", "'a' in", "os_name not", "os_name not ", "extra == 'x' and (", "'x' ~= os_name",
            "python_full_version in '3.8 ", "os_name == 'é' ", "os_name == \"a\" )", "é", "os_name ~= 'a' and sys_platform == 'b'"]


def marker_inputs(ctx, quick):
    out = []
    depth = 2 if quick else 3
    keep = {0: 1.0, 1: 1.0, 2: 0.12 if quick else 1.0, 3: 0.03}
    for p in PREFIXES:
        for k in range(0, depth + 1):
            for t in itertools.product(TOKENS, repeat=k):
                if keep[k] < 1.0 and ctx.rng.random() > keep[k]:
                    continue
                out.append(p + ''.join(t))
    # mutations of valid markers: delete / insert / duplicate a character
    for _ in range(800 if quick else 8000):
        m = markers.gen_marker(ctx.rng, 2)
        i = ctx.rng.randrange(len(m) + 1)
        r = ctx.rng.random()
        if r < .3 and m:
            m = m[:i] + m[i + 1:]
        elif r < .7:
            m = m[:i] + ctx.rng.choice(TOKENS) + m[i:]
        else:
            m = m[:i] + m[max(0, i - 1):]
        out.append(m)
    return list(dict.fromkeys(out))


RTOKENS = [' ', '\t', '\u3000', '\u00a0', '\n', '\r', 'a', 'Z', '9', 'é', '漢', '😀', '-', '_', '.', ',', ';', '#', '@', '[', ']', '(', ')', '<', '>=', '==', '~=', '!=', '!',
           '*', "'", '"', '$', '{', '}', '${HOME}', '/', '\\', ':', '%', '+', '1.0', 'foo', '.whl', '.tar.gz', 'https://h/p', " os_name == 'a'", 'extra', ' and ', '===', '\x00']
RPREFIXES = ['', ' ', 'foo', 'foo ', 'Foo_.-bar', 'foo-', 'foo.', 'foo[', 'foo[a', 'foo[a-', 'foo[a,', 'foo[a ', 'foo[a]', 'foo [ a , b ] ', 'foo>=1', 'foo >=1,', 'foo >= 1.0 , < 2', 'foo (', 'foo (>=1', 'foo (>=1)',
             'foo @', 'foo @ ', 'foo @ https://h/p', 'foo @ https://h/p;', 'foo @ https://h/p#', 'foo @ https://h;', 'foo @ https://h?q#', 'foo @ https://h/p ', 'foo @ https://h/p ;', 'foo @ file:///a', 'foo @ ${HOME}', 'foo @ git+https://h/p@v1',
             'foo ;', "foo ; os_name == 'a'", "foo ; os_name == 'a' ", "foo[a]>=1;python_version<'3.8' and", 'https://h/p', './p', '/p', 'foo.whl', 'foo.tar.gz', 'é', 'foo é']
UPREFIXES = ['', ' ', 'https://h/p', 'https://h/p;', 'https://h/p#', 'https://h/p;[a]', 'https://h/p[', 'https://h/p[a', 'https://h/p[a]', 'https://h/p[a] ', 'https://h/p[a] ;', "https://h/p ; os_name == 'a'",
             './p', '/p', '/p[a,b]', 'file:///a/b', 'file://localhost/a', 'foo.whl', '${HOME}/p', 'git+https://h/p@v1', 'C:\\p', '/p#[a]', '/p [a]', '/p;[a]', ' /p[', '  https://h/é[', ' /pkgs/café[', '\t/p[a', 'https://h/p;[a]\u3000', '/p#[a]\u3000']
ETOKENS = [' ', '\u3000', 'a', 'B', '1', '-', '_', '.', ',', '[', ']', 'é', '😀', ';', '\n']
EPREFIXES = ['', '[', '[a', '[a-', '[a,', '[a ', '[a]', '[ a , b', 'a', ' [a]']


def token_inputs(ctx, prefixes, tokens, depth, keep):
    out = []
    for p in prefixes:
        for k in range(0, depth + 1):
            for t in itertools.product(tokens, repeat=k):
                if keep.get(k, 1.0) < 1.0 and ctx.rng.random() > keep[k]:
                    continue
                out.append(p + ''.join(t))
    return list(dict.fromkeys(out))


def req_part(ctx, h, quick, ext=False):
    """requirement-level entry points: Requirement::<VerbatimUrl>/<Url>::from_str, parse_reporter, Extras::parse, (ext) UnnamedRequirement"""
    sess = markers.Session(h)
    keys = markers.Keys(sess.p)
    wd = '/work'
    rm = reqmodel.ReqModel(sess.p, keys, wd=None)
    rm_wd = reqmodel.ReqModel(sess.p, keys, wd=wd)
    tag = 'ext:' if ext else ''
    inputs = token_inputs(ctx, RPREFIXES, RTOKENS, 2, {2: (0.05 if ext else 0.12) if quick else 1.0})
    if not quick and not ext:
        inputs += token_inputs(ctx, RPREFIXES[::3], RTOKENS, 3, {0: 0, 1: 0, 2: 0, 3: 0.02})
    n_req = 0

    def alive(text, entry):
        nonlocal sess, rm, rm_wd
        a = sess.ask(['parse', S("os_name == 'probe'")])
        if a[0] != 'ok':
            ctx.failure('after %s(%r) every later marker operation in the process fails (interner poisoned)' % (entry, text),
                        {'entry': entry, 'input': text, 'then': "os_name == 'probe'"}, cls='poisoned-after-panic')
        if a[0] != 'ok' or True:
            sess.close(); rm.close(); rm_wd.close()
            sess = markers.Session(h)
            rm = reqmodel.ReqModel(sess.p, keys, wd=None); rm_wd = reqmodel.ReqModel(sess.p, keys, wd=wd)

    from .. import reqgen
    fixed = [(t, w) for t in reqgen.NEAR_GRAMMAR for w in (0, 1, 2)]
    for n, item in enumerate(fixed + inputs):
        text, which = item if isinstance(item, tuple) else (item, n % 3)
        ctx.evaluations += 1
        n_req += 1
        if which == 0:
            r, io, m = reqmodel.compare_req(ctx, sess, rm, text, True, None)
            entry = 'Requirement::<VerbatimUrl>::from_str'
        elif which == 1:
            r, io, m = reqmodel.compare_req(ctx, sess, rm_wd, text, True, wd)
            entry = 'Requirement::<VerbatimUrl>::parse_reporter'
        else:
            r, io, m = reqmodel.compare_req(ctx, sess, rm, text, False, None, what='Requirement<Url>')
            entry = 'Requirement::<Url>::from_str'
        ctx.oracle_cases += 1
        ctx.count(tag + 'req:' + io[0] + (':' + (io[1] if isinstance(io[1], str) else io[1][0]) if io[0] == 'err' else ''))
        ctx.nontrivial((tag, 'req', io[0], io[1] if io[0] == 'err' and isinstance(io[1], str) else None, any(ord(c) > 127 for c in text)))
        if not reqmodel.impl_span_checks(ctx, entry, text, io):
            alive(text, entry)
        if n % 400 == 0:
            rm.reset_tables(); rm_wd.reset_tables()
    # Extras::parse
    for text in token_inputs(ctx, EPREFIXES, ETOKENS, 2 if quick else 3, {3: 0.3}):
        ctx.evaluations += 1
        r = sess.ask(['extras', S(text)])
        io = reqmodel.outcome(r)
        ctx.oracle_cases += 1
        ctx.count(tag + 'extras:' + io[0] + (':' + str(io[1]) if io[0] == 'err' else ''))
        ctx.nontrivial((tag, 'extras', io[0], io[1] if io[0] == 'err' and isinstance(io[1], str) else None, any(ord(c) > 127 for c in text)))
        if not reqmodel.impl_span_checks(ctx, 'Extras::parse', text, io):
            alive(text, 'Extras::parse')
            continue
        m = rm.extras(text)
        mo = reqmodel.model_outcome(m)
        ctx.corr_cases += 1
        if not reqmodel.same_outcome(ctx, sess, 'Extras', text, mo, io):
            ctx.disagreement('parse_extras_text ~ Extras::parse (outcome)', text, repr(mo), repr(io[:4]))
        elif io[0] == 'ok' and dump(m[1]) != dump(r[1]):
            ctx.disagreement('parse_extras_text ~ Extras::parse (names)', text, dump(m[1]), dump(r[1]))
    # names (PackageName / ExtraName: new, from_str, serde) never panic
    for text in token_inputs(ctx, ['', 'a', 'a-', '-a', 'A.b'], ETOKENS, 2, {}):
        ctx.evaluations += 1
        r = sess.ask(['name', S(text)])
        ctx.oracle_cases += 1
        if r[0] != 'name':
            ctx.failure('PackageName / ExtraName construction panicked on %r' % text, {'entry': 'PackageName::new', 'input': text})
            alive(text, 'PackageName::new')
    if ext:
        ufixed = [(t, w) for t in reqgen.NEAR_GRAMMAR_UNNAMED for w in (True, False)]
        for n, item in enumerate(ufixed + token_inputs(ctx, UPREFIXES, RTOKENS, 2, {2: 0.08 if quick else 0.6})):
            text, use_wd = item if isinstance(item, tuple) else (item, n % 2 == 0)
            ctx.evaluations += 1
            r = sess.ask(['unnamed', S(wd) if use_wd else 'none', S(text)])
            io = reqmodel.outcome(r)
            entry = 'UnnamedRequirement::parse' if use_wd else 'UnnamedRequirement::from_str'
            ctx.oracle_cases += 1
            ctx.count('unnamed:' + io[0] + (':' + (io[1] if isinstance(io[1], str) else io[1][0]) if io[0] == 'err' else ''))
            ctx.nontrivial(('unnamed', io[0], io[1] if io[0] == 'err' and isinstance(io[1], str) else None, any(ord(c) > 127 for c in text)))
            if not reqmodel.impl_span_checks(ctx, entry, text, io):
                alive(text, entry)
                continue
            mdl = rm_wd if use_wd else rm
            m = mdl.unnamed(text)
            mo = reqmodel.model_outcome(m)
            ctx.corr_cases += 1
            if not reqmodel.same_outcome(ctx, sess, 'UnnamedRequirement', text, mo, io):
                ctx.disagreement('parse_unnamed ~ UnnamedRequirement (outcome)', text, repr(mo), repr(io[:4]))
            elif io[0] == 'ok':
                # (ok disp given extras reg dump warnings shown contents)
                if dump(m[1]) != dump(r[1]) or dump(m[2]) != dump(r[2]) or dump(m[3]) != dump(r[3]):
                    ctx.disagreement('parse_unnamed ~ UnnamedRequirement (url, given, extras)', text, dump(m[1:4])[:300], dump(r[1:4])[:300])
                try:
                    want = trees.to_model(r[5])
                    got = m[4] if m[4] != 'none' else 'T'
                    if want != got:
                        ctx.disagreement('parse_unnamed ~ UnnamedRequirement (marker diagram)', text, pretty(got)[:300], pretty(want)[:300])
                except (trees.NotPartition, trees.Unmodelled):
                    ctx.count('unmodelled-marker')
                sh = mdl.show_unnamed(text, unS(r[8]) if r[8] != 'none' else None)
                if sh[0] != 'ok' or unS(sh[1]) != unS(r[7]):
                    ctx.disagreement('display_unnamed ~ UnnamedRequirement Display', text, unS(sh[1]) if sh[0] == 'ok' else dump(sh), unS(r[7]))
            if n % 400 == 0:
                rm.reset_tables(); rm_wd.reset_tables()
    ctx.extra.setdefault('oracle_table_fills_req', 0)
    ctx.extra['oracle_table_fills_req'] += rm.misses + rm_wd.misses
    ctx.extra[tag + 'requirement_inputs'] = n_req
    rm.close(); rm_wd.close(); sess.close()


OVERFLOW_PROBES = ["python_full_version == '18446744073709551615.*'", "python_full_version ~= '1.18446744073709551615'", "python_version <= '3.18446744073709551615'"]


def overflow_probes(ctx, h):
    """F6d: u64::MAX release segments (each in a fresh process: the panic poisons the interner)"""
    for text in OVERFLOW_PROBES:
        sess = markers.Session(h)
        ctx.evaluations += 1
        ctx.oracle_cases += 1
        r = sess.ask(['parse', S(text)])
        out = textmodel.impl_parse_outcome(r)
        ctx.count('overflow-probe:' + out[0])
        if out[0] == 'panic':
            cls = reqmodel.panic_class(out[1], text)
            ctx.failure('MarkerTree::parse_reporter panicked on %r: %s' % (text, out[1]), {'entry': 'MarkerTree::from_str', 'input': text}, cls=cls)
            a = sess.ask(['parse', S("os_name == 'probe'")])
            if a[0] != 'ok':
                ctx.failure('after the panic on %r every later marker operation in the process fails (interner poisoned)' % text,
                            {'entry': 'MarkerTree::from_str', 'input': text, 'then': "os_name == 'probe'"}, cls='poisoned-after-' + cls)
        sess.close()


def run(ctx):
    ctx.proofs('Props/C06.v')
    build.extract_and_driver()
    h = build.harness()
    quick = ctx.tier == 'quick'
    ctx.extra['rule'] = ('marker texts: all token sequences up to length %d over a %d-token alphabet (white space incl. multi-byte, ASCII/2-/3-/4-byte letters, '
                         'quotes, operators, keywords, delimiters) after %d valid prefixes, plus single-character mutations of random valid markers; each through '
                         'MarkerTree::parse_reporter/from_str and MarkerExpression::from_str in batches of one process with catch_unwind; outcome (Ok | Err kind start len | '
                         'panicked) vs the extracted parser model; every error is formatted with Display and its span checked; a follow-up marker operation in the same '
                         'process detects a poisoned interner. requirement level: all token sequences up to length 2 (sampled at 2%s) over a %d-token alphabet after %d prefixes through '
                         'Requirement::<VerbatimUrl>::from_str / parse_reporter / Requirement::<Url>::from_str (rotating), Extras::parse, PackageName/ExtraName constructors, and, in a '
                         'second harness built with non-pep508-extensions, the same plus UnnamedRequirement::from_str / parse; outcome, spans, components, Display vs the extracted '
                         'requirement model. non-trivial = distinct outcome '
                         'classes (kind, span shape, multi-byte involved)' % (2 if quick else 3, len(TOKENS), len(PREFIXES), ', and 3' if not quick else '', len(RTOKENS), len(RPREFIXES)))
    inputs = marker_inputs(ctx, quick)
    sess = markers.Session(h)
    keys = markers.Keys(sess.p)
    tm = textmodel.MarkerTextModel(sess.p, keys)
    for n, text in enumerate(inputs):
        if any(0xD800 <= ord(c) <= 0xDFFF for c in text):
            continue
        ctx.evaluations += 1
        r = sess.ask(['parse', S(text)])
        out = textmodel.impl_parse_outcome(r)
        ctx.count('marker:' + out[0] + (':' + (out[1] if isinstance(out[1], str) else out[1][0]) if out[0] == 'err' else ''))
        ctx.oracle_cases += 1
        multibyte = any(ord(c) > 127 for c in text)
        ctx.nontrivial((out[0], out[1] if out[0] == 'err' and isinstance(out[1], str) else None, multibyte, min(len(text), 20) // 5))
        if out[0] == 'panic' or r[0] == 'died':
            ctx.failure('MarkerTree::parse_reporter panicked on %r: %s' % (text, out[1] if len(out) > 1 else ''), {'entry': 'MarkerTree::from_str', 'input': text})
            # the interner may be poisoned: continue in a fresh process
            alive = sess.ask(['parse', S("os_name == 'probe'")])
            if alive[0] != 'ok':
                ctx.failure('after a panic inside a marker operation every later marker call in the process fails (interner poisoned)',
                            {'entry': 'MarkerTree::from_str', 'input': text, 'then': "os_name == 'probe'"}, cls='poisoned-after-panic')
                sess.close(); tm.close()
                sess = markers.Session(h); tm = textmodel.MarkerTextModel(sess.p, keys)
            continue
        if out[0] == 'err':
            _, kind, start, ln, start_ok, disp_ok = out
            if not disp_ok:
                ctx.failure('the error returned for %r cannot be formatted (Display panics): span %d+%d' % (text, start, ln), {'entry': 'MarkerTree::from_str', 'input': text, 'start': start, 'len': ln})
            if not start_ok:
                ctx.failure('the error span for %r does not start on a character boundary within the input' % text, {'input': text, 'start': start})
        # correspondence with the model
        m = tm.parse(text)
        ctx.corr_cases += 1
        if m[0] == 'ok':
            mo = ('ok',)
        elif m[0] == 'err':
            mo = ('err', m[1], int(m[2]), int(m[3]))
        else:
            mo = ('model:' + dump(m)[:60],)
        io = out[:4] if out[0] == 'err' else out[:1]
        if mo != io:
            ctx.disagreement('parse_markers ~ MarkerTree::parse_reporter (outcome)', text, repr(mo), repr(io))
        elif m[0] == 'ok' and r[0] == 'ok':
            try:
                want = trees.to_model(r[2])
                if want != m[1]:
                    ctx.disagreement('parse_markers ~ MarkerTree::parse_reporter (diagram)', text, pretty(m[1])[:400], pretty(want)[:400])
                if [w for w in r[3]] != m[2]:
                    ctx.disagreement('parse_markers ~ MarkerTree::parse_reporter (warning kinds)', text, dump(m[2]), dump(r[3]))
            except (trees.NotPartition, trees.Unmodelled):
                ctx.count('unmodelled')
        if n % 500 == 0:
            tm.reset_tables()
        # MarkerExpression::from_str on the same text (short ones)
        if len(text) < 30:
            r2 = sess.ask(['expr', S(text)])
            o2 = textmodel.impl_parse_outcome(r2)
            ctx.oracle_cases += 1
            if o2[0] == 'panic':
                ctx.failure('MarkerExpression::from_str panicked on %r' % text, {'entry': 'MarkerExpression::from_str', 'input': text})
            elif o2[0] == 'err' and not (o2[4] and o2[5]):
                ctx.failure('MarkerExpression error for %r is not renderable / not on a boundary' % text, {'entry': 'MarkerExpression::from_str', 'input': text})
            m2 = tm.parse(text, 'pexpr')
            ctx.corr_cases += 1
            mo2 = ('ok',) if m2[0] == 'ok' else (('err', m2[1], int(m2[2]), int(m2[3])) if m2[0] == 'err' else ('model:' + dump(m2)[:60],))
            io2 = o2[:4] if o2[0] == 'err' else o2[:1]
            if mo2 != io2:
                ctx.disagreement('parse_expression ~ MarkerExpression::parse_reporter (outcome)', text, repr(mo2), repr(io2))
        if len(ctx.samples) < 8 and ctx.rng.random() < .002:
            ctx.sample({'input': text, 'outcome': repr(out)[:120]})
    tm.close()
    sess.close()
    ctx.extra['oracle_table_fills'] = tm.misses
    overflow_probes(ctx, h)
    req_part(ctx, h, quick, ext=False)
    req_part(ctx, build.harness(ext=True), quick, ext=True)
    if not ctx.samples:
        ctx.sample('(none)')
    return fw.finish(ctx, 'make -C /verif/coq Props/C06.vo  (coqc, Print Assumptions under each theorem)')
