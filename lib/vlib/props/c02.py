"""C02 — and / or / negate are the pointwise boolean operations."""
from .. import build, framework as fw, markers, trees, vmcheck
from ..sexp import S, unS, dump, pretty


def build_history(ctx, sess, n_parse, n_ops, kinds=('and', 'or', 'not'), battery=False, pre=None):
    regs = []
    for _ in range(n_parse):
        t = markers.gen_marker(ctx.rng, ctx.rng.choice([0, 1, 1, 2, 2, 3]))
        reg, r = sess.parse(t)
        if reg is not None:
            regs.append(reg)
        ctx.count('parse:' + r[0])
    for t in markers.BOUNDARY_TEXTS:
        reg, r = sess.parse(t)
        if reg is not None:
            regs.append(reg)
    # comparisons over the same few boolean variables (extras, `in`, substring tests), both polarities: operands of forced and / or steps below
    family = []
    for t in markers.boolean_family(ctx.rng, 0):
        reg, r = sess.parse(t)
        if reg is not None:
            regs.append(reg)
            family.append(reg)
    steps = []
    if pre:
        n0 = len(regs)
        pre(regs)       # operands produced by other API calls (simplification, restriction, complexify)
        # requires-python ranges with every kind of bound on fixed markers, so that each shape of range is an operand in every run
        for text in ("python_full_version < '3.10'", "os_name == 'posix'", "python_version >= '3.7' and extra == 'a'"):
            base, _ = sess.parse(text)
            if base is None:
                continue
            for lo, hi in ((['E', S('3.8')], 'U'), (['I', S('3.8')], 'U'), ('U', ['I', S('3.9')]), ('U', ['E', S('3.9')]), (['E', S('3.8')], ['I', S('3.9')]), (['I', S('3.8')], ['E', S('3.8.1')])):
                for k in ('cplxpv', 'simppv'):
                    reg, r = sess.op(k, base, lo, hi)
                    if reg is not None:
                        regs.append(reg)
                # ... and right after the marker was simplified / complexified for a range, it meets that very range as an operand of and / or
                # (a memo shared between the operations would answer with the earlier result)
                parts = ([] if lo == 'U' else ["python_full_version %s '%s'" % ('>=' if lo[0] == 'I' else '>', unS(lo[1]))]) + \
                        ([] if hi == 'U' else ["python_full_version %s '%s'" % ('<=' if hi[0] == 'I' else '<', unS(hi[1]))])
                rg, _ = sess.parse(' and '.join(parts))
                nb, _ = sess.op('not', base)
                if rg is not None and nb is not None:
                    sess.op('simppv', nb, lo, hi)
                    nrg, _ = sess.op('not', rg)
                    for k, x, y in (('and', base, rg), ('or', base, nrg), ('and', nb, rg), ('or', nb, nrg), ('and', rg, base)):
                        if k in kinds and x is not None and y is not None:
                            reg, r = sess.op(k, x, y)
                            if reg is not None:
                                regs.append(reg)
                                steps.append((k, (x, y), reg))
        # each of them takes part in a negation and in a disjunction / conjunction with a parsed marker at least once
        if 'not' in kinds:
            for x in regs[n0:]:
                reg, r = sess.op('not', x)
                if reg is not None:
                    regs.append(reg)
                    steps.append(('not', (x,), reg))
        for x in list(regs[n0:]):
            for k in [k for k in ('or', 'and') if k in kinds]:
                y = ctx.rng.choice(regs[:n0])
                reg, r = sess.op(k, x, y)
                if reg is not None:
                    regs.append(reg)
                    steps.append((k, (x, y), reg))
    # absorption first, the complement afterwards (a conjunction equal to one of its operands, then the other operand with that operand's
    # negation; dually for or), in both operand orders, over every kind of variable
    if 'and' in kinds and 'or' in kinds and 'not' in kinds:
        for p_, q_ in (("platform_machine == 'p'", "platform_machine == 'q'"), ("'p' in platform_system", "extra == 'q'"), ("platform_release < 'p'", "platform_release >= 'q'"),
                       ("python_full_version >= '3.8'", "python_full_version < '3.6'"), ("extra == 'p'", "extra == 'q'")):
            a, b = sess.parse(p_)[0], sess.parse(q_)[0]
            if a is None or b is None:
                continue
            x, _ = sess.op('or', a, b)
            seq = [('and', x, a)]
            na, _ = sess.op('not', a)
            nx, _ = sess.op('not', x)
            seq += [('and', x, na), ('and', b, x), ('and', na, x), ('or', nx, a), ('or', na, nx), ('or', nx, na)]
            regs += [r_ for r_ in (a, b, x, na, nx) if r_ is not None]
            for k, u, v in seq:
                if u is None or v is None:
                    continue
                reg, r = sess.op(k, u, v)
                if reg is not None:
                    regs.append(reg)
                    steps.append((k, (u, v), reg))
    # boundary battery: all ordered pairs of the six comparisons of one key against ONE value, and neighbouring
    # values, under and / or: ranges that touch at a bound with every combination of inclusive / exclusive ends
    if battery and ('and' in kinds or 'or' in kinds):
        battery = []
        for key, vals in ((ctx.rng.choice(markers.VERSION_KEYS[1:2] + ['python_full_version']), ctx.rng.sample(markers.VERSIONS, 2)),
                          (ctx.rng.choice(markers.STRING_KEYS), ctx.rng.sample([v for v in markers.STRVALS if v and "\x00" not in v and "'" not in v and "\\" not in v and "\t" not in v], 2))):
            atoms = []
            for v in vals:
                for op in ('<', '<=', '>', '>=', '==', '!='):
                    reg, r = sess.parse("%s %s '%s'" % (key, op, v))
                    if reg is not None:
                        atoms.append(reg)
                        regs.append(reg)
            battery += [(a, b) for a in atoms for b in atoms if a != b]
        for a, b in battery:
            for k in ('and', 'or'):
                if k not in kinds:
                    continue
                reg, r = sess.op(k, a, b)
                ctx.count('op:battery-' + k)
                if reg is None:
                    ctx.failure('%s on registers panicked or failed: %s' % (k, dump(r)),
                                {'op': k, 'operands': [markers.describe(sess, x) for x in (a, b)], 'result': dump(r)})
                    continue
                regs.append(reg)
                steps.append((k, (a, b), reg))
    for i, x in enumerate(family):
        for y in family[i + 1:]:
            for k in [k for k in ('and', 'or') if k in kinds]:
                if ctx.rng.random() < .5:
                    continue
                a, b = (x, y) if ctx.rng.random() < .5 else (y, x)
                reg, r = sess.op(k, a, b)
                ctx.count('op:family-' + k)
                if reg is None:
                    continue
                regs.append(reg)
                steps.append((k, (a, b), reg))
    for _ in range(n_ops):
        k = ctx.rng.choice(kinds)
        def pick():
            # not the very large ones: the unfolded tree of a result can be the product of its operands' trees
            for _ in range(8):
                x = ctx.rng.choice(regs[-40:] if ctx.rng.random() < .5 else regs)
                if sess.sizes.get(x, 0) <= 1500:
                    return x
            return x
        if k == 'not':
            a = pick()
            reg, r = sess.op('not', a)
            ops = (a,)
        else:
            a, b = pick(), pick()
            reg, r = sess.op(k, a, b)
            ops = (a, b)
        ctx.count('op:' + k)
        if reg is None:
            ctx.failure('%s on registers panicked or failed: %s' % (k, dump(r)),
                        {'op': k, 'operands': [markers.describe(sess, x) for x in ops], 'result': dump(r)})
            continue
        regs.append(reg)
        steps.append((k, ops, reg))
    return regs, steps


def correspond(ctx, sess, steps, opname=None, vm=0):
    """step-wise: the model operation on the operands the crate produced vs the crate's result"""
    cmds, meta = [], []
    for k, ops, reg in steps:
        try:
            ms = [sess.model(o) for o in ops]
            want = sess.model(reg)
        except (trees.NotPartition, trees.Unmodelled) as e:
            ctx.count('unconvertible:' + type(e).__name__)
            continue
        cmds.append([k] + ms)
        meta.append((k, ops, reg, want))
    outs = fw.batch_parallel(build.DRIVER, cmds)
    for (k, ops, reg, want), got in zip(meta, outs):
        ctx.corr_cases += 1
        if got != want:
            ctx.disagreement('%s ~ m_%s' % (k, k), {'op': k, 'operands': [markers.describe(sess, o) for o in ops]},
                             dump(got), dump(want))
    if vm:
        # the extracted OCaml against evaluation inside Coq on a sample of the same cases
        idx = [i for i in range(len(cmds)) if isinstance(outs[i], (list, str)) and outs[i] != ['died'] and len(dump(cmds[i])) < 6000]
        pick = ctx.rng.sample(idx, min(vm, len(idx)))
        cases = []
        for i in pick:
            try:
                cases.append((vmcheck.tree_op_case(cmds[i][0], cmds[i][1:], outs[i]), dump(cmds[i])[:300]))
            except (ValueError, AssertionError):
                pass
        vmcheck.crosscheck(ctx, cases, 'ops%d' % ctx.evaluations)
    return meta


def monitor(ctx, sess, regs):
    """the verified checker wfb on every diagram the crate produced (operands of the theorems are [ok])"""
    for what, how in sess.anomalies[:5]:
        if ctx.pid in ('C01', 'C02', 'C11', 'C13', 'C14', 'C17'):
            ctx.failure(what, how)      # properties that speak about what evaluation returns / reports
        else:
            ctx.disagreement('evaluate() as a function of the marker, the environment and the SET of extras (assumed by the model of evaluation)', how, 'one answer', what)
    del sess.anomalies[:]
    if not getattr(sess, 'parses_checked', False):
        # once per session: the fixed boundary texts are read, and every text the session read goes through the extracted parser as well
        # (what a text denotes never rests on the crate alone, whichever property the session serves)
        sess.parses_checked = True
        seen = set(st[1] for st in sess.steps if st[0] == 'parse')
        for t in markers.BOUNDARY_TEXTS:
            if t not in seen:
                sess.parse(t)
        keys_ = markers.Keys(sess.p)
        markers.check_parses(ctx, sess, keys_, 100)
        # ... and a sample of the session's markers is walked by hand (the extracted evaluation of the diagram, on environments at and next
        # to its cut values: final, pre-, post- and dev-release versions) and compared with evaluate()
        cands = [r for r in regs if not isinstance(sess.models.get(r), Exception) and sess.models.get(r) not in ('T', 'F', None)]
        cmds_, meta_ = [], []
        for r in (cands if len(cands) <= 40 else ctx.rng.sample(cands, 40)):
            for env, ex in markers.grid_envs(ctx.rng, keys_, [sess.models[r]], 3):
                try:
                    em = markers.env_model(keys_, env, sess.p)
                except trees.Unmodelled:
                    em = None
                if em is None:
                    continue
                got = sess.ask(['eval', str(r), markers.env_sexp(env), [S(x) for x in ex]])
                if got[0] != 'ok':
                    continue
                cmds_.append(['eval', sess.models[r], em[0], em[1], [S(x) for x in ex]])
                meta_.append((r, env, ex, got[1]))
        for (r, env, ex, got), o in zip(meta_, fw.batch_parallel(build.DRIVER, cmds_) if cmds_ else []):
            ctx.corr_cases += 1
            if o != got:
                # a broken tie between the model's evaluation (which this property's theorems speak about) and evaluate(): whether the property
                # itself fails is for the property's own oracle to show (C20 states the walk = evaluate outright)
                ctx.disagreement('m_eval (the walk over the diagram) ~ MarkerTree::evaluate', {'marker': markers.describe(sess, r), 'env': env, 'extras': ex}, dump(o), got)
    cmds, rs = [], []
    for r in regs:
        m = sess.models[r]
        if isinstance(m, Exception):
            ctx.count('monitor:not-a-partition')
            ctx.extra.setdefault('monitor_failures', []).append({'how': markers.describe(sess, r), 'why': str(m)})
            if isinstance(m, trees.NotPartition) and ctx.extra.get('monitor_np_reported', 0) < 3:
                # the theorems speak about diagrams in cut form; a marker the API produced whose edges are not a sorted contiguous cover is outside them
                ctx.extra['monitor_np_reported'] = ctx.extra.get('monitor_np_reported', 0) + 1
                ctx.disagreement('the kind() walk of a marker the API produced is a partition (precondition of every theorem about it)', markers.describe(sess, r), 'a sorted contiguous cover by simple ranges', str(m)[:300])
            continue
        cmds.append(['wfb', m])
        rs.append(r)
    outs = fw.batch_parallel(build.DRIVER, cmds)
    ctx.corr_cases += len(cmds)
    bad = []
    for r, o in zip(rs, outs):
        ctx.count('monitor:wfb=' + dump(o))
        if o != 'T':
            bad.append(r)
    return bad


PAD = ['zz-pad-1', 'aa-pad-2', 'mm-pad-3']      # extras no generated marker mentions


def eval_all(sess, reg, env, extras):
    r = sess.ask(['eval', str(reg), markers.env_sexp(env), [S(x) for x in extras]])
    if r[0] == 'ok' and len(r) > 10 and r[10] != 'T':
        sess.anomalies.append(('a repeated evaluation of the same marker reports other warnings than the first: %s / %s' % (dump(r[6])[:100], dump(r[7])[:100]),
                               {'marker': markers.describe(sess, reg), 'env': env, 'extras': extras}))
    if extras and r[0] == 'ok':
        # the active extras are a set: another order, with unrelated names mixed in, must not change any answer
        other = [PAD[0]] + list(reversed(extras)) + PAD[1:]
        r2 = sess.ask(['eval', str(reg), markers.env_sexp(env), [S(x) for x in other]])
        if r2[0] != 'ok' or r2[1:6] != r[1:6]:
            sess.anomalies.append(('the order of the active extras (and unrelated extra names) changes the evaluation: %s with %r, %s with %r'
                                   % (dump(r[1:6]), extras, dump(r2[1:6]) if r2[0] == 'ok' else dump(r2)[:80], other), {'marker': markers.describe(sess, reg), 'env': env, 'extras': extras, 'reordered': other}))
    return r


def run(ctx):
    ctx.proofs('Props/C02.v')
    build.extract_and_driver()
    h = build.harness()
    quick = ctx.tier == 'quick'
    rounds = 2 if quick else 12
    ctx.extra['rule'] = ('histories in one long-lived process: parse random markers (depth 0-3 over all key kinds, operators, '
                         'both operand orders, lists, wildcards, pre/post/dev literals), a boundary battery (all ordered pairs of the six comparisons of a version key and of a string key against the same and a neighbouring value, under and / or), then random and/or/negate over earlier '
                         'results; each step: extracted model op on the operands the crate produced vs the crate result; '
                         'oracle: evaluate() of result vs operands on environments at/next to every cut value; '
                         'non-trivial = distinct (op, operands) whose operands and result are not constants')
    for rd in range(rounds):
        sess = markers.Session(h)
        keys = markers.Keys(sess.p)
        from . import c20
        regs, steps = build_history(ctx, sess, 120 if quick else 300, 400 if quick else 1500, battery=True,
                                    pre=lambda rs: c20.extend_history(ctx, sess, rs, 40 if quick else 120))
        if rd == 0:
            # the active extras are a set: conjunctions / disjunctions over two and three extras under every order of the slice
            import itertools
            EX = [("extra == 'a' and extra == 'b'", lambda s: 'a' in s and 'b' in s), ("extra == 'a' and extra == 'b' and extra == 'c'", lambda s: {'a', 'b', 'c'} <= s),
                  ("extra != 'c' and extra == 'a'", lambda s: 'c' not in s and 'a' in s), ("extra == 'b' or (extra == 'c' and extra != 'a')", lambda s: 'b' in s or ('c' in s and 'a' not in s)),
                  ("(extra == 'a' or extra == 'c') and extra == 'b' and os_name == 'posix'", lambda s: ('a' in s or 'c' in s) and 'b' in s)]
            for text, f in EX:
                reg, _ = sess.parse(text)
                if reg is None:
                    continue
                for k in (1, 2, 3):
                    for perm in itertools.permutations(['a', 'b', 'c'], k):
                        r = sess.ask(['eval', str(reg), markers.env_sexp(markers.DEFAULT_ENV), [S(x) for x in perm]])
                        ctx.oracle_cases += 1
                        if r[0] != 'ok' or set(r[1:6]) != {'T' if f(set(perm)) else 'F'}:
                            ctx.failure('%s with the active extras %r evaluates to %s' % (text, list(perm), dump(r[1:6]) if r[0] == 'ok' else dump(r)[:80]), {'marker': text, 'extras': list(perm)})
        bad = monitor(ctx, sess, regs)
        ctx.extra['monitor_wfb_false'] = ctx.extra.get('monitor_wfb_false', 0) + len(bad)
        meta = correspond(ctx, sess, steps, vm=(25 if quick else 150) if rd == 0 else 0)
        # implementation-level oracle on the grid
        for k, ops, reg in steps:
            try:
                ms = [sess.model(o) for o in ops] + [sess.model(reg)]
            except Exception:
                ms = None
            if ms is None:
                # an operand or result whose kind() walk is not a partition (C20's business to report): and / or / negate must
                # still be pointwise; environments on the version grid instead of at the (unavailable) cut values
                envs = []
                for v in markers.VERSIONS:
                    if v.replace('.', '').isdigit():
                        rel = ([int(x) for x in v.split('.')] + [0, 0])[:3]
                        e = dict(markers.DEFAULT_ENV, python_full_version='.'.join(map(str, rel)), python_version='%d.%d' % (rel[0], rel[1]))
                        envs.append((e, [x for x in markers.EXTRAS if ctx.rng.random() < .3]))
                nontriv = False
            else:
                nontriv = all(m not in ('T', 'F') for m in ms)
                if nontriv:
                    ctx.nontrivial((k, dump(ms[0]), dump(ms[-2])))
                envs = markers.grid_envs(ctx.rng, keys, ms, 6 if quick else 10)
                # the same environments with a local version label on the interpreter versions ("for every environment"): the pointwise law is
                # model-free, so any PEP 440 version the environment type accepts may be used
                loc = []
                for e, x in envs[:3]:
                    if all(c.isdigit() or c == '.' for c in e['python_full_version'] + e['implementation_version']):
                        loc.append((dict(e, python_full_version=e['python_full_version'] + '+local', implementation_version=e['implementation_version'] + '+ubuntu1'), x))
                envs = list(envs) + loc
            ctx.evaluations += 1
            for env, ex in envs:
                vals = []
                for x in list(ops) + [reg]:
                    r = eval_all(sess, x, env, ex)
                    vals.append(r)
                if any(v[0] != 'ok' for v in vals):
                    if any(v[0] == 'panic' for v in vals):
                        ctx.failure('evaluate panicked', {'env': env, 'extras': ex, 'op': k,
                                                         'operands': [markers.describe(sess, o) for o in ops], 'out': [dump(v) for v in vals]})
                    continue
                ctx.oracle_cases += 1
                bs = [v[1] == 'T' for v in vals]
                want = (bs[0] and bs[1]) if k == 'and' else (bs[0] or bs[1]) if k == 'or' else (not bs[0])
                if bs[-1] != want:
                    ctx.failure('%s is not pointwise: operands evaluate to %s, result to %s' % (k, bs[:-1], bs[-1]),
                                {'op': k, 'operands': [markers.describe(sess, o) for o in ops], 'env': env, 'extras': ex})
            if len(ctx.samples) < 8 and nontriv and ctx.rng.random() < .02:
                ctx.sample({'op': k, 'operands': [markers.describe(sess, o) for o in ops], 'result': pretty(ms[-1])[:300]})
        # whatever was combined earlier: repeat a sample of the operations at the end of the history
        for k, ops, reg in ctx.rng.sample(steps, min(len(steps), 60)):
            reg2, r = sess.op(k, *ops)
            if reg2 is None:
                continue
            rel = sess.ask(['rel', str(reg), str(reg2)])
            ctx.oracle_cases += 1
            if rel[1] != 'T':
                ctx.failure('repeating %s later in the process gives a different marker' % k,
                            {'op': k, 'operands': [markers.describe(sess, o) for o in ops]})
        # identities and annihilators
        t, _ = sess.op('const', 'T')
        f, _ = sess.op('const', 'F')
        for a in ctx.rng.sample(regs, min(len(regs), 40)):
            for (k, x, y, want) in (('and', t, a, a), ('and', a, t, a), ('and', f, a, f), ('and', a, f, f),
                                    ('or', f, a, a), ('or', a, f, a), ('or', t, a, t), ('or', a, t, t)):
                reg2, r = sess.op(k, x, y)
                rel = sess.ask(['rel', str(reg2), str(want)])
                ctx.oracle_cases += 1
                if rel[1] != 'T':
                    ctx.failure('%s with a constant is not an identity/annihilator' % k, {'op': k, 'operand': markers.describe(sess, a)})
        sess.close()
    if not ctx.samples:
        ctx.sample('no non-trivial sample drawn')
    return fw.finish(ctx, 'make -C /verif/coq Props/C02.vo  (coqc, Print Assumptions under each theorem)')
