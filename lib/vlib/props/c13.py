"""C13 — environment-free evaluation is a sound over-approximation."""
from .. import build, framework as fw, markers, trees, semantics
from ..sexp import S, unS, dump, pretty
from . import c02, c11


def run(ctx):
    ctx.proofs('Props/C13.v')
    build.extract_and_driver()
    h = build.harness()
    quick = ctx.tier == 'quick'
    ctx.extra['rule'] = ('random and extras-rich markers x random extras sets x candidate version lists: evaluate_extras, '
                         'evaluate_optional_environment(None), evaluate_extras_and_python_version (marker and requirement) vs the extracted '
                         'm_eval_extras / m_eval_extras_pv on the dump; a "false" verdict is attacked by an exact region search for a satisfying '
                         'environment (replayed on evaluate()); a "true" verdict on independent variables must have a witness region; '
                         'non-trivial = distinct (diagram, extras) with a non-constant diagram')
    for rd in range(2 if quick else 8):
        sess = markers.Session(h)
        keys = markers.Keys(sess.p)
        pvk = keys.spelling['python_version'][1]
        regs = []
        for _ in range(200 if quick else 600):
            t = c11.extras_marker(ctx.rng, ctx.rng.randint(2, 6)) if ctx.rng.random() < .5 else markers.gen_marker(ctx.rng, 2, extras=.4)
            reg, r = sess.parse(t)
            if reg is not None:
                regs.append(reg)
        # comparisons of extra with a text that is not a valid name (kept, never matching), alone and combined: every run
        for t in ("extra != 'x y'", "extra == 'x y'", "os_name == 'posix' and extra != 'x y'", "extra == 'a' and extra != 'not valid!'", "extra == 'a' or extra == 'not valid!'",
                  "python_version >= '3.8' and 'é' != extra"):
            reg, r = sess.parse(t)
            if reg is not None:
                regs.append(reg)
        for _ in range(80 if quick else 300):
            k = ctx.rng.choice(['and', 'or', 'not'])
            reg, _ = sess.op(k, ctx.rng.choice(regs), ctx.rng.choice(regs)) if k != 'not' else sess.op('not', ctx.rng.choice(regs))
            if reg is not None:
                regs.append(reg)
        # markers that reach one extra node with both polarities from different edges (if-then-else / XNOR shapes): every run, on every subset
        # of the extras they mention
        xnor = []
        for t in ("(os_name == 'nt' and extra == 'a') or (os_name != 'nt' and extra != 'a')", "(python_version < '3.8' and extra != 'a') or (python_version >= '3.8' and extra == 'a')",
                  "(sys_platform == 'x' and (extra == 'a' or extra == 'b')) or (sys_platform != 'x' and extra != 'a' and extra != 'b')",
                  "('lin' in sys_platform and extra == 'a') or ('lin' not in sys_platform and extra != 'a')", "(extra == 'a' and extra != 'b') or (extra != 'a' and extra == 'b')"):
            reg, r = sess.parse(t)
            if reg is not None:
                xnor.append(reg)
        forced = [(a, E) for a in xnor for E in ([], ['a'], ['b'], ['a', 'b'])]
        cmds, meta = [], []
        for a, E_forced in forced + [(a, None) for a in regs]:
            try:
                ma = sess.model(a)
            except Exception:
                continue
            E = E_forced if E_forced is not None else [e for e in markers.EXTRAS if ctx.rng.random() < .35]
            En = [markers.pep_norm(e) for e in E]
            vs = [ctx.rng.choice(['3.7', '3.8', '3.8.1', '3.9', '3.10', '2.7']) for _ in range(ctx.rng.randint(0, 3))]
            r1 = sess.ask(['evalx', str(a), [S(e) for e in E]])
            r2 = sess.ask(['evalxpv', str(a), [S(e) for e in E], [S(v) for v in vs]])
            ctx.evaluations += 1
            how = {'marker': markers.describe(sess, a), 'extras': E, 'python_versions': vs}
            if r1[0] != 'ok' or r2[0] != 'ok':
                ctx.failure('evaluate_extras* failed: %s %s' % (dump(r1)[:100], dump(r2)[:100]), how)
                continue
            v = r1[1] == 'T'
            if r1[1] != r1[2]:
                ctx.failure('evaluate_extras and evaluate_optional_environment(None) disagree', how)
            if r2[1] != r2[2]:
                ctx.failure('MarkerTree and Requirement evaluate_extras_and_python_version disagree', how)
            if ma not in ('T', 'F'):
                ctx.nontrivial((dump(ma), tuple(sorted(En))))
            ctx.count('evaluate_extras=%s' % v)
            cmds.append(['evalx', ma, [S(e) for e in En]])
            meta.append(('evaluate_extras ~ m_eval_extras', how, r1[1]))
            mvs = []
            for x in vs:
                rr = sess.ask(['version', S(x)])
                mvs.append(trees.version_to_model(rr[1]))
            cmds.append(['evalxpv', pvk, mvs, [S(e) for e in En], ma])
            meta.append(('evaluate_extras_and_python_version ~ m_eval_extras_pv', how, r2[1]))
            # attack: search for a satisfying environment with exactly these extras
            fixed = {e: True for e in En}
            try:
                path = find_with_extras(ma, En)
            except semantics.Unsupported:
                path = 'unsupported'
            ctx.oracle_cases += 1
            if path == 'unsupported':
                ctx.count('search:unsupported')
            elif path is not None:
                eo = semantics.env_of_path(keys, path, markers.DEFAULT_ENV)
                if eo is not None:
                    env, ex = eo
                    env['python_version'] = markers.major_minor(env['python_full_version'])
                    got = c02.eval_all(sess, a, env, E)
                    if got[0] == 'ok' and got[1] == 'T':
                        for nm, val in (('evaluate_extras', r1[1]), ('evaluate_extras_and_python_version', r2[1])):
                            # the pv variant restricts python_full_version to the list only if python_version-keyed nodes exist (never)
                            if val != 'T' and (nm == 'evaluate_extras' or markers.major_minor(env['python_full_version']) and True):
                                if nm == 'evaluate_extras' or env['python_full_version'] in vs:
                                    ctx.failure('%s returned false but an environment satisfies the marker with these extras' % nm, dict(how, env=env))
            else:
                # no region satisfies the marker: on independent variables the verdict must be false
                if v and independent(ma):
                    if find_with_extras(ma, En, dense=True) is not None:
                        ctx.failure('evaluate_extras returned true, but the only satisfying regions have no inhabitant (string order minimum / successor pair)',
                                    how, cls='vacuous-gap')
                    else:
                        ctx.failure('evaluate_extras returned true but no assignment of the (independent) variables satisfies the marker', how)
            if len(ctx.samples) < 6 and ma not in ('T', 'F') and ctx.rng.random() < .03:
                ctx.sample(dict(how, evaluate_extras=v))
        outs = fw.batch_parallel(build.DRIVER, cmds)
        for (fn, how, want), got in zip(meta, outs):
            ctx.corr_cases += 1
            if got != want:
                ctx.disagreement(fn, how, dump(got), want)
        c02.monitor(ctx, sess, regs)
        sess.close()
    unnamed_entry_points(ctx)
    if not ctx.samples:
        ctx.sample('(none)')
    return fw.finish(ctx, 'make -C /verif/coq Props/C13.vo  (coqc, Print Assumptions under each theorem)')


def unnamed_entry_points(ctx):
    """with the extension feature: UnnamedRequirement's evaluate_markers / evaluate_optional_environment (with and without an
    environment) are the marker's own, on several extras sets (the harness compares them inside the `unnamed` operation)"""
    hh = build.harness(ext=True)
    sess = markers.Session(hh)
    for base in ('https://example.org/p-1.0-py3-none-any.whl', './p', '/abs/p.whl[dev]', 'file:///a/b[a,x]'):
        for m in ("extra == 'dev'", "extra != 'dev'", "extra == 'x' and os_name == 'posix'", "extra == 'a' or extra == 'b'", "python_version >= '3.8' and extra != 'x'", "os_name == 'nt'"):
            text = '%s ; %s' % (base, m)
            r = sess.ask(['unnamed', S('/work'), S(text)])
            ctx.oracle_cases += 1
            if r[0] == 'ok' and len(r) > 9 and r[9]:
                ctx.failure('UnnamedRequirement(%r): the requirement-level evaluators disagree with the marker: %s' % (text, '; '.join(unS(x) for x in r[9])[:300]),
                            {'entry': 'UnnamedRequirement::evaluate_optional_environment', 'input': text})
    sess.close()


def independent(m):
    """no in/contains predicates (they are not independent of the string variables)"""
    return not any(b[0] in ('in', 'co') for b in trees.bool_vars([m]))


def find_with_extras(m, extras, path=(), dense=False):
    """a satisfying path in which extra variables take exactly the values given by the extras set"""
    if m == 'T':
        return list(path)
    if m == 'F':
        return None
    for asg, (sub,) in semantics.split([m], dense=dense):
        k, a = asg
        if k[0] == 'ex':
            want = (k[1] == '0') and (unS(k[2]) in extras)
            if a != want:
                continue
        r = find_with_extras(sub, extras, path + (asg,), dense)
        if r is not None:
            return r
    return None
