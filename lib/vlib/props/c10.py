"""C10 — python_version comparisons behave as PEP 440 on the major.minor version."""
import itertools

from .. import build, framework as fw, markers, trees, pep440
from ..sexp import S, unS, dump, pretty
from . import c02

OPS = ['==', '!=', '<', '<=', '>', '>=', '~=']


def literals(ctx, quick):
    base = ['3', '4', '2', '0', '3.0', '3.7', '3.8', '3.9', '3.10', '2.7', '4.0', '3.8.0', '3.8.1', '3.8.2', '3.7.0', '3.10.0',
            '3.0.0', '3.0.1', '3.8.0.0', '3.8.0.1', '3.8.1.0', '3.9.10', '3.11.0', '0.0', '0.1']
    deco = ['3.8a1', '3.8.post1', '3.8.dev1', '1!3.8', '3.8.1rc1', '3.8+local', '3.9.0b2', '3.8.0.post2']
    if quick:
        return base[:20] + deco[:4]
    extra = ['%d.%d.%d' % t for t in itertools.product([3], [7, 8, 9, 10], [0, 1, 2])] + ['%d.%d' % t for t in itertools.product([2, 3, 4], [0, 6, 7, 8, 9, 10, 11])]
    return list(dict.fromkeys(base + deco + extra))


def grid(quick):
    xs = [2, 3, 4] if not quick else [3, 4]
    ys = [0, 6, 7, 8, 9, 10, 11] if not quick else [0, 7, 8, 9, 10]
    zs = [0, 1, 2, 10] if not quick else [0, 1, 2]
    return [(x, y, z) for x in xs for y in ys for z in zs]


def typed_to_model(e):
    """harness dump of a MarkerExpression -> the model's mexpr"""
    tag = e[0]
    if tag == 'ver':
        op, v = e[2]
        return ['ver', e[1], op, [str(int(x)) for x in v[2]]]
    if tag == 'verin':
        vs = []
        for v in e[2]:
            if v[7] != '0':
                raise trees.Unmodelled('local segment')
            vs.append(['v', v[1], [str(int(x)) for x in v[2]], [str(x) for x in trees.suffix_key(v[3], v[4], v[5], v[6])]])
        return ['verin', e[1], vs, e[3]]
    if tag == 'str':
        op = e[2]
        if op in ('in', 'notin'):
            return ['in', e[1], e[3], 'T' if op == 'notin' else 'F']
        if op in ('contains', 'notcontains'):
            return ['contains', e[1], e[3], 'T' if op == 'notcontains' else 'F']
        if op == 'tilde':
            raise trees.Unmodelled('string ~=')
        return ['str', e[1], op, e[3]]
    if tag == 'extra':
        return ['extra', 'T' if e[1] == 'ne' else 'F', 'T' if e[2][0] == 'arb' else 'F', e[2][1]]
    raise ValueError(dump(e))


def expr_correspondence(ctx, sess, keys, texts):
    """expression texts -> typed expression (crate) -> diagram (crate) vs the model's [expression] on the same typed expression"""
    pv, pfv = keys.spelling['python_version'][1], keys.spelling['python_full_version'][1]
    cmds, meta = [], []
    for t in texts:
        r = sess.ask(['expr', S(t)])
        ctx.count('expr:' + (r[0] if r[0] != 'ok' else ('none' if r[1] == 'none' else 'ok')))
        if r[0] == 'panic':
            ctx.failure('MarkerExpression::from_str / MarkerTree::expression panicked on %r' % t, {'text': t, 'out': dump(r)[:300]})
            continue
        if r[0] != 'ok' or r[1] == 'none':
            continue
        try:
            me = typed_to_model(r[1])
            want = trees.to_model(r[3])
        except (trees.Unmodelled, trees.NotPartition) as e:
            ctx.count('expr:unmodelled')
            continue
        cmds.append(['expr', pv, pfv, me])
        meta.append((t, r[1], want))
    outs = fw.batch_parallel(build.DRIVER, cmds)
    for (t, typed, want), got in zip(meta, outs):
        ctx.corr_cases += 1
        if got != want:
            ctx.disagreement('MarkerTree::expression ~ expression', {'text': t, 'typed': pretty(typed)}, pretty(got)[:600], pretty(want)[:600])


def run(ctx):
    ctx.proofs('Props/C10.v')
    build.extract_and_driver()
    h = build.harness()
    quick = ctx.tier == 'quick'
    sess = markers.Session(h)
    keys = markers.Keys(sess.p)
    lits = literals(ctx, quick)
    lits = lits + [v for v in ('3.8', '3.7', '3.10', '3.8.1') if v not in lits]
    g = grid(quick)
    ctx.extra['rule'] = ('python_version OP literal for 7 operators x %d literals (1-4 release segments, trailing zeros, pre/post/dev/epoch/local '
                         'decorations) x both operand orders, == / != wildcards, in / not in lists; each evaluated on the X.Y.Z grid (%d points) against a '
                         'direct PEP 440 reading on X.Y; expression() vs the extracted model on the typed expression; == against the python_full_version '
                         'marker with the same meaning; non-trivial = distinct (operator, literal shape) whose diagram is not constant' % (len(lits), len(g)))
    base = dict(markers.DEFAULT_ENV)
    envs = []
    for (x, y, z) in g:
        e = dict(base)
        e['python_full_version'] = '%d.%d.%d' % (x, y, z)
        e['python_version'] = '%d.%d' % (x, y)
        envs.append(((x, y, z), e))
    cases = []   # (text, predicate on (x,y), carved_out)
    for lit in lits:
        rel = pep440.release_of(lit)
        for op in OPS:
            if op == '~=' and len(rel) < 2:
                continue
            plain = all(c.isdigit() or c == '.' for c in lit)
            cases.append(("python_version %s '%s'" % (op, lit), (lambda xy, op=op, lit=lit: pep440.holds(xy, op, lit)), False, (op, len(rel), plain)))
            cases.append(("'%s' %s python_version" % (lit, pep440.INVERT[op]), (lambda xy, op=op, lit=lit: pep440.holds(xy, op, lit)), False, (op, len(rel), plain, 'rev')))
            if lit in ('3.8', '3.7', '3.10', '3.8.1'):
                # no blank on either side of the operator, and blanks of every kind
                cases.append(("python_version%s'%s'" % (op, lit), (lambda xy, op=op, lit=lit: pep440.holds(xy, op, lit)), False, (op, len(rel), plain, 'tight')))
                cases.append(("'%s'%spython_version" % (lit, pep440.INVERT[op]), (lambda xy, op=op, lit=lit: pep440.holds(xy, op, lit)), False, (op, len(rel), plain, 'tight-rev')))
                cases.append(("(python_version\t%s\n'%s')" % (op, lit), (lambda xy, op=op, lit=lit: pep440.holds(xy, op, lit)), False, (op, len(rel), plain, 'blanks')))
        if all(c.isdigit() or c == '.' for c in lit):
            for op in ('==', '!='):
                cases.append(("python_version %s '%s.*'" % (op, lit), (lambda xy, op=op, lit=lit: pep440.holds(xy, op, lit + '.*')), len(rel) > 2, (op + '*', len(rel))))
    for _ in range(40 if quick else 200):
        k = ctx.rng.randint(1, 3)
        ls = [ctx.rng.choice(lits) for _ in range(k)]
        carved = any(len(pep440.release_of(x)) > 2 for x in ls)
        for neg in (False, True):
            cases.append(("python_version %s '%s'" % ('not in' if neg else 'in', ctx.rng.choice([' ', ' ', '  ', '\t', '\n', ' \t']).join(ls)),
                          (lambda xy, ls=ls, neg=neg: pep440.holds_in(xy, ls, neg)), carved, ('in', neg, k)))
    for blank in ('', ' ', '\t', '  '):
        for neg in (False, True):
            cases.append(("python_version %s '%s'" % ('not in' if neg else 'in', blank), (lambda xy, neg=neg: pep440.holds_in(xy, [], neg)), False, ('in-empty', neg)))
    expr_correspondence(ctx, sess, keys, [c[0] for c in cases])
    regs = {}
    for text, pred, carved, shape in cases:
        reg, r = sess.parse(text)
        ctx.evaluations += 1
        if reg is None:
            if r[0] == 'panic':
                ctx.failure('parsing %r panicked' % text, {'text': text})
            else:
                ctx.count('parse-rejected')
                ctx.failure('the well-formed comparison %r is rejected: %s' % (text, dump(r)[:160]), {'text': text})
            continue
        regs[text] = reg
        try:
            if sess.model(reg) not in ('T', 'F'):
                ctx.nontrivial(shape)
        except Exception:
            pass
        if carved:
            ctx.count('carved-out')
            continue
        if 'pep440' in r[3]:
            # not a PEP 440-valid operator / literal combination (e.g. an ordering operator with a local version): reported and
            # dropped (C17); the property quantifies over valid combinations only
            ctx.count('invalid-combination')
            continue
        bad = None
        for (x, y, z), env in envs:
            want = pred([x, y])
            if want is None:
                break
            got = c02.eval_all(sess, reg, env, [])
            ctx.oracle_cases += 1
            if got[0] != 'ok':
                bad = ('evaluate failed', env, got)
                break
            if (got[1] == 'T') != want:
                bad = ('evaluates to %s on python_full_version %d.%d.%d, PEP 440 on %d.%d says %s' % (got[1], x, y, z, x, y, want), env, got)
                break
        if bad:
            ctx.failure('%s: %s' % (text, bad[0]), {'marker': text, 'env': bad[1]})
        if len(ctx.samples) < 8 and ctx.rng.random() < .01:
            ctx.sample({'marker': text, 'diagram': pretty(sess.models[reg])[:300]})
    # negation clauses, claimed for every literal (carved-out ones included)
    for text, pred, carved, shape in cases:
        if text not in regs:
            continue
        neg_text = None
        if ' not in ' in text:
            neg_text = text.replace(' not in ', ' in ')
        elif " != '" in text and text.startswith('python_version'):
            neg_text = text.replace(' != ', ' == ')
        if neg_text and neg_text in regs:
            n, _ = sess.op('not', regs[neg_text])
            rel = sess.ask(['rel', str(regs[text]), str(n)])
            ctx.oracle_cases += 1
            if rel[1] != 'T':
                ctx.failure('%s is not the negation of %s' % (text, neg_text), {'marker': text, 'other': neg_text})
    # the same marker as the python_full_version expression with that meaning
    for x, y in [(3, 8), (3, 0), (3, 10), (2, 7)]:
        pairs = [("python_version == '%d.%d'" % (x, y), "python_full_version == '%d.%d.*'" % (x, y)),
                 ("python_version != '%d.%d'" % (x, y), "python_full_version != '%d.%d.*'" % (x, y)),
                 ("python_version > '%d.%d'" % (x, y), "python_full_version >= '%d.%d'" % (x, y + 1)),
                 ("python_version >= '%d.%d'" % (x, y), "python_full_version >= '%d.%d'" % (x, y)),
                 ("python_version < '%d.%d'" % (x, y), "python_full_version < '%d.%d'" % (x, y)),
                 ("python_version <= '%d.%d'" % (x, y), "python_full_version < '%d.%d'" % (x, y + 1)),
                 ("python_version ~= '%d.%d'" % (x, y), "python_full_version >= '%d.%d' and python_full_version < '%d'" % (x, y, x + 1)),
                 ("python_version ~= '%d.%d.0'" % (x, y), "python_full_version == '%d.%d.*'" % (x, y)),
                 ("python_version in '%d.%d %d.%d'" % (x, y, x, y + 1), "python_full_version >= '%d.%d' and python_full_version < '%d.%d'" % (x, y, x, y + 2)),
                 ("python_version < '%d.%d' or python_full_version >= '%d.%d'" % (x, y, x, y), None),
                 ("python_version >= '%d.%d' and python_full_version < '%d.%d'" % (x, y, x, y), False)]
        for a, b in pairs:
            ra, _ = sess.parse(a)
            if b is None:
                rb, _ = sess.op('const', 'T')
            elif b is False:
                rb, _ = sess.op('const', 'F')
            else:
                rb, _ = sess.parse(b)
            if ra is None or rb is None:
                ctx.failure('parse failed for %r / %r' % (a, b), {'a': a, 'b': b})
                continue
            rel = sess.ask(['rel', str(ra), str(rb)])
            ctx.oracle_cases += 1
            if rel[1] != 'T':
                ctx.failure('%r is not the same marker as %r' % (a, b if b else ('TRUE' if b is None else 'FALSE')), {'a': a, 'b': b})
    c02.monitor(ctx, sess, list(sess.models.keys()))
    sess.close()
    if not ctx.samples:
        ctx.sample('(none)')
    return fw.finish(ctx, 'make -C /verif/coq Props/C10.vo  (coqc, Print Assumptions under each theorem)')
