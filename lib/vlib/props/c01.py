"""C01 — marker evaluation equals the PEP 508 meaning of the source text."""
from .. import build, framework as fw, markers, trees, pep440, textmodel
from ..sexp import S, unS, dump, pretty
from . import c02

VKEYS = ['python_version', 'python_full_version', 'implementation_version']
SKEYS = markers.STRING_KEYS
DEPR = {'os_name': 'os.name', 'sys_platform': 'sys.platform', 'platform_version': 'platform.version', 'platform_machine': 'platform.machine',
        'platform_python_implementation': ['platform.python_implementation', 'python_implementation']}
VLITS = ['3', '3.8', '3.8.0', '3.8.1', '3.9', '3.10', '3.0', '4', '2.7', '3.7.2', '3.8.0.0', '3.8.2', '0', '3.0.1', '3.10.0.2', '2.0.7']
VDECO = ['3.8a1', '3.8.post1', '3.8.dev1', '1!3.8', '3.9.0rc1']
SVALS = ['a', 'b', 'ab', '', 'linux', 'posix', 'nt', 'é', "it's", 'say "hi"', 'x86_64', 'Linux', 'a b']
OPMAP = {'==': 'eq', '!=': 'ne', '<': 'lt', '<=': 'le', '>': 'gt', '>=': 'ge', '~=': 'tilde'}
INV = pep440.INVERT


def gen_leaf(rng):
    r = rng.random()
    if r < .45:
        key = rng.choice(VKEYS)
        if rng.random() < .15:
            k = rng.randint(1, 3)
            # members with pre / post / dev / epoch decorations as well: lists match on the release segments only
            pool = VLITS + (VDECO if rng.random() < .35 else [])
            lits = [rng.choice([v for v in pool if key != 'python_version' or len(pep440.release_of(v)) <= 2]) for _ in range(k)]
            return ('verin', key, lits, rng.random() < .5)
        if rng.random() < .12:
            lit = rng.choice([v for v in VLITS if v.count('.') <= (1 if key == 'python_version' else 3)])
            return ('ver', key, rng.choice(['==', '!=']), lit + '.*')
        op = rng.choice(list(OPMAP))
        lit = rng.choice(VLITS + (VDECO if rng.random() < .2 else []))
        if op == '~=' and '.' not in lit.split('!')[-1]:
            lit += '.0'
        return ('ver', key, op, lit)
    if r < .8:
        key = rng.choice(SKEYS)
        val = rng.choice(SVALS)
        rr = rng.random()
        if rr < .15:
            return ('in', key, val, rng.random() < .5)
        if rr < .3:
            return ('contains', key, val, rng.random() < .5)
        return ('str', key, rng.choice(['==', '!=', '<', '<=', '>', '>=']), val)
    return ('extra', rng.random() < .3, rng.choice(markers.EXTRAS + ['a b', 'é']))


def flip_leaf(a):
    """the complementary comparison on the same variable, where one exists"""
    k = a[0]
    if k == 'extra':
        return ('extra', not a[1], a[2])
    if k in ('in', 'contains', 'verin'):
        return a[:3] + (not a[3],)
    if k == 'str' and a[2] in ('==', '!='):
        return ('str', a[1], '!=' if a[2] == '==' else '==', a[3])
    return a


def gen_ast(rng, depth, pool=None):
    """a random syntax tree; a quarter of the non-trivial ones draw their leaves from a small pool of comparisons and their
    complements, so that the same variable meets itself in both polarities below and / or (if-then-else shapes)"""
    if pool is None and depth >= 2 and rng.random() < .25:
        pool = []
        while len(pool) < rng.randint(2, 3):
            l = gen_leaf(rng)
            if l[0] in ('extra', 'in', 'contains') or rng.random() < .3:
                pool.append(l)
    if depth == 0 or rng.random() < .3:
        if pool:
            l = rng.choice(pool)
            return flip_leaf(l) if rng.random() < .4 else l
        return gen_leaf(rng)
    return (rng.choice(['and', 'or']), gen_ast(rng, depth - 1, pool), gen_ast(rng, depth - 1, pool))


def quote(rng, s):
    if "'" in s and '"' in s:
        return None
    if "'" in s:
        return '"%s"' % s
    if '"' in s:
        return "'%s'" % s
    return ("'%s'" if rng.random() < .5 else '"%s"') % s


def sp(rng):
    return rng.choice(['', ' ', ' ', '  ', '\t'])


ALLOW_DEPRECATED = [True]
# layout choices forced by the operator x key grid: reverse = literal first with the inverted operator; dep = index of the deprecated spelling
FORCE = {'reverse': None, 'dep': None}


def fwd(rng):
    if FORCE['reverse'] is not None:
        return not FORCE['reverse']
    return rng.random() < .7


def spelling(rng, key):
    d = DEPR.get(key)
    if FORCE['dep'] is not None:
        if FORCE['dep'] is False or not d:
            return key
        return (d if isinstance(d, list) else [d])[FORCE['dep'] % len(d if isinstance(d, list) else [d])]
    if d and ALLOW_DEPRECATED[0] and rng.random() < .25:
        return rng.choice(d) if isinstance(d, list) else d
    return key


def render(rng, a, top=True):
    """one concrete text for the syntax tree; None if a value cannot be quoted"""
    k = a[0]
    if k in ('and', 'or'):
        l, r = render(rng, a[1], False), render(rng, a[2], False)
        if l is None or r is None:
            return None
        def wrap(x, sub):
            need = sub[0] in ('and', 'or') and (sub[0] != k or rng.random() < .3) and (k == 'and' or sub[0] == 'or' or rng.random() < .5)
            if sub[0] in ('and', 'or') and sub[0] != k and k == 'and':
                need = True
            return '(%s%s%s)' % (sp(rng), x, sp(rng)) if need or rng.random() < .1 else x
        # right operand of a left-assoc chain needs parentheses to keep the tree shape when it is the same operator
        rr = wrap(r, a[2])
        if a[2][0] == k:
            rr = '(%s)' % r
        return '%s%s%s %s%s' % (wrap(l, a[1]), rng.choice([' ', '  ', '\t']), k, rng.choice(['', ' ']) if rr.startswith(('(', "'", '"')) else ' ', rr)
    if k == 'ver':
        _, key, op, lit = a
        q = quote(rng, lit)
        if lit.endswith('.*') or fwd(rng):
            return '%s%s%s%s%s' % (key, sp(rng), op, sp(rng), q)
        return '%s%s%s%s%s' % (q, sp(rng), INV[op], sp(rng), key)
    if k == 'verin':
        _, key, lits, neg = a
        return '%s %s %s' % (key, 'not  in' if neg and rng.random() < .3 else ('not in' if neg else 'in'), quote(rng, rng.choice([' ', ' ', '  ', '\t', ' \t ', '\n']).join(lits)))
    if k == 'str':
        _, key, op, val = a
        q = quote(rng, val)
        if q is None:
            return None
        if fwd(rng):
            return '%s%s%s%s%s' % (spelling(rng, key), sp(rng), op, sp(rng), q)
        return '%s%s%s%s%s' % (q, sp(rng), INV[op], sp(rng), spelling(rng, key))
    if k == 'in':
        _, key, val, neg = a
        q = quote(rng, val)
        return None if q is None else '%s %s %s' % (spelling(rng, key), 'not in' if neg else 'in', q)
    if k == 'contains':
        _, key, val, neg = a
        q = quote(rng, val)
        return None if q is None else '%s %s %s' % (q, 'not in' if neg else 'in', spelling(rng, key))
    if k == 'extra':
        _, neg, name = a
        q = quote(rng, name)
        if fwd(rng):
            return 'extra%s%s%s%s' % (sp(rng), '!=' if neg else '==', sp(rng), q)
        return '%s%s%s%sextra' % (q, sp(rng), '!=' if neg else '==', sp(rng))


MODERN = {}
for _k, _d in DEPR.items():
    for _x in (_d if isinstance(_d, list) else [_d]):
        MODERN[_x] = _k


def py_sem(a, env, extras, norm):
    """the text read directly (independent of the crate and of the Coq model)"""
    k = a[0]
    if k in ('str', 'in', 'contains') and a[1] in MODERN:
        a = (k, MODERN[a[1]]) + tuple(a[2:])
    if k == 'and':
        return py_sem(a[1], env, extras, norm) and py_sem(a[2], env, extras, norm)
    if k == 'or':
        return py_sem(a[1], env, extras, norm) or py_sem(a[2], env, extras, norm)
    if k == 'ver':
        _, key, op, lit = a
        lhs = pep440.release_of(env[key])
        return pep440.holds(lhs, op, lit)
    if k == 'verin':
        _, key, lits, neg = a
        return pep440.holds_in(pep440.release_of(env[key]), lits, neg)
    if k == 'str':
        _, key, op, val = a
        v = env[key]
        kv, ks = [ord(c) for c in v], [ord(c) for c in val]
        return {'==': kv == ks, '!=': kv != ks, '<': kv < ks, '<=': kv <= ks, '>': kv > ks, '>=': kv >= ks}[op]
    if k == 'in':
        _, key, val, neg = a
        return (env[key] in val) != neg
    if k == 'contains':
        _, key, val, neg = a
        return (val in env[key]) != neg
    if k == 'extra':
        _, neg, name = a
        n = norm(name)
        return (n is not None and n in extras) != neg


def carved(a):
    k = a[0]
    if k in ('and', 'or'):
        return carved(a[1]) or carved(a[2])
    if k == 'ver' and a[1] == 'python_version' and a[3].endswith('.*') and len(pep440.release_of(a[3][:-2])) > 2:
        return True
    if k == 'verin' and a[1] == 'python_version' and any(len(pep440.release_of(x)) > 2 for x in a[2]):
        return True
    return False


def model_ast(a, keys, norm):
    k = a[0]
    if k in ('and', 'or'):
        return [k, model_ast(a[1], keys, norm), model_ast(a[2], keys, norm)]
    if k == 'ver':
        _, key, op, lit = a
        star = lit.endswith('.*')
        rel = pep440.release_of(lit[:-2] if star else lit)
        o = OPMAP[op] + ('star' if star else '')
        return ['e', ['ver', keys.spelling[key][1], o, [str(x) for x in rel]]]
    if k == 'verin':
        _, key, lits, neg = a
        return ['e', ['verin', keys.spelling[key][1], [['v', '0', [str(x) for x in pep440.release_of(l)], ['5', '0', '0', '0']] for l in lits], 'T' if neg else 'F']]
    if k == 'str':
        _, key, op, val = a
        return ['e', ['str', keys.spelling[key][1], OPMAP[op], S(val)]]
    if k == 'in':
        return ['e', ['in', keys.spelling[a[1]][1], S(a[2]), 'T' if a[3] else 'F']]
    if k == 'contains':
        return ['e', ['contains', keys.spelling[a[1]][1], S(a[2]), 'T' if a[3] else 'F']]
    if k == 'extra':
        n = norm(a[2])
        return ['e', ['extra', 'T' if a[1] else 'F', 'F' if n is not None else 'T', S(n if n is not None else a[2])]]


def run(ctx):
    ctx.proofs('Props/C01.v')
    ctx.table_proofs('C01Tables.v')
    build.extract_and_driver()
    h = build.harness()
    quick = ctx.tier == 'quick'
    sess = markers.Session(h)
    keys = markers.Keys(sess.p)
    markers.check_source_tables(ctx, keys)
    pv, pfv = keys.spelling['python_version'][1], keys.spelling['python_full_version'][1]
    drv = fw.Proc(build.DRIVER)
    names = {}

    def norm(n):
        return markers.pep_norm(n)        # an independent reading, not the crate's own normalisation
    ctx.extra['rule'] = ('syntax trees (depth 0-3) over all key kinds, 7 version operators + wildcards + in/not in lists, 6 string operators, substring in both operand '
                         'orders, extra ==/!= with valid/invalid names; each rendered in 3 layouts (quote style, operand order with inverted operator, white space incl. tabs, '
                         'redundant parentheses, deprecated spellings): all layouts must parse to the same marker; evaluate / evaluate_reporter / evaluate_collect_warnings / '
                         'evaluate_optional_environment(Some) / Requirement::evaluate_markers must agree with an independent Python reading of the tree on boundary environments, '
                         'with the extracted sem508 of the Coq spec, and with the extracted model diagram; non-trivial = distinct trees whose diagram is not constant')
    n_trees = 250 if quick else 2500
    # boundary battery: every ordered pair of comparisons of one key against ONE value (ranges that touch at a bound with every
    # combination of inclusive / exclusive ends), under and / or, and lists with decorated members: in every run
    battery = []
    for key, kind, val in (('python_full_version', 'ver', '3.8.1'), ('implementation_version', 'ver', '3.9'), ('os_name', 'str', 'posix')):
        for o1 in ('<', '<=', '>', '>=', '==', '!='):
            for o2 in ('<', '<=', '>', '>=', '==', '!='):
                battery.append((ctx.rng.choice(['and', 'or']), (kind, key, o1, val), (kind, key, o2, val)))
    for lit in ('3.0.1', '3.10.0.2', '2.0.7'):
        for o1 in ('<', '<=', '>', '>=', '==', '!=', '~='):
            battery.append(('ver', 'python_full_version', o1, lit))
        battery.append(('verin', 'python_full_version', [lit, '3.8'], False))
    for key in ('python_full_version', 'implementation_version'):
        for lits in (['3.9.0rc1', '3.10.2'], ['3.8.5', '3.9.0b2'], ['3.11.4.post1'], ['1!3.8', '3.8.dev1']):
            for neg in (False, True):
                battery.append(('verin', key, lits, neg))
    # if-then-else shapes over one boolean variable (an operand node meets itself with the other complement bit below and / or)
    for x, y, z in ((('extra', False, 'a'), ('extra', False, 'b'), ('extra', False, 'c')),
                    (('contains', 'sys_platform', 'nux', False), ('extra', False, 'b'), ('extra', False, 'c')),
                    (('in', 'os_name', 'posix nt', False), ('contains', 'sys_platform', 'x', False), ('in', 'sys_platform', 'linux darwin', False)),
                    (('extra', False, 'a'), ('str', 'os_name', '==', 'posix'), ('ver', 'python_full_version', '>=', '3.8'))):
        nx = flip_leaf(x)
        battery.append(('or', ('and', x, y), ('and', nx, z)))
        battery.append(('and', ('or', x, y), ('or', nx, z)))
        battery.append(('or', ('and', x, flip_leaf(y)), ('and', nx, y)))
        battery.append(('and', ('ver', 'python_version', '>=', '3.8'), ('or', ('and', x, y), ('and', nx, z))))
    # operator x key grid: every key of every kind (each deprecated spelling too) with every operator it takes, in both operand orders;
    # version keys against plain, post-release, pre-release and epoch literals
    forced = {}
    def grid(a, **f):
        forced[len(battery)] = f
        battery.append(a)
    for key in VKEYS:
        for op in OPMAP:
            for lit in ('3.8', '3.8.1', '3.8.post1', '1!3.8', '3.8a1'):
                for rev in (False, True):
                    grid(('ver', key, op, lit), reverse=rev, dep=False)
    for key in SKEYS:
        nd = len(DEPR[key]) if isinstance(DEPR.get(key), list) else (1 if key in DEPR else 0)
        # a deprecated spelling is a key of its own in the diagram (same environment field): it enters the tree under its own name
        for spelled in [key] + ((DEPR[key] if isinstance(DEPR[key], list) else [DEPR[key]]) if nd else []):
            for rev in (False, True):
                for op in ('==', '!=', '<', '<=', '>', '>='):
                    grid(('str', spelled, op, 'posix'), reverse=rev, dep=False)
            for neg in (False, True):
                grid(('in', spelled, 'posix nt', neg), reverse=False, dep=False)
                grid(('contains', spelled, 'os', neg), reverse=False, dep=False)
    for neg in (False, True):
        for rev in (False, True):
            grid(('extra', neg, 'A_b'), reverse=rev, dep=False)
    for bi in range(len(battery) + n_trees):
        a = battery[bi] if bi < len(battery) else gen_ast(ctx.rng, ctx.rng.choice([0, 1, 1, 2, 2, 3]))
        texts = []
        for i in range(3 if bi >= len(battery) else 1):
            ALLOW_DEPRECATED[0] = i > 0
            FORCE.update(forced.get(bi, {'reverse': None, 'dep': None}))
            t = render(ctx.rng, a)
            FORCE.update({'reverse': None, 'dep': None})
            if t is not None:
                texts.append(t)
        if not texts:
            continue
        regs = []
        for t in texts:
            r, out = sess.parse(t)
            if r is None:
                ctx.failure('a well-formed marker text was not accepted: %r -> %s' % (t, dump(out)[:200]), {'text': t})
            else:
                regs.append((t, r))
        if not regs:
            continue
        ctx.evaluations += 1
        t0, r0 = regs[0]
        import re
        dep_re = re.compile(r'os\.name|sys\.platform|platform\.version|platform\.machine|platform\.python_implementation|(?<![A-Za-z_.])python_implementation')
        deprecated = lambda t: dep_re.search(t) is not None
        for t, r in regs[1:]:
            ctx.oracle_cases += 1
            if not deprecated(t) and sess.ask(['rel', str(r0), str(r)])[1] != 'T':
                ctx.failure('two layouts of the same marker parse to different markers', {'a': t0, 'b': t})
        try:
            m0 = sess.model(r0)
        except Exception:
            continue
        if m0 not in ('T', 'F'):
            ctx.nontrivial(dump(m0))
        scope = not carved(a)
        ma = model_ast(a, keys, norm)
        for env, ex in markers.grid_envs(ctx.rng, keys, [m0], 5):
            # final releases, python_version = major.minor, three release segments for python_full_version
            pf = pep440.release_of(env['python_full_version'])
            if not all(c.isdigit() or c == '.' for c in env['python_full_version']) or not all(c.isdigit() or c == '.' for c in env['implementation_version']):
                continue
            pf = (pf + [0, 0])[:3]
            env['python_full_version'] = '.'.join(str(x) for x in pf)
            env['python_version'] = '%d.%d' % (pf[0], pf[1])
            ex = [e for e in ex]
            got = c02.eval_all(sess, r0, env, ex)
            ctx.oracle_cases += 1
            if got[0] != 'ok':
                ctx.failure('evaluate failed: %s' % dump(got)[:200], {'text': t0, 'env': env})
                continue
            vals = got[1:6] + [got[8]]
            ec = sess.ask(['envcheck', markers.env_sexp(env)])
            if ec[0] == 'ok' and ec[1]:
                ctx.failure('the environment does not hold the values it was built from: %s' % ', '.join(unS(x) for x in ec[1])[:300], {'env': env})
            for t, r in regs[1:]:
                g2 = c02.eval_all(sess, r, env, ex)
                if g2[0] == 'ok' and g2[1] != got[1]:
                    ctx.failure('two layouts of the same marker evaluate differently (%s / %s)' % (got[1], g2[1]), {'a': t0, 'b': t, 'env': env, 'extras': ex})
            if len(set(vals)) != 1:
                ctx.failure('the evaluation entry points disagree: %s' % vals, {'text': t0, 'env': env, 'extras': ex})
            if got[6] != got[7] or got[7] != got[9]:
                ctx.failure('evaluate_reporter and evaluate_collect_warnings report different warnings', {'text': t0, 'env': env})
            if not scope:
                ctx.count('carved-out')
                continue
            exn = [norm(e) for e in ex]
            want = py_sem(a, env, exn, norm)
            if want is None:
                continue
            if (vals[0] == 'T') != want:
                ctx.failure('%r evaluates to %s; read directly it is %s' % (t0, vals[0], want), {'text': t0, 'env': env, 'extras': ex})
            # the Coq spec and the model diagram on the same tree and environment
            rels = [[keys.spelling[k][1], [str(x) for x in pep440.release_of(env[k])]] for k in VKEYS]
            rels = [[k, r if k != pfv else [str(x) for x in pf]] for k, r in rels]
            ss = [[idx, S(env[field])] for idx, field in keys.str.items()]
            out = drv.ask(['sem508', pv, pfv, rels, ss, [S(e) for e in exn if e], ma])
            ctx.corr_cases += 1
            if out[0] not in ('T', 'F'):
                ctx.disagreement('sem508 (driver)', t0, dump(out)[:200], '')
                continue
            if (out[0] == 'T') != want:
                ctx.disagreement('sem508 (Coq spec) ~ independent reading', {'text': t0, 'env': env, 'extras': ex}, out[0], want)
            if out[1] != vals[0]:
                ctx.disagreement('m_eval (compile ast) ~ evaluate', {'text': t0, 'env': env, 'extras': ex}, out[1], vals[0])
            if out[2] != m0:
                ctx.disagreement('compile ast ~ MarkerTree::from_str (diagram)', {'text': t0}, pretty(out[2])[:500], pretty(m0)[:500])
        if len(ctx.samples) < 8 and ctx.rng.random() < .03:
            ctx.sample({'layouts': texts})
    drv.close()
    def parse_eval(text, env):
        reg, _ = sess.parse(text)
        if reg is None:
            return None
        g = c02.eval_all(sess, reg, env, [])
        return g[1] if g[0] == 'ok' else None
    markers.key_table_battery(ctx, parse_eval)
    c02.monitor(ctx, sess, list(sess.models.keys()))
    sess.close()
    if not ctx.samples:
        ctx.sample('(none)')
    return fw.finish(ctx, 'make -C /verif/coq Props/C01.vo  (coqc, Print Assumptions under each theorem)')
