"""Diagram dumps: checked conversion of what kind() shows into the model's cut form, walks, grids."""
from .sexp import S, unS, dump, is_S

U64MAX = 18446744073709551615


class NotPartition(Exception):
    """the edges of a version/string node are not a sorted contiguous cover by simple ranges"""


class Unmodelled(Exception):
    """a value outside the model (version with a local segment)"""


def strip(rel):
    rel = list(rel)
    while rel and int(rel[-1]) == 0:
        rel.pop()
    return rel


def suffix_key(pk, pn, post, dev):
    """pep440_rs sortable_tuple without the local segment: [stage, n, post+1|0, dev]"""
    pk, pn = int(pk), int(pn)
    post = None if post == 'N' else int(post)
    dev = None if dev == 'N' else int(dev)
    if pk == 0 and post is None and dev is not None:
        return [1, 0, 0, dev]
    if pk in (1, 2, 3):
        return [1 + pk, pn, 0 if post is None else post + 1, U64MAX if dev is None else dev]
    if pk == 0 and post is None and dev is None:
        return [5, 0, 0, 0]
    return [6, 0, post + 1, U64MAX if dev is None else dev]


def version_to_model(v):
    """('v' epoch (rel..) pk pn post dev local) -> ['v', epoch, [stripped rel], [suffix]]"""
    assert v[0] == 'v', v
    _, epoch, rel, pk, pn, post, dev, local = v
    if local != '0':
        raise Unmodelled('local version segment')
    return ['v', str(int(epoch)), [str(int(x)) for x in strip(rel)], [str(x) for x in suffix_key(pk, pn, post, dev)]]


def raw_is_normal(v):
    rel = v[2]
    return len(rel) <= 1 or int(rel[-1]) != 0


def value_to_model(x):
    if is_S(x):
        return x
    return version_to_model(x)


def _lower_cut(b):
    if b == 'U':
        return None
    return [value_to_model(b[1]), 'b' if b[0] == 'I' else 'a']


def _upper_cut(b):
    if b == 'U':
        return None
    return [value_to_model(b[1]), 'a' if b[0] == 'I' else 'b']


def val_key(v):
    """python ordering key of a model value"""
    if is_S(v):
        return (1, tuple(int(c) for c in v[1:]))
    return (0, int(v[1]), tuple(int(x) for x in v[2]), tuple(int(x) for x in v[3]))


def cut_key(c):
    return (val_key(c[0]), 0 if c[1] == 'b' else 1)


def to_model(t, raw_versions=None):
    """harness dump -> model tree (cut form). Raises NotPartition with the reason."""
    if t in ('T', 'F'):
        return t
    tag = t[0]
    if tag == 'BIG':
        raise Unmodelled('the unfolded diagram has more than 40 000 nodes')
    if tag in ('V', 'S'):
        k = [('ver' if tag == 'V' else 'str'), t[1]]
        edges = t[2]
        if len(edges) < 1:
            raise NotPartition('node with no edges')
        cuts = []
        kids = []
        prev_hi = None
        for i, (rngs, child) in enumerate(edges):
            if len(rngs) != 1:
                raise NotPartition('edge %d is not a simple range: %s' % (i, dump(rngs)))
            lo, hi = rngs[0]
            if raw_versions is not None and tag == 'V':
                for b in (lo, hi):
                    if b != 'U':
                        raw_versions.append(b[1])
            lc, hc = _lower_cut(lo), _upper_cut(hi)
            if i == 0:
                if lc is not None:
                    raise NotPartition('first edge does not start at -inf: %s' % dump(lo))
            else:
                if lc is None or prev_hi is None or lc != prev_hi:
                    raise NotPartition('edges %d and %d are not adjacent: %s / %s' % (i - 1, i, dump(edges[i - 1][0]), dump(rngs)))
                cuts.append(lc)
            kids.append(to_model(child, raw_versions))
            prev_hi = hc
        if prev_hi is not None:
            raise NotPartition('last edge does not end at +inf')
        for a, b in zip(cuts, cuts[1:]):
            if not cut_key(a) < cut_key(b):
                raise NotPartition('cuts not strictly increasing: %s %s' % (dump(a), dump(b)))
        return ['R', k, kids[0], [[c, d] for c, d in zip(cuts, kids[1:])]]
    if tag == 'In':
        return ['B', ['in', t[1], t[2]], to_model(t[3], raw_versions), to_model(t[4], raw_versions)]
    if tag == 'Co':
        return ['B', ['co', t[1], t[2]], to_model(t[3], raw_versions), to_model(t[4], raw_versions)]
    if tag == 'Ex':
        n = t[1]
        return ['B', ['ex', '0' if n[0] == 'x' else '1', n[1]], to_model(t[2], raw_versions), to_model(t[3], raw_versions)]
    raise ValueError('unknown tree node ' + dump(t))


def walk(m, f):
    """visit every node of a model tree"""
    if m in ('T', 'F'):
        return
    f(m)
    if m[0] == 'R':
        walk(m[2], f)
        for _, d in m[3]:
            walk(d, f)
    else:
        walk(m[2], f)
        walk(m[3], f)


def size(m):
    n = [0]
    walk(m, lambda _: n.__setitem__(0, n[0] + 1))
    return n[0]


def variables(m):
    out = []
    walk(m, lambda n: out.append(dump(n[1])) if dump(n[1]) not in out else None)
    return out


def cuts_by_var(ms):
    """{var-dump: sorted list of cut values (model values)} over several model trees"""
    out = {}

    def f(n):
        if n[0] == 'R':
            d = out.setdefault(dump(n[1]), [])
            for c, _ in n[3]:
                if c[0] not in d:
                    d.append(c[0])
    for m in ms:
        walk(m, f)
    return out


def bool_vars(ms):
    out = []

    def f(n):
        if n[0] == 'B' and n[1] not in out:
            out.append(n[1])
    for m in ms:
        walk(m, f)
    return out


# ---------- python-side evaluation of a model tree (used only in the failing-input search) ----------

def py_eval(m, rv, bv):
    """rv: var-dump -> model value ; bv: function(var sexp) -> bool"""
    while True:
        if m == 'T':
            return True
        if m == 'F':
            return False
        if m[0] == 'R':
            x = val_key(rv[dump(m[1])])
            cur = m[2]
            for c, d in m[3]:
                ck = cut_key(c)
                left = (x, 0) < ck  # x is left of cut c  <=>  (x, Below) < c
                if left:
                    break
                cur = d
            m = cur
        else:
            m = m[2] if bv(m[1]) else m[3]


# ---------- version text for the implementation side ----------

def version_text(v):
    """model version -> a PEP 440 text with that meaning"""
    _, epoch, rel, suf = v
    rel = [int(x) for x in rel] or [0]
    s = ('%d!' % int(epoch) if int(epoch) else '') + '.'.join(str(x) for x in rel)
    stage, n, post, dev = [int(x) for x in suf]
    if stage == 1:
        return s + '.dev%d' % dev
    if stage in (2, 3, 4):
        s += {2: 'a', 3: 'b', 4: 'rc'}[stage] + str(n)
        if post:
            s += '.post%d' % (post - 1)
        if dev != U64MAX:
            s += '.dev%d' % dev
        return s
    if stage == 5:
        return s
    s += '.post%d' % (post - 1)
    if dev != U64MAX:
        s += '.dev%d' % dev
    return s


FINAL = ['5', '0', '0', '0']


def mk_version(rel, suf=None, epoch=0):
    return ['v', str(epoch), [str(x) for x in strip(rel)], list(suf or FINAL)]


def around_version(v):
    """model versions just below, at, just above a model version (and a bit further)"""
    _, epoch, rel, suf = v
    rel_i = [int(x) for x in rel]
    out = [v]
    if suf == FINAL:
        out.append(['v', epoch, rel, ['1', '0', '0', '0']])          # X.dev0  (below X)
        out.append(['v', epoch, rel, ['4', '1', '0', str(U64MAX)]])  # Xrc1    (below X)
        out.append(['v', epoch, rel, ['6', '0', '1', str(U64MAX)]])  # X.post0 (above X)
        out.append(['v', epoch, [str(x) for x in rel_i + [0, 1]], FINAL])  # X.0.1
        out.append(['v', epoch, [str(x) for x in rel_i + [1]], FINAL])     # X.1
        if rel_i and rel_i[-1] > 0:
            out.append(['v', epoch, [str(x) for x in strip(rel_i[:-1] + [rel_i[-1] - 1])], FINAL])
            out.append(['v', epoch, [str(x) for x in rel_i[:-1] + [rel_i[-1] - 1, 99]], FINAL])
        if rel_i:
            out.append(['v', epoch, [str(x) for x in rel_i[:-1] + [rel_i[-1] + 1]], FINAL])
    else:
        out.append(['v', epoch, rel, FINAL])
        out.append(['v', epoch, rel, ['6', '0', '1', str(U64MAX)]])
        out.append(['v', epoch, rel, ['1', '0', '0', '0']])
    return out


def around_string(s):
    t = unS(s)
    out = [t, t + '\x00', t + 'a', t + '\U0010ffff']
    if t:
        out.append(t[:-1])
        c = ord(t[-1])
        if c > 0:
            out.append(t[:-1] + chr(c - 1) + '\U0010ffff')
            out.append(t[:-1] + chr(c - 1))
        out.append(t[:-1] + chr(min(c + 1, 0x10ffff)))
    else:
        out.append('\x00')
    return [S(x) for x in dict.fromkeys(out)]
