"""Cross-check of the extracted OCaml model against evaluation inside Coq (`vm_compute`): the same operations on the same
operands, written as Gallina terms into a scratch .v file and compiled with coqc.  This validates extraction + driver glue
(part of the trusted base), on a sample of the cases of a run."""
import os
import subprocess

from . import build
from .sexp import is_S, dump


def g_n(x):
    return '%s%%N' % int(x)


def g_list(xs):
    return '[' + '; '.join(xs) + ']'


def g_str(s):
    assert is_S(s), s
    return g_list([g_n(c) for c in s[1:]])


def g_value(v):
    if is_S(v):
        return '(inr %s)' % g_str(v)
    assert v[0] == 'v', v
    return '(inl (%s, (%s, %s)))' % (g_n(v[1]), g_list([g_n(x) for x in v[2]]), g_list([g_n(x) for x in v[3]]))


def g_var(v):
    k = v[0]
    if k == 'ver':
        return '(VVersion %s)' % g_n(v[1])
    if k == 'str':
        return '(VString %s)' % g_n(v[1])
    if k == 'in':
        return '(VIn %s %s)' % (g_n(v[1]), g_str(v[2]))
    if k == 'co':
        return '(VContains %s %s)' % (g_n(v[1]), g_str(v[2]))
    if k == 'ex':
        return '(VExtra %s %s)' % ('true' if v[1] != '0' else 'false', g_str(v[2]))
    raise ValueError('var ' + dump(v))


def g_cut(c):
    return '(%s, %s)' % (g_value(c[0]), 'Below' if c[1] == 'b' else 'Above')


def g_tree(t):
    if t == 'T':
        return '(Leaf true)'
    if t == 'F':
        return '(Leaf false)'
    if t[0] == 'R':
        return '(RNode %s %s %s)' % (g_var(t[1]), g_tree(t[2]), g_list(['(%s, %s)' % (g_cut(c), g_tree(d)) for c, d in t[3]]))
    if t[0] == 'B':
        return '(BNode %s %s %s)' % (g_var(t[1]), g_tree(t[2]), g_tree(t[3]))
    raise ValueError('tree ' + dump(t)[:80])


HEADER = '''From Coq Require Import List Bool NArith.
From PV Require Import Base.Order Base.CutDef DD.DDModel Marker.Concrete Marker.Expr Names.NameModel.
Import ListNotations.
Local Definition T (x : mdd) : mdd := x.
'''


def crosscheck(ctx, cases, label):
    """cases: list of (gallina boolean term that must compute to true, description).  Adds a disagreement per case that does not."""
    if not cases:
        return
    d = build.BUILD + '/vmcheck'
    os.makedirs(d, exist_ok=True)
    path = '%s/vm_%s_%s.v' % (d, ctx.pid, label)
    with open(path, 'w') as f:
        f.write(HEADER)
        for term, _ in cases:
            f.write('Eval vm_compute in (%s).\n' % term)
    p = subprocess.run(['timeout', '600', 'coqc', '-noglob', '-Q', build.COQ, 'PV', '-o', path + 'o', path], stdout=subprocess.PIPE, stderr=subprocess.STDOUT, text=True, cwd=d)
    outs = [l.strip() for l in p.stdout.split('\n') if l.strip().startswith('= ')]
    ctx.extra['vm_crosscheck_' + label] = {'cases': len(cases), 'evaluated': len(outs)}
    if p.returncode != 0 or len(outs) != len(cases):
        ctx.disagreement('extracted model ~ vm_compute (%s)' % label, 'coqc on %s' % path, 'every case evaluates', (p.stdout or '')[-600:])
        return
    for (term, what), o in zip(cases, outs):
        ctx.corr_cases += 1
        if o != '= true':
            ctx.disagreement('extracted model ~ vm_compute (%s)' % label, what, 'true', o)


def tree_op_case(op, operands, result):
    """the driver said [op operands = result]; the same equation inside Coq"""
    f = {'and': 'm_and', 'or': 'm_or', 'not': 'm_not'}[op]
    args = ' '.join('(T %s)' % g_tree(o) for o in operands)
    return 'm_eqb (%s %s) (T %s)' % (f, args, g_tree(result))
