"""Requirement-level text layer: the extracted model (with oracle tables) against the crate's entry points."""
import re

from . import build, framework as fw, markers, trees, textmodel
from .sexp import S, unS, dump, is_S, pretty


def req_err_kind(cls, msg):
    """small enum of the requirement-level error messages"""
    m = msg
    if cls == 'url':
        return 'url'
    if cls == 'unsupported':
        return 'unsupported-path' if '/path/to/file' in m else 'unsupported-url'
    table = [
        ('Empty field is not allowed for PEP508', 'empty'),
        ('Expected package name starting with an alphanumeric character', 'name-start'),
        ('Package name must end with an alphanumeric character', 'name-end'),
        ('Expected either alphanumerical character (starting the extra name)', 'extras-comma'),
        ('Expected either `,` (separating extras)', 'extras-sep'),
        ('Missing closing bracket', 'extras-eof'),
        ('Expected an alphanumeric character starting the extra name', 'extras-start'),
        ('Invalid character in extras name', 'extras-char'),
        ('Extra name must end with an alphanumeric character', 'extras-end'),
        ('Expected URL', 'expected-url'),
        ('Missing closing parenthesis', 'paren-missing'),
        ('Expected one of `@`', 'expected-one-of'),
        ('Expected end of input or `;`', 'end-or-semi'),
        ('Expected end of input, found', 'end'),
    ]
    for pre, k in table:
        if m.startswith(pre):
            return k
    mm = re.match(r"^Missing space before '(.)', the end of the URL is ambiguous", m, flags=re.S)
    if mm:
        return ['ambiguous', str(ord(mm.group(1)))]
    k = textmodel.err_kind(m)
    if isinstance(k, str) and k.startswith('other:'):
        return 'spec?'          # to be confirmed against VersionSpecifier::from_str on the span
    return k


def outcome(r):
    """harness answer of a requirement-level parse -> ('ok',) | ('err', kind, start, len, start_ok, display_ok, msg) | ('panic', msg)"""
    if r[0] == 'ok':
        return ('ok',)
    if r[0] == 'err':
        return ('err', req_err_kind(r[1], unS(r[6])), int(r[2]), int(r[3]), r[4] == 'T', r[5] == 'T', unS(r[6]))
    if r[0] == 'panic':
        return ('panic', unS(r[1])[:120])
    return ('other', dump(r)[:80])


class ReqModel(textmodel.MarkerTextModel):
    """the extracted requirement parser; oracle tables for PEP 440 specifiers, URLs and the environment"""

    def __init__(self, harness_proc, keys, wd=None):
        super().__init__(harness_proc, keys)
        self.wd = wd
        r = self.h.ask(['cwd'])
        self.drv.ask(['tab', 'root', r[1]])
        self.ext = self.h.ask(['features'])[1] == 'T'

    def _fill(self, miss):
        kind = miss[0]
        if kind == 'spec':
            self.misses += 1
            r = self.h.ask(['spec', miss[1]])
            self.drv.ask(['tab', 'spec', miss[1], ['ok', r[1], r[2]] if r[0] == 'ok' else 'err'])
        elif kind == 'url':
            self.misses += 1
            r = self.h.ask(['urlparse', miss[1], S(self.wd) if self.wd is not None else 'none', miss[2]])
            self.drv.ask(['tab', 'url', miss[1], miss[2], ['ok', r[1]] if r[0] == 'ok' else 'err'])
        elif kind == 'env':
            self.misses += 1
            r = self.h.ask(['getenv', miss[1]])
            self.drv.ask(['tab', 'env', miss[1], ['ok', r[1]] if r[0] == 'ok' else 'none'])
        else:
            super()._fill(miss)

    def env_changed(self):
        self.drv.ask(['tab', 'resetenv'])

    def run(self, cmd):
        for _ in range(600):
            r = self.drv.ask(cmd)
            if r[0] == 'oracle-miss':
                self._fill(r[1])
                continue
            return r
        return ['oracle-loop']

    def req(self, text, verbatim=True):
        return self.run(['preq', 'T' if verbatim else 'F', 'T' if self.ext else 'F', S(text)])

    def show(self, text, mt, verbatim=True):
        return self.run(['showreq', 'T' if verbatim else 'F', 'T' if self.ext else 'F', S(text), S(mt) if mt is not None else 'none'])

    def unnamed(self, text):
        return self.run(['punnamed', S(text)])

    def show_unnamed(self, text, mt):
        return self.run(['showunnamed', S(text), S(mt) if mt is not None else 'none'])

    def extras(self, text):
        return self.run(['pextras', S(text)])


def model_outcome(m):
    if m[0] == 'ok':
        return ('ok',)
    if m[0] == 'err':
        return ('err', m[1], int(m[2]), int(m[3]))
    return ('model:' + dump(m)[:80],)


def same_outcome(ctx, sess, what, text, mo, io):
    """compare model and implementation outcomes; returns True when they agree (spec errors are confirmed on the span)"""
    if io[0] == 'err' and mo[0] == 'err':
        ik = io[1]
        if ik == 'spec?' and mo[1] == 'spec' and (mo[2], mo[3]) == (io[2], io[3]):
            b = text.encode('utf-8')[io[2]:io[2] + io[3]]
            try:
                piece = b.decode('utf-8')
            except UnicodeDecodeError:
                return False
            r = sess.ask(['spec', S(piece)])
            return r[0] == 'err' and unS(r[1]) == io[6]
        return (mo[1], mo[2], mo[3]) == (ik, io[2], io[3])
    return mo[0] == io[0] and mo[0] == 'ok'


def compare_req(ctx, sess, rm, text, verbatim=True, wd=None, what='Requirement'):
    """one requirement text through crate and model; records disagreements; returns (harness answer, outcome, model answer)"""
    r = sess.ask(['req', 'verbatim' if verbatim else 'url', S(wd) if wd is not None else 'none', S(text)])
    io = outcome(r)
    m = rm.req(text, verbatim)
    mo = model_outcome(m)
    ctx.corr_cases += 1
    if io[0] in ('panic', 'other'):
        return r, io, m
    if not same_outcome(ctx, sess, what, text, mo, io):
        ctx.disagreement('parse_requirement ~ %s::from_str (outcome)' % what, text, repr(mo), repr(io[:4]))
        return r, io, m
    if io[0] == 'ok':
        # (ok name extras kind reg dump warnings shown contents keys_ok)
        name, extras, kind, reg, dmp, warns, shown, contents, keys_ok = r[1:10]
        if keys_ok != 'T':
            ctx.disagreement('sort key ~ pep440 Version::cmp', text, 'order-preserving', 'key order differs from Version::cmp')
        if dump(m[1]) != dump(name) or dump(m[2]) != dump(extras):
            ctx.disagreement('parse_requirement ~ %s (name, extras)' % what, text, dump(m[1]) + dump(m[2]), dump(name) + dump(extras))
        if dump(m[3]) != dump(kind):
            ctx.disagreement('parse_requirement ~ %s (specifiers / url)' % what, text, dump(m[3])[:300], dump(kind)[:300])
        try:
            want = trees.to_model(dmp)
            got = m[4] if m[4] != 'none' else 'T'
            if want != got:
                ctx.disagreement('parse_requirement ~ %s (marker diagram)' % what, text, pretty(got)[:300], pretty(want)[:300])
        except (trees.NotPartition, trees.Unmodelled):
            ctx.count('unmodelled-marker')
        if warns != 'na' and [w for w in warns] != m[5]:
            ctx.disagreement('parse_requirement ~ %s (warning kinds)' % what, text, dump(m[5]), dump(warns))
        sh = rm.show(text, unS(contents) if contents != 'none' else None, verbatim)
        if sh[0] != 'ok' or unS(sh[1]) != unS(shown):
            ctx.disagreement('display_req ~ %s Display' % what, text, unS(sh[1]) if sh[0] == 'ok' else dump(sh), unS(shown))
    return r, io, m


def impl_span_checks(ctx, entry, text, io):
    """C06 at the implementation: no panic; the error is renderable; the span starts on a boundary"""
    if io[0] == 'panic':
        ctx.failure('%s panicked on %r: %s' % (entry, text, io[1]), {'entry': entry, 'input': text}, cls=panic_class(io[1], text))
        return False
    if io[0] == 'other':
        ctx.failure('%s: harness died / unexpected answer on %r: %s' % (entry, text, io[1]), {'entry': entry, 'input': text})
        return False
    if io[0] == 'err':
        if not io[5]:
            ctx.failure('the error returned by %s for %r cannot be formatted (Display panics): span %d+%d' % (entry, text, io[2], io[3]),
                        {'entry': entry, 'input': text, 'start': io[2], 'len': io[3]}, cls='display-panics')
        if not io[4]:
            ctx.failure('the error span returned by %s for %r does not start on a character boundary within the input (start %d)' % (entry, text, io[2]),
                        {'entry': entry, 'input': text, 'start': io[2]}, cls='span-off-boundary')
    return True


def panic_class(msg, text=''):
    """F6d is identified by its call sites' message (arithmetic overflow) on an input with a u64::MAX segment"""
    if 'overflow' in msg and '18446744073709551615' in text:
        return 'integer-overflow'
    return 'panic'
