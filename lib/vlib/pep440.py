"""An independent, direct reading of PEP 440 release-segment comparison (decorations dropped), used as the
implementation-level oracle for C01/C10. Deliberately written without reference to the crate's rewrite rules."""
import re


def release_of(text):
    """release segments of a version literal; pre/post/dev/local/epoch are ignored by release-only matching"""
    t = text.strip().lower()
    if t.startswith('v'):
        t = t[1:]
    t = re.sub(r'^\d+!', '', t)
    m = re.match(r'^(\d+(?:\.\d+)*)', t)
    if not m:
        return None
    return [int(x) for x in m.group(1).split('.')]


def pad(a, n):
    return list(a) + [0] * (n - len(a))


def cmp_release(a, b):
    n = max(len(a), len(b))
    a, b = pad(a, n), pad(b, n)
    return (a > b) - (a < b)


def holds(lhs, op, literal):
    """lhs: release segments of the environment value; literal: text of the version (maybe with .*)"""
    star = literal.strip().endswith('.*')
    lit = release_of(literal.strip()[:-2] if star else literal)
    if lit is None:
        return None
    if star:
        if op not in ('==', '!='):
            return None
        m = pad(lhs, len(lit))[:len(lit)] == lit
        return m if op == '==' else not m
    c = cmp_release(lhs, lit)
    if op == '==':
        return c == 0
    if op == '!=':
        return c != 0
    if op == '<':
        return c < 0
    if op == '<=':
        return c <= 0
    if op == '>':
        return c > 0
    if op == '>=':
        return c >= 0
    if op == '~=':
        if len(lit) < 2:
            return None
        return c >= 0 and pad(lhs, len(lit) - 1)[:len(lit) - 1] == lit[:-1]
    return None


def holds_in(lhs, literals, negated):
    r = any(cmp_release(lhs, release_of(x)) == 0 for x in literals)
    return (not r) if negated else r


INVERT = {'<': '>', '<=': '>=', '>': '<', '>=': '<=', '==': '==', '!=': '!=', '~=': '~='}
