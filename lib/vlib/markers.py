"""Marker layer of the orchestrator: key tables, environments, text generators, histories on the harness."""
from . import framework as fw
from .sexp import S, unS, dump, is_S
from . import trees

VERSION_KEYS = ['implementation_version', 'python_full_version', 'python_version']
STRING_KEYS = ['implementation_name', 'os_name', 'platform_machine', 'platform_python_implementation',
               'platform_release', 'platform_system', 'platform_version', 'sys_platform']
DEPRECATED = ['os.name', 'sys.platform', 'platform.version', 'platform.machine', 'platform.python_implementation',
              'python_implementation']
ENV_FIELDS = ['implementation_name', 'implementation_version', 'os_name', 'platform_machine',
              'platform_python_implementation', 'platform_release', 'platform_system', 'platform_version',
              'python_full_version', 'python_version', 'sys_platform']


class Keys:
    """key spelling -> (kind, index in the enum declaration, canonical field) as the crate reports them"""

    def __init__(self, proc):
        self.ver = {}      # index(str) -> field
        self.str = {}      # index(str) -> field
        self.spelling = {}  # spelling -> (kind, idx)
        for sp in VERSION_KEYS + STRING_KEYS + DEPRECATED:
            r = proc.ask(['key', S(sp)])
            if r[0] == 'verkey':
                self.ver[r[1]] = unS(r[2])
                self.spelling[sp] = ('ver', r[1])
            elif r[0] == 'strkey':
                self.str[r[1]] = unS(r[2])
                self.spelling[sp] = ('str', r[1])


DEFAULT_ENV = {
    'implementation_name': 'cpython', 'implementation_version': '3.8.1', 'os_name': 'posix',
    'platform_machine': 'x86_64', 'platform_python_implementation': 'CPython', 'platform_release': '5.4',
    'platform_system': 'Linux', 'platform_version': '#1 SMP', 'python_full_version': '3.8.1',
    'python_version': '3.8', 'sys_platform': 'linux',
}


def env_sexp(env):
    return [S(env[f]) for f in ENV_FIELDS]


def env_model(keys, env, proc):
    """the model's environment: version fields as the crate parses them, string fields by key index"""
    vs = []
    for idx, field in keys.ver.items():
        r = proc.ask(['version', S(env[field])])
        if r[0] != 'ok':
            return None
        vs.append([idx, trees.version_to_model(r[1])])
    ss = [[idx, S(env[field])] for idx, field in keys.str.items()]
    return vs, ss


# ---------------- text generators ----------------

VERSIONS = ['3', '3.8', '3.8.0', '3.8.1', '3.9', '3.10', '3.0', '4', '2.7', '3.8.0.0', '3.7.2', '0', '3.8.10', '3.11.0', '3.0.1', '3.10.0.2', '2.0.7']
VERSIONS_ODD = ['3.8a1', '3.8.post1', '3.8.dev1', '1!3.8', '3.8rc2', '3.9.0b1']
STRVALS = ['a', 'b', 'ab', '', 'linux', 'win32', 'posix', 'nt', 'darwin', 'é', 'a b', 'x86_64', 'Linux', 'aa', 'a\x00', "it's", 'say "hi"', 'C:\\dir', "it's C:\\dir", "don't\tpanic"]
EXTRAS = ['a', 'b', 'c', 'A_b', 'a.b', 'dev', 'x-y', 'Zstd']
BAD_EXTRAS = ['a b', '-a', 'é', ' dev', 'dev ', '\tdev', "bob's"]
VOPS = ['==', '!=', '<', '<=', '>', '>=', '~=']
SOPS = ['==', '!=', '<', '<=', '>', '>=']


# boundary shapes every history parses: empty and blank in-lists, a list of one, the empty string as value, extremes
BOUNDARY_TEXTS = ["python_version not in ''", "python_version in ''", "python_full_version not in ''", "python_full_version in ' '", "python_version not in '  '",
                  "implementation_version in ''", "python_version in '3.8'", "python_version not in '3.8'", "os_name == ''", "os_name != ''", "'' in os_name", "os_name in ''",
                  "os_name not in ''", "'' not in os_name", "python_full_version >= '0'", "python_full_version < '0'", "python_version == '0'", "extra == 'a' and extra != 'a'",
                  # python_version against literals with one and with three release segments, every operator (the translation to python_full_version
                  # has a case of its own for each)
                  "python_version > '3.7.8'", "python_version >= '3.7.8'", "python_version < '3.7.8'", "python_version <= '3.7.8'", "python_version == '3.7.8'",
                  "python_version != '3.7.8'", "python_version ~= '3.7.8'", "python_version > '3'", "python_version >= '3'", "python_version < '3'", "python_version <= '3'",
                  "python_version == '3'", "python_version != '3'", "python_version >= '3.7.0'", "python_version < '3.7.0'", "'3.7.8' < python_version", "python_version in '3 3.7'",
                  # ~= against literals with trailing zeros and with four segments (the upper bound comes from the literal as written)
                  "python_full_version ~= '3.8.0'", "python_full_version ~= '3.0.0'", "implementation_version ~= '3.7.2.0'", "python_full_version ~= '3.6.2.1'",
                  "python_full_version ~= '3.10.0.0'", "'3.8.0' ~= python_full_version", "python_version ~= '3.8.0'", "python_full_version ~= '3.8'", "python_full_version == '3.8.0.*'",
                  # a string value inside / across the items of a blank-separated right-hand side (substring, not list membership)
                  "sys_platform in 'linux2 darwin'", "sys_platform not in 'linux2 darwin'", "platform_machine in 'x86_64 AMD64'", "os_name in 'a b'", "'a b' in os_name",
                  "os_name > 'posix'", "'posix' < os_name", "os_name >= 'posix'", "os_name < 'posix'", "os_name <= 'posix'"]


def op_key_grid(deprecated=False):
    """one comparison for every key of every kind with every operator it takes, in both operand orders; version keys also against
    post-release / pre-release / epoch literals and wildcards; `in` lists of one and two"""
    inv = {'==': '==', '!=': '!=', '<': '>', '<=': '>=', '>': '<', '>=': '<=', '~=': '~='}
    out = []
    for key in VERSION_KEYS:
        for op in VOPS:
            for lit in ('3.8', '3.8.1', '3.8.post1', '1!3.8', '3.8a1'):
                out.append("%s %s '%s'" % (key, op, lit))
            out.append("'3.8.1' %s %s" % (inv[op], key))
        out += ["%s == '3.8.*'" % key, "%s != '3.8.*'" % key, "%s in '3.8.1'" % key, "%s not in '3.8 3.9.2'" % key]
    for key in list(STRING_KEYS) + (DEPRECATED if deprecated else []):
        for op in SOPS:
            out += ["%s %s 'posix'" % (key, op), "'posix' %s %s" % (inv[op], key)]
        out += ["%s in 'posix nt'" % key, "%s not in 'posix nt'" % key, "'os' in %s" % key, "'os' not in %s" % key]
    out += ["extra == 'A_b'", "extra != 'A_b'", "'A_b' == extra", "'A_b' != extra"]
    return out


# shapes the DNF printer / simplifier is sensitive to (rendered and re-parsed by C05; as requirement markers by C08)
DNF_SHAPES = ["sys_platform == 'linux' or platform_system != 'linux'", "(os_name == 'posix' and extra == 'a') or sys_platform != 'posix'",
              "platform_system == 'Windows' or (os_name != 'Windows' and sys_platform == 'win32')", "python_full_version == '3.8' or implementation_version != '3.8'",
              "os_name in 'ab' or sys_platform not in 'ab'", "'x' in os_name or 'x' not in sys_platform", "os_name == 'a' or os_name != 'b'", "os_name < 'a' or sys_platform >= 'a'",
              "python_full_version < '3.8.2' or python_full_version >= '3.9'", "implementation_version < '7.3.11' or implementation_version >= '7.4'",
              "python_full_version < '3.8' or python_full_version >= '3.9.1'", "(os_name == 'a' and sys_platform == 'b') or (os_name != 'a' and sys_platform != 'b')",
              "extra == 'a' or (extra != 'b' and os_name == 'x')", "(extra == 'a' and os_name == 'x') or extra != 'a'", "python_version >= '3.8' and python_version < '3.12' and python_version != '3.9'",
              "(os_name > 'posix' and extra == 'fast') or os_name < 'posix'", "(sys_platform >= 'linux' and 'arm' in platform_machine) or sys_platform < 'linux'",
              "(os_name < 'posix' and sys_platform >= 'linux' and sys_platform < 'linux2') or os_name >= 'posix'",
              "(os_name == 'nt' and platform_machine > 'arm' and platform_machine < 'armv8') or os_name == 'posix'",
              "(implementation_version < '3' and python_full_version >= '3.8' and python_full_version < '3.10') or implementation_version >= '3'",
              "python_version != '3.8' and python_full_version != '3.9.1'", "python_full_version != '3.7' and python_full_version != '3.8.*' and sys_platform == 'linux'",
              "implementation_version != '7.3.9' and (implementation_version < '7.1' or implementation_version > '7.2')", "platform_release != '5.4' and (platform_release < '5.10' or platform_release >= '5.11')",
              "(os_name <= 'a' and extra == 'x') or os_name > 'a'", "(python_full_version <= '3.8' and extra == 'x') or python_full_version > '3.8'",
              # string ranges bounded on both sides, every combination of closed / open ends, distinct and equal end points
              "platform_release >= '5.0' and platform_release <= '5.9'", "platform_release > '5.0' and platform_release <= '5.9'", "platform_release >= '5.0' and platform_release < '5.9'",
              "platform_release > '5.0' and platform_release < '5.9'", "(platform_machine >= 'arm64' and platform_machine <= 'armv8l') or extra == 'cpu'",
              "'5.9' >= platform_release and '5.0' <= platform_release and os_name == 'posix'", "os_name >= 'a' and os_name <= 'a'", "os_name < 'a' or os_name > 'a'",
              "python_full_version >= '3.8' and (platform_version < '10' or (platform_version > '11' and platform_version <= '12'))",
              # values that need the other quote, alone and with characters a debug rendering would escape; arbitrary (invalid) extra names
              'platform_version == "it\'s C:\\dir"', 'os_name not in "nt\'s\\"', 'platform_version != "don\'t\tpanic"', "os_name == 'C:\\dir'",
              'extra == "bob\'s"', '"dev\'" != extra', 'os_name == \'nt\' or (extra == "it\'s" and extra == \'dotenv\')', "extra == ' dev' or os_name == 'x'"]


def pep_norm(name):
    """PEP 508 / 503 / 685, written down here (not asked of the crate): a name is letters, digits, - _ . , starts and ends with a letter or
    digit; its normal form is lower case with every run of - _ . as a single - . None for an invalid name"""
    import re
    if re.fullmatch(r'[A-Za-z0-9]([A-Za-z0-9._-]*[A-Za-z0-9])?', name) is None:
        return None
    return re.sub(r'[-_.]+', '-', name).lower()


def q(rng, s):
    if "'" in s:
        return '"' + s + '"'
    if '"' in s:
        return "'" + s + "'"
    return ("'" + s + "'") if rng.random() < .6 else ('"' + s + '"')


def gen_atom(rng, odd=0.1, strings=0.35, extras=0.2, deprecated=0.05, lists=0.1, star=0.1, reverse=0.15):
    r = rng.random()
    if r < extras:
        name = rng.choice(EXTRAS if rng.random() > 0.05 else BAD_EXTRAS)
        op = rng.choice(['==', '!=']) if rng.random() < .9 else '=='
        if rng.random() < reverse:
            return "%s %s extra" % (q(rng, name), op)
        return "extra %s %s" % (op, q(rng, name))
    if r < extras + strings:
        key = rng.choice(DEPRECATED if rng.random() < deprecated / max(strings, 1e-9) else STRING_KEYS)
        val = rng.choice(STRVALS)
        if rng.random() < 0.2:
            op = rng.choice(['in', 'not in'])
        else:
            op = rng.choice(SOPS)
        if rng.random() < reverse:
            return "%s %s %s" % (q(rng, val), op, key)
        return "%s %s %s" % (key, op, q(rng, val))
    key = rng.choice(VERSION_KEYS)
    pool = VERSIONS + (VERSIONS_ODD if rng.random() < odd * 3 else [])
    v = rng.choice(pool)
    rr = rng.random()
    if rr < lists:
        k = 0 if rng.random() < .08 else rng.randint(1, 3)       # the empty list: `in` is never true, `not in` always
        # members are separated by any white space, possibly more than one character, with optional padding
        seps = [' ', ' ', ' ', '  ', '\t', ' \t', '\n']
        vs = ''.join(rng.choice(pool) + (rng.choice(seps) if i + 1 < k else '') for i in range(k))
        if rng.random() < .15:
            vs = rng.choice([' ', '\t']) + vs + rng.choice(['', ' '])
        return "%s %s %s" % (key, rng.choice(['in', 'not in']), q(rng, vs))
    if rr < lists + star and v[0].isdigit() and v.replace('.', '').isdigit():
        return "%s %s %s" % (key, rng.choice(['==', '!=']), q(rng, v + '.*'))
    op = rng.choice(VOPS)
    if op == '~=' and '.' not in v:
        v = v + '.0'
    if rng.random() < reverse:
        return "%s %s %s" % (q(rng, v), op, key)
    return "%s %s %s" % (key, op, q(rng, v))


def flip_atom(t):
    """the complementary comparison on the same variable (== / !=, in / not in), textually"""
    for a, b in ((' not in ', ' in '), (' in ', ' not in '), (' == ', ' != '), (' != ', ' == ')):
        if a in t:
            return t.replace(a, b, 1)
    return t


def boolean_family(rng, n_pairs=24):
    """small markers over the same few boolean variables (extras, `in`, substring), in both polarities and combined
    pairwise: operands that share a root variable with different complement bits"""
    atoms = ["extra == 'a'", "extra != 'a'", "extra == 'b'", "extra != 'b'", "extra == 'c'",
             "'nt' in os_name", "'nt' not in os_name", "'posix' in os_name", "'win' in sys_platform",
             "os_name in 'posix nt'", "os_name not in 'posix nt'", "os_name in 'linux'", "sys_platform in 'linux darwin'",
             "sys_platform not in 'linux darwin'"]
    out = list(atoms)
    for _ in range(n_pairs):
        x, y = rng.choice(atoms), rng.choice(atoms)
        out.append('(%s %s %s)' % (x, rng.choice(['and', 'or']), y))
    return out


def gen_marker(rng, depth=2, _pool=None, **kw):
    if _pool is None and depth >= 2 and rng.random() < 0.2:
        # leaves from a small pool of comparisons and their complements (if-then-else shapes over one variable)
        _pool = [gen_atom(rng, **dict(kw, reverse=0.0)) for _ in range(rng.randint(2, 3))]
    if depth == 0 or rng.random() < 0.3:
        if _pool:
            t = rng.choice(_pool)
            return flip_atom(t) if rng.random() < .4 else t
        return gen_atom(rng, **kw)
    n = rng.randint(2, 3)
    op = rng.choice([' and ', ' or '])
    parts = []
    for _ in range(n):
        p = gen_marker(rng, depth - 1, _pool=_pool, **kw)
        if (' and ' in p or ' or ' in p) and (op == ' and ' or rng.random() < .5):
            p = '(' + p + ')'
        parts.append(p)
    return op.join(parts)


# ---------------- histories ----------------

class Session:
    """one harness process; registers hold markers; every step records the dump the crate shows"""

    def __init__(self, harness_path, env=None):
        self.p = fw.Proc(harness_path, env=env)
        self.dumps = {}      # reg -> harness dump
        self.sizes = {}      # reg -> number of nodes of the unfolded dump
        self.anomalies = []  # (what, how) noticed inside helpers that have no ctx; reported by c02.monitor
        self.models = {}     # reg -> model tree | exception
        self.raw_versions = []
        self.texts = {}
        self.steps = []      # (op, operand regs / args, result)

    def close(self):
        self.p.close()

    def _record(self, reg, d):
        reg = int(reg)
        self.dumps[reg] = d
        self.sizes[reg] = 10 ** 9 if (isinstance(d, list) and d and d[0] == 'BIG') else tree_size(d)
        try:
            self.models[reg] = trees.to_model(d, self.raw_versions)
        except (trees.NotPartition, trees.Unmodelled) as e:
            self.models[reg] = e
        return reg

    def parse(self, text):
        r = self.p.ask(['parse', S(text)])
        if r[0] == 'ok':
            reg = self._record(r[1], r[2])
            self.texts[reg] = text
            self.steps.append(('parse', text, reg, r))
            return reg, r
        self.steps.append(('parse', text, None, r))
        return None, r

    def op(self, name, *args):
        r = self.p.ask([name] + [str(a) if isinstance(a, int) else a for a in args])
        if r[0] == 'ok' and name in ('and', 'or', 'not', 'simpx', 'simppv', 'cplxpv', 'const', 'withextra'):
            reg = self._record(r[1], r[2])
            self.steps.append((name, args, reg, r))
            return reg, r
        self.steps.append((name, args, None, r))
        return None, r

    def ask(self, cmd):
        return self.p.ask(cmd)

    def model(self, reg):
        m = self.models[reg]
        if isinstance(m, Exception):
            raise m
        return m


def tree_size(d):
    """nodes of a harness dump (iterative: dumps can be deep)"""
    n, stack = 0, [d]
    while stack:
        t = stack.pop()
        if not isinstance(t, list) or not t:
            continue
        tag = t[0]
        if tag in ('V', 'S'):
            n += 1
            stack.extend(e[1] for e in t[2])
        elif tag in ('In', 'Co'):
            n += 1
            stack.extend(t[3:5])
        elif tag == 'Ex':
            n += 1
            stack.extend(t[2:4])
    return n


def describe(sess, reg):
    """how a register was produced (for replays)"""
    for st in sess.steps:
        if st[2] == reg:
            if st[0] == 'parse':
                return {'parse': st[1]}
            return {st[0]: [describe(sess, a) if isinstance(a, int) else (trees_pretty(a)) for a in st[1]]}
    return {'reg': reg}


def trees_pretty(a):
    from .sexp import pretty
    return pretty(a)


# ---------------- environments around the cuts of given model trees ----------------

def grid_envs(rng, keys, ms, n, base=None):
    """n environments (dicts) whose values sit at / next to the cut values of the model trees ms"""
    base = dict(base or DEFAULT_ENV)
    cuts = trees.cuts_by_var(ms)
    bvars = trees.bool_vars(ms)
    per_field = {}
    for vd, vals in cuts.items():
        kind, idx = vd[1:-1].split(' ')[0], vd[1:-1].split(' ')[1]
        if kind == 'ver':
            field = keys.ver[idx]
            pts = []
            for v in vals:
                for w in trees.around_version(v):
                    try:
                        pts.append(trees.version_text(w))
                    except Exception:
                        pass
            per_field.setdefault(field, []).extend(pts)
        else:
            field = keys.str[idx]
            pts = []
            for v in vals:
                for w in trees.around_string(v):
                    t = unS(w)
                    if not any(0xD800 <= ord(c) <= 0xDFFF for c in t):
                        pts.append(t)
            per_field.setdefault(field, []).extend(pts)
    for b in bvars:
        if b[0] in ('in', 'co'):
            field = keys.str[b[1]]
            t = unS(b[2])
            per_field.setdefault(field, []).extend([t, t + 'x', t[:1], t[1:], '', 'x' + t + 'y'])
    extras_pool = [unS(b[2]) for b in bvars if b[0] == 'ex' and b[1] == '0']
    out = []
    for _ in range(n):
        env = dict(base)
        for f, pts in per_field.items():
            if pts and rng.random() < 0.9:
                env[f] = rng.choice(pts)
        # python_version is major.minor of python_full_version for a consistent environment
        env['python_version'] = major_minor(env['python_full_version'])
        ex = [e for e in extras_pool if rng.random() < .5]
        out.append((env, ex))
    return out


def major_minor(v):
    import re
    m = re.match(r'^(?:\d+!)?(\d+)(?:\.(\d+))?', v)
    return '%s.%s' % (m.group(1), m.group(2) or '0')


# ---------------- shared batteries ----------------

# PEP 508's marker variables and the environment field each one reads (deprecated aliases included); written down here,
# NOT read from the crate, so that a slip in the crate's keyword table is seen
OFFICIAL_STRING = {'os_name': 'os_name', 'sys_platform': 'sys_platform', 'platform_machine': 'platform_machine',
                   'platform_python_implementation': 'platform_python_implementation', 'platform_release': 'platform_release',
                   'platform_system': 'platform_system', 'platform_version': 'platform_version', 'implementation_name': 'implementation_name',
                   'os.name': 'os_name', 'sys.platform': 'sys_platform', 'platform.version': 'platform_version', 'platform.machine': 'platform_machine',
                   'platform.python_implementation': 'platform_python_implementation', 'python_implementation': 'platform_python_implementation'}
OFFICIAL_VERSION = {'python_version': ('python_version', '3.1'), 'python_full_version': ('python_full_version', '3.1.5'),
                    'implementation_version': ('implementation_version', '9.9')}


def key_table_battery(ctx, parse_eval):
    """every marker variable name of PEP 508 reads its own environment field and no other.
    parse_eval(text, env) -> 'T' / 'F' / None (not accepted)"""
    for name, field in OFFICIAL_STRING.items():
        for text in ("%s == 'val'" % name, "'val' == %s" % name):
            own = {f: ('val' if f == field else 'other-' + f) for f in STRING_KEYS}
            others = {f: ('zzz' if f == field else 'val') for f in STRING_KEYS}
            for env_s, want in ((own, 'T'), (others, 'F')):
                env = dict(DEFAULT_ENV, **env_s)
                got = parse_eval(text, env)
                ctx.oracle_cases += 1
                if got != want:
                    ctx.failure('the marker variable %s does not read the environment field %s: %r evaluates to %s where only that field %s the value'
                                % (name, field, text, got, 'has' if want == 'T' else 'lacks'), {'text': text, 'env': env})
    for name, (field, val) in OFFICIAL_VERSION.items():
        text = "%s == '%s'" % (name, val)
        own = dict(DEFAULT_ENV, python_full_version='3.1.5', python_version='3.1', implementation_version='9.9')
        others = {'python_version': dict(DEFAULT_ENV, python_full_version='3.2.5', python_version='3.2', implementation_version='3.1'),
                  'python_full_version': dict(DEFAULT_ENV, python_full_version='3.1.6', python_version='3.1', implementation_version='3.1.5'),
                  'implementation_version': dict(DEFAULT_ENV, python_full_version='9.9.0', python_version='9.9', implementation_version='9.8')}[field]
        for env, want in ((own, 'T'), (others, 'F')):
            got = parse_eval(text, env)
            ctx.oracle_cases += 1
            if got != want:
                ctx.failure('the marker variable %s does not read the environment field %s: %r evaluates to %s' % (name, field, text, got), {'text': text, 'env': env})


def check_parses(ctx, sess, keys, limit=120):
    """every marker text this history parsed, through the extracted parser model as well: same diagram, same warning kinds"""
    from . import textmodel
    steps = [st for st in sess.steps if st[0] == 'parse' and st[2] is not None]
    if len(steps) > limit:
        # the fixed batteries always, a sample of the rest
        fixed = set(BOUNDARY_TEXTS) | set(DNF_SHAPES)
        must = [st for st in steps if st[1] in fixed]
        rest = [st for st in steps if st[1] not in fixed]
        steps = must + ctx.rng.sample(rest, min(len(rest), limit))
    tm = textmodel.MarkerTextModel(sess.p, keys)
    for st in steps:
        text, reg, r = st[1], st[2], st[3]
        want = sess.models.get(reg)
        if want is None or isinstance(want, Exception):
            continue
        m = tm.parse(text)
        ctx.corr_cases += 1
        if m[0] != 'ok' or m[1] != want or m[2] != r[3]:
            ctx.disagreement('parse_markers ~ MarkerTree::parse_reporter (diagram, warning kinds)', text, dump(m)[:400], dump([want, r[3]])[:400])
    tm.close()


def check_source_tables(ctx, keys):
    """the keyword table translated from the source (gen/Tables.json, written by tools/gentables.py in this run) against the
    table the crate reports at run time, which is the one the extracted parser is given: name -> (kind, index in the enum)"""
    import json
    from . import build
    try:
        js = json.load(open(build.GEN + '/Tables.json'))
    except OSError:
        return
    for name, v in js['keywords']:
        if v == 'KwExtra':
            continue
        kind, variant = v.split(' ')
        want = ('str', str(js['string_keys'].index(variant[2:]))) if kind == 'KwString' else ('ver', str(js['version_keys'].index(variant[2:])))
        got = keys.spelling.get(name)
        ctx.corr_cases += 1
        if got != want:
            ctx.disagreement('keyword table of the source (gen/Tables.v) ~ MarkerValue::from_str at run time', name, repr(want), repr(got))
    for name in keys.spelling:
        if name not in [k for k, _ in js['keywords']]:
            ctx.disagreement('keyword table of the source (gen/Tables.v) ~ MarkerValue::from_str at run time', name, 'absent from the source table', repr(keys.spelling[name]))
