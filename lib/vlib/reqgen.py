"""Generators of requirement derivations (PEP 508 grammar) with independent expectations (C07, C08, C18, C19)."""
import re

from . import markers

NAMES = ['foo', 'Foo', 'foo-bar', 'Foo_.Bar', 'a', 'A1', 'x1.y-2_z', 'requests', 'zope.interface', 'a--b', '0ad']
EXTRA_IDS = ['a', 'b', 'security', 'Tests', 'a_b', 'A.b', 'x-y', 'x--y', '1a']
SPECS = ['>=1.0', '==2.8.*', '<2', '~=1.4.2', '!=1.5', '<=3.0.0', '>1.0a1', '==1.0+local', '>=1!2.0', '== 1.0', '>= 2.8.1', '!=1.*', '==1.0.post1', '<2.0.dev1', '===1.0', '>=0']
URLS = ['https://h/p', 'https://example.org/a/b.whl', 'git+https://h/p@v1#egg=x', 'file:///a/b', 'https://h/p?q=1&r=2', 'https://h/p;x=1', 'https://h/#', 'https://h/p#frag',
        'https://u:pw@h:8080/p', 'http://h/a%20b', 'https://h/[x]', 'git+ssh://git@h/r.git', 'https://h/p;', 'https://h/é', 'svn+https://h/p', 'hg+static-http://h/p', 'hg+static-http://h/repo/pkg@v1.0#egg=pkg', 'x-y.z+w://h/p', 'HG+Static-Http://h/p']
WS = ['', ' ', '  ', '\t', ' \t ']
# texts just outside (or at the edge of) the grammar, and URLs whose percent escapes are not UTF-8: every entry point sees all of them
NEAR_GRAMMAR = ['numpy ()', 'numpy ( )', 'numpy (>=1.0,)', 'numpy (,)', 'numpy (,>=1.0)', 'numpy >=1.0,', 'numpy ,>=1.0', 'numpy[]', 'numpy[ ]', 'numpy[,]', 'numpy[a,]', 'numpy[,a]',
                'numpy @', 'numpy ;', 'numpy;', 'numpy >=1.0 ;', "numpy () ; python_version >= '3.8'", 'numpy[dev] ()', 'numpy (>=1.0) (<2)', 'numpy>=1.0 <2', 'numpy (>=1.0',
                'foo @ file:///tmp/caf%E9/p-1.0.tar.gz', 'foo @ file:///a/%80', 'foo @ file:%FF.zip', 'foo @ file:///a/%', 'foo @ file:///a/%G1', 'foo @ file:///a/%C3%A9',
                'foo @ https://h/%E9', 'foo @ file://localhost/a/%E9', "foo @ file:///a/%E9 ; os_name == 'a'"]
NEAR_GRAMMAR_UNNAMED = ['file:///tmp/caf%E9/p-1.0-py3-none-any.whl[extra]', "file:%80.zip ; os_name == 'posix'", '/a/%E9', './%FF', 'file:///a/%C3%A9', 'file://localhost/a/%E9[a]',
                        'https://h/%E9', '/a/%', 'file:///a/%G1.whl']


def pep503(name):
    return re.sub(r'[-_.]+', '-', name).lower()


# ---- marker syntax trees with free white space
def gen_mast(rng, depth=2):
    if depth == 0 or rng.random() < .45:
        return ('atom', markers.gen_atom(rng, deprecated=0.0))
    op = rng.choice(['and', 'or'])
    n = rng.choice([2, 2, 3])
    return (op, [gen_mast(rng, depth - 1) for _ in range(n)])


def render_mast(rng, t, top=True, parent=None, loose=True):
    """text of the tree; [loose]: random optional white space (none where the grammar requires none)"""
    def w(must=False):
        if not loose:
            return ' ' if must else ''
        c = rng.choice(WS)
        return c if (c or not must) else ' '
    if t[0] == 'atom':
        a = t[1]
        if loose and rng.random() < .5:
            # squeeze / stretch the white space around the comparison operator of plain `key op 'value'` atoms
            m = re.match(r"^(\w+)\s*(==|!=|<=|>=|<|>|~=)\s*(['\"].*['\"])$", a)
            if m:
                a = m.group(1) + w() + m.group(2) + w() + m.group(3)
        if loose and ' not in ' in a and rng.random() < .6:
            # any white space, at least one character, between `not` and `in`
            a = a.replace(' not in ', ' not' + rng.choice(['\t', '  ', ' \t', '\t ']) + 'in ', 1)
        if loose and rng.random() < .15:
            return '(' + w() + a + w() + ')'
        return a
    op, kids = t
    parts = [render_mast(rng, k, False, op, loose) for k in kids]
    out = parts[0]
    for p in parts[1:]:
        left_ok = out[-1] in ")'\""            # the keyword may touch a closing parenthesis or quote
        right_ok = p[0] in "('\""
        out += w(not left_ok) + op + w(not right_ok) + p
    need_paren = (parent == 'and' and op == 'or') or (loose and rng.random() < .2)
    if need_paren and not top or (parent is not None and parent == op and loose and rng.random() < .3):
        return '(' + w() + out + w() + ')'
    return out


def gen_derivation(rng, kind=None, with_marker=None):
    name = rng.choice(NAMES)
    r = rng.random()
    extras = None if r < .4 else [rng.choice(EXTRA_IDS) for _ in range(rng.choice([0, 1, 1, 2, 3]))]
    kind = kind or rng.choice(['none', 'bare', 'bare', 'paren', 'url', 'url'])
    d = {'name': name, 'extras': extras, 'kind': kind}
    if kind in ('bare', 'paren'):
        d['specs'] = [rng.choice(SPECS) for _ in range(rng.choice([1, 1, 2, 3]))]
    if kind == 'url':
        d['url'] = rng.choice(URLS)
    if with_marker is None:
        with_marker = rng.random() < .6
    d['marker'] = gen_mast(rng, rng.choice([0, 1, 2])) if with_marker else None
    return d


def render(rng, d, loose=True):
    """one source text of the derivation; white space only where the grammar allows it"""
    def w(must=False):
        if not loose:
            return ' ' if must else ''
        c = rng.choice(WS)
        return c if (c or not must) else ' '
    s = w() + d['name'] + w()
    if d['extras'] is not None:
        s += '[' + w() + ','.join(w() + e + w() for e in d['extras']) + (w() if not d['extras'] else '') + ']' + w()
    k = d['kind']
    if k == 'bare':
        s += (w() + ',' + w()).join(d['specs'])
    elif k == 'paren':
        s += '(' + w() + (w() + ',' + w()).join(d['specs']) + w() + ')'
    elif k == 'url':
        s += '@' + w() + d['url']
    if d['marker'] is not None:
        s += w(k == 'url') + ';' + w() + render_mast(rng, d['marker'], loose=loose)
    s += w()
    return s


def canonical_marker(rng, d):
    return render_mast(rng, d['marker'], loose=False) if d['marker'] is not None else None
