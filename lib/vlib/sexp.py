"""S-expressions shared by the Rust harness, the OCaml model driver and this orchestrator.
Atoms are Python str, lists are Python lists. Text travels as ['s', cp, cp, ...]."""


def parse(line):
    pos = 0
    n = len(line)

    def item():
        nonlocal pos
        while pos < n and line[pos].isspace():
            pos += 1
        if pos >= n:
            raise ValueError("unexpected end of sexp: %r" % line[:200])
        if line[pos] == '(':
            pos += 1
            out = []
            while True:
                while pos < n and line[pos].isspace():
                    pos += 1
                if pos >= n:
                    raise ValueError("unclosed sexp: %r" % line[:200])
                if line[pos] == ')':
                    pos += 1
                    return out
                out.append(item())
        st = pos
        while pos < n and not line[pos].isspace() and line[pos] not in '()':
            pos += 1
        return line[st:pos]

    return item()


def dump(x):
    if isinstance(x, list):
        return '(' + ' '.join(dump(y) for y in x) + ')'
    if isinstance(x, bool):
        return 'T' if x else 'F'
    return str(x)


def S(text):
    """text -> ['s', cp...]"""
    return ['s'] + [str(ord(c)) for c in text]


def unS(x):
    assert isinstance(x, list) and x and x[0] == 's', x
    return ''.join(chr(int(c)) for c in x[1:])


def is_S(x):
    return isinstance(x, list) and len(x) >= 1 and x[0] == 's'


def pretty(x):
    """human-readable rendering for evidence samples and replay files"""
    if is_S(x):
        try:
            return repr(unS(x))
        except Exception:
            return dump(x)
    if isinstance(x, list):
        return '(' + ' '.join(pretty(y) for y in x) + ')'
    return str(x)
