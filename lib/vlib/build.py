"""Builds: Coq development (full .vo build), extraction + OCaml driver, Rust harness against /repo's tree."""
import fcntl
import hashlib
import os
import shutil
import subprocess
import sys
import time

ROOT = os.environ.get('VERIF_ROOT', '/verif')
COQ = ROOT + '/coq'
BUILD = ROOT + '/build'
EXTRACT = BUILD + '/extract'
DRIVER = BUILD + '/driver'
HARNESS_DIR = ROOT + '/harness'
TARGET = BUILD + '/harness-target'
GUARD_CFG = 'pep508_rs_verif'

ENV = dict(os.environ, CARGO_NET_OFFLINE='true')


class BuildError(Exception):
    def __init__(self, what, output):
        super().__init__(what)
        self.what = what
        self.output = output


def _run(cmd, cwd=None, timeout=3000, env=None):
    p = subprocess.run(cmd, cwd=cwd, stdout=subprocess.PIPE, stderr=subprocess.STDOUT, text=True,
                       timeout=timeout, env=env or ENV)
    return p.returncode, p.stdout


class lock:
    def __init__(self, name):
        os.makedirs(BUILD, exist_ok=True)
        self.path = BUILD + '/.' + name + '.lock'

    def __enter__(self):
        self.f = open(self.path, 'w')
        fcntl.flock(self.f, fcntl.LOCK_EX)

    def __exit__(self, *a):
        fcntl.flock(self.f, fcntl.LOCK_UN)
        self.f.close()


def coq_sources():
    out = []
    for d, _, fs in os.walk(COQ):
        for f in fs:
            if f.endswith('.v'):
                out.append(os.path.join(d, f))
    return sorted(out)


def coq_hash():
    h = hashlib.sha256()
    for p in coq_sources() + [COQ + '/_CoqProject', ROOT + '/ocaml/driver.ml']:
        h.update(p.encode())
        h.update(open(p, 'rb').read())
    return h.hexdigest()


def coq_make(targets=None, jobs=16):
    """full .vo build through coq_makefile (never -vos/-vok)"""
    with lock('coq'):
        if not os.path.exists(COQ + '/Makefile') or \
                os.path.getmtime(COQ + '/Makefile') < os.path.getmtime(COQ + '/_CoqProject'):
            rc, out = _run(['coq_makefile', '-f', '_CoqProject', '-o', 'Makefile'], cwd=COQ)
            if rc != 0:
                raise BuildError('coq_makefile', out)
        cmd = ['timeout', '2400', 'make', '-j%d' % jobs] + (targets or [])
        rc, out = _run(cmd, cwd=COQ)
        if rc != 0:
            raise BuildError('coq make ' + ' '.join(targets or ['all']), out)
        return out


def compile_props(prop_file):
    """Re-checks one property file from scratch and returns coqc's output (Print Assumptions).
    Deleting and re-making happen under one lock, so that a concurrent check cannot rebuild the file in between."""
    with lock('coq'):
        vo = COQ + '/' + prop_file[:-2] + '.vo'
        for ext in ('.vo', '.vok', '.vos', '.glob'):
            p = COQ + '/' + prop_file[:-2] + ext
            if os.path.exists(p):
                os.remove(p)
        cmd = ['timeout', '2400', 'make', '-j16', prop_file[:-2] + '.vo']
        rc, out = _run(cmd, cwd=COQ)
        if rc != 0 or not os.path.exists(vo):
            raise BuildError('props ' + prop_file, out)
        return out


GEN = ROOT + '/gen'


def table_proofs(pin_file):
    """Regenerates gen/Tables.v from the crate source (tools/gentables.py: enums and match tables of operators, marker
    variables, environment accessors, archive extensions), compiles it, the theorems about it (gen/TableProofs.v) and one
    property's pin file, and returns coqc's output of the pin file.  These files are not part of the main project: a table
    that changed must break only the obligations that rest on it."""
    src = os.environ.get('VERIF_REPO_SRC', '/repo/src')
    with lock('coq'):
        p = subprocess.run([sys.executable, ROOT + '/tools/gentables.py', src, GEN + '/Tables.v'], stdout=subprocess.PIPE, stderr=subprocess.PIPE, text=True)
        if p.returncode != 0:
            raise BuildError('table translator (tools/gentables.py)', p.stderr[-2000:])
        flags = ['-q', '-Q', COQ, 'PV', '-Q', GEN, 'PVGen']
        h = hashlib.sha256()
        for f in ('Tables.v', 'TableProofs.v'):
            h.update(open(GEN + '/' + f, 'rb').read())
        for f in ('Text/ReqParse.vo', 'Text/MarkerDisplay.vo', 'Marker/DnfModel.vo', 'Text/MarkerParse.vo'):
            h.update(str(os.path.getmtime(COQ + '/' + f)).encode())
        stamp = GEN + '/.stamp'
        if not (os.path.exists(GEN + '/TableProofs.vo') and os.path.exists(stamp) and open(stamp).read() == h.hexdigest()):
            for f in ('Tables', 'TableProofs'):
                for ext in ('.vo', '.vok', '.vos', '.glob'):
                    if os.path.exists(GEN + '/' + f + ext):
                        os.remove(GEN + '/' + f + ext)
            if os.path.exists(stamp):
                os.remove(stamp)
            for f in ('Tables.v', 'TableProofs.v'):
                rc, out = _run(['timeout', '900', 'coqc'] + flags + [f], cwd=GEN)
                if rc != 0:
                    raise BuildError('table theorems: gen/' + f, out)
            open(stamp, 'w').write(h.hexdigest())
        rc, out = _run(['timeout', '900', 'coqc'] + flags + [pin_file], cwd=GEN)
        if rc != 0:
            raise BuildError('table theorems: gen/' + pin_file, out)
        return out


def extract_and_driver():
    """extraction (run from the output directory: 8.16 has no output-directory option) + ocamlopt"""
    with lock('extract'):
        stamp = BUILD + '/driver.stamp'
        h = coq_hash()
        if os.path.exists(DRIVER) and os.path.exists(stamp) and open(stamp).read() == h:
            return
        if os.path.isdir(EXTRACT):
            shutil.rmtree(EXTRACT)
        os.makedirs(EXTRACT)
        rc, out = _run(['timeout', '900', 'coqc', '-Q', COQ, 'PV', COQ + '/Extract/Extract.v',
                        '-o', EXTRACT + '/Extract.vo'], cwd=EXTRACT)
        if rc != 0:
            raise BuildError('extraction', out)
        shutil.copy(ROOT + '/ocaml/driver.ml', EXTRACT + '/driver.ml')
        mls = [f for f in os.listdir(EXTRACT) if f.endswith('.ml') or f.endswith('.mli')]
        rc, order = _run(['ocamlfind', 'ocamldep', '-sort'] + sorted(mls), cwd=EXTRACT)
        if rc != 0:
            raise BuildError('ocamldep', order)
        files = order.split()
        rc, out = _run(['ocamlfind', 'ocamlopt', '-O2', '-w', '-a', '-o', DRIVER] + files, cwd=EXTRACT)
        if rc != 0:
            rc, out = _run(['ocamlfind', 'ocamlopt', '-w', '-a', '-o', DRIVER] + files, cwd=EXTRACT)
        if rc != 0:
            raise BuildError('ocamlopt', out)
        open(stamp, 'w').write(h)


def harness(release=False, ext=False):
    """cargo path dependency on /repo: rebuilds from the current working tree, hooks on"""
    with lock('cargo'):
        lockfile = HARNESS_DIR + '/Cargo.lock'
        if not os.path.exists(lockfile):
            shutil.copy('/repo/Cargo.lock', lockfile)
        env = dict(ENV, RUSTFLAGS='--cfg ' + GUARD_CFG + ' -Awarnings', CARGO_TARGET_DIR=TARGET + ('-ext' if ext else ''))
        cmd = ['cargo', 'build', '--offline', '--quiet']
        if release:
            cmd.append('--release')
        if ext:
            cmd += ['--features', 'ext']
        rc, out = _run(cmd, cwd=HARNESS_DIR, env=env, timeout=3000)
        if rc != 0:
            raise BuildError('cargo build (harness against /repo working tree)', out)
        return TARGET + ('-ext' if ext else '') + ('/release' if release else '/debug') + '/harness'


def setup():
    t = time.time()
    print('[setup] coq make ...', flush=True)
    coq_make()
    print('[setup] extraction + driver ...', flush=True)
    extract_and_driver()
    print('[setup] harness (debug, default features) ...', flush=True)
    harness()
    print('[setup] harness (debug, non-pep508-extensions) ...', flush=True)
    harness(ext=True)
    print('[setup] done in %.0fs' % (time.time() - t), flush=True)


if __name__ == '__main__':
    try:
        setup()
    except BuildError as e:
        print('BUILD FAILED:', e.what)
        print(e.output[-4000:])
        sys.exit(2)
