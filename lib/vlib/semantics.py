"""Exact decision of semantic equality / satisfiability of model diagrams by region enumeration.
Used only by the failing-input search (never in place of a theorem).

dense=True : every syntactic region between consecutive cuts counts as inhabited (the order the
             diagram algebra assumes);
dense=False: regions are tested for inhabitants in the real value domains (strings have a minimum
             and successor pairs).  Version cuts other than release-only finals are not handled
             (Unsupported), because which regions are inhabited then depends on local version labels."""
from .sexp import dump, is_S, unS, S
from . import trees


class Unsupported(Exception):
    pass


def top(m):
    return None if m in ('T', 'F') else m[1]


def var_key(v):
    cls = {'ver': 0, 'str': 1, 'in': 2, 'co': 3, 'ex': 4}[v[0]]
    if cls <= 1:
        return (cls, int(v[1]), 0, ())
    if cls <= 3:
        return (cls, int(v[1]), 0, tuple(int(c) for c in v[2][1:]))
    return (cls, 0, int(v[1]), tuple(int(c) for c in v[2][1:]))


def region_inhabited(lo, hi, dense):
    """lo/hi: cut or None"""
    if dense:
        return True
    v = (lo or hi)
    if v is None:
        return True
    if not is_S(v[0]):
        for c in (lo, hi):
            if c is not None and c[0][3] != trees.FINAL:
                raise Unsupported('version cut that is not a release-only final')
        return True
    if lo is None:
        return not (hi[1] == 'b' and len(hi[0]) == 1)       # x < ''
    if lo[1] == 'b':
        return True
    if hi is None or hi[1] == 'a':
        return True
    s, t = lo[0][1:], hi[0][1:]
    return not (t == s + ['0'])                             # s < x < s·U+0000


def witness(lo, hi):
    """a model value inside the region (lo, hi), real domain; None if none"""
    v = (lo or hi)
    if v is None:
        return None
    if is_S(v[0]):
        if lo is None:
            return v[0] if hi[1] == 'a' else ['s']
        if lo[1] == 'b':
            return lo[0]
        if hi is not None and hi[1] == 'a':
            return hi[0]
        return lo[0] + ['0']
    if lo is None:
        return ['v', hi[0][1], hi[0][2], ['1', '0', '0', '0']] if hi[1] == 'b' else hi[0]
    if lo[1] == 'b':
        return lo[0]
    if hi is not None and hi[1] == 'a':
        return hi[0]
    return ['v', lo[0][1], lo[0][2], ['6', '0', '1', str(trees.U64MAX)]]


def split(ms, dense):
    """common case split of several diagrams on the smallest top variable:
    yields (assignment-or-None, [sub-diagram per m])"""
    tops = [top(m) for m in ms if top(m) is not None]
    k = min(tops, key=var_key)
    kd = dump(k)
    if k[0] in ('ver', 'str'):
        cuts = []
        for m in ms:
            if top(m) is not None and dump(top(m)) == kd:
                for c, _ in m[3]:
                    if c not in cuts:
                        cuts.append(c)
        cuts.sort(key=trees.cut_key)
        bounds = [None] + cuts + [None]
        for i in range(len(bounds) - 1):
            lo, hi = bounds[i], bounds[i + 1]
            if not region_inhabited(lo, hi, dense):
                continue
            subs = []
            for m in ms:
                if top(m) is not None and dump(top(m)) == kd:
                    # child in force on this region: after the last cut <= lo
                    cur = m[2]
                    if lo is not None:
                        for c, d in m[3]:
                            if trees.cut_key(c) <= trees.cut_key(lo):
                                cur = d
                    subs.append(cur)
                else:
                    subs.append(m)
            yield (k, (lo, hi)), subs
    else:
        for val in (True, False):
            subs = []
            for m in ms:
                if top(m) is not None and dump(top(m)) == kd:
                    subs.append(m[2] if val else m[3])
                else:
                    subs.append(m)
            yield (k, val), subs


def differ(a, b, dense, path=()):
    """None if a and b denote the same function; otherwise a path of assignments leading to different leaves"""
    if a == b:
        return None
    if a in ('T', 'F') and b in ('T', 'F'):
        return list(path)
    for asg, (sa, sb) in split([a, b], dense):
        r = differ(sa, sb, dense, path + (asg,))
        if r is not None:
            return r
    return None


def find_model(ms, want, dense=False, path=()):
    """a path on which the diagrams ms evaluate to the booleans want, or None"""
    if all(m in ('T', 'F') for m in ms):
        return list(path) if all((m == 'T') == w for m, w in zip(ms, want)) else None
    for asg, subs in split(ms, dense):
        r = find_model(subs, want, dense, path + (asg,))
        if r is not None:
            return r
    return None


def env_of_path(keys, path, base):
    """turn a path of region/boolean assignments into a concrete environment + extras where possible.
    Returns (env, extras) or None when a boolean predicate cannot be arranged independently."""
    env = dict(base)
    extras = []
    want_in = []
    for k, a in path:
        if k[0] == 'ver':
            w = witness(*a)
            if w is not None:
                env[keys.ver[k[1]]] = trees.version_text(w)
        elif k[0] == 'str':
            w = witness(*a)
            if w is not None:
                t = unS(w)
                if any(0xD800 <= ord(c) <= 0xDFFF for c in t):
                    return None
                env[keys.str[k[1]]] = t
        elif k[0] == 'ex':
            if a and k[1] == '0':
                extras.append(unS(k[2]))
            elif a:
                return None
        else:
            want_in.append((k, a))
    for k, a in want_in:
        field = keys.str[k[1]]
        v = unS(k[2])
        cur = env[field]
        holds = (cur in v) if k[0] == 'in' else (v in cur)
        if holds != a:
            return None
    return env, extras
