"""Check framework: proof obligations, correspondence bookkeeping, verdict, evidence, replays."""
import json
import os
import random
import re
import subprocess
import sys
import time

from . import build, sexp

ROOT = os.environ.get('VERIF_ROOT', '/verif')
FORBIDDEN = re.compile(
    r'\b(Admitted|admit|Axiom|Axioms|Parameter|Parameters|Conjecture|Hypothesis|Variable|Variables|Hypotheses)\b'
    r'|Unset\s+Guard|Unset\s+Positivity|Unset\s+Universe|bypass_check|type-in-type|impredicative-set|Admit\s+Obligations')
# axioms of Coq's standard library that the trusted-base statement allows (none is expected)
ALLOWED_AXIOMS = set()

TRUSTED_BASE = [
    'Coq 8.16.1 kernel (coqc, full .vo build via coq_makefile; no -vos/-vok); vm_compute used for closed finite facts only; no native_compute',
    'Print Assumptions of every pinned theorem must be "Closed under the global context" (no axioms)',
    'extraction with ExtrOcamlBasic only (bool/option/list/prod/unit/sumbool to OCaml natives; N, positive, comparison stay extracted inductives; no Extract Constant) + ocaml/driver.ml (parsing and dispatch only)',
    'correspondence harness /verif/harness (Rust, public API of pep508_rs built from /repo working tree) and the orchestrator in /verif/lib/vlib (generators, conversion of kind() dumps to cut form, diffing)',
    'table translator /verif/tools/gentables.py (regenerates gen/Tables.v from /repo/src on every run: enums in declaration order and match tables arm for arm; refuses shapes it does not recognise); used by the properties that pin gen/CxxTables.v',
    'dependencies of pep508_rs are modelled or treated as oracles, not verified: pep440_rs (version text syntax, Version order, release_specifier_to_range), version-ranges, url, regex, boxcar, std',
]


def scan_forbidden():
    """Admitted/Axiom/... anywhere in the development (Section Variables/Hypotheses are allowed inside sections)."""
    hits = []
    gen = [build.GEN + '/' + f for f in sorted(os.listdir(build.GEN)) if f.endswith('.v')] if os.path.isdir(build.GEN) else []
    for p in build.coq_sources() + gen:
        depth = 0
        text = open(p).read()
        text = re.sub(r'\(\*.*?\*\)', lambda m: ' ' * len(m.group(0)) if '\n' not in m.group(0) else re.sub(r'[^\n]', ' ', m.group(0)), text, flags=re.S)
        for i, line in enumerate(text.split('\n'), 1):
            if re.match(r'\s*Section\b', line):
                depth += 1
            if re.match(r'\s*End\b', line) and depth > 0:
                depth -= 1
            for m in FORBIDDEN.finditer(line):
                w = m.group(0)
                if w in ('Variable', 'Variables', 'Hypothesis', 'Hypotheses') and depth > 0:
                    continue
                if w in ('Variable', 'Variables', 'Hypothesis', 'Hypotheses', 'Parameter', 'Parameters') and not re.match(r'\s*(Local\s+|Global\s+)?' + w + r'\b', line):
                    continue  # identifier inside a term/comment, not a vernacular command
                hits.append('%s:%d: %s' % (os.path.relpath(p, ROOT), i, line.strip()[:120]))
    return hits


class Proc:
    """a line-oriented child process (harness or model driver)"""

    def __init__(self, path, env=None, cwd=None):
        self.path = path
        self.p = subprocess.Popen([path], stdin=subprocess.PIPE, stdout=subprocess.PIPE, stderr=subprocess.DEVNULL,
                                  text=True, bufsize=1, env=env, cwd=cwd)

    def ask(self, cmd):
        line = sexp.dump(cmd) if not isinstance(cmd, str) else cmd
        try:
            self.p.stdin.write(line + '\n')
            self.p.stdin.flush()
            out = self.p.stdout.readline()
        except BrokenPipeError:
            out = ''
        if not out:
            return ['died']
        return sexp.parse(out)

    def close(self):
        try:
            self.p.stdin.close()
            self.p.wait(timeout=10)
        except Exception:
            self.p.kill()


def batch(path, cmds, env=None, cwd=None, timeout=1800):
    """run a whole list of commands through one process; returns parsed outputs (same length)"""
    inp = '\n'.join(sexp.dump(c) if not isinstance(c, str) else c for c in cmds) + '\n'
    p = subprocess.run([path], input=inp, stdout=subprocess.PIPE, stderr=subprocess.DEVNULL, text=True, env=env,
                       cwd=cwd, timeout=timeout)
    lines = p.stdout.split('\n')
    if lines and lines[-1] == '':
        lines.pop()
    out = [sexp.parse(l) for l in lines]
    while len(out) < len(cmds):
        out.append(['died'])
    return out


def batch_parallel(path, cmds, jobs=16, **kw):
    """shard a command list (stateless commands only) over several processes"""
    from concurrent.futures import ThreadPoolExecutor
    if len(cmds) < 2000:
        return batch(path, cmds, **kw)
    n = jobs
    size = (len(cmds) + n - 1) // n
    chunks = [cmds[i:i + size] for i in range(0, len(cmds), size)]
    with ThreadPoolExecutor(max_workers=n) as ex:
        res = list(ex.map(lambda c: batch(path, c, **kw), chunks))
    return [x for r in res for x in r]


class Ctx:
    def __init__(self, pid, tier, seed):
        self.pid = pid
        self.tier = tier
        self.seed = seed
        self.rng = random.Random(seed * 1000003 + int(pid[1:]))
        self.t0 = time.time()
        self.obligations = 0
        self.discharged = 0
        self.theorems = []
        self.proof_problems = []      # broken obligations (name, detail)
        self.corr_cases = 0
        self.corr_disagreements = []  # (function, case, model, impl)
        self.oracle_cases = 0
        self.oracle_failures = []     # (what, replay-dict)
        self.known_hits = []
        self.evaluations = 0
        self.distinct = set()
        self.samples = []
        self.hist = {}
        self.notes = []
        self.assumptions = []
        self.extra = {}
        kf = ROOT + '/known_findings.json'
        self.known = json.load(open(kf)) if os.path.exists(kf) else []

    # ---- bookkeeping
    def count(self, key, n=1):
        self.hist[key] = self.hist.get(key, 0) + n

    def sample(self, x, limit=12):
        if len(self.samples) < limit:
            self.samples.append(x)

    def nontrivial(self, key):
        self.distinct.add(key)

    # ---- proof obligations
    def proofs(self, prop_file):
        """compiles coq/<prop_file> from scratch; every 'Theorem' in it is an obligation; each must be
        followed by a Print Assumptions that reports no axioms."""
        src = open(build.COQ + '/' + prop_file).read()
        names = re.findall(r'^\s*Theorem\s+(\w+)', src, flags=re.M)
        self.obligations += len(names)
        self.theorems += names
        bad = scan_forbidden()
        if bad:
            self.proof_problems.append(('forbidden-token', bad[:10]))
        try:
            build.coq_make()
            out = build.compile_props(prop_file)
        except build.BuildError as e:
            self.proof_problems.append(('coq-build:' + e.what, e.output[-3000:]))
            return False
        # Print Assumptions blocks, in order
        printed = re.findall(r'Print Assumptions\s+(\w+)', src)
        missing = [n for n in names if n not in printed]
        if missing:
            self.proof_problems.append(('no-Print-Assumptions', missing))
        closed = len(re.findall(r'Closed under the global context', out))
        axioms = re.findall(r'^Axioms:\n((?:.+\n)+?)(?=\S)', out + '\nEND', flags=re.M)
        named = set()
        for blk in axioms:
            for l in blk.split('\n'):
                m = re.match(r'^(\S+)\s*:', l)
                if m:
                    named.add(m.group(1))
        notallowed = sorted(a for a in named if a not in ALLOWED_AXIOMS)
        if notallowed:
            self.proof_problems.append(('axioms', notallowed))
        if closed + len(axioms) < len(names):
            self.proof_problems.append(('assumption-reports', 'expected %d, saw %d' % (len(names), closed + len(axioms))))
        if self.tier == 'thorough':
            # independent re-check of the compiled files of this property and everything they depend on
            mod = 'PV.' + prop_file[:-2].replace('/', '.')
            p = subprocess.run(['timeout', '3000', 'coqchk', '-o', '-silent', '-Q', build.COQ, 'PV', mod], stdout=subprocess.PIPE, stderr=subprocess.STDOUT, text=True)
            m = re.search(r'\* Axioms:\s*(.*?)\n\s*\n', p.stdout, flags=re.S)
            ax = m.group(1).strip() if m else 'no summary'
            self.extra['coqchk'] = {'module': mod, 'exit': p.returncode, 'axioms': ax}
            if p.returncode != 0 or ax != '<none>':
                self.proof_problems.append(('coqchk', (p.stdout or '')[-1500:]))
        if not self.proof_problems:
            self.discharged += len(names)
        self.extra.setdefault('print_assumptions', {})[prop_file] = {'closed': closed, 'axioms': sorted(named)}
        return not self.proof_problems

    def table_proofs(self, pin_file):
        """theorems about the tables regenerated from the crate source (gen/): each 'Theorem' of gen/<pin_file> is an obligation"""
        src = open(build.GEN + '/' + pin_file).read()
        names = re.findall(r'^\s*Theorem\s+(\w+)', src, flags=re.M)
        self.obligations += len(names)
        self.theorems += names
        before = len(self.proof_problems)
        try:
            out = build.table_proofs(pin_file)
        except build.BuildError as e:
            self.proof_problems.append(('table-proofs:' + e.what, e.output[-3000:]))
            return False
        closed = len(re.findall(r'Closed under the global context', out))
        printed = re.findall(r'Print Assumptions\s+(\w+)', src)
        if [n for n in names if n not in printed] or closed < len(names):
            self.proof_problems.append(('assumption-reports (tables)', 'expected %d, saw %d' % (len(names), closed)))
        if len(self.proof_problems) == before:
            self.discharged += len(names)
        self.extra.setdefault('print_assumptions', {})['gen/' + pin_file] = {'closed': closed, 'axioms': []}
        return len(self.proof_problems) == before

    # ---- known findings
    def known_open(self, cls):
        for k in self.known:
            if k.get('property') == self.pid and k.get('status') == 'open' and k.get('class') == cls:
                return k
        return None

    # ---- results
    def disagreement(self, function, case, model, impl):
        self.corr_disagreements.append({'function': function, 'case': case, 'model': model, 'impl': impl})

    def failure(self, what, replay, cls=None):
        """a concrete input on which the implementation breaks the property"""
        k = self.known_open(cls) if cls else None
        if k is not None:
            self.known_hits.append((k, what, replay))
        else:
            self.oracle_failures.append({'what': what, 'replay': replay, 'class': cls})


def write_replay(ctx, idx, body):
    d = ROOT + '/replays'
    os.makedirs(d, exist_ok=True)
    path = '%s/%s-%s-%d-%d.json' % (d, ctx.pid, ctx.tier, ctx.seed, idx)
    body = dict(body, property=ctx.pid, tier=ctx.tier, seed=ctx.seed)
    json.dump(body, open(path, 'w'), indent=1, default=str)
    return path


def finish(ctx, checker_cmd, level='proof'):
    """verdict + evidence. Returns the exit code."""
    violations = []
    # replay files of an earlier run with the same property / tier / seed would be mistaken for this run's
    import glob
    if not os.environ.get('VERIF_KEEP_REPLAYS'):
        for old in glob.glob('%s/replays/%s-%s-%d-*.json' % (ROOT, ctx.pid, ctx.tier, ctx.seed)):
            try:
                os.remove(old)
            except OSError:
                pass
    if os.environ.get('VERIF_DEBUG'):
        json.dump({'failures': ctx.oracle_failures, 'disagreements': ctx.corr_disagreements, 'proof': ctx.proof_problems},
                  open(ROOT + '/build/debug-%s.json' % ctx.pid, 'w'), indent=1, default=str)
    # 1. concrete failing inputs on the implementation
    for i, f in enumerate(ctx.oracle_failures[:5]):
        p = write_replay(ctx, i, {'kind': 'failing-input', 'what': f['what'], 'replay': f['replay'], 'class': f['class']})
        violations.append('VIOLATION property=%s replay=%s' % (ctx.pid, p))
    # 2. a proof obligation or the correspondence no longer checks, and no failing input was found
    if not ctx.oracle_failures:
        if ctx.proof_problems:
            p = write_replay(ctx, 100, {'kind': 'proof-obligation-broken', 'problems': ctx.proof_problems,
                                        'theorems': ctx.theorems,
                                        'note': 'the search on the implementation found no input on which the property fails'})
            violations.append('VIOLATION property=%s replay=%s no-failing-input-found' % (ctx.pid, p))
        elif ctx.corr_disagreements:
            p = write_replay(ctx, 101, {'kind': 'correspondence-broken', 'disagreements': ctx.corr_disagreements[:10],
                                        'total': len(ctx.corr_disagreements),
                                        'note': 'model and implementation differ on these cases; the search on the implementation found no input on which the property fails'})
            violations.append('VIOLATION property=%s replay=%s no-failing-input-found' % (ctx.pid, p))
    seen = set()
    for k, what, replay in ctx.known_hits:
        if k['id'] in seen:
            continue
        seen.add(k['id'])
        print('KNOWN-FINDING: property=%s %s [%s] e.g. %s' % (ctx.pid, k['description'], k['id'], what))
    wall = time.time() - ctx.t0
    cov = {
        'obligations': ctx.obligations,
        'discharged': ctx.discharged,
        'checker_cmd': checker_cmd,
        'trusted_base': TRUSTED_BASE,
        'theorems': ctx.theorems,
        'evaluations': max(ctx.evaluations, 0),
        'distinct_nontrivial': len(ctx.distinct),
        'rule': ctx.extra.pop('rule', ''),
        'samples': ctx.samples if ctx.samples else ['(none)'],
        'correspondence_cases': ctx.corr_cases,
        'correspondence_disagreements': len(ctx.corr_disagreements),
        'oracle_cases': ctx.oracle_cases,
        'known_finding_hits': len(ctx.known_hits),
        'input_distribution': ctx.hist,
    }
    cov.update(ctx.extra)
    ev = {
        'property_id': ctx.pid,
        'tier': ctx.tier,
        'seed': ctx.seed,
        'level': level,
        'coverage': cov,
        'assumptions': ctx.assumptions,
        'wall_s': round(wall, 2),
        'violations': len(violations),
    }
    os.makedirs(ROOT + '/evidence', exist_ok=True)
    json.dump(ev, open('%s/evidence/%s.json' % (ROOT, ctx.pid), 'w'), indent=1, default=str)
    for v in violations:
        print(v)
    print('[%s %s] obligations %d/%d, correspondence %d cases (%d disagreements), oracle %d cases (%d failures, %d known), %.1fs' % (
        ctx.pid, ctx.tier, ctx.discharged, ctx.obligations, ctx.corr_cases, len(ctx.corr_disagreements),
        ctx.oracle_cases, len(ctx.oracle_failures), len(ctx.known_hits), wall))
    return 1 if violations else 0
