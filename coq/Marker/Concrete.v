(** Concrete value and variable types of the marker diagrams, with their orders.

    - strings are lists of code points ([str::cmp] is byte order of UTF-8 = code-point order);
    - a version is (epoch, release with trailing zeros stripped, suffix key); on stripped releases the
      zero-padded comparison of PEP 440 is plain lexicographic comparison, so the order is a Leibniz
      total order.  The suffix key is pep440_rs's [sortable_tuple] without the local segment:
      [stage; n; post+1 or 0; dev];
    - variables carry the crate's [Variable] order: Version < String < In < Contains < Extra, then the key
      (declaration index of the enum), then the value. *)
From Coq Require Import List Bool NArith.
From PV Require Import Base.Order Base.CutDef DD.DDModel DD.DDPyVer.
Import ListNotations.
Open Scope N_scope.

Definition str := list N.
Definition version := (N * (list N * list N))%type.
Definition val := (version + str)%type.

(** suffix key of a final release *)
Definition FINAL : list N := [5; 0; 0; 0].

Inductive var :=
| VVersion (k : N)
| VString (k : N)
| VIn (k : N) (s : str)
| VContains (k : N) (s : str)
| VExtra (arbitrary : bool) (s : str).

Definition var_code (v : var) : N * (N * (bool * str)) :=
  match v with
  | VVersion k => (0, (k, (false, [])))
  | VString k => (1, (k, (false, [])))
  | VIn k s => (2, (k, (false, s)))
  | VContains k s => (3, (k, (false, s)))
  | VExtra a s => (4, (0, (a, s)))
  end.

Definition var_cmp (a b : var) : comparison := cmp (var_code a) (var_code b).

Lemma var_code_inj a b : var_code a = var_code b -> a = b.
Proof. destruct a, b; cbn; intros E; inversion E; subst; reflexivity. Qed.
Lemma var_cmp_eq a b : var_cmp a b = Eq <-> a = b.
Proof. unfold var_cmp. rewrite cmp_eq. split; [apply var_code_inj|congruence]. Qed.
Lemma var_cmp_antisym a b : var_cmp b a = CompOpp (var_cmp a b).
Proof. apply cmp_antisym. Qed.
Lemma var_cmp_trans a b c : var_cmp a b = Lt -> var_cmp b c = Lt -> var_cmp a c = Lt.
Proof. apply cmp_trans_lt. Qed.
#[export] Instance var_order : TotalOrder var :=
  {| cmp := var_cmp; cmp_eq := var_cmp_eq; cmp_antisym := var_cmp_antisym; cmp_trans_lt := var_cmp_trans |}.

Definition is_range (v : var) : bool :=
  match v with VVersion _ | VString _ => true | _ => false end.

(** the values a variable can take: versions for version keys, strings for string keys *)
Definition val_ok (v : var) (x : val) : bool :=
  match v, x with
  | VVersion _, inl _ => true
  | VString _, inr _ => true
  | _, _ => false
  end.

Notation mdd := (dd var val).
Notation mvaluation := (valuation var val).

(** ** the valuation induced by a concrete environment and a set of active extras *)
Fixpoint is_prefix (p s : str) : bool :=
  match p, s with
  | [], _ => true
  | _ :: _, [] => false
  | a :: p', b :: s' => (a =? b) && is_prefix p' s'
  end.

(** [str::contains]: [p] occurs in [s] *)
Fixpoint substring (p s : str) : bool :=
  is_prefix p s || match s with [] => false | _ :: s' => substring p s' end.

Fixpoint str_eqb (a b : str) : bool :=
  match a, b with
  | [], [] => true
  | x :: a', y :: b' => (x =? y) && str_eqb a' b'
  | _, _ => false
  end.

Record env := {
  env_version : N -> version;     (* by version-key index *)
  env_string : N -> str;          (* by string-key index (deprecated spellings read the same field) *)
}.

Definition val_of_env (e : env) (extras : list str) : mvaluation :=
  {| rv := fun v => match v with
                    | VVersion k => inl (env_version e k)
                    | VString k => inr (env_string e k)
                    | _ => inr []
                    end;
     bv := fun v => match v with
                    | VIn k s => substring (env_string e k) s          (* key in 'value' *)
                    | VContains k s => substring s (env_string e k)    (* 'value' in key *)
                    | VExtra false s => existsb (str_eqb s) extras
                    | _ => false
                    end |}.

(** [evaluate_extras]: only valid extra names are fixed *)
Definition extras_only (extras : list str) (v : var) : option bool :=
  match v with
  | VExtra false s => Some (existsb (str_eqb s) extras)
  | VExtra true _ => Some false
  | _ => None
  end.

(** [simplify_extras]: the named valid extras are assumed present *)
Definition extras_present (extras : list str) (v : var) : option bool :=
  match v with
  | VExtra false s => if existsb (str_eqb s) extras then Some true else None
  | _ => None
  end.

(** [evaluate_extras_and_python_version]: as [eval_any], but an edge of a node keyed by the python_version
    key [pvk] may only be taken if its range contains one of the candidate versions *)
Definition within (x : val) (lo hi : option (cut val)) : bool :=
  match lo with None => true | Some c => negb (left_of x c) end &&
  match hi with None => true | Some c => left_of x c end.

Fixpoint eval_any_pv (pvk : N) (pvs : list version) (f : var -> option bool) (t : mdd) : bool :=
  match t with
  | Leaf b => b
  | RNode k d0 ds =>
      let allowed lo hi :=
        match k with
        | VVersion k' => if k' =? pvk then existsb (fun v => within (inl v) lo hi) pvs else true
        | _ => true
        end in
      (fix go (lo : option (cut val)) (cur : bool) (l : list (cut val * mdd)) : bool :=
         match l with
         | [] => allowed lo None && cur
         | (c, d) :: l' => (allowed lo (Some c) && cur) || go (Some c) (eval_any_pv pvk pvs f d) l'
         end) None (eval_any_pv pvk pvs f d0) ds
  | BNode k hi lo =>
      match f k with
      | Some true => eval_any_pv pvk pvs f hi
      | Some false => eval_any_pv pvk pvs f lo
      | None => eval_any_pv pvk pvs f hi || eval_any_pv pvk pvs f lo
      end
  end.

(** instances of the generic operations at the concrete types (for extraction and for the theorems) *)
Definition m_and : mdd -> mdd -> mdd := tand.
Definition m_or : mdd -> mdd -> mdd := tor.
Definition m_not : mdd -> mdd := tneg.
Definition m_disjoint : mdd -> mdd -> bool := tdisjoint.
Definition m_eval (e : env) (extras : list str) (t : mdd) : bool := eval (val_of_env e extras) t.
Definition m_wfb : mdd -> bool := wfb is_range.
Definition m_eqb : mdd -> mdd -> bool := dd_eqb.
Definition m_simplify_extras (extras : list str) (t : mdd) : mdd := trestrict (extras_present extras) t.
Definition m_eval_extras (extras : list str) (t : mdd) : bool := eval_any (extras_only extras) t.
Definition m_eval_extras_pv (pvk : N) (pvs : list version) (extras : list str) (t : mdd) : bool :=
  eval_any_pv pvk pvs (extras_only extras) t.
Definition m_simplify_pv (pfv : N) (w : window (val:=val)) (t : mdd) : mdd := simplify_pv (VVersion pfv) w t.
Definition m_complexify_pv (pfv : N) (w : window (val:=val)) (t : mdd) : mdd := complexify_pv (VVersion pfv) w t.
Definition m_val_cmp (a b : val) : comparison := cmp a b.
Definition m_var_cmp (a b : var) : comparison := cmp a b.
