(** the structural order at the concrete marker types (extracted) *)
From PV Require Import Base.Order Base.CutDef DD.DDModel DD.DDCmp Marker.Concrete.
Definition m_cmp : mdd -> mdd -> comparison := tcmp.
