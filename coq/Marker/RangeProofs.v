(** Ranges (partitions with boolean children): membership of each constructor, and the
    correspondence between the padded release comparison of PEP 440 and the model's order. *)
From Coq Require Import List Bool NArith Lia.
From PV Require Import Base.Order Base.CutDef Base.CutLemmas DD.DDModel DD.DDBasics Marker.Concrete Marker.Expr Marker.Spec.
Import ListNotations.
Open Scope N_scope.
Arguments N.eqb : simpl never.
Arguments N.compare : simpl never.
Arguments N.add : simpl never.

Definition in_range (r : range) (x : val) : bool := lookup_from x (fst r) (snd r).
Definition r_sorted (r : range) : Prop := sorted_from None (snd r).

Lemma left_of_below' (x v : val) : left_of x (v, Below) = is_lt (cmp x v).
Proof. unfold left_of. cbn [fst snd]. destruct (cmp x v); reflexivity. Qed.
Lemma left_of_above' (x v : val) : left_of x (v, Above) = negb (is_gt (cmp x v)).
Proof. unfold left_of. cbn [fst snd]. destruct (cmp x v); reflexivity. Qed.

Lemma cut_lt_below_above (v : val) : cut_cmp (v, Below) (v, Above) = Lt.
Proof. unfold cut_cmp. cbn. unfold pair_cmp. cbn [fst snd]. now rewrite cmp_refl. Qed.

Lemma in_singleton v x : in_range (r_singleton v) x = is_eq (cmp x v).
Proof.
  unfold in_range, r_singleton. cbn [fst snd lookup_from]. rewrite left_of_below', left_of_above'.
  destruct (cmp x v); reflexivity.
Qed.
Lemma in_lt v x : in_range (r_lt v) x = is_lt (cmp x v).
Proof. unfold in_range, r_lt. cbn [fst snd lookup_from]. rewrite left_of_below'. destruct (cmp x v); reflexivity. Qed.
Lemma in_le v x : in_range (r_le v) x = negb (is_gt (cmp x v)).
Proof. unfold in_range, r_le. cbn [fst snd lookup_from]. rewrite left_of_above'. destruct (cmp x v); reflexivity. Qed.
Lemma in_gt v x : in_range (r_gt v) x = is_gt (cmp x v).
Proof. unfold in_range, r_gt. cbn [fst snd lookup_from]. rewrite left_of_above'. destruct (cmp x v); reflexivity. Qed.
Lemma in_ge v x : in_range (r_ge v) x = negb (is_lt (cmp x v)).
Proof. unfold in_range, r_ge. cbn [fst snd lookup_from]. rewrite left_of_below'. destruct (cmp x v); reflexivity. Qed.

Lemma in_complement r x : in_range (r_complement r) x = negb (in_range r x).
Proof. unfold in_range, r_complement. cbn [fst snd]. apply lookup_map_snd. Qed.

Lemma in_between lo hi x : in_range (r_between lo hi) x = negb (is_lt (cmp x lo)) && is_lt (cmp x hi).
Proof.
  unfold r_between. destruct (cmp lo hi) eqn:C.
  - apply cmp_eq in C; subst. unfold in_range, r_empty; cbn [fst snd lookup_from]. destruct (cmp x hi); reflexivity.
  - unfold in_range. cbn [fst snd lookup_from]. rewrite !left_of_below'.
    destruct (cmp x lo) eqn:C1; cbn [is_lt negb andb].
    + apply cmp_eq in C1; subst x. now rewrite C.
    + reflexivity.
    + destruct (cmp x hi); reflexivity.
  - unfold in_range, r_empty; cbn [fst snd lookup_from]. destruct (cmp x lo) eqn:C1; cbn [is_lt negb andb]; try reflexivity.
    + apply cmp_eq in C1; subst. now rewrite C.
    + destruct (cmp x hi) eqn:C2; try reflexivity. apply cmp_gt_lt in C. apply cmp_gt_lt in C1.
      pose proof (cmp_trans_lt _ _ _ C C1) as L. pose proof (cmp_trans_lt _ _ _ C2 L) as L'. rewrite cmp_refl in L'. discriminate.
Qed.

Lemma bool_eqb_spec (a b : bool) : Bool.eqb a b = true <-> a = b.
Proof. destruct a, b; cbn; split; congruence. Qed.

Lemma in_union a b x : r_sorted a -> r_sorted b -> in_range (r_union a b) x = in_range a x || in_range b x.
Proof.
  intros Sa Sb. unfold in_range, r_union, r_norm. cbn [fst snd].
  rewrite (lookup_coalesce Bool.eqb bool_eqb_spec x _ _ None) by (now apply merge_sorted).
  now rewrite (merge_lookup orb x (snd a) (fst a) (snd b) (fst b) None Sa Sb I).
Qed.

Lemma sorted_union a b : r_sorted a -> r_sorted b -> r_sorted (r_union a b).
Proof. intros Sa Sb. unfold r_sorted, r_union, r_norm. cbn [snd]. apply sorted_coalesce. now apply merge_sorted. Qed.

Lemma sorted_complement r : r_sorted r -> r_sorted (r_complement r).
Proof. unfold r_sorted, r_complement. cbn [snd]. now rewrite sorted_map_snd_iff. Qed.

Lemma sorted_singleton v : r_sorted (r_singleton v).
Proof. unfold r_sorted, r_singleton. cbn. repeat split; auto. apply cut_lt_below_above. Qed.
Lemma sorted_lt v : r_sorted (r_lt v). Proof. cbn. auto. Qed.
Lemma sorted_le v : r_sorted (r_le v). Proof. cbn. auto. Qed.
Lemma sorted_gt v : r_sorted (r_gt v). Proof. cbn. auto. Qed.
Lemma sorted_ge v : r_sorted (r_ge v). Proof. cbn. auto. Qed.
Lemma sorted_between lo hi : r_sorted (r_between lo hi).
Proof.
  unfold r_sorted, r_between. destruct (cmp lo hi) eqn:C; cbn; auto. repeat split; auto.
  unfold cut_cmp. cbn. unfold pair_cmp. cbn [fst snd]. now rewrite C.
Qed.
Lemma sorted_empty : r_sorted r_empty. Proof. exact I. Qed.

(** the diagram of a range *)
Lemma eval_range_node (r : mvaluation) k rg : r_sorted rg -> eval r (range_node k rg) = in_range rg (rv r k).
Proof.
  intros S. unfold range_node. rewrite eval_mk_rnode by (now apply sorted_map_snd_iff).
  rewrite eval_rnode, (lookup_map_snd (fun b : bool => Leaf b)). reflexivity.
Qed.

(** ** stripping and the padded comparison *)
Definition zeros (l : list N) : bool := forallb (N.eqb 0) l.

Lemma strip_nil_iff : forall l, strip l = [] <-> zeros l = true.
Proof.
  induction l as [|x l IH]; cbn; [tauto|].
  destruct (strip l) eqn:E.
  - destruct (N.eqb_spec x 0) as [->|Nx]; cbn.
    + rewrite <- IH. tauto.
    + split; [discriminate|]. intros A. apply andb_true_iff in A as [A _]. apply N.eqb_eq in A. congruence.
  - split; [discriminate|]. intros A. apply andb_true_iff in A as [_ A]. apply IH in A. discriminate.
Qed.

Lemma zeros_cmp_strip : forall l, zeros_cmp l = cmp (@nil N) (strip l).
Proof.
  induction l as [|x l IH]; [reflexivity|]. cbn [zeros_cmp strip].
  destruct (N.compare_spec 0 x) as [E | L | G].
  - subst x. rewrite IH. destruct (strip l); reflexivity.
  - destruct (strip l); [|reflexivity]. destruct (N.eqb_spec x 0); [lia|reflexivity].
  - lia.
Qed.

Lemma zeros_cmp_not_gt l : zeros_cmp l <> Gt.
Proof. rewrite zeros_cmp_strip. destruct (strip l); discriminate. Qed.

Lemma zeros_cmp_eq l : zeros_cmp l = Eq <-> zeros l = true.
Proof. rewrite zeros_cmp_strip, <- strip_nil_iff. destruct (strip l); split; try reflexivity; discriminate. Qed.

Lemma str_cmp_cons' (a b : N) (x y : list N) : cmp (a :: x) (b :: y) = match cmp a b with Eq => cmp x y | c => c end.
Proof. reflexivity. Qed.

Theorem rel_cmp_strip : forall a b, rel_cmp a b = cmp (strip a) (strip b).
Proof.
  induction a as [|x a IH]; intros b.
  - cbn [rel_cmp strip]. apply zeros_cmp_strip.
  - destruct b as [|y b].
    + cbn [rel_cmp]. rewrite zeros_cmp_strip. cbn [strip]. rewrite (cmp_antisym (@nil N) _). reflexivity.
    + cbn [rel_cmp strip]. specialize (IH b).
      change (x ?= y) with (cmp x y).
      destruct (strip a) as [|a1 sa] eqn:Ea; destruct (strip b) as [|b1 sb] eqn:Eb.
      * destruct (N.eqb_spec x 0) as [->|Nx]; destruct (N.eqb_spec y 0) as [->|Ny].
        -- now rewrite cmp_refl.
        -- change (cmp 0 y) with (0 ?= y). destruct (N.compare_spec 0 y); try lia. reflexivity.
        -- change (cmp x 0) with (x ?= 0). destruct (N.compare_spec x 0); try lia. reflexivity.
        -- rewrite str_cmp_cons'. destruct (cmp x y); auto.
      * destruct (N.eqb_spec x 0) as [->|Nx].
        -- change (cmp 0 y) with (0 ?= y). destruct (N.compare_spec 0 y); try lia.
           ++ subst. rewrite IH. reflexivity. ++ reflexivity.
        -- rewrite str_cmp_cons'. destruct (cmp x y); auto.
      * destruct (N.eqb_spec y 0) as [->|Ny].
        -- change (cmp x 0) with (x ?= 0). destruct (N.compare_spec x 0); try lia.
           ++ subst. rewrite IH. reflexivity. ++ reflexivity.
        -- rewrite str_cmp_cons'. destruct (cmp x y); auto.
      * rewrite str_cmp_cons'. destruct (cmp x y); auto.
Qed.

Lemma strip_idem : forall l, strip (strip l) = strip l.
Proof.
  induction l as [|x l IH]; [reflexivity|]. cbn [strip].
  destruct (strip l) as [|y r] eqn:E.
  - destruct (N.eqb_spec x 0); [reflexivity|]. cbn. destruct (N.eqb_spec x 0); [contradiction|reflexivity].
  - change (strip (x :: y :: r)) with (match strip (y :: r) with [] => if x =? 0 then [] else [x] | r0 => x :: r0 end).
    rewrite IH. reflexivity.
Qed.

Lemma strip_strip1 l : strip (strip1 l) = strip l.
Proof. unfold strip1. destruct (strip l) eqn:E; [reflexivity|]. rewrite <- E. apply strip_idem. Qed.

Lemma rel_cmp_strip1_r a b : rel_cmp a (strip1 b) = rel_cmp a b.
Proof. now rewrite !rel_cmp_strip, strip_strip1. Qed.

(** versions: the model order on final releases is the padded release comparison *)
Lemma final_cmp (a b : list N) : cmp (final_version a) (final_version b) = rel_cmp a b.
Proof.
  rewrite rel_cmp_strip. unfold final_version.
  change (cmp (inl (0, (strip a, FINAL))) (inl (0, (strip b, FINAL))) : comparison)
    with (match cmp 0 0 with Eq => match cmp (strip a) (strip b) with Eq => cmp FINAL FINAL | c => c end | c => c end).
  rewrite !cmp_refl. destruct (cmp (strip a) (strip b)); reflexivity.
Qed.
