(** L1 model of the DNF printer of the crate: src/marker/simplify.rs ([to_dnf] = [collect_dnf] + [simplify]),
    with the helpers it calls in src/marker/tree.rs ([MarkerOperator::from_bounds], [negate], [children()],
    [edges()]) and in pep440_rs 0.7.2 ([VersionSpecifier::from_release_only_bounds], [from_lower_bound],
    [from_upper_bound], [Operator::negate]).  Definitions (and [Example]s by computation) only; the theorems
    are in Marker/DnfProofs.v.

    Conventions.
    - A [Bound<T>] pair of the crate is a pair of optional cuts ([None] = [Unbounded]); as an UPPER bound
      the cut [(v, Below)] is [Excluded v] and [(v, Above)] is [Included v]; as a LOWER bound [(v, Below)] is
      [Included v] and [(v, Above)] is [Excluded v] ([lower_of], [upper_of]).
    - A [Ranges<T>] that is the value of one entry of the IndexMap built by [collect_edges] is the list of
      its intervals in increasing order.
    - The diagram versions carry the *stripped* release (possibly empty for 0); [Version::release()] of such a
      version has at least one segment ([release_of]).  A [VersionSpecifier] is the pair (operator, release):
      [mexpr] has no room for an epoch or a pre/post/dev suffix, so a cut that is not a final epoch-0 release
      is rendered by its release only (this is also what re-parsing the crate's text yields, because
      [normalize_specifier] keeps the release only); the theorems are stated for diagrams whose version cuts
      are final ([renderable_dd] in DnfProofs.v) - the crate never builds any other. *)
From Coq Require Import List Bool NArith PeanoNat.
From PV Require Import Base.Order Base.CutDef DD.DDModel Marker.Concrete Marker.Expr.
Import ListNotations.
Open Scope N_scope.

Notation clause := (list mexpr).
Notation dnf := (list (list mexpr)).

(** ** bounds and intervals *)
Notation bound := (option (cut val)).
Notation interval := (option (cut val) * option (cut val))%type.        (* (start, end) *)

(** std::ops::Bound *)
Inductive rbound := Unbounded | Included (v : val) | Excluded (v : val).
Definition lower_of (b : bound) : rbound :=
  match b with None => Unbounded | Some (v, Below) => Included v | Some (v, Above) => Excluded v end.
Definition upper_of (b : bound) : rbound :=
  match b with None => Unbounded | Some (v, Below) => Excluded v | Some (v, Above) => Included v end.

(** [v1 == v2] on [Version] (pep440_rs version.rs:734, [cmp == Equal]) and on [String] *)
Definition val_eqb (a b : val) : bool := eqb_of a b.

(** the edge list of a range node as the crate stores it (tree.rs:1432 [edges()], tree.rs:1468 [children()]:
    a slice of (single-interval [Ranges], child)), from the cut form: first child [cur] from [lo] to the first
    cut, and so on.  simplify.rs:291-293 takes [bounding_range()] of each, i.e. exactly these pairs. *)
Fixpoint segments {A : Type} (lo : bound) (cur : A) (l : list (cut val * A)) : list (interval * A) :=
  match l with
  | [] => [((lo, None), cur)]
  | (c, a) :: l' => ((lo, Some c), cur) :: segments (Some c) a l'
  end.

(** ** [collect_edges] (simplify.rs:282-301) *)

(** the end of one interval and the start of the next are the same point of the order (the two intervals
    are adjacent without a gap: [..v) [v..   or   ..v] (v..) *)
Definition touches (hi lo : bound) : bool :=
  match hi, lo with Some a, Some b => cut_eqb a b | _, _ => false end.

(** [union.union(&range)] (simplify.rs:296) for a single-interval [range] that starts at or after the end of
    every interval already present - the only way [collect_edges] calls it on the edges of a node, which are
    sorted.  [Ranges::union] keeps the normal form of version-ranges (no two intervals adjacent): the new
    interval is merged with the last one when they touch, and appended otherwise.  (On the edges of a
    well-formed node two intervals of one entry never touch, because adjacent edges have different children:
    [no_merge] / [node_edges_props] in DnfProofs.v prove that [collect_edges] then equals plain grouping.) *)
Fixpoint ranges_push (u : list interval) (range : interval) : list interval :=
  match u with
  | [] => [range]
  | [last] => if touches (snd last) (fst range) then [(fst last, snd range)] else [last; range]
  | x :: u' => x :: ranges_push u' range
  end.

(** [paths.entry(tree).and_modify(..).or_insert_with(..)] on an IndexMap (insertion order = order of first
    occurrence); [keq] is equality of the keys ([MarkerTree] = node id) *)
Fixpoint edges_insert {A : Type} (keq : A -> A -> bool) (paths : list (A * list interval)) (tree : A) (range : interval)
  : list (A * list interval) :=
  match paths with
  | [] => [(tree, [range])]
  | (t, u) :: rest =>
      if keq t tree then (t, ranges_push u range) :: rest
      else (t, u) :: edges_insert keq rest tree range
  end.

Definition collect_edges {A : Type} (keq : A -> A -> bool) (map : list (interval * A)) : list (A * list interval) :=
  fold_left (fun paths e => edges_insert keq paths (snd e) (fst e)) map [].

(** ** [range_inequality] (simplify.rs:308-325) *)
(** the [tuple_windows] loop, lines 317-322 *)
Fixpoint ineq_windows (range : list interval) : option (list val) :=
  match range with
  | (_, hi) :: ((lo, _) :: _) as rest =>
      match upper_of hi, lower_of lo with
      | Excluded v1, Excluded v2 =>
          if val_eqb v1 v2 then option_map (cons v1) (ineq_windows rest) else None
      | _, _ => None
      end
  | _ => Some []
  end.

Definition range_inequality (range : list interval) : option (list val) :=
  match range with
  | [] => None                                                        (* is_empty() *)
  | first :: _ =>
      match fst first, snd (last range first) with                    (* bounding_range() *)
      | None, None => ineq_windows range
      | _, _ => None
      end
  end.

(** ** versions as the printer sees them *)
(** [Version::release()] of a diagram version: the stored release is stripped; at least one segment *)
Definition release_of (v : val) : list N :=
  match v with
  | inl (_, (r, _)) => match r with [] => [0] | _ => r end
  | inr _ => []
  end.
(** the value of a string cut *)
Definition string_of (v : val) : str := match v with inr s => s | inl _ => [] end.

Fixpoint nlist_eqb (a b : list N) : bool :=
  match a, b with
  | [], [] => true
  | x :: a', y :: b' => (x =? y) && nlist_eqb a' b'
  | _, _ => false
  end.

(** a [VersionSpecifier]: operator and (release of the) version *)
Notation specifier := (vop * list N)%type.

(** pep440_rs version_specifier.rs:435-446 and 449-459 *)
Definition vs_from_lower_bound (b : rbound) : list specifier :=
  match b with
  | Included v => [(OGe, release_of v)]
  | Excluded v => [(OGt, release_of v)]
  | Unbounded => []
  end.
Definition vs_from_upper_bound (b : rbound) : list specifier :=
  match b with
  | Included v => [(OLe, release_of v)]
  | Excluded v => [(OLt, release_of v)]
  | Unbounded => []
  end.

(** pep440_rs version_specifier.rs:408-432, [VersionSpecifier::from_release_only_bounds] *)
Definition vs_from_release_only_bounds (bounds : interval) : list specifier :=
  let lower := lower_of (fst bounds) in
  let upper := upper_of (snd bounds) in
  let dflt := vs_from_lower_bound lower ++ vs_from_upper_bound upper in
  match lower, upper with
  | Included v1, Included v2 => if val_eqb v1 v2 then [(OEq, release_of v1)] else dflt
  | Included v1, Excluded v2 =>
      match release_of v1 with
      | [a; b] => if nlist_eqb (release_of v2) [a; b + 1] then [(OEqStar, release_of v1)] else dflt
      | _ => dflt
      end
  | _, _ => dflt
  end.

(** simplify.rs:329-340, [release_only_specifiers] *)
Definition release_only_specifiers (bounds : interval) : list specifier :=
  match lower_of (fst bounds), upper_of (snd bounds) with
  | Included v1, Excluded v2 =>
      match release_of v1 with
      | [major] =>
          if nlist_eqb (release_of v2) [major; 1] then [(OEqStar, [major; 0])]
          else vs_from_release_only_bounds bounds
      | _ => vs_from_release_only_bounds bounds
      end
  | _, _ => vs_from_release_only_bounds bounds
  end.

(** simplify.rs:347-368, [star_range_inequality] *)
Definition star_range_inequality (range : list interval) : option specifier :=
  match range with
  | [b1; b2] =>                                                        (* collect_tuple()? *)
      match lower_of (fst b1), upper_of (snd b1), lower_of (fst b2), upper_of (snd b2) with
      | Unbounded, Excluded v1, Included v2, Unbounded =>
          match (match release_of v1 with
                 | [major] => Some (major, 0)
                 | [major; minor] => Some (major, minor)
                 | _ => None
                 end) with
          | Some (major, minor) =>
              if nlist_eqb (release_of v2) [major; minor + 1] then Some (ONeStar, [major; minor]) else None
          | None => None
          end
      | _, _, _, _ => None
      end
  | _ => None
  end.

(** ** strings: tree.rs:272-308, [MarkerOperator::from_bounds], [from_lower_bound], [from_upper_bound] *)
Definition so_from_lower_bound (b : rbound) : list (sop * str) :=
  match b with
  | Included v => [(SGe, string_of v)]
  | Excluded v => [(SGt, string_of v)]
  | Unbounded => []
  end.
Definition so_from_upper_bound (b : rbound) : list (sop * str) :=
  match b with
  | Included v => [(SLe, string_of v)]
  | Excluded v => [(SLt, string_of v)]
  | Unbounded => []
  end.
Definition so_from_bounds (bounds : interval) : list (sop * str) :=
  let lower := lower_of (fst bounds) in
  let upper := upper_of (snd bounds) in
  let dflt := so_from_lower_bound lower ++ so_from_upper_bound upper in
  match lower, upper with
  | Included v1, Included v2 => if val_eqb v1 v2 then [(SEq, string_of v1)] else dflt
  | Excluded v1, Excluded v2 => if val_eqb v1 v2 then [(SNe, string_of v1)] else dflt
  | _, _ => dflt
  end.

(** ** [collect_dnf] (simplify.rs:33-180) *)

(** the body of the loop over the entries of [collect_edges] for a version node, lines 48-88; [sub path'] is
    the recursive call [collect_dnf(&tree, dnf, path)] with [path'] the path after the pushes *)
Definition version_group (k : N) (path : clause) (sub : clause -> dnf) (range : list interval) : dnf :=
  match range_inequality range with
  | Some excluded => sub (path ++ map (fun v => EVersion k ONe (release_of v)) excluded)
  | None =>
      match star_range_inequality range with
      | Some s => sub (path ++ [EVersion k (fst s) (snd s)])
      | None =>
          flat_map (fun bounds => sub (path ++ map (fun s => EVersion k (fst s) (snd s)) (release_only_specifiers bounds)))
            range
      end
  end.

(** the same for a string node, lines 91-121 *)
Definition string_group (k : N) (path : clause) (sub : clause -> dnf) (range : list interval) : dnf :=
  match range_inequality range with
  | Some excluded => sub (path ++ map (fun v => EString k SNe (string_of v)) excluded)
  | None =>
      flat_map (fun bounds => sub (path ++ map (fun s => EString k (fst s) (snd s)) (so_from_bounds bounds))) range
  end.

(** lines 123-178: the expressions pushed for the (true, high) and the (false, low) child of a boolean node
    (tree.rs:1510, 1560, 1604: [children()] yields [(true, high)] first, then [(false, low)]) *)
Definition bool_terms (key : var) : option (mexpr * mexpr) :=
  match key with
  | VIn k s => Some (EIn k s false, EIn k s true)
  | VContains k s => Some (EContains k s false, EContains k s true)
  | VExtra arb s => Some (EExtra false arb s, EExtra true arb s)
  | _ => None
  end.

(** the entries of the IndexMap are keyed by the child; the model carries along with each child the
    function "recursive call on this child", so that the recursion is structural *)
Notation sub_t := (mdd * (list mexpr -> list (list mexpr)))%type.
Definition sub_eqb (a b : sub_t) : bool := dd_eqb (fst a) (fst b).

(** [collect_dnf tree dnf path]: the clauses pushed onto [dnf], in order.  [kind()] (tree.rs:740) decides by
    the variable of the node; a range node keyed by a boolean variable or a boolean node keyed by a range
    variable does not exist in the crate ([unreachable!]) and yields nothing here. *)
Fixpoint collect_dnf_from (tree : mdd) : clause -> dnf :=
  fun path =>
  match tree with
  | Leaf false => []
  | Leaf true => match path with [] => [] | _ => [path] end          (* if !path.is_empty() *)
  | RNode key d0 ds =>
      let edges :=
        collect_edges sub_eqb
          (segments None (d0, collect_dnf_from d0)
             ((fix go (l : list (cut val * mdd)) : list (cut val * sub_t) :=
                 match l with [] => [] | (c, d) :: l' => (c, (d, collect_dnf_from d)) :: go l' end) ds)) in
      match key with
      | VVersion k => flat_map (fun e => version_group k path (snd (fst e)) (snd e)) edges
      | VString k => flat_map (fun e => string_group k path (snd (fst e)) (snd e)) edges
      | _ => []
      end
  | BNode key hi lo =>
      match bool_terms key with
      | Some (pos, neg) => collect_dnf_from hi (path ++ [pos]) ++ collect_dnf_from lo (path ++ [neg])
      | None => []
      end
  end.

Definition collect_dnf (tree : mdd) : dnf := collect_dnf_from tree [].

(** ** equality and negation of expressions *)
Definition vop_eqb (a b : vop) : bool :=
  match a, b with
  | OEq, OEq | OEqStar, OEqStar | OExact, OExact | ONe, ONe | ONeStar, ONeStar | OTilde, OTilde
  | OLt, OLt | OLe, OLe | OGt, OGt | OGe, OGe => true
  | _, _ => false
  end.
Definition sop_eqb (a b : sop) : bool :=
  match a, b with
  | SEq, SEq | SNe, SNe | SGt, SGt | SGe, SGe | SLt, SLt | SLe, SLe => true
  | _, _ => false
  end.

(** [Version == Version] is [cmp == Equal]: releases are compared padded with zeros *)
Definition release_eqb (a b : list N) : bool := nlist_eqb (strip a) (strip b).
Definition rawversion_eqb (a b : rawversion) : bool :=
  (fst a =? fst b) && release_eqb (fst (snd a)) (fst (snd b)) && nlist_eqb (snd (snd a)) (snd (snd b)).
Fixpoint rawversions_eqb (a b : list rawversion) : bool :=
  match a, b with
  | [], [] => true
  | x :: a', y :: b' => rawversion_eqb x y && rawversions_eqb a' b'
  | _, _ => false
  end.

(** derived [PartialEq] of [MarkerExpression] (tree.rs:449); [EString]/[EIn]/[EContains] are the
    [String] variant with operators from three disjoint groups *)
Definition term_eqb (a b : mexpr) : bool :=
  match a, b with
  | EVersion k op r, EVersion k' op' r' => (k =? k') && vop_eqb op op' && release_eqb r r'
  | EVersionIn k vs n, EVersionIn k' vs' n' => (k =? k') && rawversions_eqb vs vs' && Bool.eqb n n'
  | EString k op s, EString k' op' s' => (k =? k') && sop_eqb op op' && nlist_eqb s s'
  | EIn k s n, EIn k' s' n' => (k =? k') && nlist_eqb s s' && Bool.eqb n n'
  | EContains k s n, EContains k' s' n' => (k =? k') && nlist_eqb s s' && Bool.eqb n n'
  | EExtra n arb s, EExtra n' arb' s' => Bool.eqb n n' && Bool.eqb arb arb' && nlist_eqb s s'
  | _, _ => false
  end.

(** pep440_rs version.rs:62-75, [Operator::negate] *)
Definition vop_negate (op : vop) : option vop :=
  match op with
  | OEq => Some ONe
  | OEqStar => Some ONeStar
  | OExact => Some ONe
  | ONe => Some OEq
  | ONeStar => Some OEqStar
  | OTilde => None
  | OLt => Some OGe
  | OLe => Some OGt
  | OGt => Some OLe
  | OGe => Some OLt
  end.
(** tree.rs:255-269, [MarkerOperator::negate] on the comparison operators *)
Definition sop_negate (op : sop) : sop :=
  match op with
  | SEq => SNe | SNe => SEq
  | SLt => SGe | SLe => SGt | SGt => SLe | SGe => SLt
  end.

(** simplify.rs:371-437, [is_negation left right] *)
Definition is_negation (left right : mexpr) : bool :=
  match left, right with
  | EVersion k op r, EVersion k2 op2 r2 =>
      (k =? k2) && release_eqb r r2 &&
      match vop_negate op with Some negated => vop_eqb negated op2 | None => false end
  | EVersionIn k vs n, EVersionIn k2 vs2 n2 =>
      (k =? k2) && rawversions_eqb vs vs2 && negb (Bool.eqb n n2)
  | EString k op s, EString k2 op2 s2 =>
      (k =? k2) && nlist_eqb s s2 && sop_eqb (sop_negate op) op2
  | EIn k s n, EIn k2 s2 n2 =>                                       (* In <-> NotIn *)
      (k =? k2) && nlist_eqb s s2 && Bool.eqb (negb n) n2
  | EContains k s n, EContains k2 s2 n2 =>                           (* Contains <-> NotContains *)
      (k =? k2) && nlist_eqb s s2 && Bool.eqb (negb n) n2
  | EExtra n arb s, EExtra n2 arb2 s2 =>                             (* tree.rs:508 ExtraOperator::negate *)
      Bool.eqb arb arb2 && nlist_eqb s s2 && Bool.eqb (negb n) n2
  | _, _ => false
  end.

(** ** [simplify] (simplify.rs:200-279), loop by loop *)
(** [Vec::remove] *)
Fixpoint remove_nth {A : Type} (n : nat) (l : list A) : list A :=
  match l, n with
  | [], _ => []
  | _ :: l', O => l'
  | x :: l', S n' => x :: remove_nth n' l'
  end.
(** [v[n] = x] *)
Fixpoint set_nth {A : Type} (n : nat) (x : A) (l : list A) : list A :=
  match l, n with
  | [], _ => []
  | _ :: l', O => x :: l'
  | y :: l', S n' => y :: set_nth n' x l'
  end.
(** [iter().position(p)] *)
Fixpoint position {A : Type} (p : A -> bool) (l : list A) : option nat :=
  match l with
  | [] => None
  | x :: l' => if p x then Some O else option_map S (position p l')
  end.
(** [v.contains(&n)] on indices *)
Definition nat_mem (n : nat) (l : list nat) : bool := existsb (Nat.eqb n) l.
(** [iter().enumerate()] searched for an element satisfying [f index element]; [n] is the index of the head *)
Fixpoint existsb_idx {A : Type} (f : nat -> A -> bool) (n : nat) (l : list A) : bool :=
  match l with
  | [] => false
  | x :: l' => f n x || existsb_idx f (S n) l'
  end.
(** [sort_by(|a, b| b.cmp(a))] (insertion sort; the elements are distinct) *)
Fixpoint insert_desc (x : nat) (l : list nat) : list nat :=
  match l with
  | [] => [x]
  | y :: l' => if (y <? x)%nat then x :: l else y :: insert_desc x l'
  end.
Fixpoint sort_desc (l : list nat) : list nat :=
  match l with [] => [] | x :: l' => insert_desc x (sort_desc l') end.

(** the closure of lines 218-236 applied to one [term] of the other clause *)
Definition term_covered (cl : clause) (redundant_terms : list nat) (skipped_term term : mexpr) : bool :=
  if term_eqb term skipped_term then false
  else if is_negation term skipped_term then true
  else match position (fun x => term_eqb x term) cl with
       | Some i => negb (nat_mem i redundant_terms)
       | None => false
       end.

(** the ['term] loop, lines 206-241: [todo] are the terms from index [skipped] on *)
Fixpoint redundant_terms_loop (d : dnf) (i : nat) (cl : clause) (skipped : nat) (todo : clause)
    (redundant_terms : list nat) : list nat :=
  match todo with
  | [] => redundant_terms
  | skipped_term :: todo' =>
      let found :=
        existsb_idx (fun j other_clause =>
                       negb (i =? j)%nat && forallb (term_covered cl redundant_terms skipped_term) other_clause) 0%nat d in
      redundant_terms_loop d i cl (S skipped) todo'
        (if found then redundant_terms ++ [skipped] else redundant_terms)
  end.

(** one iteration of the loop of lines 201-248 *)
Definition simplify_clause (d : dnf) (i : nat) : dnf :=
  let cl := nth i d [] in
  let redundant_terms := redundant_terms_loop d i cl 0%nat cl [] in
  set_nth i (fold_left (fun c term => remove_nth term c) (sort_desc redundant_terms) cl) d.

(** [for i in 0..dnf.len()]: [n] iterations from [i] on *)
Fixpoint simplify_terms (n i : nat) (d : dnf) : dnf :=
  match n with
  | O => d
  | S n' => simplify_terms n' (S i) (simplify_clause d i)
  end.

(** lines 264-268 *)
Definition clause_subset (other_clause cl : clause) : bool :=
  forallb (fun term => existsb (fun x => term_eqb x term) cl) other_clause.

(** the ['clause] loop, lines 253-273: [todo] are the clauses from index [i] on *)
Fixpoint redundant_clauses_loop (d : dnf) (i : nat) (todo : dnf) (redundant_clauses : list nat) : list nat :=
  match todo with
  | [] => redundant_clauses
  | cl :: todo' =>
      let found :=
        existsb_idx (fun j other_clause =>
                       negb ((i =? j)%nat || nat_mem j redundant_clauses) && clause_subset other_clause cl) 0%nat d in
      redundant_clauses_loop d (S i) todo' (if found then redundant_clauses ++ [i] else redundant_clauses)
  end.

Definition simplify (d : dnf) : dnf :=
  let d1 := simplify_terms (length d) 0%nat d in
  let redundant_clauses := redundant_clauses_loop d1 0%nat d1 [] in
  fold_left (fun d' i => remove_nth i d') (rev redundant_clauses) d1.       (* lines 276-278 *)

(** simplify.rs:20-25 *)
Definition to_dnf (tree : mdd) : dnf := simplify (collect_dnf tree).

(** ** pinned outputs.  Keys: python_full_version = 1, python_version = 2 (declaration order of
    [MarkerValueVersion]); os_name = 1, sys_platform = 12 *)
Local Definition ex (e : mexpr) : mdd := expression 2 1 e.

Example dnf_star_inequality :
  to_dnf (m_or (ex (EVersion 1 OLt [3; 8])) (ex (EVersion 1 OGe [3; 9]))) = [[EVersion 1 ONeStar [3; 8]]].
Proof. vm_compute. reflexivity. Qed.

Example dnf_star_inequality_zero :
  to_dnf (m_or (ex (EVersion 1 OLt [3])) (ex (EVersion 1 OGe [3; 1]))) = [[EVersion 1 ONeStar [3; 0]]].
Proof. vm_compute. reflexivity. Qed.

Example dnf_eq_star :
  to_dnf (m_and (ex (EVersion 1 OGe [3; 8])) (ex (EVersion 1 OLt [3; 9]))) = [[EVersion 1 OEqStar [3; 8]]].
Proof. vm_compute. reflexivity. Qed.

Example dnf_eq_star_zero :
  to_dnf (m_and (ex (EVersion 1 OGe [3])) (ex (EVersion 1 OLt [3; 1]))) = [[EVersion 1 OEqStar [3; 0]]].
Proof. vm_compute. reflexivity. Qed.

Example dnf_version_bounds :
  to_dnf (m_and (ex (EVersion 1 OGt [3; 8])) (ex (EVersion 1 OLe [3; 10; 2])))
  = [[EVersion 1 OGt [3; 8]; EVersion 1 OLe [3; 10; 2]]].
Proof. vm_compute. reflexivity. Qed.

Example dnf_version_ne :
  to_dnf (m_and (ex (EVersion 1 ONe [3; 8; 0])) (ex (EVersion 1 ONe [3; 9]))) = [[EVersion 1 ONe [3; 8]; EVersion 1 ONe [3; 9]]].
Proof. vm_compute. reflexivity. Qed.

Example dnf_string_ne : to_dnf (ex (EString 1 SNe [97])) = [[EString 1 SNe [97]]].
Proof. vm_compute. reflexivity. Qed.

Example dnf_string_two_intervals :
  to_dnf (m_or (ex (EString 1 SLt [97])) (ex (EString 1 SEq [98]))) = [[EString 1 SLt [97]]; [EString 1 SEq [98]]].
Proof. vm_compute. reflexivity. Qed.

(** [A or B] over two keys: the decision diagram is [A or (not A and B)]; the negation is dropped *)
Example dnf_or_two_keys :
  collect_dnf (m_or (ex (EString 1 SEq [97])) (ex (EString 12 SEq [98])))
  = [[EString 1 SNe [97]; EString 12 SEq [98]]; [EString 1 SEq [97]]]
  /\ to_dnf (m_or (ex (EString 1 SEq [97])) (ex (EString 12 SEq [98])))
  = [[EString 12 SEq [98]]; [EString 1 SEq [97]]].
Proof. vm_compute. split; reflexivity. Qed.

(** [(A and B) or (not A and B)] is [B] *)
Example dnf_redundant_clause :
  simplify [[EIn 1 [97] false; EString 12 SEq [98]]; [EIn 1 [97] true; EString 12 SEq [98]]] = [[EString 12 SEq [98]]].
Proof. vm_compute. reflexivity. Qed.

Example dnf_redundant_clause_dd :
  let A := ex (EIn 1 [97] false) in let B := ex (EString 12 SEq [98]) in
  to_dnf (m_or (m_and A B) (m_and (m_not A) B)) = [[EString 12 SEq [98]]].
Proof. vm_compute. reflexivity. Qed.

Example dnf_bool_order :
  to_dnf (m_or (ex (EExtra false false [97])) (ex (EIn 1 [98] false)))
  = [[EIn 1 [98] false]; [EExtra false false [97]]].
Proof. vm_compute. reflexivity. Qed.

(** TRUE and FALSE have no clause (the callers test [is_true]/[is_false] first: tree.rs [contents()]) *)
Example dnf_constants : to_dnf (Leaf true) = [] /\ to_dnf (Leaf false) = [].
Proof. vm_compute. split; reflexivity. Qed.
