(** C01: the diagram built for a marker evaluates to the PEP 508 meaning of the marker. *)
From Coq Require Import List Bool NArith Lia.
From PV Require Import Base.Order Base.CutDef Base.CutLemmas DD.DDModel DD.DDBasics DD.DDAnd DD.DDWf DD.DDWfOps
  Marker.Concrete Marker.Expr Marker.Spec Marker.RangeProofs Marker.SpecProofs Marker.PvProofs Marker.ExprProofs Marker.Sem508.
Import ListNotations.
Open Scope N_scope.
Arguments N.eqb : simpl never.
Arguments N.compare : simpl never.
Arguments N.add : simpl never.

Notation okm := (ok (var:=var) (val:=val) is_range).

Lemma string_range_correct op s v : in_range (string_range op s) (inr v) = str_holds op v s.
Proof.
  destruct op; cbn [string_range str_holds]; rewrite ?in_complement, ?in_singleton, ?in_lt, ?in_le, ?in_gt, ?in_ge; reflexivity.
Qed.

Lemma existsb_rev {A} (f : A -> bool) (l : list A) : existsb f (rev l) = existsb f l.
Proof. induction l as [|a l IH]; [reflexivity|]. cbn [rev existsb]. rewrite existsb_app. cbn [existsb]. rewrite IH, orb_false_r. apply orb_comm. Qed.

Lemma version_list_range_in (lhs : list N) : forall vs,
  in_range (version_list_range vs) (final_version lhs) = existsb (fun v => is_eq (rel_cmp lhs (fst (snd v)))) vs.
Proof.
  induction vs as [|v vs IH]; [reflexivity|]. cbn [version_list_range existsb].
  rewrite in_union by (try apply sorted_singleton; apply version_list_range_sorted).
  rewrite IH. f_equal. now rewrite in_singleton, final_cmp.
Qed.

(** one comparison *)
Theorem expr_sem (pv pfv : N) (e : penv) (m : mexpr) (X Y Z : N) : pfv <> pv ->
  pe_release e pfv = [X; Y; Z] -> in_scope pv m ->
  m_eval (env_of_penv e) (pe_extras e) (expression pv pfv m) = sem_expr pv pfv e m.
Proof.
  intros Hk Hpfv Sc. unfold m_eval.
  set (r := val_of_env (env_of_penv e) (pe_extras e)).
  assert (forall k, rv r (VVersion k) = final_version (pe_release e k)) as Hrv by reflexivity.
  destruct m as [k op rel|k vs neg|k op s|k s neg|k s neg|neg arb name]; cbn [sem_expr in_scope] in *.
  - destruct Sc as (Hn & Ht & Hc). destruct (N.eqb_spec k pv) as [-> | Ne].
    + rewrite Hpfv. change (major_minor [X; Y; Z]) with [X; Y].
      apply (pv_spec pv pfv op rel r X Y Z); auto. now rewrite Hrv, Hpfv.
    + apply (version_spec pv pfv k op rel (pe_release e k) r); auto.
  - destruct (N.eqb_spec k pv) as [-> | Ne].
    + rewrite Hpfv. change (major_minor [X; Y; Z]) with [X; Y].
      apply (pv_in_spec pv pfv vs neg r X Y Z); [|now rewrite Hrv, Hpfv].
      intros v I. destruct (Sc v I) as (Hn & Hl). split; [exact Hn|now apply Hl].
    + cbn [expression]. destruct (N.eqb_spec k pv) as [E|_]; [contradiction|].
      assert (r_sorted (version_list_range (rev vs))) as S by apply version_list_range_sorted.
      unfold spec_in.
      assert (in_range (version_list_range (rev vs)) (final_version (pe_release e k))
              = existsb (fun lit => is_eq (rel_cmp (pe_release e k) lit)) (map (fun v => fst (snd v)) vs)) as Hin.
      { rewrite version_list_range_in.
        rewrite existsb_rev. clear. induction vs as [|v vs IH]; [reflexivity|]. cbn [map existsb]. now rewrite IH. }
      destruct neg; rewrite eval_range_node by auto using sorted_complement; rewrite Hrv, ?in_complement, Hin; cbn [xorb]; [reflexivity|].
      now destruct (existsb _ _).
  - cbn [expression]. rewrite eval_range_node by apply string_range_sorted.
    change (rv r (VString k)) with (inr (pe_string e k) : val). apply string_range_correct.
  - cbn [expression]. destruct neg; cbn; destruct (substring (pe_string e k) s); reflexivity.
  - cbn [expression]. destruct neg; cbn; destruct (substring s (pe_string e k)); reflexivity.
  - cbn [expression]. destruct neg, arb; cbn; try reflexivity; destruct (existsb (str_eqb name) (pe_extras e)); reflexivity.
Qed.

Lemma expression_ok pv pfv m : okm (expression pv pfv m).
Proof. apply (wf_ok is_range). apply expression_wf. Qed.

(** the whole marker *)
Theorem compile_sem (pv pfv : N) (e : penv) (X Y Z : N) : pfv <> pv -> pe_release e pfv = [X; Y; Z] ->
  forall a : mast, ast_in_scope pv a ->
  match compile_ast pv pfv a with
  | Some t => okm t /\ sem_ast pv pfv e a = Some (m_eval (env_of_penv e) (pe_extras e) t)
  | None => sem_ast pv pfv e a = None
  end.
Proof.
  intros Hk Hpfv. induction a as [[m|]|x IHx y IHy|x IHx y IHy]; cbn [compile_ast sem_ast ast_in_scope option_map]; intros Sc.
  - split; [apply expression_ok|]. f_equal. symmetry. eapply expr_sem; eauto.
  - reflexivity.
  - destruct Sc as [Sx Sy]. specialize (IHx Sx). specialize (IHy Sy).
    destruct (compile_ast pv pfv x) as [tx|]; destruct (compile_ast pv pfv y) as [ty|]; cbn [combine_dd].
    + destruct IHx as [Ox ->], IHy as [Oy ->]. split; [apply (tand_ok is_range); auto|]. cbn [skip]. f_equal.
      unfold m_eval, m_and. destruct Ox, Oy. symmetry. now apply (tand_sem is_range).
    + destruct IHx as [Ox ->]. rewrite IHy. split; auto.
    + destruct IHy as [Oy ->]. rewrite IHx. split; auto.
    + now rewrite IHx, IHy.
  - destruct Sc as [Sx Sy]. specialize (IHx Sx). specialize (IHy Sy).
    destruct (compile_ast pv pfv x) as [tx|]; destruct (compile_ast pv pfv y) as [ty|]; cbn [combine_dd].
    + destruct IHx as [Ox ->], IHy as [Oy ->]. split; [apply (tor_ok is_range); auto|]. cbn [skip]. f_equal.
      unfold m_eval, m_or. symmetry. now apply (tor_sem is_range).
    + destruct IHx as [Ox ->]. rewrite IHy. split; auto.
    + destruct IHy as [Oy ->]. rewrite IHx. split; auto.
    + now rewrite IHx, IHy.
Qed.

Theorem C01_eval_thm (pv pfv : N) (e : penv) (X Y Z : N) (a : mast) : pfv <> pv -> pe_release e pfv = [X; Y; Z] ->
  ast_in_scope pv a ->
  m_eval (env_of_penv e) (pe_extras e) (compile pv pfv a) = sem508 pv pfv e a.
Proof.
  intros Hk Hpfv Sc. pose proof (compile_sem pv pfv e X Y Z Hk Hpfv a Sc) as C. unfold compile, sem508.
  destruct (compile_ast pv pfv a) as [t|]; [destruct C as [_ ->]; reflexivity|rewrite C; reflexivity].
Qed.

(** dropped comparisons are neutral in and/or chains (C17) *)
Lemma combine_dd_none_r is_and acc : combine_dd is_and acc None = acc.
Proof. destruct acc; reflexivity. Qed.
Lemma combine_dd_none_l is_and x : combine_dd is_and None x = x.
Proof. destruct x; reflexivity. Qed.

Fixpoint prune (a : mast) : option mast :=
  match a with
  | AExpr None => None
  | AExpr (Some m) => Some a
  | AAnd x y => match prune x, prune y with
                | Some x', Some y' => Some (AAnd x' y') | Some x', None => Some x' | None, y' => y' end
  | AOr x y => match prune x, prune y with
               | Some x', Some y' => Some (AOr x' y') | Some x', None => Some x' | None, y' => y' end
  end.

(** the result equals the marker with exactly the dropped comparisons removed (TRUE if nothing remains) *)
Theorem compile_prune (pv pfv : N) : forall a : mast,
  compile_ast pv pfv a = match prune a with Some a' => compile_ast pv pfv a' | None => None end.
Proof.
  induction a as [[m|]|x IHx y IHy|x IHx y IHy]; cbn [compile_ast prune]; try reflexivity.
  - rewrite IHx, IHy. destruct (prune x) as [x'|], (prune y) as [y'|]; cbn [compile_ast]; auto using combine_dd_none_r, combine_dd_none_l.
  - rewrite IHx, IHy. destruct (prune x) as [x'|], (prune y) as [y'|]; cbn [compile_ast]; auto using combine_dd_none_r, combine_dd_none_l.
Qed.
