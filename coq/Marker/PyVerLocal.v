(** C12 for the concrete marker diagrams: locality of [simplify] and the composition laws as identities,
    a computable sufficient condition for the density hypotheses, examples, and the counterexample
    showing that density relative to the *window bounds* cannot be dropped. *)
From Coq Require Import List Bool NArith Lia.
From PV Require Import Base.Order Base.CutDef Base.CutLemmas DD.DDModel DD.DDBasics DD.DDAnd DD.DDWf DD.DDWfOps DD.DDCanon
  DD.DDPyVer DD.DDPyVerProofs DD.DDPyVerLocal Marker.Concrete Marker.Density.
Import ListNotations.
Open Scope N_scope.

Local Notation wfm := (wf (var:=var) (val:=val) is_range).
Local Notation win := (window (val:=val)).
Local Notation tvalm := (tval (var:=var) (val:=val) is_range val_ok).

(** ** transporting [nice_pair] along inclusions of cuts *)
Lemma vacuous_gap_incl (C C' : list (cut val)) : incl C' C -> vacuous_gap C' -> vacuous_gap C.
Proof. intros I [Hm | (s & H1 & H2)]; [left; auto|right; exists s; auto]. Qed.

Lemma nice_pair_incl (a b a' b' : mdd) :
  (forall k, incl (all_cuts k a') (all_cuts k a ++ all_cuts k b)) ->
  (forall k, incl (all_cuts k b') (all_cuts k a ++ all_cuts k b)) ->
  nice_pair a b -> nice_pair a' b'.
Proof.
  intros Ia Ib Hn k. specialize (Hn k).
  assert (incl (all_cuts k a' ++ all_cuts k b') (all_cuts k a ++ all_cuts k b)) as Ic by (apply incl_app; auto).
  destruct k as [n|n|n s|n s|e s]; cbv beta iota in *; try exact I.
  - intros c I. apply Hn, Ic, I.
  - destruct Hn as [Hs Hv]. split; [intros c I; apply Hs, Ic, I|].
    intros Vg. apply Hv. eapply vacuous_gap_incl; eauto.
Qed.

Lemma nice_pair_simplify (pfv : N) (w : win) (a b : mdd) : wfm a -> wfm b ->
  nice_pair a b -> nice_pair (tsimplify_pv (VVersion pfv) w a) (tsimplify_pv (VVersion pfv) w b).
Proof.
  intros Wa Wb. apply nice_pair_incl; intros k; [apply incl_appl|apply incl_appr]; now apply (all_cuts_simplify is_range).
Qed.

(** ** 1. outside the window, simplify(m, R) takes the value m has at some point of R *)
Theorem C12_simplify_outside : forall (pfv : N) (w : win) (t : mdd), window_empty w = false -> wfm t ->
  (forall c, In c (wcuts w ++ all_cuts (VVersion pfv) t) -> release_only c) ->
  forall r : mvaluation, exists x' : val,
    in_win w x' = true /\ (tvalm r -> tvalm (upd_r r (VVersion pfv) x')) /\
    eval r (tsimplify_pv (VVersion pfv) w t) = eval (upd_r r (VVersion pfv) x') (tsimplify_pv (VVersion pfv) w t) /\
    eval r (tsimplify_pv (VVersion pfv) w t) = eval (upd_r r (VVersion pfv) x') t.
Proof.
  intros pfv w t NE W Hr.
  exact (simplify_outside is_range val_ok (VVersion pfv) w t eq_refl NE W (dense_versions pfv _ Hr)).
Qed.

(** ** 2. markers that agree on R simplify to the same marker *)
Theorem C12_simplify_local : forall (pfv : N) (w : win) (a b : mdd), window_empty w = false -> wfm a -> wfm b ->
  (forall c, In c (wcuts w ++ all_cuts (VVersion pfv) a ++ all_cuts (VVersion pfv) b) -> release_only c) ->
  nice_pair (tsimplify_pv (VVersion pfv) w a) (tsimplify_pv (VVersion pfv) w b) ->
  (forall r : mvaluation, tvalm r -> in_win w (rv r (VVersion pfv)) = true -> eval r a = eval r b) ->
  tsimplify_pv (VVersion pfv) w a = tsimplify_pv (VVersion pfv) w b.
Proof.
  intros pfv w a b NE Wa Wb Hr Hn Hag.
  exact (simplify_local is_range val_ok dflt dflt_ok (VVersion pfv) w a b eq_refl NE Wa Wb
           (dense_versions pfv _ Hr) (nice_dense _ _ Hn) Hag).
Qed.

(** the same with the hypotheses on the arguments only: bounds at final releases, [nice_pair a b] *)
Theorem C12_simplify_local_src : forall (pfv : N) (w : win) (a b : mdd), window_empty w = false -> wfm a -> wfm b ->
  (forall c, In c (wcuts w) -> release_only c) -> nice_pair a b ->
  (forall r : mvaluation, tvalm r -> in_win w (rv r (VVersion pfv)) = true -> eval r a = eval r b) ->
  tsimplify_pv (VVersion pfv) w a = tsimplify_pv (VVersion pfv) w b.
Proof.
  intros pfv w a b NE Wa Wb Hw Hn Hag. apply C12_simplify_local; auto.
  - intros c I. apply in_app_or in I as [I | I]; [now apply Hw|]. exact (Hn (VVersion pfv) c I).
  - now apply nice_pair_simplify.
Qed.

(** ** 3. the composition laws as identities *)
Theorem C12_simplify_complexify_eq : forall (pfv : N) (w : win) (t : mdd), window_empty w = false -> wfm t ->
  (forall c, In c (wcuts w ++ all_cuts (VVersion pfv) (tcomplexify_pv (VVersion pfv) w t) ++ all_cuts (VVersion pfv) t) ->
             release_only c) ->
  nice_pair (tsimplify_pv (VVersion pfv) w (tcomplexify_pv (VVersion pfv) w t)) (tsimplify_pv (VVersion pfv) w t) ->
  tsimplify_pv (VVersion pfv) w (tcomplexify_pv (VVersion pfv) w t) = tsimplify_pv (VVersion pfv) w t.
Proof.
  intros pfv w t NE W Hr Hn.
  exact (simplify_complexify_eq is_range val_ok dflt dflt_ok (VVersion pfv) w t eq_refl NE W
           (dense_versions pfv _ Hr) (nice_dense _ _ Hn)).
Qed.

Theorem C12_complexify_simplify_eq : forall (pfv : N) (w : win) (t : mdd), window_empty w = false -> wfm t ->
  nice_pair (tcomplexify_pv (VVersion pfv) w (tsimplify_pv (VVersion pfv) w t)) (tcomplexify_pv (VVersion pfv) w t) ->
  tcomplexify_pv (VVersion pfv) w (tsimplify_pv (VVersion pfv) w t) = tcomplexify_pv (VVersion pfv) w t.
Proof.
  intros pfv w t NE W Hn.
  exact (complexify_simplify_eq is_range val_ok dflt dflt_ok (VVersion pfv) w t eq_refl NE W (nice_dense _ _ Hn)).
Qed.

(** both laws (and [complexify = and]) from one hypothesis on the argument and the window:
    the cuts of [t] together with the window bounds are nice *)
Theorem C12_laws_src : forall (pfv : N) (w : win) (t : mdd), window_empty w = false -> wfm t ->
  nice_pair t (window_node (VVersion pfv) w) ->
  tsimplify_pv (VVersion pfv) w (tcomplexify_pv (VVersion pfv) w t) = tsimplify_pv (VVersion pfv) w t /\
  tcomplexify_pv (VVersion pfv) w (tsimplify_pv (VVersion pfv) w t) = tcomplexify_pv (VVersion pfv) w t /\
  tcomplexify_pv (VVersion pfv) w t = m_and t (window_node (VVersion pfv) w).
Proof.
  intros pfv w t NE W Hn. pose proof (nice_dense _ _ Hn) as D. split; [|split].
  - exact (simplify_complexify_eq_src is_range val_ok dflt dflt_ok (VVersion pfv) w t eq_refl NE W D).
  - exact (complexify_simplify_eq_src is_range val_ok dflt dflt_ok (VVersion pfv) w t eq_refl NE W D).
  - exact (complexify_eq_and_src is_range val_ok dflt dflt_ok (VVersion pfv) w t eq_refl NE W D).
Qed.

Theorem C12_m_laws_src : forall (pfv : N) (w : win) (t : mdd), wfm t ->
  (unbounded w = false -> window_empty w = false -> nice_pair t (window_node (VVersion pfv) w)) ->
  m_simplify_pv pfv w (m_complexify_pv pfv w t) = m_simplify_pv pfv w t /\
  m_complexify_pv pfv w (m_simplify_pv pfv w t) = m_complexify_pv pfv w t.
Proof.
  intros pfv w t W Hn.
  apply (pv_laws_src is_range val_ok dflt dflt_ok (VVersion pfv) w t eq_refl W).
  intros U NE. exact (nice_dense _ _ (Hn U NE)).
Qed.

(** the same for the extracted entry points (unbounded and empty ranges included) *)
Theorem C12_m_simplify_complexify_eq : forall (pfv : N) (w : win) (t : mdd), wfm t ->
  (unbounded w = false -> window_empty w = false ->
     (forall c, In c (wcuts w ++ all_cuts (VVersion pfv) (m_complexify_pv pfv w t) ++ all_cuts (VVersion pfv) t) -> release_only c) /\
     nice_pair (m_simplify_pv pfv w (m_complexify_pv pfv w t)) (m_simplify_pv pfv w t)) ->
  m_simplify_pv pfv w (m_complexify_pv pfv w t) = m_simplify_pv pfv w t.
Proof.
  intros pfv w t W Hd.
  apply (simplify_complexify_pv_eq is_range val_ok dflt dflt_ok (VVersion pfv) w t eq_refl W).
  intros U NE. destruct (Hd U NE) as [Hr Hn]. split; [exact (dense_versions pfv _ Hr)|exact (nice_dense _ _ Hn)].
Qed.

Theorem C12_m_complexify_simplify_eq : forall (pfv : N) (w : win) (t : mdd), wfm t ->
  (unbounded w = false -> window_empty w = false ->
     nice_pair (m_complexify_pv pfv w (m_simplify_pv pfv w t)) (m_complexify_pv pfv w t)) ->
  m_complexify_pv pfv w (m_simplify_pv pfv w t) = m_complexify_pv pfv w t.
Proof.
  intros pfv w t W Hd.
  apply (complexify_simplify_pv_eq is_range val_ok dflt dflt_ok (VVersion pfv) w t eq_refl W).
  intros U NE. exact (nice_dense _ _ (Hd U NE)).
Qed.

Theorem C12_m_simplify_local : forall (pfv : N) (w : win) (a b : mdd), wfm a -> wfm b ->
  (forall c, In c (wcuts w) -> release_only c) -> nice_pair a b ->
  (forall r : mvaluation, tvalm r -> in_win w (rv r (VVersion pfv)) = true -> eval r a = eval r b) ->
  m_simplify_pv pfv w a = m_simplify_pv pfv w b.
Proof.
  intros pfv w a b Wa Wb Hw Hn Hag.
  apply (simplify_pv_local is_range val_ok dflt dflt_ok (VVersion pfv) w a b eq_refl Wa Wb); auto.
  - intros U NE. rewrite !simplify_pv_proper by assumption. split.
    + apply dense_versions. intros c I. apply in_app_or in I as [I | I]; [now apply Hw|]. exact (Hn (VVersion pfv) c I).
    + apply nice_dense. now apply nice_pair_simplify.
  - intros _. now apply nice_dense.
Qed.

(** ** a computable sufficient condition: version nodes only, all cuts at final releases *)
Definition release_onlyb (c : cut val) : bool :=
  match fst c with inl (_, (_, s)) => eqb_of s FINAL | inr _ => false end.

Lemma release_onlyb_ok (c : cut val) : release_onlyb c = true -> release_only c.
Proof.
  destruct c as [[[e [rel s]]|s] sd]; unfold release_onlyb; cbn [fst]; intros E; [|discriminate].
  apply (proj1 (eqb_of_spec s FINAL)) in E. subst s. exists e, rel. reflexivity.
Qed.

Fixpoint cuts_any (t : mdd) : list (var * cut val) :=
  match t with
  | Leaf _ => []
  | RNode k d0 ds =>
      map (fun c => (k, c)) (map fst ds) ++ cuts_any d0 ++
      (fix go (l : list (cut val * mdd)) := match l with [] => [] | (_, d) :: l' => cuts_any d ++ go l' end) ds
  | BNode _ hi lo => cuts_any hi ++ cuts_any lo
  end.

Lemma cuts_any_go_in (ds : list (cut val * mdd)) (p : var * cut val) :
  In p ((fix go (l : list (cut val * mdd)) := match l with [] => [] | (_, d) :: l' => cuts_any d ++ go l' end) ds) <->
  exists d, In d (map snd ds) /\ In p (cuts_any d).
Proof.
  induction ds as [|[c' d'] ds IH]; cbn [map snd In].
  - split; [intros []|intros (d & [] & _)].
  - rewrite in_app_iff, IH. split.
    + intros [I | (d & Id & Ic)]; [exists d'; auto|exists d; auto].
    + intros (d & [<- | Id] & Ic); [left; exact Ic|right; exists d; auto].
Qed.

Lemma all_cuts_any (k : var) : forall (t : mdd) (c : cut val), In c (all_cuts k t) -> In (k, c) (cuts_any t).
Proof.
  induction t as [b|k' d0 ds IH0 IHl|k' hi lo IHh IHl] using dd_ind2; intros c I.
  - contradiction.
  - apply all_cuts_rnode_in in I. cbn [cuts_any]. rewrite !in_app_iff, cuts_any_go_in.
    destruct I as [[-> I] | (d & [-> | Id] & I)].
    + left. apply in_map_iff. exists c. auto.
    + right. left. now apply IH0.
    + right. right. exists d. split; [exact Id|]. rewrite Forall_forall in IHl. now apply IHl.
  - cbn [all_cuts] in I. cbn [cuts_any]. apply in_app_or in I. apply in_or_app. destruct I; auto.
Qed.

Definition vnice_entry (p : var * cut val) : bool :=
  match fst p with VVersion _ => release_onlyb (snd p) | _ => false end.
Definition vniceb (a b : mdd) : bool := forallb vnice_entry (cuts_any a ++ cuts_any b).

Theorem vniceb_nice (a b : mdd) : vniceb a b = true -> nice_pair a b.
Proof.
  unfold vniceb. rewrite forallb_forall. intros Hc k.
  assert (forall c, In c (all_cuts k a ++ all_cuts k b) -> vnice_entry (k, c) = true) as Hk.
  { intros c I. apply Hc. apply in_app_or in I. apply in_or_app. destruct I; [left|right]; now apply all_cuts_any. }
  destruct k as [n|n|n s|n s|e s]; cbv beta iota; try exact I.
  - intros c I. apply release_onlyb_ok. exact (Hk c I).
  - split.
    + intros c I. specialize (Hk c I). discriminate.
    + intros [I | (s & I & _)]; specialize (Hk _ I); discriminate.
Qed.

Lemma release_only_forallb (C : list (cut val)) : forallb release_onlyb C = true -> forall c, In c C -> release_only c.
Proof. rewrite forallb_forall. intros Hc c I. apply release_onlyb_ok. now apply Hc. Qed.

(** ** examples *)
Definition V (rel : list N) : val := inl (0, (rel, FINAL)).
Definition PFV : var := VVersion 1.
Definition pfv_lt (v : val) : mdd := RNode PFV (Leaf true) [((v, Below), Leaf false)].
Definition pfv_ge (v : val) : mdd := RNode PFV (Leaf false) [((v, Below), Leaf true)].

(** [python_full_version >= '3.8'] and TRUE on [3.8, oo) *)
Example C12_local_ex1 :
  let w : win := (Some (V [3; 8], Below), None) in
  let a := pfv_ge (V [3; 8]) in
  m_wfb a = true /\ a <> Leaf true /\
  tsimplify_pv PFV w a = Leaf true /\ tsimplify_pv PFV w (Leaf true) = Leaf true /\
  tsimplify_pv PFV w (tcomplexify_pv PFV w a) = tsimplify_pv PFV w a /\
  tcomplexify_pv PFV w (tsimplify_pv PFV w a) = tcomplexify_pv PFV w a /\
  tcomplexify_pv PFV w a = a.
Proof. vm_compute. repeat split; try reflexivity. discriminate. Qed.

(** [python_full_version < '3.10'] and [python_full_version < '3.12'] on [3.7, 3.9] *)
Example C12_local_ex2 :
  let w : win := (Some (V [3; 7], Below), Some (V [3; 9], Above)) in
  let a := pfv_lt (V [3; 10]) in
  let b := pfv_lt (V [3; 12]) in
  a <> b /\ tsimplify_pv PFV w a = tsimplify_pv PFV w b /\
  tsimplify_pv PFV w (tcomplexify_pv PFV w a) = tsimplify_pv PFV w a /\
  tcomplexify_pv PFV w (tsimplify_pv PFV w a) = tcomplexify_pv PFV w a /\
  tcomplexify_pv PFV w a = window_node PFV w.
Proof. vm_compute. repeat split; try reflexivity. discriminate. Qed.

(** degenerate windows: the single point [3.8, 3.8]; exclusive bounds that coincide with cuts of the marker *)
Example C12_local_ex4 :
  let wp : win := (Some (V [3; 8], Below), Some (V [3; 8], Above)) in
  let wx : win := (Some (V [3; 8], Above), Some (V [3; 10], Below)) in
  let m : mdd := RNode PFV (Leaf false) [((V [3; 8], Above), Leaf true); ((V [3; 10], Below), Leaf false)] in
  window_empty wp = false /\ window_empty wx = false /\ m_wfb m = true /\
  tsimplify_pv PFV wp (pfv_ge (V [3; 8])) = Leaf true /\ tsimplify_pv PFV wp (pfv_lt (V [3; 8])) = Leaf false /\
  tsimplify_pv PFV wp m = Leaf false /\
  tsimplify_pv PFV wx m = Leaf true /\ tcomplexify_pv PFV wx (Leaf true) = m /\
  tsimplify_pv PFV wx (tcomplexify_pv PFV wx m) = tsimplify_pv PFV wx m /\
  tcomplexify_pv PFV wx (tsimplify_pv PFV wx m) = tcomplexify_pv PFV wx m /\
  tsimplify_pv PFV wp (tcomplexify_pv PFV wp (pfv_ge (V [3; 8]))) = tsimplify_pv PFV wp (pfv_ge (V [3; 8])) /\
  tcomplexify_pv PFV wp (tsimplify_pv PFV wp (pfv_ge (V [3; 8]))) = tcomplexify_pv PFV wp (pfv_ge (V [3; 8])).
Proof. vm_compute. repeat split; reflexivity. Qed.

(** the python variable below another version variable, results that are not constants:
    two different markers that agree for python_full_version in [3.7, 3.9] *)
Definition ex3_a : mdd :=
  RNode (VVersion 0)
    (RNode PFV (Leaf false) [((V [3; 6], Below), Leaf true); ((V [3; 8], Below), Leaf false); ((V [3; 10], Below), Leaf true)])
    [((V [2], Below), pfv_lt (V [3; 10]))].
Definition ex3_b : mdd :=
  RNode (VVersion 0)
    (RNode PFV (Leaf true) [((V [3; 8], Below), Leaf false); ((V [3; 9], Above), Leaf true); ((V [3; 11], Below), Leaf false)])
    [((V [2], Below), pfv_lt (V [3; 12]))].
Definition ex3_w : win := (Some (V [3; 7], Below), Some (V [3; 9], Above)).

Example C12_local_ex3 :
  m_wfb ex3_a = true /\ m_wfb ex3_b = true /\ ex3_a <> ex3_b /\
  tsimplify_pv PFV ex3_w ex3_a = tsimplify_pv PFV ex3_w ex3_b /\
  tsimplify_pv PFV ex3_w ex3_a = RNode (VVersion 0) (pfv_lt (V [3; 8])) [((V [2], Below), Leaf true)] /\
  tsimplify_pv PFV ex3_w (tcomplexify_pv PFV ex3_w ex3_a) = tsimplify_pv PFV ex3_w ex3_a /\
  tcomplexify_pv PFV ex3_w (tsimplify_pv PFV ex3_w ex3_a) = tcomplexify_pv PFV ex3_w ex3_a /\
  tcomplexify_pv PFV ex3_w ex3_a <> ex3_a.
Proof. vm_compute. repeat split; try reflexivity; discriminate. Qed.

(** the hypotheses of the theorems are satisfiable: the density conditions by computation ... *)
Example C12_local_ex3_hyps :
  wfm ex3_a /\ wfm ex3_b /\ window_empty ex3_w = false /\
  (forall c, In c (wcuts ex3_w) -> release_only c) /\ nice_pair ex3_a ex3_b /\
  (forall c, In c (wcuts ex3_w ++ all_cuts PFV (tcomplexify_pv PFV ex3_w ex3_a) ++ all_cuts PFV ex3_a) -> release_only c) /\
  nice_pair (tsimplify_pv PFV ex3_w (tcomplexify_pv PFV ex3_w ex3_a)) (tsimplify_pv PFV ex3_w ex3_a) /\
  nice_pair (tcomplexify_pv PFV ex3_w (tsimplify_pv PFV ex3_w ex3_a)) (tcomplexify_pv PFV ex3_w ex3_a).
Proof.
  split; [apply wfb_correct; vm_compute; reflexivity|].
  split; [apply wfb_correct; vm_compute; reflexivity|].
  split; [vm_compute; reflexivity|].
  split; [apply release_only_forallb; vm_compute; reflexivity|].
  split; [apply vniceb_nice; vm_compute; reflexivity|].
  split; [apply release_only_forallb; vm_compute; reflexivity|].
  split; apply vniceb_nice; vm_compute; reflexivity.
Qed.

(** ... and the composition laws for [ex3_a] obtained from the theorems rather than by evaluation *)
Example C12_local_ex3_by_theorem :
  tsimplify_pv PFV ex3_w (tcomplexify_pv PFV ex3_w ex3_a) = tsimplify_pv PFV ex3_w ex3_a /\
  tcomplexify_pv PFV ex3_w (tsimplify_pv PFV ex3_w ex3_a) = tcomplexify_pv PFV ex3_w ex3_a.
Proof.
  destruct C12_local_ex3_hyps as (Wa & _ & NE & _ & _ & Hr & Hn1 & Hn2). split.
  - exact (C12_simplify_complexify_eq 1 ex3_w ex3_a NE Wa Hr Hn1).
  - exact (C12_complexify_simplify_eq 1 ex3_w ex3_a NE Wa Hn2).
Qed.

Example C12_local_ex3_by_theorem_src :
  m_simplify_pv 1 ex3_w (m_complexify_pv 1 ex3_w ex3_a) = m_simplify_pv 1 ex3_w ex3_a /\
  m_complexify_pv 1 ex3_w (m_simplify_pv 1 ex3_w ex3_a) = m_complexify_pv 1 ex3_w ex3_a.
Proof.
  apply C12_m_laws_src.
  - apply wfb_correct. vm_compute. reflexivity.
  - intros _ _. apply vniceb_nice. vm_compute. reflexivity.
Qed.

(** [simplify_local] applied with all hypotheses discharged: >= 3.8 versus TRUE on [3.8, oo) *)
Example C12_local_ex1_by_theorem :
  let w : win := (Some (V [3; 8], Below), None) in
  tsimplify_pv PFV w (pfv_ge (V [3; 8])) = tsimplify_pv PFV w (Leaf true).
Proof.
  intros w. apply (C12_simplify_local_src 1 w).
  - reflexivity.
  - apply wfb_correct. vm_compute. reflexivity.
  - constructor.
  - apply release_only_forallb. vm_compute. reflexivity.
  - apply vniceb_nice. vm_compute. reflexivity.
  - intros r _ X. unfold pfv_ge. rewrite eval_rnode. cbn [lookup_from].
    unfold in_win, w in X. cbn [fst snd] in X. rewrite andb_true_r in X. apply negb_true_iff in X.
    unfold PFV in *. rewrite X. reflexivity.
Qed.

(** ** the counterexample: a window bound and a cut with no value in between.
    [v38'] is the immediate successor of 3.8 in the model's version order (suffix key [FINAL ++ [0]]).
    The marker [python_full_version < v38'] is FALSE everywhere in the window [(3.8, oo)], exactly like
    the marker FALSE; both are well-formed; the cuts of the two *results* are dense; yet the two
    simplified diagrams differ.  So claims (a) and 1 need density relative to the window bounds. *)
Definition v38' : val := inl (0, ([3; 8], FINAL ++ [0])).
Definition cex_w : win := (Some (V [3; 8], Above), None).
Definition cex_a : mdd := pfv_lt v38'.

Lemma cex_no_value_between (x : val) : left_of x (V [3; 8], Above) = false -> left_of x (v38', Below) = false.
Proof.
  rewrite left_of_above, left_of_below. destruct x as [[e [rel s]]|s]; [|reflexivity].
  unfold V, v38'.
  change (cmp (inl (e, (rel, s))) (inl (0, ([3; 8], FINAL))) : comparison) with (cmp (e, (rel, s)) (0, ([3; 8], FINAL))).
  change (cmp (inl (e, (rel, s))) (inl (0, ([3; 8], FINAL ++ [0]))) : comparison) with (cmp (e, (rel, s)) (0, ([3; 8], FINAL ++ [0]))).
  rewrite !ver_cmp_unfold.
  destruct (cmp e 0); try discriminate; [|reflexivity].
  destruct (cmp rel [3; 8]); try discriminate; [|reflexivity].
  destruct (cmp s FINAL) eqn:E1; try discriminate. intros _.
  destruct (cmp s (FINAL ++ [0])) eqn:E2; try reflexivity. exfalso.
  apply cmp_gt_lt in E1.
  assert (s <> FINAL ++ [0]) as Ns by (intros ->; rewrite cmp_refl in E2; discriminate).
  pose proof (str_succ_lt FINAL s E1 Ns) as E3. apply cmp_lt_gt in E3. congruence.
Qed.

Example C12_local_counterexample :
  m_wfb cex_a = true /\ window_empty cex_w = false /\
  (forall r : mvaluation, in_win cex_w (rv r PFV) = true -> eval r cex_a = eval r (Leaf false)) /\
  dense_pair is_range val_ok (tsimplify_pv PFV cex_w cex_a) (tsimplify_pv PFV cex_w (Leaf false)) /\
  tsimplify_pv PFV cex_w cex_a = cex_a /\ tsimplify_pv PFV cex_w (Leaf false) = Leaf false /\
  tsimplify_pv PFV cex_w cex_a <> tsimplify_pv PFV cex_w (Leaf false) /\
  (* claim 1 fails as well: left of the window the simplified diagram is TRUE, a value [cex_a] never takes inside *)
  (forall r : mvaluation, left_of (rv r PFV) (V [3; 8], Above) = true -> eval r (tsimplify_pv PFV cex_w cex_a) = true) /\
  (* the composition laws still hold here *)
  tsimplify_pv PFV cex_w (tcomplexify_pv PFV cex_w cex_a) = tsimplify_pv PFV cex_w cex_a /\
  tcomplexify_pv PFV cex_w (tsimplify_pv PFV cex_w cex_a) = tcomplexify_pv PFV cex_w cex_a.
Proof.
  assert (tsimplify_pv PFV cex_w cex_a = cex_a) as Ea by (vm_compute; reflexivity).
  assert (tsimplify_pv PFV cex_w (Leaf false) = Leaf false) as Eb by reflexivity.
  split; [vm_compute; reflexivity|]. split; [reflexivity|]. split; [|split; [|split; [exact Ea|split; [exact Eb|split; [|split; [|split]]]]]].
  - intros r X. unfold cex_a, pfv_lt. rewrite eval_rnode. cbn [lookup_from].
    unfold in_win, cex_w in X. cbn [fst snd] in X. rewrite andb_true_r in X. apply negb_true_iff in X.
    rewrite (cex_no_value_between _ X). reflexivity.
  - rewrite Ea, Eb. intros k R. destruct (eqb_of k PFV) eqn:E.
    + apply (proj1 (eqb_of_spec k PFV)) in E. subst k.
      assert (all_cuts PFV cex_a ++ all_cuts PFV (Leaf false) = [(v38', Below)]) as -> by (vm_compute; reflexivity).
      constructor.
      * intros c c' [<- | []] [<- | []] L. rewrite cut_cmp_refl in L. discriminate.
      * intros c [<- | []]. exists (V [3; 8]). split; vm_compute; reflexivity.
      * intros c [<- | []]. exists v38'. split; vm_compute; reflexivity.
      * exists (V [3; 8]). reflexivity.
    + assert (all_cuts k cex_a ++ all_cuts k (Leaf false) = []) as ->.
      { unfold cex_a, pfv_lt. cbn [all_cuts]. rewrite E. reflexivity. }
      constructor; [intros c c' []|intros c []|intros c []|]. exists (dflt k). exact (dflt_ok k R).
  - rewrite Ea, Eb. discriminate.
  - intros r X. rewrite Ea. unfold cex_a, pfv_lt. rewrite eval_rnode. cbn [lookup_from].
    assert (cut_cmp (V [3; 8], Above) (v38', Below) = Lt) as L by (vm_compute; reflexivity).
    rewrite (left_of_mono _ _ _ L X). reflexivity.
  - vm_compute. reflexivity.
  - vm_compute. reflexivity.
Qed.

Print Assumptions C12_simplify_outside.
Print Assumptions C12_simplify_local.
Print Assumptions C12_simplify_local_src.
Print Assumptions C12_simplify_complexify_eq.
Print Assumptions C12_complexify_simplify_eq.
Print Assumptions C12_laws_src.
Print Assumptions C12_m_laws_src.
Print Assumptions C12_m_simplify_complexify_eq.
Print Assumptions C12_m_complexify_simplify_eq.
Print Assumptions C12_m_simplify_local.
Print Assumptions vniceb_nice.
Print Assumptions C12_local_ex3_by_theorem.
Print Assumptions C12_local_ex3_by_theorem_src.
Print Assumptions C12_local_ex1_by_theorem.
Print Assumptions C12_local_counterexample.
