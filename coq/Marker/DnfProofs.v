(** C05: the DNF rendered for a marker ([to_dnf] of Marker/DnfModel.v) denotes the marker.

    Main statements (for every valuation [ro] of the diagram variables, and as instances for every
    environment and set of extras):
    - [collect_dnf_sem]:  [eval_dnf (collect_dnf t) = m_eval t]  for well-formed renderable [t <> TRUE];
    - [simplify_sem]:     [eval_dnf (simplify d) = eval_dnf d]  when the tests of [simplify] are sound on [d]
                          ([coherent]; implied by [plain_dnf], which holds of everything [collect_dnf] prints);
                          three counterexamples show that the hypothesis cannot be dropped;
    - [to_dnf_sem], [to_dnf_roundtrip_sem], [to_dnf_roundtrip_id], [C05_to_dnf];
    - [renderable_dd] holds of [expression _] and is preserved by [tneg], [tand], [tor], hence holds of [compile _]. *)
From Coq Require Import List Bool NArith PeanoNat Lia.
From PV Require Import Base.Order Base.CutDef Base.CutLemmas DD.DDModel DD.DDBasics DD.DDAnd DD.DDWf DD.DDWfOps DD.DDPaths
  Marker.Concrete Marker.Density Marker.Expr Marker.Spec Marker.RangeProofs Marker.SpecProofs Marker.ExprProofs Marker.Sem508 Marker.Sem508Proofs DD.DDCanon Marker.DnfModel.
Import ListNotations.
Open Scope N_scope.
Arguments N.eqb : simpl never.
Arguments N.compare : simpl never.
Arguments N.add : simpl never.

(** * Part A: the edges of a range node, grouped by child *)

(** membership of a value in an interval *)
Definition btw (x : val) (iv : interval) : bool := between x (fst iv) (snd iv).

(** ** the segments of a sorted partition: exactly one contains [x], and it leads to the child looked up *)
Lemma segments_none {A} (F : A -> bool) (x : val) : forall (l : list (cut val * A)) c cur,
  sorted_from (Some c) l -> left_of x c = true ->
  existsb (fun s => btw x (fst s) && F (snd s)) (segments (Some c) cur l) = false.
Proof.
  induction l as [|[c' a] l IH]; intros c cur S X; cbn [segments existsb fst snd].
  - unfold btw. cbn [fst snd]. now rewrite (between_left x c None X).
  - cbn [sorted_from] in S. destruct S as [L S]. unfold btw at 1. cbn [fst snd].
    rewrite (between_left x c (Some c') X). cbn [andb orb]. apply IH; auto. eapply left_of_mono; eauto.
Qed.

Lemma segments_sem {A} (F : A -> bool) (x : val) : forall (l : list (cut val * A)) lo cur,
  sorted_from lo l -> after lo x ->
  existsb (fun s => btw x (fst s) && F (snd s)) (segments lo cur l) = F (lookup_from x cur l).
Proof.
  induction l as [|[c a] l IH]; intros lo cur S Af; cbn [segments existsb fst snd lookup_from].
  - unfold btw. cbn [fst snd]. rewrite (between_after x lo None Af). cbn. now rewrite orb_false_r.
  - cbn [sorted_from] in S. destruct S as [L S]. unfold btw at 1. cbn [fst snd].
    rewrite (between_after x lo (Some c) Af). destruct (left_of x c) eqn:X.
    + cbn [andb]. rewrite (segments_none F x l c a S X). now rewrite orb_false_r.
    + cbn [andb orb]. apply IH; auto.
Qed.

Lemma segments_map {A B} (f : A -> B) : forall (l : list (cut val * A)) lo cur,
  segments lo (f cur) (map_snd f l) = map (fun s => (fst s, f (snd s))) (segments lo cur l).
Proof.
  unfold map_snd. induction l as [|[c a] l IH]; intros lo cur; cbn [segments map fst snd]; [reflexivity|].
  now rewrite IH.
Qed.

Lemma segments_children {A} : forall (l : list (cut val * A)) lo cur s,
  In s (segments lo cur l) -> snd s = cur \/ In (snd s) (map snd l).
Proof.
  induction l as [|[c a] l IH]; intros lo cur s I; cbn [segments] in I.
  - destruct I as [<- | []]. now left.
  - destruct I as [<- | I]; [now left|]. right. cbn [map snd]. destruct (IH _ _ _ I) as [E | I']; [left|right]; auto.
Qed.

(** ** grouping without merging *)
Fixpoint plain_insert {A : Type} (keq : A -> A -> bool) (paths : list (A * list interval)) (tree : A) (range : interval)
  : list (A * list interval) :=
  match paths with
  | [] => [(tree, [range])]
  | (t, u) :: rest =>
      if keq t tree then (t, u ++ [range]) :: rest
      else (t, u) :: plain_insert keq rest tree range
  end.
Definition collect_plain {A : Type} (keq : A -> A -> bool) (map : list (interval * A)) (paths : list (A * list interval)) :=
  fold_left (fun paths e => plain_insert keq paths (snd e) (fst e)) map paths.

Lemma ranges_push_plain : forall u range,
  Forall (fun iv => touches (snd iv) (fst range) = false) u -> ranges_push u range = u ++ [range].
Proof.
  induction u as [|a u IH]; intros range F; [reflexivity|].
  inversion F as [|? ? Ha Hu]; subst. destruct u as [|b u'].
  - cbn [ranges_push]. now rewrite Ha.
  - change (ranges_push (a :: b :: u') range) with (a :: ranges_push (b :: u') range). now rewrite IH.
Qed.

Section Group.
Context {A : Type} (keq : A -> A -> bool).
Hypothesis keq_spec : forall a b, keq a b = true <-> a = b.

Lemma plain_insert_in paths t r d ivs :
  In (d, ivs) (plain_insert keq paths t r) ->
  In (d, ivs) paths \/ (d = t /\ (ivs = [r] \/ exists ivs0, In (d, ivs0) paths /\ ivs = ivs0 ++ [r])).
Proof.
  induction paths as [|[t' u] rest IH]; cbn [plain_insert].
  - intros [E | []]. inversion E; subst. right. split; auto.
  - destruct (keq t' t) eqn:K.
    + apply keq_spec in K; subst t'. intros [E | I].
      * inversion E; subst. right. split; auto. right. exists u. split; [now left|reflexivity].
      * left. now right.
    + intros [E | I].
      * left. left. exact E.
      * destruct (IH I) as [I' | (-> & [-> | (ivs0 & I0 & ->)])].
        -- left. now right.
        -- right. split; auto.
        -- right. split; auto. right. exists ivs0. split; [now right|reflexivity].
Qed.

(** merging never happens when the interval to insert does not touch any interval of its group *)
Lemma edges_insert_plain paths t r :
  (forall ivs iv, In (t, ivs) paths -> In iv ivs -> touches (snd iv) (fst r) = false) ->
  edges_insert keq paths t r = plain_insert keq paths t r.
Proof.
  induction paths as [|[t' u] rest IH]; intros Hn; cbn [edges_insert plain_insert]; [reflexivity|].
  destruct (keq t' t) eqn:K.
  - apply keq_spec in K; subst t'. rewrite ranges_push_plain; [reflexivity|].
    apply Forall_forall. intros iv I. apply (Hn u iv); [now left|exact I].
  - f_equal. apply IH. intros ivs iv I I'. apply (Hn ivs iv); [now right|exact I'].
Qed.

(** semantics of the groups *)
Definition gsem (F : A -> bool) (x : val) (paths : list (A * list interval)) : bool :=
  existsb (fun g => existsb (btw x) (snd g) && F (fst g)) paths.

Lemma gsem_insert F x paths t r :
  gsem F x (plain_insert keq paths t r) = gsem F x paths || (btw x r && F t).
Proof.
  unfold gsem. induction paths as [|[t' u] rest IH]; cbn [plain_insert existsb fst snd].
  - now rewrite !orb_false_r.
  - destruct (keq t' t) eqn:K.
    + apply keq_spec in K; subst t'. cbn [existsb fst snd]. rewrite existsb_app. cbn [existsb].
      destruct (existsb (btw x) u), (btw x r), (F t), (existsb _ rest); reflexivity.
    + cbn [existsb fst snd]. rewrite IH. now rewrite orb_assoc.
Qed.

Lemma gsem_collect F x : forall segs paths,
  gsem F x (collect_plain keq segs paths) = gsem F x paths || existsb (fun s => btw x (fst s) && F (snd s)) segs.
Proof.
  unfold collect_plain. induction segs as [|s segs IH]; intros paths; cbn [fold_left existsb].
  - now rewrite orb_false_r.
  - rewrite IH, gsem_insert. now rewrite orb_assoc.
Qed.

(** where the intervals of the groups come from *)
Lemma collect_plain_in : forall segs paths d ivs iv,
  In (d, ivs) (collect_plain keq segs paths) -> In iv ivs ->
  (exists ivs0, In (d, ivs0) paths /\ In iv ivs0) \/ In (iv, d) segs.
Proof.
  unfold collect_plain. induction segs as [|[r t] segs IH]; intros paths d ivs iv I Iv; cbn [fold_left fst snd] in I.
  - left. exists ivs. auto.
  - destruct (IH _ _ _ _ I Iv) as [(ivs0 & I0 & Iv0) | Is]; [|right; now right].
    destruct (plain_insert_in _ _ _ _ _ I0) as [Ip | (-> & [-> | (ivs1 & I1 & ->)])].
    + left. exists ivs0. auto.
    + destruct Iv0 as [<- | []]. right. now left.
    + apply in_app_or in Iv0 as [Iv1 | [<- | []]].
      * left. exists ivs1. auto.
      * right. now left.
Qed.

Lemma collect_plain_nonempty : forall segs paths,
  (forall d ivs, In (d, ivs) paths -> ivs <> []) ->
  forall d ivs, In (d, ivs) (collect_plain keq segs paths) -> ivs <> [].
Proof.
  unfold collect_plain. induction segs as [|[r t] segs IH]; intros paths Hp d ivs I; cbn [fold_left fst snd] in I.
  - eapply Hp; eauto.
  - eapply IH; [|exact I]. intros d' ivs' I'.
    destruct (plain_insert_in _ _ _ _ _ I') as [Ip | (-> & [-> | (ivs1 & I1 & ->)])].
    + eapply Hp; eauto.
    + discriminate.
    + destruct ivs1; discriminate.
Qed.

Lemma collect_plain_keys : forall segs paths d ivs,
  In (d, ivs) (collect_plain keq segs paths) -> In d (map fst paths) \/ In d (map snd segs).
Proof.
  unfold collect_plain. induction segs as [|[r t] segs IH]; intros paths d ivs I; cbn [fold_left fst snd] in I.
  - left. apply (in_map fst) in I. exact I.
  - destruct (IH _ _ _ I) as [Ik | Is]; [|right; now right].
    apply in_map_iff in Ik as [[d' ivs'] [E I']]. cbn in E; subst d'.
    destruct (plain_insert_in _ _ _ _ _ I') as [Ip | (-> & _)].
    + left. apply (in_map fst) in Ip. exact Ip.
    + right. now left.
Qed.

(** ** no merging on the edges of a reduced sorted partition *)
Definition cut_le (a b : cut val) : Prop := cut_cmp a b <> Gt.

Lemma cut_le_refl a : cut_le a a.
Proof. unfold cut_le. rewrite cut_cmp_refl. discriminate. Qed.
Lemma cut_le_lt a b c : cut_le a b -> cut_cmp b c = Lt -> cut_cmp a c = Lt.
Proof.
  unfold cut_le. intros L1 L2. destruct (cut_cmp a b) eqn:E; [| |contradiction].
  - apply cut_cmp_eq in E. now subst. - eapply cut_cmp_lt_trans; eauto.
Qed.
Lemma cut_lt_le a b : cut_cmp a b = Lt -> cut_le a b.
Proof. unfold cut_le. intros ->. discriminate. Qed.
Lemma touches_lt (a b : cut val) : cut_cmp a b = Lt -> touches (Some a) (Some b) = false.
Proof. unfold touches, cut_eqb, eqb_of, cut_cmp. now intros ->. Qed.

Definition merge_inv (lo : bound) (cur : A) (paths : list (A * list interval)) : Prop :=
  forall d ivs iv, In (d, ivs) paths -> In iv ivs ->
    exists c' c, snd iv = Some c' /\ lo = Some c /\ (cut_cmp c' c = Lt \/ (c' = c /\ d <> cur)).

Lemma merge_inv_insert lo cur paths r :
  merge_inv lo cur paths -> fst r = lo -> edges_insert keq paths cur r = plain_insert keq paths cur r.
Proof.
  intros Inv E. apply edges_insert_plain. intros ivs iv I Iv.
  destruct (Inv _ _ _ I Iv) as (c' & c & E1 & E2 & [L | [_ N]]); [|contradiction].
  rewrite E1, E, E2. now apply touches_lt.
Qed.

Lemma no_merge : forall (l : list (cut val * A)) lo cur paths,
  sorted_from lo l -> reduced cur l -> merge_inv lo cur paths ->
  fold_left (fun paths e => edges_insert keq paths (snd e) (fst e)) (segments lo cur l) paths
  = collect_plain keq (segments lo cur l) paths.
Proof.
  unfold collect_plain. induction l as [|[c1 a] l IH]; intros lo cur paths S R Inv; cbn [segments fold_left fst snd].
  - now apply (merge_inv_insert lo).
  - cbn [sorted_from] in S. destruct S as [L S]. cbn [reduced] in R. destruct R as [N R].
    rewrite (merge_inv_insert lo cur paths (lo, Some c1) Inv eq_refl).
    apply IH; auto. intros d ivs iv I Iv.
    destruct (plain_insert_in _ _ _ _ _ I) as [Ip | (-> & [-> | (ivs1 & I1 & ->)])].
    + destruct (Inv _ _ _ Ip Iv) as (c' & c & E1 & E2 & Hc). subst lo. exists c', c1. split; [exact E1|]. split; [reflexivity|].
      left. destruct Hc as [Lc | [-> _]]; [eapply cut_cmp_lt_trans; eauto|exact L].
    + destruct Iv as [<- | []]. exists c1, c1. cbn [snd]. split; [reflexivity|]. split; [reflexivity|]. right. split; [reflexivity|exact N].
    + apply in_app_or in Iv as [Iv1 | [<- | []]].
      * destruct (Inv _ _ _ I1 Iv1) as (c' & c & E1 & E2 & Hc). subst lo. exists c', c1. split; [exact E1|]. split; [reflexivity|].
        left. destruct Hc as [Lc | [-> _]]; [eapply cut_cmp_lt_trans; eauto|exact L].
      * exists c1, c1. cbn [snd]. split; [reflexivity|]. split; [reflexivity|]. right. split; [reflexivity|exact N].
Qed.

(** ** the intervals of a group are in increasing order *)
Fixpoint pairwise {X : Type} (R : X -> X -> Prop) (l : list X) : Prop :=
  match l with [] => True | a :: l' => Forall (R a) l' /\ pairwise R l' end.

Lemma pairwise_snoc {X} (R : X -> X -> Prop) : forall l b, pairwise R l -> Forall (fun a => R a b) l -> pairwise R (l ++ [b]).
Proof.
  induction l as [|a l IH]; intros b P F; cbn [app pairwise]; [split; auto|].
  destruct P as [Fa P]. inversion F as [|? ? Hab Fl]; subst. split; [|now apply IH].
  apply Forall_app. split; [exact Fa|]. constructor; auto.
Qed.

(** the first ends where the second starts, or before *)
Definition prec (i1 i2 : interval) : Prop := exists c c', snd i1 = Some c /\ fst i2 = Some c' /\ cut_le c c'.
Definition ends_le (lo : bound) (iv : interval) : Prop := exists c' c, snd iv = Some c' /\ lo = Some c /\ cut_le c' c.

Lemma plain_sorted : forall (l : list (cut val * A)) lo cur paths,
  sorted_from lo l ->
  (forall d ivs, In (d, ivs) paths -> pairwise prec ivs /\ Forall (ends_le lo) ivs) ->
  forall d ivs, In (d, ivs) (collect_plain keq (segments lo cur l) paths) -> pairwise prec ivs.
Proof.
  unfold collect_plain.
  assert (forall lo hi ivs, pairwise prec ivs -> Forall (ends_le lo) ivs -> pairwise prec (ivs ++ [(lo, hi)])) as Snoc.
  { intros lo hi ivs P F. apply pairwise_snoc; [exact P|]. apply Forall_forall. intros iv I.
    rewrite Forall_forall in F. destruct (F iv I) as (c' & c & E1 & E2 & Lc). exists c', c. cbn [fst]. auto. }
  induction l as [|[c1 a] l IH]; intros lo cur paths S Hp d ivs I; cbn [segments fold_left fst snd] in I.
  - destruct (plain_insert_in _ _ _ _ _ I) as [Ip | (-> & [-> | (ivs1 & I1 & ->)])].
    + now apply (Hp d ivs).
    + cbn. auto.
    + destruct (Hp _ _ I1) as [P F]. now apply Snoc.
  - cbn [sorted_from] in S. destruct S as [L S].
    refine (IH (Some c1) a (plain_insert keq paths cur (lo, Some c1)) S _ d ivs I).
    assert (forall iv, ends_le lo iv -> ends_le (Some c1) iv) as Mono.
    { intros iv (c' & c & E1 & E2 & Lc). subst lo. exists c', c1. split; [exact E1|]. split; [reflexivity|].
      apply cut_lt_le. eapply cut_le_lt; eauto. }
    assert (ends_le (Some c1) (lo, Some c1)) as New.
    { exists c1, c1. cbn [snd]. split; [reflexivity|]. split; [reflexivity|]. apply cut_le_refl. }
    intros d' ivs' I'.
    destruct (plain_insert_in _ _ _ _ _ I') as [Ip | (-> & [-> | (ivs1 & I1 & ->)])].
    + destruct (Hp _ _ Ip) as [P F]. split; [exact P|]. eapply Forall_impl; [exact Mono|exact F].
    + split; [cbn; auto|]. constructor; auto.
    + destruct (Hp _ _ I1) as [P F]. split; [now apply Snoc|].
      apply Forall_app. split; [eapply Forall_impl; [exact Mono|exact F]|]. constructor; auto.
Qed.
End Group.

(** ** properties of the segment intervals *)
Definition proper (iv : interval) : Prop :=
  match fst iv, snd iv with Some a, Some b => cut_cmp a b = Lt | _, _ => True end.

Lemma segments_proper {A} : forall (l : list (cut val * A)) lo cur s,
  sorted_from lo l -> In s (segments lo cur l) -> proper (fst s).
Proof.
  induction l as [|[c a] l IH]; intros lo cur s S I; cbn [segments] in I.
  - destruct I as [<- | []]. unfold proper. cbn. now destruct lo.
  - cbn [sorted_from] in S. destruct S as [L S]. destruct I as [<- | I]; [|eapply IH; eauto].
    unfold proper. cbn. destruct lo; auto.
Qed.

Lemma segments_not_full {A} : forall (l : list (cut val * A)) lo cur s,
  lo <> None \/ l <> [] -> In s (segments lo cur l) -> fst s <> (None, None).
Proof.
  induction l as [|[c a] l IH]; intros lo cur s Hn I; cbn [segments] in I.
  - destruct I as [<- | []]. cbn. destruct Hn as [Hn | Hn]; [|contradiction]. intros E. inversion E. contradiction.
  - destruct I as [<- | I]; [cbn; discriminate|]. eapply IH; [|exact I]. left. discriminate.
Qed.

(** the bounds of the segment intervals are [lo] or cuts of the list *)
Definition bound_in (P : cut val -> Prop) (b : bound) : Prop := match b with None => True | Some c => P c end.

Lemma segments_bounds {A} (P : cut val -> Prop) : forall (l : list (cut val * A)) lo cur s,
  bound_in P lo -> Forall P (map fst l) -> In s (segments lo cur l) ->
  bound_in P (fst (fst s)) /\ bound_in P (snd (fst s)).
Proof.
  induction l as [|[c a] l IH]; intros lo cur s Hlo F I; cbn [segments] in I.
  - destruct I as [<- | []]. cbn. auto.
  - cbn [map fst] in F. inversion F as [|? ? Hc Fl]; subst. destruct I as [<- | I]; [cbn; auto|].
    eapply IH; [| |exact I]; auto.
Qed.

(** * Part B: what the comparisons printed for one interval mean *)

(** the diagram-level meaning of a version specifier / string comparison at a value *)
Definition vsem (s : specifier) (x : val) : bool := in_range (spec_range (fst s) (normalize_spec (fst s) (snd s))) x.
Definition ssem (s : sop * str) (x : val) : bool := in_range (string_range (fst s) (snd s)) x.

(** version cuts that the printer can render: final releases of epoch 0, stripped *)
Definition final_val (v : val) : Prop := exists rl, v = inl (0, (rl, FINAL)) /\ strip rl = rl.
Definition final_cut (c : cut val) : Prop := final_val (fst c).
Definition string_cut (c : cut val) : Prop := exists s, fst c = inr s.

Lemma strip_single0 : strip [0] = [].
Proof. reflexivity. Qed.

Lemma final_release v : final_val v -> final_version (release_of v) = v.
Proof.
  intros (rl & -> & E). unfold final_version, release_of. destruct rl as [|a rl'].
  - now rewrite strip_single0.
  - now rewrite E.
Qed.

Lemma final_release1 v : final_val v -> final_version (strip1 (release_of v)) = v.
Proof.
  intros F. rewrite <- (final_release v F) at 2. unfold final_version. now rewrite strip_strip1.
Qed.

Lemma final_version_pad0 m : final_version [m; 0] = final_version [m].
Proof. unfold final_version. cbn [strip]. now rewrite N.eqb_refl. Qed.

Lemma nlist_eqb_spec : forall a b, nlist_eqb a b = true <-> a = b.
Proof.
  induction a as [|x a IH]; destruct b as [|y b]; cbn [nlist_eqb]; try (split; [discriminate|congruence]).
  - tauto.
  - rewrite andb_true_iff, N.eqb_eq, IH. split; [intros [-> ->]; reflexivity|intros [= -> ->]; auto].
Qed.

Lemma val_eqb_spec a b : val_eqb a b = true <-> a = b.
Proof. apply eqb_of_spec. Qed.

Section Interval.
Variable x : val.

Lemma vsem_ge rel : vsem (OGe, rel) x = negb (is_lt (cmp x (final_version (strip1 rel)))).
Proof. apply in_ge. Qed.
Lemma vsem_gt rel : vsem (OGt, rel) x = is_gt (cmp x (final_version (strip1 rel))).
Proof. apply in_gt. Qed.
Lemma vsem_le rel : vsem (OLe, rel) x = negb (is_gt (cmp x (final_version (strip1 rel)))).
Proof. apply in_le. Qed.
Lemma vsem_lt rel : vsem (OLt, rel) x = is_lt (cmp x (final_version (strip1 rel))).
Proof. apply in_lt. Qed.
Lemma vsem_eq rel : vsem (OEq, rel) x = is_eq (cmp x (final_version (strip1 rel))).
Proof. apply in_singleton. Qed.
Lemma vsem_ne rel : vsem (ONe, rel) x = negb (is_eq (cmp x (final_version (strip1 rel)))).
Proof. unfold vsem. cbn [fst snd spec_range normalize_spec]. now rewrite in_complement, in_singleton. Qed.
Lemma vsem_eqstar rel : vsem (OEqStar, rel) x
  = negb (is_lt (cmp x (final_version rel))) && is_lt (cmp x (final_version (bump_last rel))).
Proof. apply in_between. Qed.
Lemma vsem_nestar rel : vsem (ONeStar, rel) x
  = negb (negb (is_lt (cmp x (final_version rel))) && is_lt (cmp x (final_version (bump_last rel)))).
Proof. unfold vsem. cbn [fst snd spec_range normalize_spec]. now rewrite in_complement, in_between. Qed.

Lemma lower_sem lo : bound_in final_cut lo ->
  forallb (fun s => vsem s x) (vs_from_lower_bound (lower_of lo)) = match lo with None => true | Some c => negb (left_of x c) end.
Proof.
  destruct lo as [[v [|]]|]; cbn [bound_in lower_of vs_from_lower_bound forallb]; [| |reflexivity]; intros F.
  - rewrite vsem_ge, final_release1, left_of_below', andb_true_r by exact F. reflexivity.
  - rewrite vsem_gt, final_release1, left_of_above', negb_involutive, andb_true_r by exact F. reflexivity.
Qed.

Lemma upper_sem hi : bound_in final_cut hi ->
  forallb (fun s => vsem s x) (vs_from_upper_bound (upper_of hi)) = match hi with None => true | Some c => left_of x c end.
Proof.
  destruct hi as [[v [|]]|]; cbn [bound_in upper_of vs_from_upper_bound forallb]; [| |reflexivity]; intros F.
  - rewrite vsem_lt, final_release1, left_of_below', andb_true_r by exact F. reflexivity.
  - rewrite vsem_le, final_release1, left_of_above', andb_true_r by exact F. reflexivity.
Qed.

Lemma dflt_sem lo hi : bound_in final_cut lo -> bound_in final_cut hi ->
  forallb (fun s => vsem s x) (vs_from_lower_bound (lower_of lo) ++ vs_from_upper_bound (upper_of hi)) = between x lo hi.
Proof. intros Fl Fh. rewrite forallb_app, lower_sem, upper_sem by assumption. reflexivity. Qed.

Lemma star_sem v1 v2 rel : final_version rel = v1 -> final_version (bump_last rel) = v2 ->
  forallb (fun s => vsem s x) [(OEqStar, rel)] = between x (Some (v1, Below)) (Some (v2, Below)).
Proof.
  intros E1 E2. cbn [forallb]. rewrite vsem_eqstar, E1, E2, andb_true_r. unfold between. now rewrite !left_of_below'.
Qed.

Lemma from_release_sem lo hi : bound_in final_cut lo -> bound_in final_cut hi ->
  forallb (fun s => vsem s x) (vs_from_release_only_bounds (lo, hi)) = between x lo hi.
Proof.
  intros Fl Fh. unfold vs_from_release_only_bounds. cbv zeta. cbn [fst snd].
  destruct lo as [[v1 [|]]|]; destruct hi as [[v2 [|]]|]; cbn [lower_of upper_of];
    try exact (dflt_sem _ _ Fl Fh).
  - (* [v1, v2) *)
    destruct (release_of v1) as [|a [|b [|? ?]]] eqn:E1; try exact (dflt_sem _ _ Fl Fh).
    destruct (nlist_eqb (release_of v2) [a; b + 1]) eqn:E2; [|exact (dflt_sem _ _ Fl Fh)].
    apply nlist_eqb_spec in E2. apply star_sem.
    + rewrite <- E1. now apply final_release.
    + cbn [bump_last]. rewrite <- E2. now apply final_release.
  - (* [v1, v2] *)
    destruct (val_eqb v1 v2) eqn:E; [|exact (dflt_sem _ _ Fl Fh)].
    apply val_eqb_spec in E. subst v2. cbn [forallb]. rewrite vsem_eq, final_release1, andb_true_r by exact Fl.
    unfold between. rewrite left_of_below', left_of_above'. destruct (cmp x v1); reflexivity.
Qed.

Lemma release_only_sem iv : bound_in final_cut (fst iv) -> bound_in final_cut (snd iv) ->
  forallb (fun s => vsem s x) (release_only_specifiers iv) = btw x iv.
Proof.
  destruct iv as [lo hi]. cbn [fst snd]. intros Fl Fh. unfold release_only_specifiers, btw. cbn [fst snd].
  destruct lo as [[v1 [|]]|]; destruct hi as [[v2 [|]]|]; cbn [lower_of upper_of];
    try exact (from_release_sem _ _ Fl Fh).
  destruct (release_of v1) as [|major [|? ?]] eqn:E1; try exact (from_release_sem _ _ Fl Fh).
  destruct (nlist_eqb (release_of v2) [major; 1]) eqn:E2; [|exact (from_release_sem _ _ Fl Fh)].
  apply nlist_eqb_spec in E2. apply star_sem.
  - rewrite final_version_pad0, <- E1. now apply final_release.
  - cbn [bump_last]. change (0 + 1) with 1. rewrite <- E2. now apply final_release.
Qed.

Lemma release_only_nonempty iv : iv <> (None, None) -> release_only_specifiers iv <> [].
Proof.
  destruct iv as [lo hi]. intros Hn. unfold release_only_specifiers, vs_from_release_only_bounds. cbv zeta. cbn [fst snd].
  destruct lo as [[v1 [|]]|]; destruct hi as [[v2 [|]]|]; cbn [lower_of upper_of vs_from_lower_bound vs_from_upper_bound app];
    try discriminate; try contradiction.
  - destruct (release_of v1) as [|a [|b [|? ?]]]; try discriminate.
    + destruct (nlist_eqb (release_of v2) [a; 1]); discriminate.
    + destruct (nlist_eqb (release_of v2) [a; b + 1]); discriminate.
  - destruct (val_eqb v1 v2); discriminate.
Qed.

(** [python_full_version < 'M.m' or python_full_version >= 'M.(m+1)'] *)
Lemma star_inequality_sem ivs s : Forall (fun iv => bound_in final_cut (fst iv) /\ bound_in final_cut (snd iv)) ivs ->
  star_range_inequality ivs = Some s -> vsem s x = existsb (btw x) ivs.
Proof.
  intros F E. unfold star_range_inequality in E.
  destruct ivs as [|[lo1 hi1] [|[lo2 hi2] [|? ?]]]; try discriminate. cbn [fst snd] in E.
  destruct lo1 as [[? [|]]|]; cbn [lower_of] in E; try discriminate.
  destruct hi1 as [[v1 [|]]|]; cbn [upper_of] in E; try discriminate.
  destruct lo2 as [[v2 [|]]|]; cbn [lower_of] in E; try discriminate.
  destruct hi2 as [[? [|]]|]; cbn [upper_of] in E; try discriminate.
  inversion F as [|? ? [_ F1] F']; subst. inversion F' as [|? ? [F2 _] _]; subst. cbn [fst snd bound_in] in F1, F2.
  unfold final_cut in F1, F2. cbn [fst] in F1, F2.
  assert (forall major minor, final_version [major; minor] = v1 -> nlist_eqb (release_of v2) [major; minor + 1] = true ->
            vsem (ONeStar, [major; minor]) x = existsb (btw x) [(None, Some (v1, Below)); (Some (v2, Below), None)]) as G.
  { intros major minor E1 E2. apply nlist_eqb_spec in E2. rewrite vsem_nestar. cbn [bump_last]. rewrite E1, <- E2, (final_release v2 F2).
    cbn [existsb]. unfold btw, between. cbn [fst snd]. rewrite !left_of_below'.
    destruct (is_lt (cmp x v1)), (is_lt (cmp x v2)); reflexivity. }
  destruct (release_of v1) as [|major [|minor [|? ?]]] eqn:E1; try discriminate.
  - destruct (nlist_eqb (release_of v2) [major; 0 + 1]) eqn:E2; [|discriminate]. inversion E; subst s.
    apply G; [|exact E2]. rewrite final_version_pad0, <- E1. now apply final_release.
  - destruct (nlist_eqb (release_of v2) [major; minor + 1]) eqn:E2; [|discriminate]. inversion E; subst s.
    apply G; [|exact E2]. rewrite <- E1. now apply final_release.
Qed.

(** strings *)
Lemma ssem_unfold op s : ssem (op, s) x = in_range (string_range op s) x.
Proof. reflexivity. Qed.

Lemma string_of_cut v : (exists s, v = inr s) -> inr (string_of v) = v.
Proof. intros [s ->]. reflexivity. Qed.

Lemma so_lower_sem lo : bound_in string_cut lo ->
  forallb (fun s => ssem s x) (so_from_lower_bound (lower_of lo)) = match lo with None => true | Some c => negb (left_of x c) end.
Proof.
  destruct lo as [[v [|]]|]; cbn [bound_in lower_of so_from_lower_bound forallb]; [| |reflexivity]; intros F.
  - rewrite ssem_unfold. cbn [string_range]. rewrite in_ge, (string_of_cut v F), left_of_below', andb_true_r. reflexivity.
  - rewrite ssem_unfold. cbn [string_range]. rewrite in_gt, (string_of_cut v F), left_of_above', negb_involutive, andb_true_r. reflexivity.
Qed.

Lemma so_upper_sem hi : bound_in string_cut hi ->
  forallb (fun s => ssem s x) (so_from_upper_bound (upper_of hi)) = match hi with None => true | Some c => left_of x c end.
Proof.
  destruct hi as [[v [|]]|]; cbn [bound_in upper_of so_from_upper_bound forallb]; [| |reflexivity]; intros F.
  - rewrite ssem_unfold. cbn [string_range]. rewrite in_lt, (string_of_cut v F), left_of_below', andb_true_r. reflexivity.
  - rewrite ssem_unfold. cbn [string_range]. rewrite in_le, (string_of_cut v F), left_of_above', andb_true_r. reflexivity.
Qed.

Lemma so_dflt_sem lo hi : bound_in string_cut lo -> bound_in string_cut hi ->
  forallb (fun s => ssem s x) (so_from_lower_bound (lower_of lo) ++ so_from_upper_bound (upper_of hi)) = between x lo hi.
Proof. intros Fl Fh. rewrite forallb_app, so_lower_sem, so_upper_sem by assumption. reflexivity. Qed.

Lemma so_from_bounds_sem iv : bound_in string_cut (fst iv) -> bound_in string_cut (snd iv) -> proper iv ->
  forallb (fun s => ssem s x) (so_from_bounds iv) = btw x iv.
Proof.
  destruct iv as [lo hi]. cbn [fst snd]. intros Fl Fh Pr. unfold so_from_bounds, btw. cbv zeta. cbn [fst snd].
  destruct lo as [[v1 [|]]|]; destruct hi as [[v2 [|]]|]; cbn [lower_of upper_of];
    try exact (so_dflt_sem _ _ Fl Fh).
  - (* [v1, v2] *)
    destruct (val_eqb v1 v2) eqn:E; [|exact (so_dflt_sem _ _ Fl Fh)].
    apply val_eqb_spec in E. subst v2. cbn [forallb]. rewrite ssem_unfold. cbn [string_range].
    rewrite in_singleton, (string_of_cut v1 Fl), andb_true_r.
    unfold between. rewrite left_of_below', left_of_above'. destruct (cmp x v1); reflexivity.
  - (* (v1, v2): empty when v1 = v2, excluded by sortedness *)
    destruct (val_eqb v1 v2) eqn:E; [|exact (so_dflt_sem _ _ Fl Fh)].
    apply val_eqb_spec in E. subst v2. exfalso. unfold proper in Pr. cbn [fst snd] in Pr.
    rewrite cut_cmp_unfold, cmp_refl in Pr. discriminate.
Qed.

Lemma so_from_bounds_nonempty iv : iv <> (None, None) -> so_from_bounds iv <> [].
Proof.
  destruct iv as [lo hi]. intros Hn. unfold so_from_bounds. cbv zeta. cbn [fst snd].
  destruct lo as [[v1 [|]]|]; destruct hi as [[v2 [|]]|]; cbn [lower_of upper_of so_from_lower_bound so_from_upper_bound app];
    try discriminate; try contradiction; destruct (val_eqb v1 v2); discriminate.
Qed.
End Interval.

(** ** the inequality form: everything except finitely many points *)
Lemma ineq_windows_cons2 lo1 hi1 lo2 hi2 rest :
  ineq_windows ((lo1, hi1) :: (lo2, hi2) :: rest) =
  match upper_of hi1, lower_of lo2 with
  | Excluded v1, Excluded v2 => if val_eqb v1 v2 then option_map (cons v1) (ineq_windows ((lo2, hi2) :: rest)) else None
  | _, _ => None
  end.
Proof. reflexivity. Qed.

Lemma ineq_windows_starts : forall ivs vs, ineq_windows ivs = Some vs ->
  forall iv, In iv (tl ivs) -> exists v, In v vs /\ fst iv = Some (v, Above).
Proof.
  induction ivs as [|[lo1 hi1] ivs IH]; intros vs E iv I; [destruct I|].
  destruct ivs as [|[lo2 hi2] rest]; [destruct I|].
  rewrite ineq_windows_cons2 in E.
  destruct hi1 as [[v1 [|]]|]; cbn [upper_of] in E; try discriminate.
  destruct lo2 as [[v2 [|]]|]; cbn [lower_of] in E; try discriminate.
  destruct (val_eqb v1 v2) eqn:Ev; [|discriminate]. apply val_eqb_spec in Ev. subst v2.
  match type of E with context [ineq_windows ?l] => destruct (ineq_windows l) as [vs'|] eqn:E' end; cbn [option_map] in E; [|discriminate].
  inversion E; subst vs. cbn [tl] in I. destruct I as [<- | I].
  - exists v1. split; [now left|reflexivity].
  - destruct (IH vs' eq_refl iv I) as (v & Iv & Ef). exists v. split; [now right|exact Ef].
Qed.

Lemma ineq_windows_points : forall ivs vs, ineq_windows ivs = Some vs ->
  forall v, In v vs -> (exists iv, In iv (tl ivs) /\ fst iv = Some (v, Above)) /\ (exists iv, In iv ivs /\ snd iv = Some (v, Below)).
Proof.
  induction ivs as [|[lo1 hi1] ivs IH]; intros vs E v I.
  - inversion E; subst. destruct I.
  - destruct ivs as [|[lo2 hi2] rest]; [inversion E; subst; destruct I|].
    rewrite ineq_windows_cons2 in E.
    destruct hi1 as [[v1 [|]]|]; cbn [upper_of] in E; try discriminate.
    destruct lo2 as [[v2 [|]]|]; cbn [lower_of] in E; try discriminate.
    destruct (val_eqb v1 v2) eqn:Ev; [|discriminate]. apply val_eqb_spec in Ev. subst v2.
    match type of E with context [ineq_windows ?l] => destruct (ineq_windows l) as [vs'|] eqn:E' end; cbn [option_map] in E; [|discriminate].
    inversion E; subst vs. destruct I as [<- | I].
    + split; [exists (Some (v1, Above), hi2)|exists (lo1, Some (v1, Below))]; split; try reflexivity; now left.
    + destruct (IH vs' eq_refl v I) as [(iv & Ii & Ef) (iv' & Ii' & Es)]. split.
      * exists iv. split; [right; exact Ii|exact Ef].
      * exists iv'. split; [right; exact Ii'|exact Es].
Qed.

Lemma cut_le_below_above (a b : val) : cut_le (a, Below) (b, Above) -> cmp a b <> Gt.
Proof. unfold cut_le. rewrite cut_cmp_unfold. destruct (cmp a b); auto; discriminate. Qed.

Lemma ineq_windows_sem (x : val) : forall ivs vs lo,
  ineq_windows ivs = Some vs -> pairwise prec ivs ->
  match ivs with [] => False | iv :: _ => fst iv = lo end ->
  snd (last ivs (None, None)) = None -> after lo x ->
  existsb (btw x) ivs = forallb (fun v => negb (is_eq (cmp x v))) vs.
Proof.
  induction ivs as [|[lo1 hi1] ivs IH]; intros vs lo E P Hlo Hlast Af; [contradiction|].
  cbn [fst] in Hlo. subst lo1.
  destruct ivs as [|[lo2 hi2] rest].
  - inversion E; subst vs. cbn [last snd] in Hlast. subst hi1. cbn [existsb forallb]. unfold btw. cbn [fst snd].
    now rewrite (between_after x lo None Af).
  - pose proof (ineq_windows_starts _ _ E) as St. pose proof (ineq_windows_points _ _ E) as Pt.
    rewrite ineq_windows_cons2 in E.
    destruct hi1 as [[v1 [|]]|]; cbn [upper_of] in E; try discriminate.
    destruct lo2 as [[v2 [|]]|]; cbn [lower_of] in E; try discriminate.
    destruct (val_eqb v1 v2) eqn:Ev; [|discriminate]. apply val_eqb_spec in Ev. subst v2.
    match type of E with context [ineq_windows ?l] => destruct (ineq_windows l) as [vs'|] eqn:E' end; cbn [option_map] in E; [|discriminate].
    inversion E; subst vs. clear E. cbn [pairwise] in P. destruct P as [P1 P].
    change (existsb (btw x) ((lo, Some (v1, Below)) :: (Some (v1, Above), hi2) :: rest))
      with (btw x (lo, Some (v1, Below)) || existsb (btw x) ((Some (v1, Above), hi2) :: rest)).
    cbn [forallb]. unfold btw at 1. cbn [fst snd]. rewrite (between_after x lo (Some (v1, Below)) Af), left_of_below.
    (* every later interval starts at or after (v1, Below) with an excluded point *)
    assert (forall iv, In iv ((Some (v1, Above), hi2) :: rest) -> exists v, In v (v1 :: vs') /\ fst iv = Some (v, Above) /\ cmp v1 v <> Gt) as Later.
    { intros iv I. destruct (St iv I) as (v & Iv & Ef). exists v. split; [exact Iv|]. split; [exact Ef|].
      rewrite Forall_forall in P1. destruct (P1 iv I) as (c & c' & E1 & E2 & Lc). cbn [snd] in E1. inversion E1; subst c.
      rewrite Ef in E2. inversion E2; subst c'. now apply cut_le_below_above. }
    destruct (cmp x v1) eqn:C.
    + (* x = v1 *) apply cmp_eq in C. subst x. cbn [is_eq negb andb orb].
      apply not_true_is_false. intros Ex. apply existsb_exists in Ex as (iv & I & B).
      destruct (Later iv I) as (v & _ & Ef & Lv). unfold btw, between in B. destruct iv as [ilo ihi]. cbn [fst snd] in Ef, B. subst ilo.
      rewrite left_of_above in B.
      destruct (cmp v1 v); try contradiction; discriminate.
    + (* x < v1 *) cbn [is_eq negb andb orb]. symmetry. apply forallb_forall. intros v Iv.
      destruct (Pt v (or_intror Iv)) as [(iv & Ii & Ef) _]. cbn [tl] in Ii.
      destruct (Later iv Ii) as (v' & _ & Ef' & Lv). destruct iv as [ilo ihi]. cbn [fst] in Ef, Ef'. subst ilo. inversion Ef'; subst v'.
      destruct (cmp x v) eqn:C'; try reflexivity. apply cmp_eq in C'. subst v.
      apply cmp_lt_gt in C. contradiction.
    + (* x > v1 *) cbn [is_eq negb andb orb].
      apply (IH vs' (Some (v1, Above))); auto.
      cbn [after]. rewrite left_of_above, C. reflexivity.
Qed.

Lemma last_cons_default {X} (l : list X) : forall a d d', last (a :: l) d = last (a :: l) d'.
Proof.
  induction l as [|b l IH]; intros a d d'; [reflexivity|].
  change (last (a :: b :: l) d) with (last (b :: l) d). change (last (a :: b :: l) d') with (last (b :: l) d'). apply IH.
Qed.

Lemma range_inequality_sem (x : val) ivs vs : range_inequality ivs = Some vs -> pairwise prec ivs ->
  existsb (btw x) ivs = forallb (fun v => negb (is_eq (cmp x v))) vs.
Proof.
  unfold range_inequality. destruct ivs as [|first rest]; [discriminate|].
  destruct (fst first) eqn:Ef; [discriminate|]. destruct (snd (last (first :: rest) first)) eqn:El; [discriminate|].
  intros E P. apply (ineq_windows_sem x (first :: rest) vs None E P).
  - exact Ef.
  - rewrite (last_cons_default rest first (None, None) first). exact El.
  - exact I.
Qed.

Lemma range_inequality_points ivs vs : range_inequality ivs = Some vs ->
  forall v, In v vs -> exists iv, In iv ivs /\ snd iv = Some (v, Below).
Proof.
  unfold range_inequality. destruct ivs as [|first rest] eqn:Ei; [discriminate|]. rewrite <- Ei.
  destruct (fst first); [discriminate|]. destruct (snd (last ivs first)); [discriminate|].
  intros E v I. now destruct (ineq_windows_points _ _ E v I).
Qed.

(** with no point excluded the range is the whole line, in one interval *)
Lemma range_inequality_nil ivs : range_inequality ivs = Some [] -> ivs = [(None, None)].
Proof.
  unfold range_inequality. destruct ivs as [|[lo1 hi1] rest]; [discriminate|]. cbn [fst].
  destruct lo1; [discriminate|]. destruct rest as [|[lo2 hi2] rest'].
  - cbn [last snd]. destruct hi1; [discriminate|]. reflexivity.
  - destruct (snd (last _ _)); [discriminate|]. rewrite ineq_windows_cons2.
    destruct (upper_of hi1); try discriminate. destruct (lower_of lo2); try discriminate.
    destruct (val_eqb v v0); [|discriminate]. destruct (ineq_windows _); discriminate.
Qed.

(** * Part C: [collect_dnf] denotes the diagram *)

(** the payload "recursive call on the child" does not influence the grouping *)
Lemma edges_insert_map {A B} (phi : A -> B) (keqA : A -> A -> bool) (keqB : B -> B -> bool) :
  (forall a b, keqB (phi a) (phi b) = keqA a b) ->
  forall paths t r,
  edges_insert keqB (map (fun g => (phi (fst g), snd g)) paths) (phi t) r
  = map (fun g => (phi (fst g), snd g)) (edges_insert keqA paths t r).
Proof.
  intros Hk. induction paths as [|[t' u] rest IH]; intros t r; cbn [map edges_insert fst snd]; [reflexivity|].
  rewrite Hk. destruct (keqA t' t); cbn [map fst snd]; [reflexivity|]. now rewrite IH.
Qed.

Lemma collect_edges_map {A B} (phi : A -> B) (keqA : A -> A -> bool) (keqB : B -> B -> bool) :
  (forall a b, keqB (phi a) (phi b) = keqA a b) ->
  forall segs,
  collect_edges keqB (map (fun s => (fst s, phi (snd s))) segs)
  = map (fun g => (phi (fst g), snd g)) (collect_edges keqA segs).
Proof.
  intros Hk segs. unfold collect_edges. change (@nil (B * list interval)) with (map (fun g : A * list interval => (phi (fst g), snd g)) []).
  generalize (@nil (A * list interval)). induction segs as [|s segs IH]; intros paths; cbn [map fold_left fst snd]; [reflexivity|].
  rewrite (edges_insert_map phi keqA keqB Hk). apply IH.
Qed.

Lemma flat_map_map {X Y Z} (f : Y -> list Z) (g : X -> Y) (l : list X) : flat_map f (map g l) = flat_map (fun a => f (g a)) l.
Proof. induction l as [|a l IH]; cbn; [reflexivity|]. now rewrite IH. Qed.

Lemma collect_fix_eq (ds : list (cut val * mdd)) :
  (fix go (l : list (cut val * mdd)) : list (cut val * sub_t) :=
     match l with [] => [] | (c, d) :: l' => (c, (d, collect_dnf_from d)) :: go l' end) ds
  = map_snd (fun d => (d, collect_dnf_from d)) ds.
Proof.
  unfold map_snd. induction ds as [|[c d] ds IH]; [reflexivity|]. cbn [map fst snd]. rewrite <- IH. reflexivity.
Qed.

Definition node_edges (d0 : mdd) (ds : list (cut val * mdd)) : list (mdd * list interval) :=
  collect_edges dd_eqb (segments None d0 ds).

Lemma collect_rnode key d0 ds path :
  collect_dnf_from (RNode key d0 ds) path =
  match key with
  | VVersion k => flat_map (fun g => version_group k path (collect_dnf_from (fst g)) (snd g)) (node_edges d0 ds)
  | VString k => flat_map (fun g => string_group k path (collect_dnf_from (fst g)) (snd g)) (node_edges d0 ds)
  | _ => []
  end.
Proof.
  cbn [collect_dnf_from]. rewrite collect_fix_eq.
  rewrite (segments_map (fun d => (d, collect_dnf_from d)) ds None d0).
  rewrite (collect_edges_map (fun d => (d, collect_dnf_from d)) dd_eqb sub_eqb) by reflexivity.
  unfold node_edges. destruct key; try reflexivity; now rewrite flat_map_map.
Qed.

(** ** the side condition: what the printer can render *)
Definition final_valb (v : val) : bool :=
  match v with
  | inl (e, (rl, suf)) => (e =? 0) && nlist_eqb (strip rl) rl && nlist_eqb suf FINAL
  | inr _ => false
  end.
Definition cut_okb (key : var) (c : cut val) : bool :=
  match key with
  | VVersion _ => final_valb (fst c)
  | VString _ => match fst c with inr _ => true | inl _ => false end
  | _ => false
  end.
(** every version node is keyed by a key other than python_version and cut at final epoch-0 releases
    (stripped); every string node is cut at strings *)
Fixpoint renderable_dd (pv : N) (t : mdd) : bool :=
  match t with
  | Leaf _ => true
  | RNode key d0 ds =>
      match key with VVersion k => negb (k =? pv) | VString _ => true | _ => false end
      && renderable_dd pv d0
      && (fix go (l : list (cut val * mdd)) : bool :=
            match l with [] => true | (c, d) :: l' => cut_okb key c && renderable_dd pv d && go l' end) ds
  | BNode key hi lo => renderable_dd pv hi && renderable_dd pv lo
  end.

Lemma final_valb_spec v : final_valb v = true <-> final_val v.
Proof.
  unfold final_valb, final_val. destruct v as [[e [rl suf]]|s].
  - rewrite !andb_true_iff, N.eqb_eq, !nlist_eqb_spec. split.
    + intros [[-> E] ->]. exists rl. auto.
    + intros (rl' & E & S). inversion E; subst. auto.
  - split; [discriminate|]. intros (rl & E & _). discriminate.
Qed.

Lemma renderable_rnode pv key d0 ds :
  renderable_dd pv (RNode key d0 ds) = true <->
  match key with VVersion k => k <> pv | VString _ => True | _ => False end /\
  renderable_dd pv d0 = true /\
  Forall (fun cd => cut_okb key (fst cd) = true /\ renderable_dd pv (snd cd) = true) ds.
Proof.
  cbn [renderable_dd]. rewrite !andb_true_iff.
  assert ((fix go (l : list (cut val * mdd)) : bool :=
             match l with [] => true | (c, d) :: l' => cut_okb key c && renderable_dd pv d && go l' end) ds = true
          <-> Forall (fun cd => cut_okb key (fst cd) = true /\ renderable_dd pv (snd cd) = true) ds) as ->.
  { induction ds as [|[c d] ds IH]; [split; auto|]. rewrite !andb_true_iff, IH. split.
    - intros [[? ?] ?]. constructor; auto.
    - intros F. inversion F as [|? ? [? ?] ?]; subst. auto. }
  assert (match key with VVersion k => negb (k =? pv) | VString _ => true | _ => false end = true
          <-> match key with VVersion k => k <> pv | VString _ => True | _ => False end) as ->.
  { destruct key; try (split; [discriminate|contradiction]); [|tauto].
    rewrite negb_true_iff, N.eqb_neq. tauto. }
  tauto.
Qed.

Section Sem.
Variables (pv pfv : N) (ro : mvaluation).

(** the diagram-level meaning of one comparison (what re-parsing the printed text yields) *)
Definition sem (e : mexpr) : bool := eval ro (expression pv pfv e).
Definition eval_clause_r (c : clause) : bool := forallb sem c.
Definition eval_dnf_r (d : dnf) : bool := existsb eval_clause_r d.

Lemma eval_clause_app a b : eval_clause_r (a ++ b) = eval_clause_r a && eval_clause_r b.
Proof. apply forallb_app. Qed.
Lemma eval_dnf_app a b : eval_dnf_r (a ++ b) = eval_dnf_r a || eval_dnf_r b.
Proof. apply existsb_app. Qed.
Lemma eval_dnf_flat_map {X} (f : X -> dnf) (l : list X) : eval_dnf_r (flat_map f l) = existsb (fun a => eval_dnf_r (f a)) l.
Proof. induction l as [|a l IH]; [reflexivity|]. cbn [flat_map existsb]. now rewrite eval_dnf_app, IH. Qed.

Lemma existsb_ext_in {X} (f g : X -> bool) (l : list X) : (forall a, In a l -> f a = g a) -> existsb f l = existsb g l.
Proof.
  induction l as [|a l IH]; intros Hx; [reflexivity|]. cbn [existsb]. rewrite (Hx a (or_introl eq_refl)), IH; auto.
  intros b I. apply Hx. now right.
Qed.
Lemma existsb_andb_l {X} (b : bool) (f : X -> bool) (l : list X) : existsb (fun a => b && f a) l = b && existsb f l.
Proof. induction l as [|a l IH]; cbn [existsb]; [now rewrite andb_false_r|]. rewrite IH. destruct b; reflexivity. Qed.
Lemma forallb_map {X Y} (f : Y -> bool) (g : X -> Y) (l : list X) : forallb f (map g l) = forallb (fun a => f (g a)) l.
Proof. induction l as [|a l IH]; cbn; [reflexivity|]. now rewrite IH. Qed.
Lemma forallb_ext_in {X} (f g : X -> bool) (l : list X) : (forall a, In a l -> f a = g a) -> forallb f l = forallb g l.
Proof.
  induction l as [|a l IH]; intros Hx; [reflexivity|]. cbn [forallb]. rewrite (Hx a (or_introl eq_refl)), IH; auto.
  intros b I. apply Hx. now right.
Qed.

Lemma sem_version k op rel : k <> pv -> sem (EVersion k op rel) = vsem (op, rel) (rv ro (VVersion k)).
Proof.
  intros Hk. unfold sem, vsem. cbn [expression fst snd]. destruct (N.eqb_spec k pv) as [E|_]; [contradiction|].
  rewrite eval_range_node by apply spec_range_sorted. reflexivity.
Qed.

Lemma sem_string k op s : sem (EString k op s) = ssem (op, s) (rv ro (VString k)).
Proof.
  unfold sem, ssem. cbn [expression fst snd]. rewrite eval_range_node by apply string_range_sorted. reflexivity.
Qed.

Lemma sem_bool key pos neg : bool_terms key = Some (pos, neg) ->
  sem pos = bv (ro) key /\ sem neg = negb (bv (ro) key).
Proof.
  unfold sem. destruct key as [k|k|k s|k s|arb s]; cbn [bool_terms]; try discriminate; intros E; inversion E; subst;
    cbn [expression negb bool_node eval]; split; destruct (bv (ro) _); reflexivity.
Qed.

Definition iv_final (iv : interval) : Prop := bound_in final_cut (fst iv) /\ bound_in final_cut (snd iv).
Definition iv_string (iv : interval) : Prop := bound_in string_cut (fst iv) /\ bound_in string_cut (snd iv).

(** one entry of the map of a version node *)
Lemma version_group_sem k (path : clause) (sub : clause -> dnf) (ivs : list interval) (b : bool) :
  k <> pv ->
  (forall p, p <> [] -> eval_dnf_r (sub p) = eval_clause_r p && b) ->
  path <> [] \/ ~ In (None, None) ivs ->
  pairwise prec ivs -> Forall iv_final ivs ->
  eval_dnf_r (version_group k path sub ivs) = eval_clause_r path && (existsb (btw (rv ro (VVersion k))) ivs && b).
Proof.
  intros Hk Hsub Hne P F. set (x := rv ro (VVersion k)).
  assert (forall terms, (path <> [] \/ terms <> []) -> eval_dnf_r (sub (path ++ terms)) = eval_clause_r path && (eval_clause_r terms && b)) as Push.
  { intros terms Hn. rewrite Hsub, eval_clause_app, andb_assoc; [reflexivity|].
    intros E. apply app_eq_nil in E as [E1 E2]. destruct Hn; contradiction. }
  assert (forall specs, eval_clause_r (map (fun s => EVersion k (fst s) (snd s)) specs) = forallb (fun s => vsem s x) specs) as Specs.
  { intros specs. unfold eval_clause_r. rewrite forallb_map. apply forallb_ext_in. intros [op rel] _. cbn [fst snd]. now apply sem_version. }
  unfold version_group. destruct (range_inequality ivs) as [vs|] eqn:Er.
  - (* != v1, ..., != vn *)
    rewrite Push.
    + f_equal. f_equal. rewrite (range_inequality_sem x ivs vs Er P).
      unfold eval_clause_r. rewrite forallb_map. apply forallb_ext_in. intros v Iv.
      rewrite sem_version by exact Hk. fold x. rewrite vsem_ne.
      destruct (range_inequality_points ivs vs Er v Iv) as (iv & Ii & Es).
      rewrite Forall_forall in F. destruct (F iv Ii) as [_ Fs]. rewrite Es in Fs. cbn [bound_in] in Fs.
      now rewrite final_release1.
    + destruct Hne as [Hp | Hf]; [now left|]. right. destruct vs; [|discriminate].
      apply range_inequality_nil in Er. subst ivs. exfalso. apply Hf. now left.
  - destruct (star_range_inequality ivs) as [s|] eqn:Es.
    + (* != M.m.* *)
      rewrite Push by (right; discriminate). f_equal. f_equal.
      change [EVersion k (fst s) (snd s)] with (map (fun s => EVersion k (fst s) (snd s)) [s]).
      rewrite Specs. cbn [forallb]. rewrite andb_true_r. now apply star_inequality_sem.
    + (* one clause per interval *)
      rewrite eval_dnf_flat_map.
      rewrite (existsb_ext_in _ (fun iv => (eval_clause_r path && b) && btw x iv)).
      * rewrite existsb_andb_l. destruct (eval_clause_r path), b, (existsb (btw x) ivs); reflexivity.
      * intros iv Ii. rewrite Forall_forall in F. destruct (F iv Ii) as [Fl Fh]. rewrite Push.
        -- rewrite Specs, (release_only_sem x iv Fl Fh). destruct (eval_clause_r path), b, (btw x iv); reflexivity.
        -- destruct Hne as [Hp | Hf]; [now left|]. right. intros E. apply map_eq_nil in E.
           revert E. apply release_only_nonempty. intros ->. contradiction.
Qed.

(** one entry of the map of a string node *)
Lemma string_group_sem k (path : clause) (sub : clause -> dnf) (ivs : list interval) (b : bool) :
  (forall p, p <> [] -> eval_dnf_r (sub p) = eval_clause_r p && b) ->
  path <> [] \/ ~ In (None, None) ivs ->
  pairwise prec ivs -> Forall iv_string ivs -> Forall proper ivs ->
  eval_dnf_r (string_group k path sub ivs) = eval_clause_r path && (existsb (btw (rv ro (VString k))) ivs && b).
Proof.
  intros Hsub Hne P F Pr. set (x := rv ro (VString k)).
  assert (forall terms, (path <> [] \/ terms <> []) -> eval_dnf_r (sub (path ++ terms)) = eval_clause_r path && (eval_clause_r terms && b)) as Push.
  { intros terms Hn. rewrite Hsub, eval_clause_app, andb_assoc; [reflexivity|].
    intros E. apply app_eq_nil in E as [E1 E2]. destruct Hn; contradiction. }
  unfold string_group. destruct (range_inequality ivs) as [vs|] eqn:Er.
  - rewrite Push.
    + f_equal. f_equal. rewrite (range_inequality_sem x ivs vs Er P).
      unfold eval_clause_r. rewrite forallb_map. apply forallb_ext_in. intros v Iv.
      rewrite sem_string. fold x. rewrite ssem_unfold. cbn [string_range]. rewrite in_complement, in_singleton.
      destruct (range_inequality_points ivs vs Er v Iv) as (iv & Ii & Es).
      rewrite Forall_forall in F. destruct (F iv Ii) as [_ Fs]. rewrite Es in Fs. cbn [bound_in] in Fs.
      unfold string_cut in Fs. cbn [fst] in Fs. now rewrite (string_of_cut v Fs).
    + destruct Hne as [Hp | Hf]; [now left|]. right. destruct vs; [|discriminate].
      apply range_inequality_nil in Er. subst ivs. exfalso. apply Hf. now left.
  - rewrite eval_dnf_flat_map.
    rewrite (existsb_ext_in _ (fun iv => (eval_clause_r path && b) && btw x iv)).
    + rewrite existsb_andb_l. destruct (eval_clause_r path), b, (existsb (btw x) ivs); reflexivity.
    + intros iv Ii. rewrite Forall_forall in F, Pr. destruct (F iv Ii) as [Fl Fh]. rewrite Push.
      * assert (eval_clause_r (map (fun s => EString k (fst s) (snd s)) (so_from_bounds iv)) = forallb (fun s => ssem s x) (so_from_bounds iv)) as ->.
        { unfold eval_clause_r. rewrite forallb_map. apply forallb_ext_in. intros [op s] _. cbn [fst snd]. apply sem_string. }
        rewrite (so_from_bounds_sem x iv Fl Fh (Pr iv Ii)). destruct (eval_clause_r path), b, (btw x iv); reflexivity.
      * destruct Hne as [Hp | Hf]; [now left|]. right. intros E. apply map_eq_nil in E.
        revert E. apply so_from_bounds_nonempty. intros ->. contradiction.
Qed.
End Sem.

(** the entries of the map of a well-formed node *)
Lemma node_edges_props (d0 : mdd) (ds : list (cut val * mdd)) :
  sorted_from None ds -> reduced d0 ds -> ds <> [] ->
  node_edges d0 ds = collect_plain dd_eqb (segments None d0 ds) [] /\
  forall d ivs, In (d, ivs) (node_edges d0 ds) ->
    (d = d0 \/ In d (map snd ds)) /\ pairwise prec ivs /\ ~ In (None, None) ivs /\
    (forall iv, In iv ivs -> In (iv, d) (segments None d0 ds)).
Proof.
  intros S R Hn.
  assert (node_edges d0 ds = collect_plain dd_eqb (segments None d0 ds) []) as E.
  { unfold node_edges, collect_edges. apply (no_merge dd_eqb dd_eqb_spec ds None d0 [] S R). intros d ivs iv []. }
  split; [exact E|]. rewrite E. intros d ivs I.
  assert (forall iv, In iv ivs -> In (iv, d) (segments None d0 ds)) as Hin.
  { intros iv Iv. destruct (collect_plain_in dd_eqb dd_eqb_spec _ _ _ _ _ I Iv) as [(ivs0 & [] & _) | Is]. exact Is. }
  split; [|split; [|split]].
  - destruct (collect_plain_keys dd_eqb dd_eqb_spec _ _ _ _ I) as [[] | Is].
    apply in_map_iff in Is as (s & Es & Is). subst d. now apply (segments_children ds None d0 s).
  - apply (plain_sorted dd_eqb dd_eqb_spec ds None d0 [] S) with (d := d); [|exact I]. intros ? ? [].
  - intros If. apply Hin in If. apply (segments_not_full ds None d0 _ (or_intror Hn)) in If. now apply If.
  - exact Hin.
Qed.

Notation wfm := (wf (var:=var) (val:=val) is_range).

Section Main.
Variables (pv pfv : N) (ro : mvaluation).
Notation ecl := (eval_clause_r pv pfv ro).
Notation ednf := (eval_dnf_r pv pfv ro).

Theorem collect_from_sem : forall t : mdd, wfm t -> renderable_dd pv t = true ->
  forall path, path <> [] \/ t <> Leaf true ->
  ednf (collect_dnf_from t path) = ecl path && eval ro t.
Proof.
  induction t as [b|key d0 ds IH0 IHl|key hi lo IHh IHl] using dd_ind2; intros W Rn path Hp.
  - (* leaves *)
    destruct b; cbn [collect_dnf_from]; [|now rewrite andb_false_r].
    destruct path as [|e path']; [destruct Hp as [Hp|Hp]; contradiction|].
    unfold eval_dnf_r. cbn [existsb]. now rewrite orb_false_r, andb_true_r.
  - (* range nodes *)
    inversion W as [|? ? ? Rk Hn S Rd W0 A0 Wl|]; subst.
    apply renderable_rnode in Rn as (Hkey & Rn0 & Rnl).
    destruct (node_edges_props d0 ds S Rd Hn) as [Eplain Props].
    (* the recursive calls *)
    assert (forall d, d = d0 \/ In d (map snd ds) ->
              forall p, p <> [] -> ednf (collect_dnf_from d p) = ecl p && eval ro d) as Hsub.
    { intros d [-> | Id] p Hpn.
      - apply IH0; auto.
      - rewrite Forall_forall in IHl, Wl. apply IHl; auto.
        + now apply Wl.
        + apply in_map_iff in Id as (cd & <- & Icd). rewrite Forall_forall in Rnl. now apply Rnl. }
    rewrite collect_rnode. rewrite eval_rnode.
    destruct key as [k|k|k s|k s|arb s]; try contradiction.
    + (* version node *)
      set (x := rv (ro) (VVersion k)).
      rewrite eval_dnf_flat_map.
      rewrite (existsb_ext_in _ (fun g => ecl path && (existsb (btw x) (snd g) && eval ro (fst g)))).
      * rewrite existsb_andb_l. f_equal.
        change (existsb (fun g => existsb (btw x) (snd g) && eval ro (fst g)) (node_edges d0 ds))
          with (gsem (eval ro) x (node_edges d0 ds)).
        rewrite Eplain, (gsem_collect dd_eqb dd_eqb_spec). cbn [gsem existsb orb].
        apply (segments_sem (eval ro) x ds None d0 S I).
      * intros [d ivs] Ig. cbn [fst snd]. destruct (Props d ivs Ig) as (Hd & P & Nf & Hin).
        apply version_group_sem; auto.
        apply Forall_forall. intros iv Iv. apply Hin in Iv.
        apply (segments_bounds final_cut ds None d0 _ I) in Iv; [exact Iv|].
        apply Forall_map, Forall_forall. intros cd Icd. rewrite Forall_forall in Rnl. destruct (Rnl cd Icd) as [Ck _].
        cbn [cut_okb] in Ck. now apply final_valb_spec.
    + (* string node *)
      set (x := rv (ro) (VString k)).
      rewrite eval_dnf_flat_map.
      rewrite (existsb_ext_in _ (fun g => ecl path && (existsb (btw x) (snd g) && eval ro (fst g)))).
      * rewrite existsb_andb_l. f_equal.
        change (existsb (fun g => existsb (btw x) (snd g) && eval ro (fst g)) (node_edges d0 ds))
          with (gsem (eval ro) x (node_edges d0 ds)).
        rewrite Eplain, (gsem_collect dd_eqb dd_eqb_spec). cbn [gsem existsb orb].
        apply (segments_sem (eval ro) x ds None d0 S I).
      * intros [d ivs] Ig. cbn [fst snd]. destruct (Props d ivs Ig) as (Hd & P & Nf & Hin).
        apply string_group_sem; auto.
        -- apply Forall_forall. intros iv Iv. apply Hin in Iv.
           apply (segments_bounds string_cut ds None d0 _ I) in Iv; [exact Iv|].
           apply Forall_map, Forall_forall. intros cd Icd. rewrite Forall_forall in Rnl. destruct (Rnl cd Icd) as [Ck _].
           cbn [cut_okb] in Ck. unfold string_cut. destruct (fst (fst cd)) as [|s]; [discriminate|]. now exists s.
        -- apply Forall_forall. intros iv Iv. apply Hin in Iv. apply (segments_proper ds None d0 _ S Iv).
  - (* boolean nodes *)
    inversion W as [| |? ? ? Rk Hne Wh Ah Wl Al]; subst.
    cbn [renderable_dd] in Rn. apply andb_true_iff in Rn as [Rh Rl].
    cbn [collect_dnf_from]. destruct (bool_terms key) as [[pos neg]|] eqn:Eb.
    + destruct (sem_bool pv pfv ro key pos neg Eb) as [Sp Sn].
      assert (forall e, path ++ [e] <> []) as Hne' by (intros e E; apply app_eq_nil in E as [_ E]; discriminate).
      rewrite eval_dnf_app, IHh, IHl by auto. rewrite !eval_clause_app. unfold eval_clause_r at 2 4. cbn [forallb].
      rewrite Sp, Sn, !andb_true_r. cbn [eval].
      destruct (bv (ro) key), (ecl path); cbn; rewrite ?orb_false_r; reflexivity.
    + destruct key; cbn [bool_terms is_range] in *; discriminate.
Qed.

(** C05 for [collect_dnf]: every well-formed renderable diagram other than TRUE is denoted by its clauses.
    (TRUE has no clause - [collect_dnf] drops the empty path - and so evaluates to false: see
    [collect_dnf_true_r] below.) *)
Theorem collect_dnf_sem_r (t : mdd) : wfm t -> renderable_dd pv t = true -> t <> Leaf true ->
  ednf (collect_dnf t) = eval ro t.
Proof. intros W R Hn. unfold collect_dnf. rewrite collect_from_sem by auto. reflexivity. Qed.

Lemma collect_dnf_true_r : ednf (collect_dnf (Leaf true)) = false /\ eval ro (Leaf true) = true.
Proof. split; reflexivity. Qed.
End Main.

Print Assumptions collect_dnf_sem_r.

(** * Part D: [simplify] preserves the meaning *)

(** ** lists: removal by index *)
Lemma nat_mem_spec n l : nat_mem n l = true <-> In n l.
Proof.
  unfold nat_mem. rewrite existsb_exists. split.
  - intros (m & I & E). apply Nat.eqb_eq in E. now subst.
  - intros I. exists n. split; [exact I|apply Nat.eqb_refl].
Qed.
Lemma nat_mem_false n l : nat_mem n l = false <-> ~ In n l.
Proof. rewrite <- nat_mem_spec. destruct (nat_mem n l); split; congruence. Qed.
Lemma nat_mem_snoc n l s : nat_mem n (l ++ [s]) = nat_mem n l || (n =? s)%nat.
Proof. unfold nat_mem. rewrite existsb_app. cbn [existsb]. now rewrite orb_false_r. Qed.

(** the elements whose index (counted from [n]) is not in [red] *)
Fixpoint keep_from {X : Type} (n : nat) (red : list nat) (l : list X) : list X :=
  match l with
  | [] => []
  | x :: l' => if nat_mem n red then keep_from (S n) red l' else x :: keep_from (S n) red l'
  end.
Definition keep {X : Type} (red : list nat) (l : list X) : list X := keep_from 0 red l.

Lemma keep_from_in {X} (red : list nat) (x : X) : forall l n,
  In x (keep_from n red l) <-> exists i, nth_error l i = Some x /\ nat_mem (n + i) red = false.
Proof.
  induction l as [|y l IH]; intros n; cbn [keep_from].
  - split; [intros []|]. intros (i & E & _). destruct i; discriminate.
  - destruct (nat_mem n red) eqn:M.
    + rewrite IH. split.
      * intros (i & E & F). exists (S i). split; [exact E|]. now rewrite Nat.add_succ_r.
      * intros (i & E & F). destruct i as [|i].
        -- rewrite Nat.add_0_r in F. congruence.
        -- exists i. split; [exact E|]. now rewrite Nat.add_succ_r in F.
    + cbn [In]. rewrite IH. split.
      * intros [<- | (i & E & F)].
        -- exists 0%nat. split; [reflexivity|]. now rewrite Nat.add_0_r.
        -- exists (S i). split; [exact E|]. now rewrite Nat.add_succ_r.
      * intros (i & E & F). destruct i as [|i].
        -- left. now inversion E.
        -- right. exists i. split; [exact E|]. now rewrite Nat.add_succ_r in F.
Qed.

Lemma keep_in {X} (red : list nat) (x : X) l :
  In x (keep red l) <-> exists i, nth_error l i = Some x /\ nat_mem i red = false.
Proof. unfold keep. now rewrite keep_from_in. Qed.

Lemma keep_from_all {X} (red : list nat) : forall (l : list X) n, (forall i, In i red -> (i < n)%nat) -> keep_from n red l = l.
Proof.
  induction l as [|x l IH]; intros n Hlt; [reflexivity|]. cbn [keep_from].
  assert (nat_mem n red = false) as ->. { apply nat_mem_false. intros I. apply Hlt in I. lia. }
  rewrite IH; [reflexivity|]. intros i I. apply Hlt in I. lia.
Qed.

Lemma keep_remove {X} (L : list nat) : forall (l : list X) a n, (forall i, In i L -> (i < n + a)%nat) ->
  keep_from n L (remove_nth a l) = keep_from n ((n + a)%nat :: L) l.
Proof.
  induction l as [|x l IH]; intros a n Hlt; [destruct a; reflexivity|].
  destruct a as [|a].
  - cbn [remove_nth keep_from]. unfold nat_mem at 1. cbn [existsb]. rewrite Nat.add_0_r, Nat.eqb_refl. cbn [orb].
    rewrite !keep_from_all; [reflexivity| |].
    + intros i [<- | I]; [lia|]. apply Hlt in I. lia.
    + intros i I. apply Hlt in I. lia.
  - cbn [remove_nth keep_from].
    assert (nat_mem n ((n + S a)%nat :: L) = nat_mem n L) as ->.
    { unfold nat_mem. cbn [existsb]. destruct (Nat.eqb_spec n (n + S a)); [lia|reflexivity]. }
    replace (n + S a)%nat with (S n + a)%nat by lia.
    rewrite (IH a (S n)); [reflexivity|]. intros i I. apply Hlt in I. lia.
Qed.

(** strictly descending / ascending lists of indices *)
Fixpoint desc (L : list nat) : Prop := match L with [] => True | a :: L' => (forall i, In i L' -> (i < a)%nat) /\ desc L' end.
Fixpoint asc (L : list nat) : Prop := match L with [] => True | a :: L' => (forall i, In i L' -> (a < i)%nat) /\ asc L' end.

(** removing the indices one after the other, the largest first, removes exactly these indices *)
Lemma remove_desc {X} : forall (L : list nat) (l : list X), desc L ->
  fold_left (fun c t => remove_nth t c) L l = keep L l.
Proof.
  induction L as [|a L IH]; intros l D; cbn [fold_left].
  - unfold keep. symmetry. apply keep_from_all. intros i [].
  - destruct D as [Hlt D]. rewrite (IH _ D). unfold keep. apply (keep_remove L l a 0%nat). exact Hlt.
Qed.

Lemma desc_snoc : forall L a, desc L -> (forall i, In i L -> (a < i)%nat) -> desc (L ++ [a]).
Proof.
  induction L as [|b L IH]; intros a D Hlt; cbn [app desc]; [split; [intros i []|exact I]|].
  destruct D as [Hb D]. split.
  - intros i I. apply in_app_or in I as [I | [<- | []]]; [now apply Hb|]. apply Hlt. now left.
  - apply IH; auto. intros i I. apply Hlt. now right.
Qed.

Lemma rev_asc_desc : forall L, asc L -> desc (rev L).
Proof.
  induction L as [|a L IH]; intros A; [exact I|]. destruct A as [Ha A]. cbn [rev].
  apply desc_snoc; [now apply IH|]. intros i I. apply Ha. now apply in_rev.
Qed.

Lemma asc_snoc : forall L a, asc L -> (forall i, In i L -> (i < a)%nat) -> asc (L ++ [a]).
Proof.
  induction L as [|b L IH]; intros a D Hlt; cbn [app asc]; [split; [intros i []|exact I]|].
  destruct D as [Hb D]. split.
  - intros i I. apply in_app_or in I as [I | [<- | []]]; [now apply Hb|]. apply Hlt. now left.
  - apply IH; auto. intros i I. apply Hlt. now right.
Qed.

Lemma insert_desc_last : forall M a, (forall y, In y M -> (a < y)%nat) -> insert_desc a M = M ++ [a].
Proof.
  induction M as [|y M IH]; intros a Hlt; [reflexivity|]. cbn [insert_desc app].
  destruct (Nat.ltb_spec y a) as [L|_]; [specialize (Hlt y (or_introl eq_refl)); lia|].
  rewrite IH; [reflexivity|]. intros z I. apply Hlt. now right.
Qed.

(** on the index lists that the loops build (pushed in increasing order) sorting descending is reversing *)
Lemma sort_desc_asc : forall L, asc L -> sort_desc L = rev L.
Proof.
  induction L as [|a L IH]; intros A; [reflexivity|]. destruct A as [Ha A]. cbn [sort_desc rev].
  rewrite (IH A). apply insert_desc_last. intros y I. apply Ha. now apply in_rev.
Qed.

Lemma keep_rev {X} (red : list nat) (l : list X) : keep (rev red) l = keep red l.
Proof.
  unfold keep. generalize 0%nat. induction l as [|x l IH]; intros n; [reflexivity|]. cbn [keep_from].
  assert (nat_mem n (rev red) = nat_mem n red) as ->.
  { apply Bool.eq_iff_eq_true. rewrite !nat_mem_spec. symmetry. apply in_rev. }
  now rewrite IH.
Qed.

Lemma set_nth_length {X} (x : X) : forall l n, length (set_nth n x l) = length l.
Proof. induction l as [|y l IH]; intros [|n]; cbn; auto. Qed.

Lemma set_nth_in {X} (x c : X) : forall l n,
  In c (set_nth n x l) <-> ((n < length l)%nat /\ c = x) \/ exists j, j <> n /\ nth_error l j = Some c.
Proof.
  induction l as [|y l IH]; intros n.
  - destruct n; cbn; (split; [intros []|]); intros [[L _] | (j & _ & E)]; try lia; destruct j; discriminate.
  - destruct n as [|n]; cbn [set_nth In length].
    + split.
      * intros [<- | I]; [left; split; [lia|reflexivity]|]. right. apply In_nth_error in I as [j E]. exists (S j). split; [discriminate|exact E].
      * intros [[_ ->] | (j & Hj & E)]; [now left|]. destruct j as [|j]; [congruence|]. right. cbn [nth_error] in E. now apply nth_error_In in E.
    + rewrite IH. split.
      * intros [<- | [[L ->] | (j & Hj & E)]].
        -- right. exists 0%nat. split; [discriminate|reflexivity].
        -- left. split; [lia|reflexivity].
        -- right. exists (S j). split; [lia|exact E].
      * intros [[L ->] | (j & Hj & E)].
        -- right. left. split; [lia|reflexivity].
        -- destruct j as [|j]; [left; now inversion E|]. right. right. exists j. split; [lia|exact E].
Qed.

Lemma set_nth_out {X} (x : X) : forall l n, (length l <= n)%nat -> set_nth n x l = l.
Proof. induction l as [|y l IH]; intros [|n] L; cbn in *; try reflexivity; try lia. rewrite IH; [reflexivity|lia]. Qed.

Lemma existsb_idx_spec {X} (f : nat -> X -> bool) : forall l n,
  existsb_idx f n l = true <-> exists j x, nth_error l j = Some x /\ f (n + j)%nat x = true.
Proof.
  induction l as [|y l IH]; intros n; cbn [existsb_idx].
  - split; [discriminate|]. intros (j & x & E & _). destruct j; discriminate.
  - rewrite orb_true_iff, IH. split.
    + intros [F | (j & x & E & F)].
      * exists 0%nat, y. split; [reflexivity|]. now rewrite Nat.add_0_r.
      * exists (S j), x. split; [exact E|]. now rewrite Nat.add_succ_r.
    + intros (j & x & E & F). destruct j as [|j].
      * left. inversion E; subst. now rewrite Nat.add_0_r in F.
      * right. exists j, x. split; [exact E|]. now rewrite Nat.add_succ_r in F.
Qed.

Lemma position_spec {X} (p : X -> bool) : forall l n, position p l = Some n -> exists u, nth_error l n = Some u /\ p u = true.
Proof.
  induction l as [|y l IH]; intros n E; cbn [position] in E; [discriminate|].
  destruct (p y) eqn:P.
  - inversion E; subst. exists y. auto.
  - destruct (position p l) as [m|]; [|discriminate]. cbn in E. inversion E; subst. destruct (IH m eq_refl) as (u & Eu & Pu). exists u. auto.
Qed.

(** ** equality of expressions is symmetric *)
Lemma nlist_eqb_sym : forall a b, nlist_eqb a b = nlist_eqb b a.
Proof. induction a as [|x a IH]; destruct b as [|y b]; cbn [nlist_eqb]; auto. now rewrite N.eqb_sym, IH. Qed.
Lemma vop_eqb_sym a b : vop_eqb a b = vop_eqb b a.
Proof. destruct a, b; reflexivity. Qed.
Lemma sop_eqb_sym a b : sop_eqb a b = sop_eqb b a.
Proof. destruct a, b; reflexivity. Qed.
Lemma bool_eqb_sym a b : Bool.eqb a b = Bool.eqb b a.
Proof. destruct a, b; reflexivity. Qed.
Lemma release_eqb_sym a b : release_eqb a b = release_eqb b a.
Proof. apply nlist_eqb_sym. Qed.
Lemma rawversions_eqb_sym : forall a b, rawversions_eqb a b = rawversions_eqb b a.
Proof.
  induction a as [|x a IH]; destruct b as [|y b]; cbn [rawversions_eqb]; auto. rewrite IH. f_equal.
  unfold rawversion_eqb. now rewrite N.eqb_sym, release_eqb_sym, nlist_eqb_sym.
Qed.
Lemma term_eqb_sym a b : term_eqb a b = term_eqb b a.
Proof.
  destruct a as [k op r|k vs n|k op s|k s n|k s n|n arb s], b as [k' op' r'|k' vs' n'|k' op' s'|k' s' n'|k' s' n'|n' arb' s'];
    cbn [term_eqb]; try reflexivity.
  - now rewrite N.eqb_sym, vop_eqb_sym, release_eqb_sym.
  - now rewrite N.eqb_sym, rawversions_eqb_sym, bool_eqb_sym.
  - now rewrite N.eqb_sym, sop_eqb_sym, nlist_eqb_sym.
  - now rewrite N.eqb_sym, nlist_eqb_sym, bool_eqb_sym.
  - now rewrite N.eqb_sym, nlist_eqb_sym, bool_eqb_sym.
  - now rewrite (bool_eqb_sym n), (bool_eqb_sym arb), nlist_eqb_sym.
Qed.

(** ** the two loops, for an arbitrary valuation [ev] of the expressions *)
Section Simp.
Variable ev : mexpr -> bool.
Definition all_true (c : clause) : bool := forallb ev c.
Definition dnf_true (d : dnf) : bool := existsb all_true d.

(** what [simplify] takes for granted: expressions it considers equal mean the same, expressions it
    considers negations of each other mean the opposite *)
Definition coherent (d : dnf) : Prop :=
  forall a b, In a (concat d) -> In b (concat d) ->
    (term_eqb a b = true -> ev a = ev b) /\ (is_negation a b = true -> ev a = negb (ev b)).

Lemma in_concat_nth (d : dnf) j c a : nth_error d j = Some c -> In a c -> In a (concat d).
Proof. intros E I. apply in_concat. exists c. split; [eapply nth_error_In; eauto|exact I]. Qed.

Lemma all_true_keep red C :
  all_true (keep red C) = true <-> forall p u, nth_error C p = Some u -> nat_mem p red = false -> ev u = true.
Proof.
  unfold all_true. rewrite forallb_forall. split.
  - intros Hx p u E M. apply Hx. apply keep_in. exists p. auto.
  - intros Hx u I. apply keep_in in I as (p & E & M). eapply Hx; eauto.
Qed.

Lemma dnf_true_set_nth d i K : (i < length d)%nat ->
  (dnf_true (set_nth i K d) = true <->
   all_true K = true \/ exists j c, j <> i /\ nth_error d j = Some c /\ all_true c = true).
Proof.
  intros L. unfold dnf_true. rewrite existsb_exists. split.
  - intros (c & I & T). apply set_nth_in in I as [[_ ->] | (j & Hj & E)]; [now left|]. right. exists j, c. auto.
  - intros [T | (j & c & Hj & E & T)].
    + exists K. split; [|exact T]. apply set_nth_in. left. auto.
    + exists c. split; [|exact T]. apply set_nth_in. right. exists j. auto.
Qed.

Lemma term_covered_spec C red A t : term_covered C red A t = true ->
  term_eqb t A = false /\
  (is_negation t A = true \/ exists p u, nth_error C p = Some u /\ term_eqb u t = true /\ nat_mem p red = false).
Proof.
  unfold term_covered. destruct (term_eqb t A); [discriminate|]. intros H. split; [reflexivity|].
  destruct (is_negation t A); [now left|]. right.
  destruct (position (fun x => term_eqb x t) C) as [p|] eqn:P; [|discriminate].
  apply position_spec in P as (u & E & Tu). exists p, u. split; [exact E|]. split; [exact Tu|]. now apply negb_true_iff.
Qed.

(** removing one more term *)
Lemma term_step d i C red s A j D :
  coherent d -> nth_error d i = Some C -> nth_error C s = Some A -> nat_mem s red = false ->
  nth_error d j = Some D -> j <> i -> forallb (term_covered C red A) D = true ->
  dnf_true (set_nth i (keep (red ++ [s]) C) d) = dnf_true (set_nth i (keep red C) d).
Proof.
  intros Co Ei Es Ms Ej Hj Cov.
  assert (i < length d)%nat as Li by (apply nth_error_Some; congruence).
  apply Bool.eq_iff_eq_true. rewrite !dnf_true_set_nth by exact Li. rewrite !all_true_keep.
  split; (intros [T | R]; [|now right]).
  - (* the shorter clause holds *)
    destruct (ev A) eqn:EA.
    + left. intros p u E M. destruct (Nat.eqb_spec p s) as [-> | Hne].
      * rewrite Es in E. inversion E; subst. exact EA.
      * apply (T p u E). rewrite nat_mem_snoc, M. cbn. now apply Nat.eqb_neq.
    + right. exists j, D. split; [exact Hj|]. split; [exact Ej|]. unfold all_true. apply forallb_forall. intros t It.
      rewrite forallb_forall in Cov. destruct (term_covered_spec _ _ _ _ (Cov t It)) as [Ne [Ng | (p & u & E & Tu & M)]].
      * destruct (Co t A (in_concat_nth d j D t Ej It) (in_concat_nth d i C A Ei (nth_error_In _ _ Es))) as [_ Hn].
        rewrite (Hn Ng), EA. reflexivity.
      * destruct (Co u t (in_concat_nth d i C u Ei (nth_error_In _ _ E)) (in_concat_nth d j D t Ej It)) as [He _].
        rewrite <- (He Tu). apply (T p u E). rewrite nat_mem_snoc, M. cbn. apply Nat.eqb_neq. intros ->.
        rewrite Es in E. inversion E; subst. rewrite term_eqb_sym in Tu. congruence.
  - left. intros p u E M. apply (T p u E). rewrite nat_mem_snoc in M. now apply orb_false_iff in M.
Qed.

Lemma terms_loop_inv d i C : coherent d -> nth_error d i = Some C ->
  forall todo pre red, C = pre ++ todo -> asc red -> (forall p, In p red -> (p < length pre)%nat) ->
  dnf_true (set_nth i (keep red C) d) = dnf_true d ->
  asc (redundant_terms_loop d i C (length pre) todo red) /\
  dnf_true (set_nth i (keep (redundant_terms_loop d i C (length pre) todo red) C) d) = dnf_true d.
Proof.
  intros Co Ei. induction todo as [|A todo IH]; intros pre red EC As Hlt Hd; cbn [redundant_terms_loop]; [auto|].
  assert (C = (pre ++ [A]) ++ todo) as EC' by (now rewrite <- app_assoc).
  assert (length (pre ++ [A]) = S (length pre)) as El by (rewrite app_length; cbn; lia).
  rewrite <- El.
  match goal with |- context [if ?f then _ else _] => destruct f eqn:Found end.
  - apply existsb_idx_spec in Found as (j & D & Ej & F). cbn [plus] in F. apply andb_true_iff in F as [Hj Cov].
    apply negb_true_iff, Nat.eqb_neq in Hj.
    assert (nth_error C (length pre) = Some A) as Es.
    { rewrite EC, nth_error_app2 by lia. now rewrite Nat.sub_diag. }
    assert (nat_mem (length pre) red = false) as Ms.
    { apply nat_mem_false. intros I. apply Hlt in I. lia. }
    apply IH; auto.
    + apply asc_snoc; auto.
    + intros p I. apply in_app_or in I as [I | [<- | []]]; [apply Hlt in I|]; lia.
    + rewrite (term_step d i C red (length pre) A j D); auto.
  - apply IH; auto. intros p I. apply Hlt in I. lia.
Qed.

Lemma keep_incl {X} red (l : list X) x : In x (keep red l) -> In x l.
Proof. intros I. apply keep_in in I as (p & E & _). eapply nth_error_In; eauto. Qed.

Lemma coherent_set_nth d i C K : coherent d -> nth_error d i = Some C -> (forall a, In a K -> In a C) -> coherent (set_nth i K d).
Proof.
  intros Co Ei Sub.
  assert (forall a, In a (concat (set_nth i K d)) -> In a (concat d)) as Inc.
  { intros a I. apply in_concat in I as (c & Ic & Ia). apply set_nth_in in Ic as [[_ ->] | (j & _ & E)].
    - eapply in_concat_nth; eauto.
    - eapply in_concat_nth; eauto. }
  intros a b Ia Ib. apply Co; auto.
Qed.

Lemma simplify_clause_sem d i : coherent d ->
  dnf_true (simplify_clause d i) = dnf_true d /\ coherent (simplify_clause d i) /\ length (simplify_clause d i) = length d.
Proof.
  intros Co. unfold simplify_clause. destruct (nth_error d i) as [C|] eqn:Ei.
  - rewrite (nth_error_nth d i [] Ei).
    assert (i < length d)%nat as Li by (apply nth_error_Some; congruence).
    destruct (terms_loop_inv d i C Co Ei C [] [] eq_refl I) as [As Hd].
    + intros p [].
    + f_equal. unfold keep. rewrite keep_from_all by (intros p []).
      clear -Ei. revert i Ei. induction d as [|c d IH]; intros [|i] E; cbn in *; try discriminate.
      * now inversion E.
      * now rewrite IH.
    + cbn [length] in As, Hd. set (red := redundant_terms_loop d i C 0 C []) in *.
      rewrite (sort_desc_asc red As), (remove_desc (rev red) C (rev_asc_desc red As)), keep_rev.
      split; [exact Hd|]. split; [|apply set_nth_length].
      apply (coherent_set_nth d i C); auto. intros a. apply keep_incl.
  - assert (length d <= i)%nat as Li by (now apply nth_error_None).
    rewrite set_nth_out by exact Li. auto.
Qed.

Lemma simplify_terms_sem : forall n i d, coherent d ->
  dnf_true (simplify_terms n i d) = dnf_true d /\ coherent (simplify_terms n i d).
Proof.
  induction n as [|n IH]; intros i d Co; cbn [simplify_terms]; [auto|].
  destruct (simplify_clause_sem d i Co) as (E & Co' & _). destruct (IH (S i) _ Co') as [E' Co'']. split; [congruence|exact Co''].
Qed.

(** removing one more clause *)
Lemma clause_subset_spec D C : clause_subset D C = true -> forall t, In t D -> exists u, In u C /\ term_eqb u t = true.
Proof. unfold clause_subset. rewrite forallb_forall. intros Hx t I. apply existsb_exists. now apply Hx. Qed.

Lemma dnf_true_keep red d :
  dnf_true (keep red d) = true <-> exists p c, nth_error d p = Some c /\ nat_mem p red = false /\ all_true c = true.
Proof.
  unfold dnf_true. rewrite existsb_exists. split.
  - intros (c & I & T). apply keep_in in I as (p & E & M). exists p, c. auto.
  - intros (p & c & E & M & T). exists c. split; [|exact T]. apply keep_in. exists p. auto.
Qed.

Lemma clause_step d red i C j D :
  coherent d -> nth_error d i = Some C -> nth_error d j = Some D -> j <> i -> nat_mem j red = false ->
  clause_subset D C = true ->
  dnf_true (keep (red ++ [i]) d) = dnf_true (keep red d).
Proof.
  intros Co Ei Ej Hj Mj Sub. apply Bool.eq_iff_eq_true. rewrite !dnf_true_keep. split.
  - intros (p & c & E & M & T). exists p, c. rewrite nat_mem_snoc in M. apply orb_false_iff in M as [M _]. auto.
  - intros (p & c & E & M & T). destruct (Nat.eqb_spec p i) as [-> | Hne].
    + rewrite Ei in E. inversion E; subst c. exists j, D. split; [exact Ej|]. split.
      * rewrite nat_mem_snoc, Mj. cbn. now apply Nat.eqb_neq.
      * unfold all_true. apply forallb_forall. intros t It.
        destruct (clause_subset_spec D C Sub t It) as (u & Iu & Tu).
        destruct (Co u t) as [He _].
        -- apply in_concat. exists C. split; [eapply nth_error_In; eauto|exact Iu].
        -- eapply in_concat_nth; eauto.
        -- rewrite <- (He Tu). unfold all_true in T. rewrite forallb_forall in T. now apply T.
    + exists p, c. split; [exact E|]. split; [|exact T]. rewrite nat_mem_snoc, M. cbn. now apply Nat.eqb_neq.
Qed.

Lemma clauses_loop_inv d : coherent d ->
  forall todo pre red, d = pre ++ todo -> asc red -> (forall p, In p red -> (p < length pre)%nat) ->
  dnf_true (keep red d) = dnf_true d ->
  asc (redundant_clauses_loop d (length pre) todo red) /\
  dnf_true (keep (redundant_clauses_loop d (length pre) todo red) d) = dnf_true d.
Proof.
  intros Co. induction todo as [|C todo IH]; intros pre red Ed As Hlt Hd; cbn [redundant_clauses_loop]; [auto|].
  assert (d = (pre ++ [C]) ++ todo) as Ed' by (now rewrite <- app_assoc).
  assert (length (pre ++ [C]) = S (length pre)) as El by (rewrite app_length; cbn; lia).
  rewrite <- El.
  match goal with |- context [if ?f then _ else _] => destruct f eqn:Found end.
  - apply existsb_idx_spec in Found as (j & D & Ej & F). cbn [plus] in F. apply andb_true_iff in F as [Hj Sub].
    apply negb_true_iff, orb_false_iff in Hj as [Hj Mj]. apply Nat.eqb_neq in Hj.
    assert (nth_error d (length pre) = Some C) as Ei.
    { rewrite Ed, nth_error_app2 by lia. now rewrite Nat.sub_diag. }
    apply IH; auto.
    + apply asc_snoc; auto.
    + intros p I. apply in_app_or in I as [I | [<- | []]]; [apply Hlt in I|]; lia.
    + rewrite (clause_step d red (length pre) C j D); auto.
  - apply IH; auto. intros p I. apply Hlt in I. lia.
Qed.

Theorem simplify_sem_gen (d : dnf) : coherent d -> dnf_true (simplify d) = dnf_true d.
Proof.
  intros Co. unfold simplify. destruct (simplify_terms_sem (length d) 0 d Co) as [E1 Co1].
  set (d1 := simplify_terms (length d) 0 d) in *.
  destruct (clauses_loop_inv d1 Co1 d1 [] [] eq_refl I) as [As Hd].
  - intros p [].
  - unfold keep. now rewrite keep_from_all by (intros p []).
  - cbn [length] in As, Hd. set (red := redundant_clauses_loop d1 0 d1 []) in *.
    rewrite (remove_desc (rev red) d1 (rev_asc_desc red As)), keep_rev.
    congruence.
Qed.
End Simp.

(** ** when the expressions of a DNF are "plain", [simplify]'s tests are sound *)

(** a release is its stripped form followed by zeros *)
Lemma strip_decomp : forall l, l = strip l ++ repeat 0 (length l - length (strip l)).
Proof.
  induction l as [|x l IH]; [reflexivity|]. cbn [strip]. destruct (strip l) as [|y r] eqn:E.
  - cbn [app length] in IH. rewrite Nat.sub_0_r in IH. destruct (N.eqb_spec x 0) as [-> | Hx].
    + cbn [app length]. rewrite Nat.sub_0_r. cbn [repeat]. now rewrite <- IH.
    + cbn [app length]. rewrite Nat.sub_succ, Nat.sub_0_r. now rewrite <- IH.
  - cbn [app length] in *. rewrite Nat.sub_succ. now rewrite <- IH.
Qed.

Lemma strip_same_length a b : strip a = strip b -> length a = length b -> a = b.
Proof. intros Es El. rewrite (strip_decomp a), (strip_decomp b), Es, El. reflexivity. Qed.

Lemma strip1_of_strip a b : strip a = strip b -> strip1 a = strip1 b.
Proof. unfold strip1. now intros ->. Qed.

Definition star_like (op : vop) : bool := match op with OEqStar | ONeStar | OTilde => true | _ => false end.

(** the expressions on which the tests of [simplify] are sound: no [in]-lists, and [V.*] / [~= V] only with
    two release segments (what [collect_dnf] prints) *)
Definition plain_term (e : mexpr) : bool :=
  match e with
  | EVersion k op rel => if star_like op then (length rel =? 2)%nat else true
  | EVersionIn _ _ _ => false
  | _ => true
  end.

Lemma vop_eqb_spec a b : vop_eqb a b = true <-> a = b.
Proof. destruct a, b; cbn; split; congruence. Qed.
Lemma sop_eqb_spec a b : sop_eqb a b = true <-> a = b.
Proof. destruct a, b; cbn; split; congruence. Qed.

Lemma normalize_spec_eq op r r' : strip r = strip r' -> (star_like op = true -> length r = length r') ->
  normalize_spec op r = normalize_spec op r'.
Proof.
  intros Es El. destruct op; cbn [normalize_spec star_like] in *; try (now apply strip1_of_strip);
    apply strip_same_length; auto.
Qed.

Lemma normalize_spec_class op op' r : star_like op = star_like op' -> normalize_spec op r = normalize_spec op' r.
Proof. destruct op, op'; cbn; intros E; try discriminate; reflexivity. Qed.

(** the meaning of [python_version OP V] after the rewriting to python_full_version *)
Definition pvsem (op : vop) (n : list N) (x : val) : bool :=
  match pv_to_pfv op n with inl s => vsem s x | inr b => b end.

Lemma vsem_exact x rel : vsem (OExact, rel) x = is_eq (cmp x (final_version (strip1 rel))).
Proof. apply in_singleton. Qed.

Lemma pv_negate_sound op op' n x : vop_negate op = Some op' -> n <> [] -> (star_like op = true -> length n = 2%nat) ->
  pvsem op n x = negb (pvsem op' n x).
Proof.
  intros Ng Hn Hl. unfold pvsem.
  destruct op; inversion Ng; subst op'; cbn [star_like] in Hl;
    destruct n as [|M [|m [|y rest]]]; try contradiction;
    try (specialize (Hl eq_refl); discriminate);
    cbn [pv_to_pfv is_star];
    rewrite ?vsem_eq, ?vsem_ne, ?vsem_exact, ?vsem_lt, ?vsem_le, ?vsem_gt, ?vsem_ge, ?vsem_eqstar, ?vsem_nestar, ?negb_involutive;
    reflexivity.
Qed.

Section Plain.
Variables (pv pfv : N) (ro : mvaluation).
Notation sem := (sem pv pfv ro).

Lemma sem_version_pv op rel : sem (EVersion pv op rel) = pvsem op (normalize_spec op rel) (rv ro (VVersion pfv)).
Proof.
  unfold DnfProofs.sem, pvsem. cbn [expression]. rewrite N.eqb_refl.
  destruct (pv_to_pfv op (normalize_spec op rel)) as [[op' rel']|b]; [|reflexivity].
  rewrite eval_range_node by apply spec_range_sorted. reflexivity.
Qed.

Lemma plain_version_norm k op r k' op' r' :
  plain_term (EVersion k op r) = true -> plain_term (EVersion k' op' r') = true ->
  release_eqb r r' = true -> op = op' \/ (star_like op = star_like op') ->
  normalize_spec op r = normalize_spec op r'.
Proof.
  cbn [plain_term]. intros Pa Pb Er Hop.
  apply nlist_eqb_spec in Er. apply normalize_spec_eq; [exact Er|].
  intros St. assert (star_like op' = true) as St' by (destruct Hop as [<- | <-]; exact St).
  rewrite St in Pa. rewrite St' in Pb. apply Nat.eqb_eq in Pa, Pb. congruence.
Qed.

Lemma plain_eq_sound a b : plain_term a = true -> plain_term b = true -> term_eqb a b = true -> sem a = sem b.
Proof.
  intros Pa Pb E.
  destruct a as [k op r|k vs n|k op s|k s n|k s n|n arb s], b as [k' op' r'|k' vs' n'|k' op' s'|k' s' n'|k' s' n'|n' arb' s'];
    cbn [term_eqb] in E; try discriminate.
  - apply andb_true_iff in E as [E Er]. apply andb_true_iff in E as [Ek Eo]. apply N.eqb_eq in Ek. apply vop_eqb_spec in Eo. subst k' op'.
    pose proof (plain_version_norm _ _ _ _ _ _ Pa Pb Er (or_introl eq_refl)) as En.
    unfold DnfProofs.sem. cbn [expression]. now rewrite En.
  - apply andb_true_iff in E as [E Es]. apply andb_true_iff in E as [Ek Eo]. apply N.eqb_eq in Ek. apply sop_eqb_spec in Eo.
    apply nlist_eqb_spec in Es. now subst.
  - apply andb_true_iff in E as [E En]. apply andb_true_iff in E as [Ek Es]. apply N.eqb_eq in Ek. apply nlist_eqb_spec in Es.
    apply Bool.eqb_prop in En. now subst.
  - apply andb_true_iff in E as [E En]. apply andb_true_iff in E as [Ek Es]. apply N.eqb_eq in Ek. apply nlist_eqb_spec in Es.
    apply Bool.eqb_prop in En. now subst.
  - apply andb_true_iff in E as [E Es]. apply andb_true_iff in E as [En Ea]. apply nlist_eqb_spec in Es.
    apply Bool.eqb_prop in En, Ea. now subst.
Qed.

Lemma sem_bool_node key b : eval ro (bool_node key b) = if b then bv (ro) key else negb (bv (ro) key).
Proof. unfold bool_node. destruct b; cbn [eval]; destruct (bv (ro) key); reflexivity. Qed.

Lemma plain_neg_sound a b : plain_term a = true -> plain_term b = true -> is_negation a b = true -> sem a = negb (sem b).
Proof.
  intros Pa Pb E.
  destruct a as [k op r|k vs n|k op s|k s n|k s n|n arb s], b as [k' op' r'|k' vs' n'|k' op' s'|k' s' n'|k' s' n'|n' arb' s'];
    cbn [is_negation] in E; try discriminate.
  - apply andb_true_iff in E as [E Eo]. apply andb_true_iff in E as [Ek Er]. apply N.eqb_eq in Ek. subst k'.
    destruct (vop_negate op) as [ng|] eqn:Ng; [|discriminate]. apply vop_eqb_spec in Eo. subst ng.
    assert (star_like op = star_like op') as Hs by (destruct op; inversion Ng; reflexivity).
    pose proof (plain_version_norm _ _ _ _ _ _ Pa Pb Er (or_intror Hs)) as En.
    destruct (N.eqb_spec k pv) as [-> | Hk].
    + (* python_version *)
      rewrite !sem_version_pv. rewrite <- (normalize_spec_class op op' r' Hs), <- En.
      apply pv_negate_sound; [exact Ng| |].
      * destruct (star_like op) eqn:St.
        -- cbn [plain_term] in Pa. rewrite St in Pa. apply Nat.eqb_eq in Pa.
           assert (normalize_spec op r = r) as -> by (destruct op; try discriminate; reflexivity).
           intros ->. discriminate.
        -- assert (normalize_spec op r = strip1 r) as -> by (destruct op; try discriminate; reflexivity). apply strip1_not_nil.
      * intros St. cbn [plain_term] in Pa. rewrite St in Pa. apply Nat.eqb_eq in Pa.
        assert (normalize_spec op r = r) as -> by (destruct op; try discriminate; reflexivity). exact Pa.
    + assert (normalize_spec op' r = normalize_spec op' r') as En'.
      { destruct op; inversion Ng; subst op'; exact En. }
      rewrite !sem_version by exact Hk. set (x := rv ro (VVersion k)).
      assert (strip1 r = strip1 r') as E1 by (apply strip1_of_strip; now apply nlist_eqb_spec).
      destruct op; inversion Ng; subst op'; cbn [normalize_spec] in En;
        rewrite ?vsem_eq, ?vsem_ne, ?vsem_exact, ?vsem_lt, ?vsem_le, ?vsem_gt, ?vsem_ge, ?vsem_eqstar, ?vsem_nestar, ?E1, ?En, ?negb_involutive;
        reflexivity.
  - apply andb_true_iff in E as [E Eo]. apply andb_true_iff in E as [Ek Es]. apply N.eqb_eq in Ek. apply nlist_eqb_spec in Es.
    apply sop_eqb_spec in Eo. subst k' s' op'. rewrite !sem_string. set (x := rv ro (VString k)).
    rewrite !ssem_unfold. destruct op; cbn [sop_negate string_range];
      rewrite ?in_complement, ?in_singleton, ?in_lt, ?in_le, ?in_gt, ?in_ge, ?negb_involutive; reflexivity.
  - apply andb_true_iff in E as [E En]. apply andb_true_iff in E as [Ek Es]. apply N.eqb_eq in Ek. apply nlist_eqb_spec in Es.
    apply Bool.eqb_prop in En. subst k' s' n'. unfold DnfProofs.sem. cbn [expression]. rewrite !sem_bool_node.
    destruct n, (bv (ro) (VIn k s)); reflexivity.
  - apply andb_true_iff in E as [E En]. apply andb_true_iff in E as [Ek Es]. apply N.eqb_eq in Ek. apply nlist_eqb_spec in Es.
    apply Bool.eqb_prop in En. subst k' s' n'. unfold DnfProofs.sem. cbn [expression]. rewrite !sem_bool_node.
    destruct n, (bv (ro) (VContains k s)); reflexivity.
  - apply andb_true_iff in E as [E En]. apply andb_true_iff in E as [Ea Es]. apply nlist_eqb_spec in Es.
    apply Bool.eqb_prop in En, Ea. subst arb' s' n'. unfold DnfProofs.sem. cbn [expression]. rewrite !sem_bool_node.
    destruct n, (bv (ro) (VExtra arb s)); reflexivity.
Qed.

Definition plain_dnf (d : dnf) : Prop := Forall (Forall (fun e => plain_term e = true)) d.

Lemma plain_coherent d : plain_dnf d -> coherent sem d.
Proof.
  intros Pl.
  assert (forall a, In a (concat d) -> plain_term a = true) as Hp.
  { intros a I. apply in_concat in I as (c & Ic & Ia). unfold plain_dnf in Pl. rewrite Forall_forall in Pl.
    specialize (Pl c Ic). rewrite Forall_forall in Pl. now apply Pl. }
  intros a b Ia Ib. split; [apply plain_eq_sound|apply plain_neg_sound]; auto.
Qed.

(** [simplify] preserves the meaning of a DNF on which its equality and negation tests are sound *)
Theorem simplify_sem_r (d : dnf) : coherent sem d ->
  eval_dnf_r pv pfv ro (simplify d) = eval_dnf_r pv pfv ro d.
Proof. apply (simplify_sem_gen sem). Qed.

Corollary simplify_sem_plain_r (d : dnf) : plain_dnf d ->
  eval_dnf_r pv pfv ro (simplify d) = eval_dnf_r pv pfv ro d.
Proof. intros Pl. apply simplify_sem_r. now apply plain_coherent. Qed.
End Plain.

Print Assumptions simplify_sem_r.

(** ** the clauses of [collect_dnf] are plain *)
Lemma Forall_flat_map_intro {X Y} (P : Y -> Prop) (f : X -> list Y) (l : list X) :
  (forall a, In a l -> Forall P (f a)) -> Forall P (flat_map f l).
Proof.
  induction l as [|a l IH]; intros Hx; cbn [flat_map]; [constructor|].
  apply Forall_app. split; [apply Hx; now left|]. apply IH. intros b I. apply Hx. now right.
Qed.

Definition spec_plain (s : specifier) : Prop := star_like (fst s) = true -> length (snd s) = 2%nat.

Lemma release_only_plain iv : Forall spec_plain (release_only_specifiers iv).
Proof.
  assert (forall lo hi, Forall spec_plain (vs_from_lower_bound lo ++ vs_from_upper_bound hi)) as Dflt.
  { intros lo hi. apply Forall_app. split; [destruct lo|destruct hi]; cbn; repeat constructor; intros St; discriminate. }
  assert (forall iv, Forall spec_plain (vs_from_release_only_bounds iv)) as From.
  { intros [lo hi]. unfold vs_from_release_only_bounds. cbv zeta. cbn [fst snd].
    destruct (lower_of lo) as [|v1|v1]; try apply Dflt. destruct (upper_of hi) as [|v2|v2]; try apply Dflt.
    - destruct (val_eqb v1 v2); [|apply Dflt]. repeat constructor. intros St; discriminate.
    - destruct (release_of v1) as [|a [|b [|? ?]]] eqn:E1; try apply Dflt.
      destruct (nlist_eqb (release_of v2) [a; b + 1]); [|apply Dflt]. constructor; [intros _; reflexivity|constructor]. }
  destruct iv as [lo hi]. unfold release_only_specifiers. cbn [fst snd].
  destruct (lower_of lo) as [|v1|v1]; try apply From. destruct (upper_of hi) as [|v2|v2]; try apply From.
  destruct (release_of v1) as [|major [|? ?]]; try apply From.
  destruct (nlist_eqb (release_of v2) [major; 1]); [|apply From]. constructor; [intros _; reflexivity|constructor].
Qed.

Lemma star_inequality_plain ivs s : star_range_inequality ivs = Some s -> spec_plain s.
Proof.
  unfold star_range_inequality. destruct ivs as [|b1 [|b2 [|? ?]]]; try discriminate.
  destruct (lower_of (fst b1)); try discriminate. destruct (upper_of (snd b1)) as [| |v1]; try discriminate.
  destruct (lower_of (fst b2)) as [|v2|]; try discriminate. destruct (upper_of (snd b2)); try discriminate.
  destruct (release_of v1) as [|major [|minor [|? ?]]]; try discriminate;
    match goal with |- context [nlist_eqb ?a ?b] => destruct (nlist_eqb a b) end; try discriminate;
    intros E; inversion E; subst s; intros _; reflexivity.
Qed.

Section PlainCollect.
Variable pv : N.
Notation plain := (fun e => plain_term e = true).

Lemma plain_spec_term k s : spec_plain s -> plain_term (EVersion k (fst s) (snd s)) = true.
Proof.
  intros Sp. cbn [plain_term]. destruct (star_like (fst s)) eqn:St; [|reflexivity]. apply Nat.eqb_eq. now apply Sp.
Qed.

Lemma version_group_plain k path (sub : clause -> dnf) ivs :
  (forall p, Forall plain p -> Forall (Forall plain) (sub p)) -> Forall plain path ->
  Forall (Forall plain) (version_group k path sub ivs).
Proof.
  intros Hsub Pp. unfold version_group. destruct (range_inequality ivs) as [vs|].
  - apply Hsub. apply Forall_app. split; [exact Pp|]. apply Forall_map, Forall_forall. intros v _.
    apply (plain_spec_term k (ONe, release_of v)). intros St; discriminate.
  - destruct (star_range_inequality ivs) as [s|] eqn:Es.
    + apply Hsub. apply Forall_app. split; [exact Pp|]. constructor; [|constructor].
      apply plain_spec_term. eapply star_inequality_plain; eauto.
    + apply Forall_flat_map_intro. intros iv _. apply Hsub. apply Forall_app. split; [exact Pp|].
      apply Forall_map. eapply Forall_impl; [|apply release_only_plain]. intros s Sp. now apply plain_spec_term.
Qed.

Lemma string_group_plain k path (sub : clause -> dnf) ivs :
  (forall p, Forall plain p -> Forall (Forall plain) (sub p)) -> Forall plain path ->
  Forall (Forall plain) (string_group k path sub ivs).
Proof.
  intros Hsub Pp. unfold string_group. destruct (range_inequality ivs) as [vs|].
  - apply Hsub. apply Forall_app. split; [exact Pp|]. apply Forall_map, Forall_forall. intros v _. reflexivity.
  - apply Forall_flat_map_intro. intros iv _. apply Hsub. apply Forall_app. split; [exact Pp|].
    apply Forall_map, Forall_forall. intros s _. reflexivity.
Qed.

Theorem collect_from_plain : forall t : mdd, wfm t -> renderable_dd pv t = true ->
  forall path, Forall plain path -> Forall (Forall plain) (collect_dnf_from t path).
Proof.
  induction t as [b|key d0 ds IH0 IHl|key hi lo IHh IHl] using dd_ind2; intros W Rn path Pp.
  - destruct b; cbn [collect_dnf_from]; [|constructor]. destruct path; [constructor|]. constructor; [exact Pp|constructor].
  - inversion W as [|? ? ? Rk Hn S Rd W0 A0 Wl|]; subst.
    apply renderable_rnode in Rn as (Hkey & Rn0 & Rnl).
    destruct (node_edges_props d0 ds S Rd Hn) as [_ Props].
    assert (forall d, d = d0 \/ In d (map snd ds) ->
              forall p, Forall plain p -> Forall (Forall plain) (collect_dnf_from d p)) as Hsub.
    { intros d [-> | Id] p Hpn.
      - apply IH0; auto.
      - rewrite Forall_forall in IHl, Wl. apply IHl; auto.
        + now apply Wl.
        + apply in_map_iff in Id as (cd & <- & Icd). rewrite Forall_forall in Rnl. now apply Rnl. }
    rewrite collect_rnode. destruct key as [k|k|k s|k s|arb s]; try contradiction.
    + apply Forall_flat_map_intro. intros [d ivs] Ig. cbn [fst snd]. destruct (Props d ivs Ig) as (Hd & _).
      apply version_group_plain; auto.
    + apply Forall_flat_map_intro. intros [d ivs] Ig. cbn [fst snd]. destruct (Props d ivs Ig) as (Hd & _).
      apply string_group_plain; auto.
  - inversion W as [| |? ? ? Rk Hne Wh Ah Wl Al]; subst.
    cbn [renderable_dd] in Rn. apply andb_true_iff in Rn as [Rh Rl].
    cbn [collect_dnf_from]. destruct (bool_terms key) as [[pos neg]|] eqn:Eb; [|constructor].
    assert (plain_term pos = true /\ plain_term neg = true) as [Ppos Pneg].
    { destruct key; cbn [bool_terms] in Eb; try discriminate; inversion Eb; subst; split; reflexivity. }
    apply Forall_app. split; [apply IHh|apply IHl]; auto; apply Forall_app; split; auto.
Qed.
End PlainCollect.

(** * C05: the rendered DNF denotes the marker *)
Section ToDnf.
Variables (pv pfv : N) (ro : mvaluation).

Theorem to_dnf_sem_r (t : mdd) : wfm t -> renderable_dd pv t = true -> t <> Leaf true ->
  eval_dnf_r pv pfv ro (to_dnf t) = eval ro t.
Proof.
  intros W R Hn. unfold to_dnf. rewrite simplify_sem_plain_r.
  - now apply collect_dnf_sem_r.
  - apply (collect_from_plain pv); auto.
Qed.
End ToDnf.

Print Assumptions to_dnf_sem_r.

(** ** the statements for a concrete environment and a set of active extras *)
Section Env.
Variables (pv pfv : N) (en : env) (extras : list str).

(** OR over the clauses of AND over the comparisons of the diagram-level meaning of each comparison *)
Definition eval_dnf (d : dnf) : bool :=
  existsb (forallb (fun e => m_eval en extras (expression pv pfv e))) d.

Lemma eval_dnf_eq d : eval_dnf d = eval_dnf_r pv pfv (val_of_env en extras) d.
Proof. reflexivity. Qed.

Theorem collect_dnf_sem (t : mdd) : wfm t -> renderable_dd pv t = true -> t <> Leaf true ->
  eval_dnf (collect_dnf t) = m_eval en extras t.
Proof. intros. rewrite eval_dnf_eq. now apply collect_dnf_sem_r. Qed.

Theorem simplify_sem (d : dnf) : coherent (fun e => m_eval en extras (expression pv pfv e)) d ->
  eval_dnf (simplify d) = eval_dnf d.
Proof. intros Co. rewrite !eval_dnf_eq. now apply simplify_sem_r. Qed.

Corollary simplify_sem_plain (d : dnf) : plain_dnf d -> eval_dnf (simplify d) = eval_dnf d.
Proof. intros Pl. rewrite !eval_dnf_eq. now apply simplify_sem_plain_r. Qed.

Theorem to_dnf_sem (t : mdd) : wfm t -> renderable_dd pv t = true -> t <> Leaf true ->
  eval_dnf (to_dnf t) = m_eval en extras t.
Proof. intros. rewrite eval_dnf_eq. now apply to_dnf_sem_r. Qed.
End Env.

Print Assumptions collect_dnf_sem.
Print Assumptions simplify_sem.
Print Assumptions to_dnf_sem.

(** ** recompiling the DNF: [c1 or c2 or ...] with [ci = e1 and e2 and ...], as the parser builds it
    (left-associated chains; the neutral first operand changes nothing: [tand_true_l], [tor] likewise) *)
Definition recompile_clause (pv pfv : N) (c : clause) : mdd :=
  fold_left (fun acc e => m_and acc (expression pv pfv e)) c (Leaf true).
Definition recompile_dnf (pv pfv : N) (d : dnf) : mdd :=
  fold_left (fun acc c => m_or acc (recompile_clause pv pfv c)) d (Leaf false).

Section Recompile.
Variables (pv pfv : N).

Lemma recompile_clause_gen (ro : mvaluation) : forall c acc, okm acc -> wfm acc ->
  let t := fold_left (fun acc e => m_and acc (expression pv pfv e)) c acc in
  okm t /\ wfm t /\ eval ro t = eval ro acc && eval_clause_r pv pfv ro c.
Proof.
  induction c as [|e c IH]; intros acc Oa Wa; cbn [fold_left].
  - split; [exact Oa|]. split; [exact Wa|]. cbn. now rewrite andb_true_r.
  - pose proof (expression_ok pv pfv e) as Oe. pose proof (expression_wf pv pfv e) as We.
    destruct (IH (m_and acc (expression pv pfv e))) as (Ot & Wt & Et).
    + now apply (tand_ok is_range).
    + now apply (tand_wf is_range).
    + split; [exact Ot|]. split; [exact Wt|]. rewrite Et. unfold m_and.
      destruct Oa as [Sa Ta], Oe as [Se Te]. rewrite (tand_sem is_range acc Sa Ta _ Se Te ro).
      cbn [eval_clause_r forallb]. unfold eval_clause_r. cbn [forallb]. unfold sem. now rewrite andb_assoc.
Qed.

Lemma recompile_dnf_gen (ro : mvaluation) : forall d acc, okm acc -> wfm acc ->
  let t := fold_left (fun acc c => m_or acc (recompile_clause pv pfv c)) d acc in
  okm t /\ wfm t /\ eval ro t = eval ro acc || eval_dnf_r pv pfv ro d.
Proof.
  induction d as [|c d IH]; intros acc Oa Wa; cbn [fold_left].
  - split; [exact Oa|]. split; [exact Wa|]. cbn. now rewrite orb_false_r.
  - destruct (recompile_clause_gen ro c (Leaf true)) as (Oc & Wc & Ec); [apply ok_leaf|constructor|].
    fold (recompile_clause pv pfv c) in Oc, Wc, Ec.
    destruct (IH (m_or acc (recompile_clause pv pfv c))) as (Ot & Wt & Et).
    + now apply (tor_ok is_range).
    + now apply (tor_wf is_range).
    + split; [exact Ot|]. split; [exact Wt|]. rewrite Et. unfold m_or. rewrite (tor_sem is_range) by assumption.
      rewrite Ec. cbn [eval andb]. unfold eval_dnf_r. cbn [existsb]. now rewrite orb_assoc.
Qed.

Lemma recompile_dnf_wf d : wfm (recompile_dnf pv pfv d).
Proof. destruct (recompile_dnf_gen {| rv := fun _ => inr []; bv := fun _ => false |} d (Leaf false)) as (_ & W & _); [apply ok_leaf|constructor|exact W]. Qed.

Lemma recompile_dnf_sem (ro : mvaluation) d : eval ro (recompile_dnf pv pfv d) = eval_dnf_r pv pfv ro d.
Proof. destruct (recompile_dnf_gen ro d (Leaf false)) as (_ & _ & E); [apply ok_leaf|constructor|exact E]. Qed.

(** re-reading the printed DNF gives a diagram that evaluates like the original, under every valuation
    of the diagram variables (in particular for every environment and set of extras) *)
Corollary to_dnf_roundtrip_sem (t : mdd) : wfm t -> renderable_dd pv t = true -> t <> Leaf true ->
  forall ro : mvaluation, eval ro (recompile_dnf pv pfv (to_dnf t)) = eval ro t.
Proof. intros W R Hn ro. rewrite recompile_dnf_sem. now apply to_dnf_sem_r. Qed.

Corollary to_dnf_roundtrip_env (t : mdd) (en : env) (extras : list str) :
  wfm t -> renderable_dd pv t = true -> t <> Leaf true ->
  m_eval en extras (recompile_dnf pv pfv (to_dnf t)) = m_eval en extras t.
Proof. intros W R Hn. now apply to_dnf_roundtrip_sem. Qed.

(** ... and, by canonicity (C03), it IS the original diagram when the cuts of both lie in the dense part
    of the domains ([nice_pair]: release-only version bounds, no vacuous string gaps) *)
Corollary to_dnf_roundtrip_id (t : mdd) : wfm t -> renderable_dd pv t = true -> t <> Leaf true ->
  nice_pair (recompile_dnf pv pfv (to_dnf t)) t ->
  recompile_dnf pv pfv (to_dnf t) = t.
Proof.
  intros W R Hn Nice.
  apply (canon_complete is_range val_ok dflt dflt_ok _ _ (recompile_dnf_wf _) W (nice_dense _ _ Nice)).
  intros ro _. now apply to_dnf_roundtrip_sem.
Qed.
End Recompile.

Print Assumptions to_dnf_roundtrip_sem.
Print Assumptions to_dnf_roundtrip_id.

(** * Findings: on arbitrary DNFs [simplify] is NOT meaning-preserving *)
(** Its tests [==] and [is_negation] compare the versions of two specifiers with [Version ==], which pads
    with zeros, while the meaning of [V.*], [~= V] and of [python_version in '...'] depends on the number
    of release segments.  ([collect_dnf] never produces such pairs: [collect_from_plain].)
    Environment: python_full_version = 3.8.1, os_name = 'a'; keys as in DnfModel.v. *)
Definition ex_env : env := {| env_version := fun _ => (0, ([3; 8; 1], FINAL)); env_string := fun _ => [97] |}.

(** [!= 3.8.*] is taken for the negation of [== 3.8.0.*]:
    [(pfv == '3.8.0.*' and os_name == 'a') or pfv != '3.8.*']  becomes  [os_name == 'a' or pfv != '3.8.*'] *)
Example simplify_unsound_star_negation :
  let d := [[EVersion 1 OEqStar [3; 8; 0]; EString 1 SEq [97]]; [EVersion 1 ONeStar [3; 8]]] in
  is_negation (EVersion 1 ONeStar [3; 8]) (EVersion 1 OEqStar [3; 8; 0]) = true /\
  simplify d = [[EString 1 SEq [97]]; [EVersion 1 ONeStar [3; 8]]] /\
  eval_dnf 2 1 ex_env [] d = false /\ eval_dnf 2 1 ex_env [] (simplify d) = true.
Proof. vm_compute. repeat split; reflexivity. Qed.

(** [~= 3.8.0] and [~= 3.8.0.0] are taken for the same expression: the first clause is dropped *)
Example simplify_unsound_tilde_equality :
  let d := [[EVersion 1 OTilde [3; 8; 0]]; [EVersion 1 OTilde [3; 8; 0; 0]]] in
  simplify d = [[EVersion 1 OTilde [3; 8; 0; 0]]] /\
  eval_dnf 2 1 ex_env [] d = true /\ eval_dnf 2 1 ex_env [] (simplify d) = false.
Proof. vm_compute. repeat split; reflexivity. Qed.

(** [python_version in '3.8'] and [python_version in '3.8.0'] likewise *)
Example simplify_unsound_in_equality :
  let d := [[EVersionIn 2 [(0, ([3; 8], FINAL))] false]; [EVersionIn 2 [(0, ([3; 8; 0], FINAL))] false]] in
  simplify d = [[EVersionIn 2 [(0, ([3; 8; 0], FINAL))] false]] /\
  eval_dnf 2 1 ex_env [] d = true /\ eval_dnf 2 1 ex_env [] (simplify d) = false.
Proof. vm_compute. repeat split; reflexivity. Qed.

(** * [renderable_dd] holds of the diagrams of single comparisons and is preserved by negation *)
Lemma coalesce_in {A} (eqb : A -> A -> bool) : forall (l : list (cut val * A)) cur p, In p (coalesce eqb cur l) -> In p l.
Proof.
  induction l as [|[c a] l IH]; intros cur p I; cbn [coalesce] in I; [exact I|].
  destruct (eqb cur a).
  - right. eapply IH; eauto.
  - destruct I as [<- | I]; [now left|]. right. eapply IH; eauto.
Qed.

Lemma merge_cuts {A B C} (f : A -> B -> C) (Q : cut val -> Prop) : forall la ca lb cb,
  Forall Q (map fst la) -> Forall Q (map fst lb) -> Forall Q (map fst (merge f ca la cb lb)).
Proof.
  induction la as [|[c1 a] la IHa]; intros ca lb.
  - induction lb as [|[c2 b] lb IHb]; intros cb Fa Fb; [constructor|].
    inversion Fb; subst. cbn. constructor; auto.
  - induction lb as [|[c2 b] lb IHb]; intros cb Fa Fb.
    + inversion Fa; subst. cbn. constructor; auto.
    + inversion Fa as [|? ? Q1 Fa']; subst. inversion Fb as [|? ? Q2 Fb']; subst.
      cbn [merge]. destruct (cut_cmp c1 c2).
      * cbn. constructor; [exact Q1|]. apply IHa; auto.
      * cbn. constructor; [exact Q1|]. apply IHa; auto.
      * cbn. constructor; [exact Q2|].
        change (Forall Q (map fst (merge f ca ((c1, a) :: la) b lb))). apply IHb; auto.
Qed.

Section Renderable.
Variable pv : N.

Definition key_ok (key : var) : Prop := match key with VVersion k => k <> pv | VString _ => True | _ => False end.
Definition range_ok (key : var) (rg : range) : Prop := Forall (fun p => cut_okb key (fst p) = true) (snd rg).

Lemma renderable_mk_rnode key d0 (ds : list (cut val * mdd)) :
  key_ok key -> renderable_dd pv d0 = true ->
  Forall (fun cd => cut_okb key (fst cd) = true /\ renderable_dd pv (snd cd) = true) ds ->
  renderable_dd pv (mk_rnode key d0 ds) = true.
Proof.
  intros Hk R0 F. unfold mk_rnode. destruct (coalesce dd_eqb d0 ds) as [|p l] eqn:E; [exact R0|].
  rewrite <- E. apply renderable_rnode. split; [exact Hk|]. split; [exact R0|].
  apply Forall_forall. intros cd I. apply coalesce_in in I. rewrite Forall_forall in F. now apply F.
Qed.

Lemma range_node_renderable key rg : key_ok key -> range_ok key rg -> renderable_dd pv (range_node key rg) = true.
Proof.
  intros Hk Hr. unfold range_node. apply renderable_mk_rnode; auto.
  unfold range_ok in Hr. unfold map_snd. apply Forall_map. eapply Forall_impl; [|exact Hr]. intros [c b] Hc. cbn. auto.
Qed.

Lemma range_ok_complement key rg : range_ok key rg -> range_ok key (r_complement rg).
Proof. unfold range_ok, r_complement, map_snd. cbn [snd]. intros F. apply Forall_map. eapply Forall_impl; [|exact F]. now intros [c b]. Qed.

Lemma range_ok_union key a b : range_ok key a -> range_ok key b -> range_ok key (r_union a b).
Proof.
  unfold range_ok, r_union, r_norm. cbn [snd]. intros Fa Fb. apply Forall_forall. intros p I. apply coalesce_in in I.
  assert (Forall (fun c => cut_okb key c = true) (map fst (merge orb (fst a) (snd a) (fst b) (snd b)))) as F.
  { apply merge_cuts; apply Forall_map; assumption. }
  rewrite Forall_forall in F. apply F. now apply in_map.
Qed.

Lemma cut_okb_side key v s s' : cut_okb key (v, s) = cut_okb key (v, s').
Proof. destruct key; reflexivity. Qed.

Lemma range_ok_basic key v : cut_okb key (v, Below) = true ->
  range_ok key (r_singleton v) /\ range_ok key (r_lt v) /\ range_ok key (r_le v) /\ range_ok key (r_gt v) /\ range_ok key (r_ge v).
Proof.
  intros Hv. assert (cut_okb key (v, Above) = true) as Hv' by (now rewrite (cut_okb_side key v Above Below)).
  unfold range_ok. repeat split; cbn; repeat constructor; auto.
Qed.

Lemma range_ok_between key lo hi : cut_okb key (lo, Below) = true -> cut_okb key (hi, Below) = true -> range_ok key (r_between lo hi).
Proof. intros Hl Hh. unfold range_ok, r_between. destruct (cmp lo hi); cbn; repeat constructor; auto. Qed.

Lemma final_version_ok k rel s : cut_okb (VVersion k) (final_version rel, s) = true.
Proof.
  cbn [cut_okb fst]. unfold final_version, final_valb. rewrite N.eqb_refl, strip_idem. cbn [andb].
  apply andb_true_iff. split; now apply nlist_eqb_spec.
Qed.

Lemma spec_range_ok k op rel : range_ok (VVersion k) (spec_range op rel).
Proof.
  destruct op; cbn [spec_range]; try apply range_ok_complement; try apply range_ok_between; try apply final_version_ok;
    apply (range_ok_basic (VVersion k) _ (final_version_ok k _ Below)).
Qed.

Lemma string_range_ok k op s : range_ok (VString k) (string_range op s).
Proof.
  destruct op; cbn [string_range]; try apply range_ok_complement; now apply (range_ok_basic (VString k) (inr s)).
Qed.

Lemma version_list_range_ok k : forall vs, range_ok (VVersion k) (version_list_range vs).
Proof.
  induction vs as [|v vs IH]; [constructor|]. cbn [version_list_range]. apply range_ok_union; [|exact IH].
  apply (range_ok_basic (VVersion k) _ (final_version_ok k _ Below)).
Qed.

Lemma pv_list_range_ok k : forall vs rg, pv_list_range vs = Some rg -> range_ok (VVersion k) rg.
Proof.
  induction vs as [|v vs IH]; intros rg E; cbn [pv_list_range] in E.
  - inversion E. constructor.
  - destruct (pv_to_pfv OEq (fst (snd v))) as [[op rel]|]; [|discriminate].
    destruct (pv_list_range vs) as [rg'|]; [|discriminate]. inversion E; subst.
    apply range_ok_union; [apply spec_range_ok|now apply IH].
Qed.

(** every diagram built for one comparison is renderable *)
Theorem expression_renderable (pfv : N) (e : mexpr) : pfv <> pv -> renderable_dd pv (expression pv pfv e) = true.
Proof.
  intros Hk. destruct e as [k op rel|k vs neg|k op s|k s neg|k s neg|neg arb name]; cbn [expression].
  - destruct (N.eqb_spec k pv) as [-> | Hne].
    + destruct (pv_to_pfv op (normalize_spec op rel)) as [[op' rel']|b]; [|reflexivity].
      apply range_node_renderable; [exact Hk|apply spec_range_ok].
    + apply range_node_renderable; [exact Hne|apply spec_range_ok].
  - destruct (N.eqb_spec k pv) as [-> | Hne].
    + destruct (pv_list_range (rev vs)) as [rg|] eqn:E; [|reflexivity].
      apply range_node_renderable; [exact Hk|]. apply (pv_list_range_ok pfv) in E. destruct neg; [now apply range_ok_complement|exact E].
    + apply range_node_renderable; [exact Hne|]. destruct neg; [apply range_ok_complement|]; apply version_list_range_ok.
  - apply range_node_renderable; [exact I|apply string_range_ok].
  - unfold bool_node. destruct (negb neg); reflexivity.
  - unfold bool_node. destruct (negb neg); reflexivity.
  - unfold bool_node. destruct (negb neg); reflexivity.
Qed.

Theorem tneg_renderable : forall t : mdd, renderable_dd pv t = true -> renderable_dd pv (tneg t) = true.
Proof.
  induction t as [b|key d0 ds IH0 IHl|key hi lo IHh IHl] using dd_ind2; intros R; rewrite tneg_eq.
  - reflexivity.
  - apply renderable_rnode in R as (Hk & R0 & Rl). apply renderable_rnode. split; [exact Hk|]. split; [now apply IH0|].
    unfold map_snd. apply Forall_map. rewrite Forall_forall in *. intros [c d] I. cbn [fst snd]. destruct (Rl _ I) as [Hc Rd].
    split; [exact Hc|]. apply IHl; [|exact Rd]. apply (in_map snd) in I. exact I.
  - cbn [renderable_dd] in *. apply andb_true_iff in R as [Rh Rl]. now rewrite IHh, IHl.
Qed.
End Renderable.

(** ** ... and by [and] / [or]: every diagram the parser builds is renderable *)
Lemma Forall_pair_split {X Y} (P : X -> Prop) (Q : Y -> Prop) (l : list (X * Y)) :
  Forall (fun p => P (fst p) /\ Q (snd p)) l <-> Forall P (map fst l) /\ Forall Q (map snd l).
Proof.
  induction l as [|[x y] l IH]; cbn [map fst snd]; [split; auto|]. split.
  - intros F. inversion F as [|? ? [Px Qy] F']; subst. apply IH in F' as [Fp Fq]. split; constructor; auto.
  - intros [Fp Fq]. inversion Fp; subst. inversion Fq; subst. constructor; [cbn; auto|]. apply IH. auto.
Qed.

Section RenderableOps.
Variable pv : N.
Notation rn := (fun t : mdd => renderable_dd pv t = true).

Lemma renderable_mk_bnode key (hi lo : mdd) : rn hi -> rn lo -> rn (mk_bnode key hi lo).
Proof. intros Rh Rl. unfold mk_bnode. destruct (dd_eqb hi lo); [exact Rh|]. cbn [renderable_dd]. now rewrite Rh, Rl. Qed.

Lemma renderable_map_children key (f : mdd -> mdd) (l : list (cut val * mdd)) :
  Forall (fun cd => cut_okb key (fst cd) = true /\ rn (snd cd)) l ->
  (forall d, In d (map snd l) -> rn d -> rn (f d)) ->
  Forall (fun cd => cut_okb key (fst cd) = true /\ rn (snd cd)) (map_snd f l).
Proof.
  intros F Hf. unfold map_snd. apply Forall_map. rewrite Forall_forall in *. intros [c d] I. cbn [fst snd].
  destruct (F _ I) as [Hc Rd]. split; [exact Hc|]. apply Hf; [|exact Rd]. apply (in_map snd) in I. exact I.
Qed.

Theorem tand_renderable : forall a : mdd, rn a -> forall b : mdd, rn b -> rn (tand a b).
Proof.
  induction a as [x|ka a0 la IHa0 IHla|ka ha la IHha IHla] using dd_ind2; intros Ra;
  induction b as [y|kb b0 lb IHb0 IHlb|kb hb lb IHhb IHlb] using dd_ind2; intros Rb;
  rewrite tand_eq; unfold tand_step;
  match goal with |- context [is_true ?a] => destruct (is_true a); [assumption|] end;
  match goal with |- context [is_true ?a] => destruct (is_true a); [assumption|] end;
  match goal with |- context [dd_eqb ?a ?b] => destruct (dd_eqb a b); [assumption|] end;
  match goal with |- context [is_false ?a || is_false ?b] => destruct (is_false a || is_false b); [reflexivity|] end;
  match goal with |- context [dd_eqb ?a ?b] => destruct (dd_eqb a b); [reflexivity|] end;
  unfold tand_core; try reflexivity.
  - pose proof Ra as Ra'. pose proof Rb as Rb'.
    apply renderable_rnode in Ra' as (Hka & Ra0 & Ral). apply renderable_rnode in Rb' as (Hkb & Rb0 & Rbl).
    rewrite Forall_forall in IHla, IHlb.
    destruct (cmp ka kb) eqn:C.
    + apply cmp_eq in C. subst kb. apply renderable_mk_rnode; auto.
      apply (Forall_pair_split (fun c => cut_okb ka c = true) rn) in Ral as [Rac Rad].
      apply (Forall_pair_split (fun c => cut_okb ka c = true) rn) in Rbl as [Rbc Rbd].
      apply (Forall_pair_split (fun c => cut_okb ka c = true) rn). split.
      * apply merge_cuts; [|exact Rbc]. now rewrite map_snd_cuts.
      * apply merge_children. intros g b' Hg Hb'. unfold appf.
        assert (rn b') as Rb'. { destruct Hb' as [-> | I]; [exact Rb0|]. rewrite Forall_forall in Rbd. now apply Rbd. }
        destruct Hg as [-> | I]; [now apply IHa0|].
        rewrite map_snd_children, in_map_iff in I. destruct I as (a' & <- & I).
        apply IHla; auto. rewrite Forall_forall in Rad. now apply Rad.
    + apply renderable_mk_rnode; auto. apply renderable_map_children; [exact Ral|]. intros d I Rd. now apply IHla.
    + apply renderable_mk_rnode; auto. apply renderable_map_children; [exact Rbl|]. intros d I Rd. now apply IHlb.
  - pose proof Ra as Ra'. apply renderable_rnode in Ra' as (Hka & Ra0 & Ral).
    pose proof Rb as Rb'. cbn [renderable_dd] in Rb'. apply andb_true_iff in Rb' as [Rbh Rbl].
    rewrite Forall_forall in IHla.
    destruct (cmp ka kb) eqn:C; [reflexivity| |].
    + apply renderable_mk_rnode; auto. apply renderable_map_children; [exact Ral|]. intros d I Rd. now apply IHla.
    + apply renderable_mk_bnode; auto.
  - pose proof Rb as Rb'. apply renderable_rnode in Rb' as (Hkb & Rb0 & Rbl).
    pose proof Ra as Ra'. cbn [renderable_dd] in Ra'. apply andb_true_iff in Ra' as [Rah Ral].
    rewrite Forall_forall in IHlb.
    destruct (cmp ka kb) eqn:C; [reflexivity| |].
    + apply renderable_mk_bnode; auto.
    + apply renderable_mk_rnode; auto. apply renderable_map_children; [exact Rbl|]. intros d I Rd. now apply IHlb.
  - pose proof Ra as Ra'. cbn [renderable_dd] in Ra'. apply andb_true_iff in Ra' as [Rah Ral].
    pose proof Rb as Rb'. cbn [renderable_dd] in Rb'. apply andb_true_iff in Rb' as [Rbh Rbl].
    destruct (cmp ka kb) eqn:C; apply renderable_mk_bnode; auto.
Qed.

Corollary tor_renderable (a b : mdd) : rn a -> rn b -> rn (tor a b).
Proof. intros Ra Rb. unfold tor. apply tneg_renderable. apply tand_renderable; now apply tneg_renderable. Qed.

(** the diagram of a whole marker *)
Theorem compile_renderable (pfv : N) (a : mast) : pfv <> pv -> rn (compile pv pfv a) /\ wfm (compile pv pfv a).
Proof.
  intros Hk.
  assert (match compile_ast pv pfv a with Some t => rn t /\ wfm t | None => True end) as G.
  { induction a as [[m|]|x IHx y IHy|x IHx y IHy]; cbn [compile_ast option_map].
    - split; [now apply expression_renderable|apply expression_wf].
    - exact I.
    - destruct (compile_ast pv pfv x) as [tx|], (compile_ast pv pfv y) as [ty|]; cbn [combine_dd]; auto.
      destruct IHx as [Rx Wx], IHy as [Ry Wy]. split; [now apply tand_renderable|now apply (tand_wf is_range)].
    - destruct (compile_ast pv pfv x) as [tx|], (compile_ast pv pfv y) as [ty|]; cbn [combine_dd]; auto.
      destruct IHx as [Rx Wx], IHy as [Ry Wy]. split; [now apply tor_renderable|now apply (tor_wf is_range)]. }
  unfold compile. destruct (compile_ast pv pfv a); [exact G|]. split; [reflexivity|constructor].
Qed.
End RenderableOps.

(** * C05, end to end: the DNF printed for the diagram of any marker denotes that diagram *)
Theorem C05_to_dnf (pv pfv : N) (a : mast) (en : env) (extras : list str) : pfv <> pv ->
  compile pv pfv a <> Leaf true ->
  eval_dnf pv pfv en extras (to_dnf (compile pv pfv a)) = m_eval en extras (compile pv pfv a).
Proof.
  intros Hk Hn. destruct (compile_renderable pv pfv a Hk) as [R W]. now apply to_dnf_sem.
Qed.

Theorem C05_to_dnf_recompile (pv pfv : N) (a : mast) : pfv <> pv -> compile pv pfv a <> Leaf true ->
  forall ro : mvaluation, eval ro (recompile_dnf pv pfv (to_dnf (compile pv pfv a))) = eval ro (compile pv pfv a).
Proof.
  intros Hk Hn. destruct (compile_renderable pv pfv a Hk) as [R W]. now apply to_dnf_roundtrip_sem.
Qed.

Print Assumptions C05_to_dnf.
Print Assumptions C05_to_dnf_recompile.
