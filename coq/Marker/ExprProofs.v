(** Theorems about [expression]: meaning of version comparisons (C10, version part of C01),
    negation clauses, well-formedness of the produced diagrams. *)
From Coq Require Import List Bool NArith Lia.
From PV Require Import Base.Order Base.CutDef Base.CutLemmas DD.DDModel DD.DDBasics DD.DDAnd DD.DDWf DD.DDWfOps
  Marker.Concrete Marker.Expr Marker.Spec Marker.RangeProofs Marker.SpecProofs Marker.PvProofs.
Import ListNotations.
Open Scope N_scope.
Arguments N.eqb : simpl never.
Arguments N.compare : simpl never.
Arguments N.add : simpl never.

Lemma spec_holds_normalize op lhs rel : spec_holds op lhs (normalize_spec op rel) = spec_holds op lhs rel.
Proof. destruct op; cbn [spec_holds normalize_spec]; rewrite ?rel_cmp_strip1_r; reflexivity. Qed.

Lemma strip_length_le : forall l, (length (strip l) <= length l)%nat.
Proof.
  induction l as [|x l IH]; [cbn; lia|]. cbn [strip]. destruct (strip l) eqn:E.
  - destruct (x =? 0); cbn; lia. - cbn in *. lia.
Qed.

Lemma strip_zeros_tail M m R : R <> [] -> strip (M :: m :: R) = M :: m :: R -> zeros R = false.
Proof.
  intros HR E. destruct (zeros R) eqn:Z; [|reflexivity]. exfalso.
  apply strip_nil_iff in Z. cbn [strip] in E. rewrite Z in E.
  destruct R; [contradiction|].
  destruct (m =? 0); [destruct (M =? 0); discriminate|discriminate].
Qed.

Lemma strip1_tail_nonzero l M m R : strip1 l = M :: m :: R -> R <> [] -> zeros R = false.
Proof.
  intros E HR. unfold strip1 in E. destruct (strip l) eqn:S.
  - destruct R; [contradiction|discriminate].
  - rewrite <- S in E. apply (strip_zeros_tail M m R HR). rewrite <- E. apply strip_idem.
Qed.

Lemma strip1_not_nil l : strip1 l <> [].
Proof. unfold strip1. destruct (strip l); discriminate. Qed.

Lemma normalize_spec_not_nil op rel : rel <> [] -> normalize_spec op rel <> [].
Proof. intros Hn. destruct op; cbn; auto using strip1_not_nil. Qed.

Lemma pv_to_pfv_ok op rel op' rel' : rel <> [] -> (op = OTilde -> (2 <= length rel)%nat) ->
  pv_to_pfv op rel = inl (op', rel') -> rel' <> [] /\ (op' = OTilde -> (2 <= length rel')%nat).
Proof.
  intros Hn Ht E. destruct rel as [|M [|m [|r3 rest]]]; [contradiction| | |].
  - destruct op; cbn in E; inversion E; subst; split; try discriminate; try (intros _; specialize (Ht eq_refl); cbn in Ht; lia).
  - destruct op; cbn in E; inversion E; subst; split; try discriminate; intros _; cbn; lia.
  - destruct op; cbn [pv_to_pfv] in E; try discriminate;
      try (destruct (forallb (N.eqb 0) (r3 :: rest)); try discriminate); inversion E; subst; split; try discriminate.
Qed.

(** C10: the meaning of `python_version OP 'V'` on every final interpreter version X.Y.Z *)
Theorem pv_spec (pv pfv : N) (op : vop) (rel : list N) (r : mvaluation) (X Y Z : N) :
  rel <> [] -> (op = OTilde -> (2 <= length rel)%nat) -> ~ carved_out op rel ->
  rv r (VVersion pfv) = final_version [X; Y; Z] ->
  eval r (expression pv pfv (EVersion pv op rel)) = spec_holds op [X; Y] rel.
Proof.
  intros Hn Ht Hc Hr. cbn [expression]. rewrite N.eqb_refl.
  set (rel1 := normalize_spec op rel).
  assert (rel1 <> []) as Hn1 by (now apply normalize_spec_not_nil).
  assert (op = OTilde -> (2 <= length rel1)%nat) as Ht1 by (intros ->; exact (Ht eq_refl)).
  assert (~ carved_out op rel1) as Hc1.
  { intros [S L]. apply Hc. split; auto. unfold rel1 in L. destruct op; try discriminate; exact L. }
  assert (op <> OTilde -> forall M m R, rel1 = M :: m :: R -> R <> [] -> zeros R = false) as Hz.
  { intros Ho M m R E HR. destruct (is_star op) eqn:S.
    - exfalso. apply Hc1. split; auto. rewrite E. destruct R; [contradiction|cbn; lia].
    - unfold rel1 in E. destruct op; try discriminate; try contradiction; cbn [normalize_spec] in E; eapply strip1_tail_nonzero; eauto. }
  pose proof (pv_rewrite_correct op rel1 X Y Z Hn1 Ht1 Hz Hc1) as P. unfold rewritten in P.
  rewrite <- (spec_holds_normalize op [X; Y] rel). fold rel1. rewrite <- P.
  destruct (pv_to_pfv op rel1) as [[op' rel']|b] eqn:E; [|reflexivity].
  destruct (pv_to_pfv_ok op rel1 op' rel' Hn1 Ht1 E) as [Hn' Ht'].
  rewrite eval_range_node by apply spec_range_sorted. rewrite Hr. now apply range_correct.
Qed.

(** the same statement for a version key that is compared directly (python_full_version, implementation_version) *)
Theorem version_spec (pv pfv k : N) (op : vop) (rel lhs : list N) (r : mvaluation) :
  k <> pv -> rel <> [] -> (op = OTilde -> (2 <= length rel)%nat) ->
  rv r (VVersion k) = final_version lhs ->
  eval r (expression pv pfv (EVersion k op rel)) = spec_holds op lhs rel.
Proof.
  intros Hk Hn Ht Hr. cbn [expression]. destruct (N.eqb_spec k pv); [contradiction|].
  rewrite eval_range_node by apply spec_range_sorted. rewrite Hr. now apply range_correct.
Qed.

(** it is the python_full_version expression with that meaning, as a diagram *)
Theorem pv_as_pfv (pv pfv : N) (op op' : vop) (rel rel' : list N) : pfv <> pv ->
  pv_to_pfv op (normalize_spec op rel) = inl (op', rel') ->
  expression pv pfv (EVersion pv op rel) = expression pv pfv (EVersion pfv op' rel').
Proof.
  intros Hk E. cbn [expression]. rewrite N.eqb_refl, E. destruct (N.eqb_spec pfv pv); [contradiction|]. reflexivity.
Qed.

(** ** negation clauses (claimed for every literal, carved-out ones included) *)
Lemma coalesce_map_tneg : forall (ds : list (cut val * mdd)) d0,
  coalesce dd_eqb (tneg d0) (map_snd tneg ds) = map_snd tneg (coalesce dd_eqb d0 ds).
Proof.
  unfold map_snd. induction ds as [|[c d] ds IH]; intros d0; [reflexivity|]. cbn [map coalesce fst snd].
  assert (dd_eqb (tneg d0) (tneg d) = dd_eqb d0 d) as ->.
  { destruct (dd_eqb d0 d) eqn:E.
    - apply dd_eqb_spec in E; subst. apply dd_eqb_refl.
    - apply dd_eqb_false. apply dd_eqb_false in E. intros E'. apply E. now apply tneg_inj. }
  destruct (dd_eqb d0 d); cbn [map fst snd]; now rewrite IH.
Qed.

Lemma tneg_mk_rnode k d0 (ds : list (cut val * mdd)) : tneg (mk_rnode k d0 ds) = mk_rnode k (tneg d0) (map_snd tneg ds).
Proof.
  unfold mk_rnode. rewrite coalesce_map_tneg. destruct (coalesce dd_eqb d0 ds) eqn:E; [reflexivity|].
  rewrite tneg_eq. reflexivity.
Qed.

Lemma tneg_range_node k rg : tneg (range_node k rg) = range_node k (r_complement rg).
Proof.
  unfold range_node, r_complement. cbn [fst snd]. rewrite tneg_mk_rnode, !map_snd_map_snd.
  rewrite tneg_eq. reflexivity.
Qed.

Lemma r_complement_involutive rg : r_complement (r_complement rg) = rg.
Proof.
  destruct rg as [d0 l]. unfold r_complement. cbn [fst snd]. rewrite negb_involutive, map_snd_map_snd. f_equal.
  rewrite <- (map_snd_id l) at 2. apply map_snd_ext. apply Forall_forall. intros b _. apply negb_involutive.
Qed.

Theorem notin_neg (pv pfv k : N) (vs : list rawversion) :
  expression pv pfv (EVersionIn k vs true) = tneg (expression pv pfv (EVersionIn k vs false)).
Proof.
  cbn [expression]. destruct (k =? pv).
  - destruct (pv_list_range (rev vs)); [now rewrite tneg_range_node|reflexivity].
  - now rewrite tneg_range_node.
Qed.

Theorem ne_neg (pv pfv k : N) (rel : list N) :
  expression pv pfv (EVersion k ONe rel) = tneg (expression pv pfv (EVersion k OEq rel)).
Proof.
  cbn [expression normalize_spec]. destruct (k =? pv).
  - pose proof (strip1_not_nil rel) as Hn.
    destruct (strip1 rel) as [|M [|m [|r3 rest]]]; [contradiction|..]; cbn [pv_to_pfv is_star]; rewrite ?tneg_range_node; reflexivity.
  - now rewrite tneg_range_node.
Qed.

(** ** the diagrams produced for expressions are well formed *)
Notation wfm := (wf (var:=var) (val:=val) is_range).

Lemma range_node_wf k rg : is_range k = true -> r_sorted rg -> wfm (range_node k rg).
Proof.
  intros R S. unfold range_node. apply (wf_mk_rnode is_range); auto.
  - now apply sorted_map_snd_iff.
  - split; [constructor|exact I].
  - rewrite map_snd_children, Forall_map, Forall_forall. intros b _. split; [constructor|exact I].
Qed.

Lemma pv_list_range_sorted : forall vs r, pv_list_range vs = Some r -> r_sorted r.
Proof.
  induction vs as [|v vs IH]; intros r E; cbn [pv_list_range] in E.
  - inversion E. exact I.
  - destruct (pv_to_pfv OEq (fst (snd v))) as [[op rel]|]; [|discriminate].
    destruct (pv_list_range vs) as [r'|]; [|discriminate]. inversion E; subst.
    apply sorted_union; [apply spec_range_sorted|now apply IH].
Qed.

Lemma version_list_range_sorted : forall vs, r_sorted (version_list_range vs).
Proof. induction vs as [|v vs IH]; [exact I|]. cbn [version_list_range]. apply sorted_union; [apply sorted_singleton|exact IH]. Qed.

Lemma string_range_sorted op s : r_sorted (string_range op s).
Proof. destruct op; cbn [string_range]; auto using sorted_singleton, sorted_complement, sorted_lt, sorted_le, sorted_gt, sorted_ge. Qed.

Lemma bool_node_wf k b : is_range k = false -> wfm (bool_node k b).
Proof. intros R. unfold bool_node. destruct b; constructor; auto; try discriminate; try constructor; exact I. Qed.

Theorem expression_wf (pv pfv : N) (e : mexpr) : wfm (expression pv pfv e).
Proof.
  destruct e as [k op rel|k vs neg|k op s|k s neg|k s neg|neg arb name]; cbn [expression].
  - destruct (k =? pv).
    + destruct (pv_to_pfv op (normalize_spec op rel)) as [[op' rel']|b]; [|constructor].
      apply range_node_wf; [reflexivity|apply spec_range_sorted].
    + apply range_node_wf; [reflexivity|apply spec_range_sorted].
  - destruct (k =? pv).
    + destruct (pv_list_range (rev vs)) as [r|] eqn:E; [|constructor].
      apply range_node_wf; [reflexivity|]. apply pv_list_range_sorted in E. destruct neg; auto using sorted_complement.
    + apply range_node_wf; [reflexivity|]. destruct neg; auto using sorted_complement, version_list_range_sorted.
  - apply range_node_wf; [reflexivity|apply string_range_sorted].
  - now apply bool_node_wf.
  - now apply bool_node_wf.
  - now apply bool_node_wf.
Qed.

(** no diagram produced for an expression mentions the python_version key *)
Theorem expression_no_pv (pv pfv : N) (e : mexpr) : pfv <> pv ->
  var_of (expression pv pfv e) <> Some (VVersion pv).
Proof.
  intros Hk.
  assert (forall k rg, k <> VVersion pv -> var_of (range_node k rg) <> Some (VVersion pv)) as G.
  { intros k rg Hne. unfold range_node, mk_rnode. destruct (coalesce _ _ _); cbn; [discriminate|congruence]. }
  assert (forall k b, k <> VVersion pv -> var_of (bool_node k b) <> Some (VVersion pv)) as G2.
  { intros k b Hne. unfold bool_node. destruct b; cbn; congruence. }
  destruct e as [k op rel|k vs neg|k op s|k s neg|k s neg|neg arb name]; cbn [expression].
  - destruct (N.eqb_spec k pv).
    + destruct (pv_to_pfv op (normalize_spec op rel)) as [[op' rel']|b]; [|discriminate]. apply G. congruence.
    + apply G. congruence.
  - destruct (N.eqb_spec k pv).
    + destruct (pv_list_range (rev vs)); [|discriminate]. apply G. congruence.
    + apply G. congruence.
  - apply G. discriminate.
  - apply G2. discriminate.
  - apply G2. discriminate.
  - apply G2. discriminate.
Qed.

(** ** in / not in lists for python_version *)
Definition release_of (v : rawversion) : list N := fst (snd v).

Lemma pv_eq_short rel op' rel' : pv_to_pfv OEq rel = inl (op', rel') -> (length rel <= 2)%nat.
Proof. destruct rel as [|M [|m [|r3 rest]]]; cbn; try lia. discriminate. Qed.

Lemma pv_list_range_in (X Y Z : N) : forall vs r, pv_list_range vs = Some r ->
  (forall v, In v vs -> release_of v <> []) ->
  in_range r (final_version [X; Y; Z]) = existsb (fun v => is_eq (rel_cmp [X; Y] (release_of v))) vs.
Proof.
  induction vs as [|v vs IH]; intros r E Hne; cbn [pv_list_range] in E.
  - inversion E. reflexivity.
  - fold (release_of v) in E.
    destruct (pv_to_pfv OEq (release_of v)) as [[op rel']|] eqn:P; [|discriminate].
    destruct (pv_list_range vs) as [r'|] eqn:Er; [|discriminate]. inversion E; subst. clear E.
    assert (release_of v <> []) as Hn by (apply Hne; left; reflexivity).
    pose proof (pv_eq_short _ _ _ P) as Hs.
    rewrite in_union by (try apply spec_range_sorted; eapply pv_list_range_sorted; eauto).
    cbn [existsb]. rewrite (IH r' eq_refl) by (intros v' I; apply Hne; right; exact I). f_equal.
    destruct (pv_to_pfv_ok OEq (release_of v) op rel' Hn ltac:(discriminate) P) as [Hn' Ht'].
    rewrite (range_correct op rel' [X; Y; Z] Hn' Ht').
    assert (rewritten OEq (release_of v) [X; Y; Z] = spec_holds OEq [X; Y] (release_of v)) as Rw.
    { apply pv_rewrite_correct; auto.
      - discriminate.
      - intros _ M m R E HR. rewrite E in Hs. destruct R; [contradiction|cbn in Hs; lia].
      - intros [S _]. discriminate. }
    unfold rewritten in Rw. now rewrite P in Rw.
Qed.

Theorem pv_in_spec (pv pfv : N) (vs : list rawversion) (negated : bool) (r : mvaluation) (X Y Z : N) :
  (forall v, In v vs -> release_of v <> [] /\ (length (release_of v) <= 2)%nat) ->     (* outside the carve-out *)
  rv r (VVersion pfv) = final_version [X; Y; Z] ->
  eval r (expression pv pfv (EVersionIn pv vs negated)) = spec_in [X; Y] (map release_of vs) negated.
Proof.
  intros Hvs Hr. cbn [expression]. rewrite N.eqb_refl.
  assert (exists rg, pv_list_range (rev vs) = Some rg) as [rg E].
  { assert (forall l, (forall v, In v l -> release_of v <> [] /\ (length (release_of v) <= 2)%nat) -> exists rg, pv_list_range l = Some rg) as G.
    { induction l as [|v l IHl]; intros Hl; [eexists; reflexivity|]. cbn [pv_list_range].
      destruct (Hl v (or_introl eq_refl)) as [Hn Hs]. fold (release_of v).
      destruct (release_of v) as [|M [|m [|r3 rest]]]; [contradiction| | |cbn in Hs; lia];
        destruct (IHl (fun v' I => Hl v' (or_intror I))) as [rg' ->]; eexists; reflexivity. }
    apply G. intros v I. apply Hvs. now apply in_rev. }
  rewrite E. unfold spec_in.
  assert (in_range rg (final_version [X; Y; Z]) = existsb (fun lit => is_eq (rel_cmp [X; Y] lit)) (map release_of vs)) as Hin.
  { rewrite (pv_list_range_in X Y Z (rev vs) rg E) by (intros v I; apply Hvs; now apply in_rev).
    rewrite existsb_rev' || idtac.
    assert (forall (f : rawversion -> bool) l, existsb f (rev l) = existsb f l) as Rv.
    { intros f l. induction l as [|a l IHl]; [reflexivity|]. cbn [rev existsb]. rewrite existsb_app. cbn [existsb]. rewrite IHl, orb_false_r. apply orb_comm. }
    rewrite Rv. clear. induction vs as [|v vs IH]; [reflexivity|]. cbn [map existsb]. now rewrite IH. }
  pose proof (pv_list_range_sorted _ _ E) as S.
  destruct negated; rewrite eval_range_node by auto using sorted_complement; rewrite Hr, ?in_complement, Hin; cbn [xorb]; [reflexivity|].
  now destruct (existsb _ _).
Qed.
