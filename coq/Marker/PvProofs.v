(** C10: the rewrite of python_version comparisons into python_full_version specifiers is correct
    with respect to the PEP 440 reading on the major.minor version. *)
From Coq Require Import List Bool NArith Lia.
From PV Require Import Base.Order Base.CutDef Base.CutLemmas DD.DDModel DD.DDBasics Marker.Concrete Marker.Expr Marker.Spec
  Marker.RangeProofs Marker.SpecProofs.
Import ListNotations.
Open Scope N_scope.
Arguments N.eqb : simpl never.
Arguments N.compare : simpl never.
Arguments N.add : simpl never.

Ltac ncases :=
  repeat match goal with
         | |- context [N.compare ?a ?b] => destruct (N.compare_spec a b); subst
         | |- context [N.eqb ?a ?b] => destruct (N.eqb_spec a b); subst
         end; cbn; try reflexivity; try lia; try congruence.

Lemma is_lt_zeros_cmp R : is_lt (zeros_cmp R) = negb (zeros R).
Proof.
  pose proof (zeros_cmp_not_gt R). destruct (zeros_cmp R) eqn:E.
  - apply zeros_cmp_eq in E. now rewrite E.
  - destruct (zeros R) eqn:Z; [|reflexivity]. apply zeros_cmp_eq in Z. congruence.
  - contradiction.
Qed.

Lemma zeros_cmp_cases R : (zeros R = true /\ zeros_cmp R = Eq) \/ (zeros R = false /\ zeros_cmp R = Lt).
Proof.
  pose proof (zeros_cmp_not_gt R). destruct (zeros_cmp R) eqn:E.
  - left. split; auto. now apply zeros_cmp_eq.
  - right. split; auto. destruct (zeros R) eqn:Z; auto. apply zeros_cmp_eq in Z. congruence.
  - contradiction.
Qed.

Lemma list_eqb_pad_nil : forall l, list_eqb (pad_take (length l) []) l = zeros l.
Proof.
  induction l as [|x l IH]; [reflexivity|]. cbn [length pad_take list_eqb zeros forallb]. now rewrite IH.
Qed.

Lemma zeros_removelast : forall l, zeros l = true -> zeros (removelast l) = true.
Proof.
  induction l as [|x l IH]; [reflexivity|]. destruct l as [|y l']; [reflexivity|].
  change (removelast (x :: y :: l')) with (x :: removelast (y :: l')).
  unfold zeros in *. cbn [forallb] in *. intros A. apply andb_true_iff in A as [A B]. rewrite A. now apply IH.
Qed.

(** ** the pure statement about the rewrite *)
Definition carved_out (op : vop) (rel : list N) : Prop := is_star op = true /\ (2 < length rel)%nat.

Definition rewritten (op : vop) (rel : list N) (lhs3 : list N) : bool :=
  match pv_to_pfv op rel with
  | inl (op', rel') => spec_holds op' lhs3 rel'
  | inr b => b
  end.

Theorem pv_rewrite_correct (op : vop) (rel : list N) (X Y Z : N) :
  rel <> [] ->
  (op = OTilde -> (2 <= length rel)%nat) ->
  (op <> OTilde -> forall M m R, rel = M :: m :: R -> R <> [] -> zeros R = false) ->   (* normalised *)
  ~ carved_out op rel ->
  rewritten op rel [X; Y; Z] = spec_holds op [X; Y] rel.
Proof.
  intros Hn Ht Hz Hc. unfold rewritten.
  destruct rel as [|M [|m [|r3 rest]]]; [contradiction| | |].
  - (* one segment *)
    destruct op; cbn -[N.compare N.eqb N.add]; try (specialize (Ht eq_refl); cbn in Ht; lia); unfold star_match; cbn -[N.compare N.eqb N.add]; ncases.
  - (* two segments *)
    destruct op; cbn -[N.compare N.eqb N.add]; unfold star_match; cbn -[N.compare N.eqb N.add]; ncases.
  - (* three or more segments *)
    set (R := r3 :: rest) in *.
    assert (R <> []) as HR by discriminate.
    assert (rel_cmp [X; Y] (M :: m :: R) = match X ?= M with Eq => match Y ?= m with Eq => zeros_cmp R | c => c end | c => c end) as Ecmp by reflexivity.
    destruct op; cbn [pv_to_pfv spec_holds is_star]; rewrite ?Ecmp.
    + (* == *) rewrite (Hz ltac:(discriminate) M m R eq_refl HR) || idtac.
      destruct (zeros_cmp_cases R) as [[Zt _] | [_ Zl]]; [rewrite (Hz ltac:(discriminate) M m R eq_refl HR) in Zt; discriminate|].
      rewrite Zl. ncases.
    + (* ==* : carved out *) exfalso. apply Hc. split; [reflexivity|]. cbn. lia.
    + (* === *)
      destruct (zeros_cmp_cases R) as [[Zt _] | [_ Zl]]; [rewrite (Hz ltac:(discriminate) M m R eq_refl HR) in Zt; discriminate|].
      rewrite Zl. ncases.
    + (* != *)
      destruct (zeros_cmp_cases R) as [[Zt _] | [_ Zl]]; [rewrite (Hz ltac:(discriminate) M m R eq_refl HR) in Zt; discriminate|].
      rewrite Zl. ncases.
    + (* !=* : carved out *) exfalso. apply Hc. split; [reflexivity|]. cbn. lia.
    + (* ~= *)
      change (removelast (M :: m :: R)) with (M :: m :: removelast R).
      unfold star_match. cbn [length pad_take list_eqb]. rewrite list_eqb_pad_nil.
      change (forallb (N.eqb 0) R) with (zeros R).
      destruct (zeros_cmp_cases R) as [[Zt Ze] | [Zf Zl]].
      * rewrite Zt, Ze, (zeros_removelast R Zt). cbn [spec_holds]. unfold star_match. cbn -[N.compare N.eqb N.add]. ncases.
      * rewrite Zf, Zl. ncases.
    + (* < *)
      destruct (zeros_cmp_cases R) as [[Zt _] | [_ Zl]]; [rewrite (Hz ltac:(discriminate) M m R eq_refl HR) in Zt; discriminate|].
      rewrite Zl. cbn -[N.compare N.eqb N.add]. ncases.
    + (* <= *)
      destruct (zeros_cmp_cases R) as [[Zt _] | [_ Zl]]; [rewrite (Hz ltac:(discriminate) M m R eq_refl HR) in Zt; discriminate|].
      rewrite Zl. cbn -[N.compare N.eqb N.add]. ncases.
    + (* > *)
      destruct (zeros_cmp_cases R) as [[Zt _] | [_ Zl]]; [rewrite (Hz ltac:(discriminate) M m R eq_refl HR) in Zt; discriminate|].
      rewrite Zl. cbn -[N.compare N.eqb N.add]. ncases.
    + (* >= *)
      destruct (zeros_cmp_cases R) as [[Zt _] | [_ Zl]]; [rewrite (Hz ltac:(discriminate) M m R eq_refl HR) in Zt; discriminate|].
      rewrite Zl. cbn -[N.compare N.eqb N.add]. ncases.
Qed.
