(** The ranges built for version specifiers mean what PEP 440 says (release-only comparison). *)
From Coq Require Import List Bool NArith Lia.
From PV Require Import Base.Order Base.CutDef Base.CutLemmas DD.DDModel DD.DDBasics Marker.Concrete Marker.Expr Marker.Spec Marker.RangeProofs.
Import ListNotations.
Open Scope N_scope.
Arguments N.eqb : simpl never.
Arguments N.compare : simpl never.
Arguments N.add : simpl never.

Definition hd0 (l : list N) : N := match l with [] => 0 | x :: _ => x end.

Lemma rel_cmp_view a y b : rel_cmp a (y :: b) = match hd0 a ?= y with Eq => rel_cmp (tl a) b | c => c end.
Proof. destruct a; reflexivity. Qed.
Lemma pad_take_view n a : pad_take (S n) a = hd0 a :: pad_take n (tl a).
Proof. destruct a; reflexivity. Qed.

Lemma rel_cmp_nil_r_not_lt a : rel_cmp a [] <> Lt.
Proof.
  destruct a as [|x a]; [discriminate|]. cbn [rel_cmp]. pose proof (zeros_cmp_not_gt (x :: a)).
  destruct (zeros_cmp (x :: a)); cbn; congruence.
Qed.

Lemma bump_last_cons y l : l <> [] -> bump_last (y :: l) = y :: bump_last l.
Proof. destruct l; [contradiction|reflexivity]. Qed.

(** prefix matching is an interval: V <= x < V with its last segment bumped *)
Theorem star_match_interval : forall lit lhs, lit <> [] ->
  star_match lhs lit = negb (is_lt (rel_cmp lhs lit)) && is_lt (rel_cmp lhs (bump_last lit)).
Proof.
  induction lit as [|y lit IH]; intros lhs Hn; [contradiction|]. clear Hn.
  unfold star_match. cbn [length]. rewrite pad_take_view. cbn [list_eqb].
  destruct lit as [|y' lit'].
  - cbn [bump_last length pad_take list_eqb]. rewrite andb_true_r, !rel_cmp_view.
    pose proof (rel_cmp_nil_r_not_lt (tl lhs)) as Hnl.
    destruct (N.eqb_spec (hd0 lhs) y) as [E | E].
    + subst y. rewrite N.compare_refl.
      destruct (N.compare_spec (hd0 lhs) (hd0 lhs + 1)); try lia.
      destruct (rel_cmp (tl lhs) []); cbn; congruence.
    + destruct (N.compare_spec (hd0 lhs) y) as [E' | L | G]; [contradiction| |].
      * reflexivity.
      * destruct (N.compare_spec (hd0 lhs) (y + 1)) as [E' | L' | G']; try lia; cbn; try reflexivity.
        destruct (rel_cmp (tl lhs) []); cbn; congruence.
  - rewrite bump_last_cons by discriminate.
    rewrite (rel_cmp_view lhs y (y' :: lit')), (rel_cmp_view lhs y (bump_last (y' :: lit'))).
    specialize (IH (tl lhs)). unfold star_match in IH.
    destruct (N.eqb_spec (hd0 lhs) y) as [E | E].
    + subst y. rewrite N.compare_refl. cbn [andb]. apply IH. discriminate.
    + destruct (N.compare_spec (hd0 lhs) y) as [E' | L | G]; [contradiction| |]; reflexivity.
Qed.

(** a version without its last segment is not above the version *)
Lemma removelast_le : forall rel, rel_cmp (removelast rel) rel <> Gt.
Proof.
  induction rel as [|x rel IH]; [discriminate|].
  destruct rel as [|y rel'].
  - cbn [removelast rel_cmp zeros_cmp]. destruct (N.compare_spec 0 x); try discriminate. lia.
  - change (removelast (x :: y :: rel')) with (x :: removelast (y :: rel')).
    cbn [rel_cmp]. rewrite N.compare_refl. exact IH.
Qed.

Lemma rel_cmp_trans_lt_le a b c : rel_cmp a b = Lt -> rel_cmp b c <> Gt -> rel_cmp a c = Lt.
Proof.
  rewrite !rel_cmp_strip. intros L NG. destruct (cmp (strip b) (strip c)) eqn:E; try contradiction.
  - apply cmp_eq in E. now rewrite <- E.
  - eapply cmp_trans_lt; eauto.
Qed.

(** [release_specifier_to_range (normalize_specifier _)] means the PEP 440 comparison *)
Theorem range_correct (op : vop) (rel lhs : list N) :
  rel <> [] -> (op = OTilde -> (2 <= length rel)%nat) ->
  in_range (spec_range op (normalize_spec op rel)) (final_version lhs) = spec_holds op lhs rel.
Proof.
  intros Hn Ht.
  destruct op; cbn [spec_range normalize_spec spec_holds];
    rewrite ?in_complement, ?in_singleton, ?in_lt, ?in_le, ?in_gt, ?in_ge, ?in_between, ?final_cmp, ?rel_cmp_strip1_r;
    try reflexivity.
  - (* == V.* *) now rewrite star_match_interval.
  - (* != V.* *) now rewrite star_match_interval.
  - (* ~= V *)
    specialize (Ht eq_refl).
    assert (removelast rel <> []) as Hp.
    { destruct rel as [|a [|b r]]; cbn in Ht; try lia. discriminate. }
    rewrite (star_match_interval (removelast rel) lhs Hp).
    destruct (rel_cmp lhs rel) eqn:C; cbn [is_lt negb andb]; try reflexivity.
    + destruct (rel_cmp lhs (removelast rel)) eqn:C2; try reflexivity.
      pose proof (rel_cmp_trans_lt_le _ _ _ C2 (removelast_le rel)). congruence.
    + destruct (rel_cmp lhs (removelast rel)) eqn:C2; try reflexivity.
      pose proof (rel_cmp_trans_lt_le _ _ _ C2 (removelast_le rel)). congruence.
Qed.

Lemma spec_range_sorted op rel : r_sorted (spec_range op rel).
Proof.
  destruct op; cbn [spec_range]; auto using sorted_singleton, sorted_complement, sorted_between, sorted_lt, sorted_le, sorted_gt, sorted_ge.
Qed.
