(** L1/L3: from a typed marker expression to a diagram ([InternerGuard::expression] and the helpers it
    calls in src/marker/algebra.rs), with the repairs F4 (`~=` keeps its trailing zeros), F8 (every
    version that enters a node is stripped) and F9 (`not in` with a long member is TRUE, not FALSE).
    [Ranges<T>] of the version-ranges crate are partitions with [bool] children in normal form. *)
From Coq Require Import List Bool NArith.
From PV Require Import Base.Order Base.CutDef DD.DDModel Marker.Concrete.
Import ListNotations.
Open Scope N_scope.

(** pep440_rs::Operator *)
Inductive vop := OEq | OEqStar | OExact | ONe | ONeStar | OTilde | OLt | OLe | OGt | OGe.
(** the comparison operators of string expressions (MarkerOperator without ~=, in, not in, contains) *)
Inductive sop := SEq | SNe | SGt | SGe | SLt | SLe.

(** a PEP 440 version as the crate hands it over: epoch, raw release segments, suffix key *)
Definition rawversion := (N * (list N * list N))%type.

Inductive mexpr :=
| EVersion (k : N) (op : vop) (release : list N)           (* only the release of the literal is used *)
| EVersionIn (k : N) (vs : list rawversion) (negated : bool)
| EString (k : N) (op : sop) (s : str)
| EIn (k : N) (s : str) (negated : bool)                   (* key in 'value' / key not in 'value' *)
| EContains (k : N) (s : str) (negated : bool)             (* 'value' in key / 'value' not in key *)
| EExtra (negated : bool) (arbitrary : bool) (name : str).

(** trailing zeros *)
Fixpoint strip (l : list N) : list N :=
  match l with
  | [] => []
  | x :: l' => match strip l' with
               | [] => if x =? 0 then [] else [x]
               | r => x :: r
               end
  end.
(** [strip_trailing_zeros]: at least one segment stays *)
Definition strip1 (l : list N) : list N := match strip l with [] => [0] | r => r end.

Definition final_version (rel : list N) : val := inl (0, (strip rel, FINAL)).
Definition norm_version (v : rawversion) : val := inl (fst v, (strip (fst (snd v)), snd (snd v))).

Definition is_star (op : vop) : bool := match op with OEqStar | ONeStar => true | _ => false end.

(** [normalize_specifier] *)
Definition normalize_spec (op : vop) (rel : list N) : list N :=
  match op with
  | OEqStar | ONeStar | OTilde => rel
  | _ => strip1 rel
  end.

(** ** ranges *)
Definition range := (bool * list (cut val * bool))%type.

Definition r_empty : range := (false, []).
Definition r_full : range := (true, []).
Definition r_norm (d0 : bool) (l : list (cut val * bool)) : range := (d0, coalesce Bool.eqb d0 l).
Definition r_complement (r : range) : range := (negb (fst r), map_snd negb (snd r)).
Definition r_union (a b : range) : range := r_norm (fst a || fst b) (merge orb (fst a) (snd a) (fst b) (snd b)).
Definition r_singleton (v : val) : range := (false, [((v, Below), true); ((v, Above), false)]).
Definition r_lt (v : val) : range := (true, [((v, Below), false)]).
Definition r_le (v : val) : range := (true, [((v, Above), false)]).
Definition r_gt (v : val) : range := (false, [((v, Above), true)]).
Definition r_ge (v : val) : range := (false, [((v, Below), true)]).
(** [from_range_bounds(lo..hi)]: lo inclusive, hi exclusive; empty unless lo < hi *)
Definition r_between (lo hi : val) : range :=
  match cmp lo hi with
  | Lt => (false, [((lo, Below), true); ((hi, Below), false)])
  | _ => r_empty
  end.

Fixpoint bump_last (l : list N) : list N :=
  match l with
  | [] => []
  | [x] => [x + 1]
  | x :: l' => x :: bump_last l'
  end.

(** [release_specifier_to_range] on a release-only specifier (pep440_rs), `~=` as repaired in F4 *)
Definition spec_range (op : vop) (rel : list N) : range :=
  match op with
  | OEq | OExact => r_singleton (final_version rel)
  | ONe => r_complement (r_singleton (final_version rel))
  | OTilde => r_between (final_version rel) (final_version (bump_last (removelast rel)))
  | OLt => r_lt (final_version rel)
  | OLe => r_le (final_version rel)
  | OGt => r_gt (final_version rel)
  | OGe => r_ge (final_version rel)
  | OEqStar => r_between (final_version rel) (final_version (bump_last rel))
  | ONeStar => r_complement (r_between (final_version rel) (final_version (bump_last rel)))
  end.

(** [python_version_to_full_version]: the equivalent python_full_version specifier, or a constant *)
Definition pv_to_pfv (op : vop) (rel : list N) : (vop * list N) + bool :=
  let go (major minor : N) :=
    match op with
    | OEq | OExact => inl (OEqStar, [major; minor])
    | ONe => inl (ONeStar, [major; minor])
    | OGt => inl (OGe, [major; minor + 1])
    | OLe => inl (OLt, [major; minor + 1])
    | OLt | OGe | OEqStar | ONeStar | OTilde => inl (op, rel)
    end in
  match rel with
  | [] => inr false
  | [major] => if is_star op then inl (op, rel) else go major 0
  | [major; minor] => go major minor
  | major :: minor :: rest =>
      match op with
      | OTilde => if forallb (N.eqb 0) rest then inl (OEqStar, [major; minor]) else inr false
      | OEq | OExact | OEqStar => inr false
      | ONe | ONeStar => inr true
      | OLt | OLe => inl (OLt, [major; minor + 1])
      | OGt | OGe => inl (OGe, [major; minor + 1])
      end
  end.

(** [Edges::from_range] followed by [create_node] *)
Definition range_node (k : var) (r : range) : mdd :=
  mk_rnode k (Leaf (fst r)) (map_snd (fun b : bool => Leaf b) (snd r)).

(** [from_python_versions] *)
Fixpoint pv_list_range (vs : list rawversion) : option range :=
  match vs with
  | [] => Some r_empty
  | v :: vs' =>
      match pv_to_pfv OEq (fst (snd v)) with
      | inr _ => None
      | inl (op, rel) =>
          match pv_list_range vs' with
          | None => None
          | Some r => Some (r_union (spec_range op (normalize_spec op rel)) r)
          end
      end
  end.

(** [from_versions] *)
Fixpoint version_list_range (vs : list rawversion) : range :=
  match vs with
  | [] => r_empty
  | v :: vs' => r_union (r_singleton (final_version (fst (snd v)))) (version_list_range vs')   (* release segments only *)
  end.

Definition string_range (op : sop) (s : str) : range :=
  match op with
  | SEq => r_singleton (inr s)
  | SNe => r_complement (r_singleton (inr s))
  | SGt => r_gt (inr s)
  | SGe => r_ge (inr s)
  | SLt => r_lt (inr s)
  | SLe => r_le (inr s)
  end.

Definition bool_node (k : var) (positive : bool) : mdd :=
  if positive then BNode k (Leaf true) (Leaf false) else BNode k (Leaf false) (Leaf true).

(** [expression]; [pv] and [pfv] are the indices of the python_version / python_full_version keys *)
Definition expression (pv pfv : N) (e : mexpr) : mdd :=
  match e with
  | EVersion k op rel =>
      if k =? pv then
        let rel1 := normalize_spec op rel in
        match pv_to_pfv op rel1 with
        | inl (op', rel') => range_node (VVersion pfv) (spec_range op' (normalize_spec op' rel'))
        | inr b => Leaf b
        end
      else range_node (VVersion k) (spec_range op (normalize_spec op rel))
  | EVersionIn k vs negated =>
      if k =? pv then
        match pv_list_range (rev vs) with
        | Some r => range_node (VVersion pfv) (if negated then r_complement r else r)
        | None => Leaf negated
        end
      else
        let r := version_list_range (rev vs) in
        range_node (VVersion k) (if negated then r_complement r else r)
  | EString k op s => range_node (VString k) (string_range op s)
  | EIn k s negated => bool_node (VIn k s) (negb negated)
  | EContains k s negated => bool_node (VContains k s) (negb negated)
  | EExtra negated arbitrary name => bool_node (VExtra arbitrary name) (negb negated)
  end.
