(** The PEP 508 meaning of a marker, read directly off its (typed) syntax - no diagrams - and the
    compilation of that syntax into a diagram as the parser performs it. *)
From Coq Require Import List Bool NArith.
From PV Require Import Base.Order Base.CutDef DD.DDModel Marker.Concrete Marker.Expr Marker.Spec.
Import ListNotations.
Open Scope N_scope.

(** a concrete environment: release segments of the (final) version values, strings, and the active extras *)
Record penv := {
  pe_release : N -> list N;       (* by version-key index; python_version is the major.minor of python_full_version *)
  pe_string : N -> str;           (* by string-key index *)
  pe_extras : list str
}.

Definition str_holds (op : sop) (v s : str) : bool :=
  match op with
  | SEq => is_eq (cmp v s) | SNe => negb (is_eq (cmp v s))
  | SGt => is_gt (cmp v s) | SGe => negb (is_lt (cmp v s))
  | SLt => is_lt (cmp v s) | SLe => negb (is_gt (cmp v s))
  end.

(** the meaning of one comparison *)
Definition sem_expr (pv pfv : N) (e : penv) (m : mexpr) : bool :=
  let release k := if k =? pv then major_minor (pe_release e pfv) else pe_release e k in
  match m with
  | EVersion k op rel => spec_holds op (release k) rel
  | EVersionIn k vs negated => spec_in (release k) (map (fun v => fst (snd v)) vs) negated
  | EString k op s => str_holds op (pe_string e k) s
  | EIn k s negated => xorb negated (substring (pe_string e k) s)
  | EContains k s negated => xorb negated (substring s (pe_string e k))
  | EExtra negated arbitrary name => xorb negated (negb arbitrary && existsb (str_eqb name) (pe_extras e))
  end.

(** marker syntax after typing: a comparison that could not be interpreted is [None] *)
Inductive mast :=
| AExpr (m : option mexpr)
| AAnd (a b : mast)
| AOr (a b : mast).

(** and/or with dropped operands skipped; [None] when nothing remains *)
Definition skip (f : bool -> bool -> bool) (a b : option bool) : option bool :=
  match a, b with
  | Some x, Some y => Some (f x y)
  | Some x, None => Some x
  | None, y => y
  end.

Fixpoint sem_ast (pv pfv : N) (e : penv) (a : mast) : option bool :=
  match a with
  | AExpr m => option_map (sem_expr pv pfv e) m
  | AAnd x y => skip andb (sem_ast pv pfv e x) (sem_ast pv pfv e y)
  | AOr x y => skip orb (sem_ast pv pfv e x) (sem_ast pv pfv e y)
  end.
(** a marker all of whose comparisons were dropped is TRUE *)
Definition sem508 (pv pfv : N) (e : penv) (a : mast) : bool :=
  match sem_ast pv pfv e a with Some b => b | None => true end.

(** what the parser builds *)
Definition combine_dd (is_and : bool) (acc x : option mdd) : option mdd :=
  match acc, x with
  | Some a, Some b => Some (if is_and then m_and a b else m_or a b)
  | None, Some b => Some b
  | a, None => a
  end.

Fixpoint compile_ast (pv pfv : N) (a : mast) : option mdd :=
  match a with
  | AExpr m => option_map (expression pv pfv) m
  | AAnd x y => combine_dd true (compile_ast pv pfv x) (compile_ast pv pfv y)
  | AOr x y => combine_dd false (compile_ast pv pfv x) (compile_ast pv pfv y)
  end.
Definition compile (pv pfv : N) (a : mast) : mdd :=
  match compile_ast pv pfv a with Some t => t | None => Leaf true end.

(** the diagram-level environment of a [penv] *)
Definition env_of_penv (e : penv) : env :=
  {| env_version := fun k => (0, (strip (pe_release e k), FINAL)); env_string := pe_string e |}.

(** side conditions under which a comparison is in the scope of the theorem *)
Definition in_scope (pv : N) (m : mexpr) : Prop :=
  match m with
  | EVersion k op rel => rel <> [] /\ (op = OTilde -> (2 <= length rel)%nat) /\
                         (k = pv -> ~ (is_star op = true /\ (2 < length rel)%nat))
  | EVersionIn k vs _ =>
      forall v, In v vs -> fst (snd v) <> [] /\ (k = pv -> (length (fst (snd v)) <= 2)%nat)
  | _ => True
  end.

Fixpoint ast_in_scope (pv : N) (a : mast) : Prop :=
  match a with
  | AExpr (Some m) => in_scope pv m
  | AExpr None => True
  | AAnd x y | AOr x y => ast_in_scope pv x /\ ast_in_scope pv y
  end.
