(** [MarkerTree::top_level_extra] (src/marker/tree.rs): the `extra == e` expression that is part of every
    clause of the DNF of a marker, if there is one.

    - (M)  [top_level_extra_dnf], [top_level_extra]: the executable model, the loop of the crate over the
           clauses of [to_dnf] (Marker/DnfModel.v);
    - (P1) [top_level_extra_in_every_clause]: the result is an `extra ==` expression and occurs in every clause;
    - (P2) [top_level_extra_sound], [top_level_extra_active]: the result holds in every satisfying assignment;
           a named (valid) extra that is returned is one of the active extras of every satisfying assignment;
    - (P3) the constants; (P4) pinned examples. *)
From Coq Require Import List Bool NArith.
From PV Require Import Base.Order Base.CutDef DD.DDModel DD.DDWf Marker.Concrete Marker.Expr Marker.ExtrasProofs
  Marker.DnfModel Marker.DnfProofs.
Import ListNotations.
Open Scope N_scope.

(** * (M) the model *)

(** [matches!(expression, MarkerExpression::Extra { operator: ExtraOperator::Equal, .. })] *)
Definition is_extra_eq (e : mexpr) : bool :=
  match e with
  | EExtra false _ _ => true
  | _ => false
  end.

(** the body of [for conjunction in self.to_dnf()]: [acc] is [extra_expression]; [find] is [Iterator::find]
    (the first match), [?] on its result returns [None] from the function; [*extra_expression != *found] is the
    derived [PartialEq] of [MarkerExpression] ([term_eqb], Marker/DnfModel.v: on two [EExtra] it compares the
    operator, the kind of the name (valid / arbitrary) and the name) *)
Fixpoint top_level_extra_loop (d : dnf) (acc : option mexpr) : option mexpr :=
  match d with
  | [] => acc
  | conjunction :: d' =>
      match find is_extra_eq conjunction with
      | None => None
      | Some found =>
          match acc with
          | Some extra_expression =>
              if term_eqb extra_expression found then top_level_extra_loop d' acc else None
          | None => top_level_extra_loop d' (Some found)
          end
      end
  end.

Definition top_level_extra_dnf (d : dnf) : option mexpr := top_level_extra_loop d None.

Definition top_level_extra (t : mdd) : option mexpr := top_level_extra_dnf (to_dnf t).

(** * (P1) the result is an `extra ==` expression of every clause *)

Lemma find_extra_eq (c : clause) (e : mexpr) : find is_extra_eq c = Some e -> is_extra_eq e = true /\ In e c.
Proof. intros F. apply find_some in F. destruct F as [I E]. split; assumption. Qed.

(** on `extra ==` expressions the equality of the crate is Leibniz equality *)
Lemma term_eqb_extra_eq (a b : mexpr) : is_extra_eq a = true -> term_eqb a b = true -> a = b.
Proof.
  intros Ha E. destruct a as [| | | | |n arb s]; cbn [is_extra_eq] in Ha; try discriminate.
  destruct b as [| | | | |n' arb' s']; cbn [term_eqb] in E; try discriminate.
  apply andb_true_iff in E as [E Es]. apply andb_true_iff in E as [En Ea].
  apply eqb_prop in En. apply eqb_prop in Ea. apply nlist_eqb_spec in Es. now subst.
Qed.

Lemma top_level_extra_loop_some : forall (d : dnf) (acc : option mexpr) (e : mexpr),
  (forall a, acc = Some a -> is_extra_eq a = true) ->
  top_level_extra_loop d acc = Some e ->
  is_extra_eq e = true /\ (forall a, acc = Some a -> a = e) /\ (forall c, In c d -> In e c).
Proof.
  induction d as [|c d IH]; intros acc e Hacc L; cbn [top_level_extra_loop] in L.
  - subst acc. split; [now apply Hacc|]. split; [intros a Ea; now inversion Ea|]. intros c [].
  - destruct (find is_extra_eq c) as [found|] eqn:F; [|discriminate].
    destruct (find_extra_eq c found F) as [Ef If].
    destruct acc as [a0|].
    + destruct (term_eqb a0 found) eqn:T; [|discriminate].
      pose proof (term_eqb_extra_eq a0 found (Hacc a0 eq_refl) T) as Eq. subst found.
      destruct (IH (Some a0) e Hacc L) as (He & Ha & Hd).
      split; [exact He|]. split; [exact Ha|].
      intros c' [<- | I]; [|now apply Hd]. now rewrite <- (Ha a0 eq_refl).
    + destruct (IH (Some found) e) as (He & Ha & Hd); [intros a Ea; now inversion Ea; subst|exact L|].
      split; [exact He|]. split; [intros a Ea; discriminate|].
      intros c' [<- | I]; [|now apply Hd]. now rewrite <- (Ha found eq_refl).
Qed.

Theorem top_level_extra_in_every_clause (d : dnf) (e : mexpr) :
  top_level_extra_dnf d = Some e ->
  (exists (arbitrary : bool) (name : str), e = EExtra false arbitrary name) /\
  (forall c, In c d -> In e c).
Proof.
  intros L. destruct (top_level_extra_loop_some d None e) as (He & _ & Hd); [intros a Ea; discriminate|exact L|].
  split; [|exact Hd].
  destruct e as [| | | | |n arb s]; cbn [is_extra_eq] in He; try discriminate.
  destruct n; [discriminate|]. now exists arb, s.
Qed.

Print Assumptions top_level_extra_in_every_clause.

(** a DNF without clauses yields nothing; so does a DNF with a clause without `extra ==` *)
Lemma top_level_extra_dnf_nil : top_level_extra_dnf [] = None.
Proof. reflexivity. Qed.

Lemma top_level_extra_dnf_nonempty (d : dnf) (e : mexpr) : top_level_extra_dnf d = Some e -> d <> [].
Proof. intros L ->. discriminate. Qed.

(** * (P2) soundness *)
Section Sound.
Variables (pv pfv : N).

(** an expression of every clause of a DNF holds wherever the DNF holds *)
Lemma in_every_clause_sound (en : env) (extras : list str) (d : dnf) (e : mexpr) :
  (forall c, In c d -> In e c) -> eval_dnf pv pfv en extras d = true ->
  m_eval en extras (expression pv pfv e) = true.
Proof.
  intros Hd Ev. unfold eval_dnf in Ev. apply existsb_exists in Ev as (c & Ic & Ec).
  rewrite forallb_forall in Ec. apply Ec. now apply Hd.
Qed.

(** [top_level_extra()] returns an expression only if it holds in every satisfying assignment *)
Theorem top_level_extra_sound (t : mdd) (e : mexpr) :
  wfm t -> renderable_dd pv t = true -> t <> Leaf true ->
  top_level_extra t = Some e ->
  forall (en : env) (extras : list str), m_eval en extras t = true ->
    m_eval en extras (expression pv pfv e) = true.
Proof.
  intros W R Hn L en extras Ev. unfold top_level_extra in L.
  destruct (top_level_extra_in_every_clause _ _ L) as [_ Hd].
  apply (in_every_clause_sound en extras (to_dnf t) e Hd).
  now rewrite (to_dnf_sem pv pfv en extras t W R Hn).
Qed.

(** [top_level_extra()] returns `extra == name` only if [name] is active in every satisfying assignment
    (the vocabulary of [C11_extra_sem]: [existsb (str_eqb name) extras] is "[name] is one of the active extras") *)
Corollary top_level_extra_active (t : mdd) (name : str) :
  wfm t -> renderable_dd pv t = true -> t <> Leaf true ->
  top_level_extra t = Some (EExtra false false name) ->
  forall (en : env) (extras : list str), m_eval en extras t = true ->
    existsb (str_eqb name) extras = true /\ In name extras.
Proof.
  intros W R Hn L en extras Ev.
  pose proof (top_level_extra_sound t _ W R Hn L en extras Ev) as S.
  destruct (extra_sem pv pfv en extras name) as [E _]. rewrite E in S. split; [exact S|].
  apply existsb_exists in S as (x & Ix & Ex). apply str_eqb_spec in Ex. now subst x.
Qed.

(** an arbitrary (invalid) extra name is never active ([C11_extra_sem], second part), so a marker for which
    [top_level_extra()] returns one has no satisfying assignment *)
Corollary top_level_extra_arbitrary_unsat (t : mdd) (name : str) :
  wfm t -> renderable_dd pv t = true -> t <> Leaf true ->
  top_level_extra t = Some (EExtra false true name) ->
  forall (en : env) (extras : list str), m_eval en extras t = false.
Proof.
  intros W R Hn L en extras. destruct (m_eval en extras t) eqn:Ev; [|reflexivity].
  pose proof (top_level_extra_sound t _ W R Hn L en extras Ev) as S.
  destruct (extra_sem pv pfv en extras name) as (_ & E & _). rewrite E in S. discriminate.
Qed.
End Sound.

Print Assumptions top_level_extra_sound.
Print Assumptions top_level_extra_active.
Print Assumptions top_level_extra_arbitrary_unsat.

(** * (P3) the constants: [to_dnf] has no clause for TRUE nor for FALSE, the loop body never runs *)
Theorem top_level_extra_false : top_level_extra (Leaf false) = None.
Proof. vm_compute. reflexivity. Qed.

Theorem top_level_extra_true : top_level_extra (Leaf true) = None.
Proof. vm_compute. reflexivity. Qed.

(** hence the soundness statement holds of TRUE too (vacuously: the premise [= Some e] is false) *)
Corollary top_level_extra_sound_all (pv pfv : N) (t : mdd) (e : mexpr) :
  wfm t -> renderable_dd pv t = true -> top_level_extra t = Some e ->
  forall (en : env) (extras : list str), m_eval en extras t = true ->
    m_eval en extras (expression pv pfv e) = true.
Proof.
  intros W R L. apply (top_level_extra_sound pv pfv t e W R); [|exact L].
  intros ->. rewrite top_level_extra_true in L. discriminate.
Qed.

Print Assumptions top_level_extra_sound_all.

(** * (P4) pinned outputs.  Keys as in Marker/DnfModel.v: python_full_version = 1, python_version = 2;
    os_name = 1; 'a' = [97], 'b' = [98], 'x' = [120] *)
Local Definition ex (e : mexpr) : mdd := expression 2 1 e.

(** extra == 'a' and os_name == 'x' *)
Example top_level_extra_and :
  to_dnf (m_and (ex (EExtra false false [97])) (ex (EString 1 SEq [120])))
  = [[EString 1 SEq [120]; EExtra false false [97]]]
  /\ top_level_extra (m_and (ex (EExtra false false [97])) (ex (EString 1 SEq [120])))
  = Some (EExtra false false [97]).
Proof. vm_compute. split; reflexivity. Qed.

(** extra == 'a' or os_name == 'x' *)
Example top_level_extra_or :
  top_level_extra (m_or (ex (EExtra false false [97])) (ex (EString 1 SEq [120]))) = None.
Proof. vm_compute. reflexivity. Qed.

(** extra == 'a' and (os_name == 'x' or sys_platform == 'b'): two clauses, the same extra in both *)
Example top_level_extra_two_clauses :
  let t := m_and (ex (EExtra false false [97])) (m_or (ex (EString 1 SEq [120])) (ex (EString 12 SEq [98]))) in
  length (to_dnf t) = 2%nat /\ top_level_extra t = Some (EExtra false false [97]).
Proof. vm_compute. split; reflexivity. Qed.

(** (extra == 'a' and os_name == 'x') or (extra == 'b' and os_name != 'x'): an extra in each clause, not the same *)
Example top_level_extra_differ :
  let t := m_or (m_and (ex (EExtra false false [97])) (ex (EString 1 SEq [120])))
                (m_and (ex (EExtra false false [98])) (ex (EString 1 SNe [120]))) in
  top_level_extra t = None.
Proof. vm_compute. reflexivity. Qed.

(** extra != 'a' is not an `extra ==` expression *)
Example top_level_extra_negated :
  top_level_extra (ex (EExtra true false [97])) = None.
Proof. vm_compute. reflexivity. Qed.
