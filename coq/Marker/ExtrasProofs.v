(** C11 / C13 at the concrete types: extras, simplify_extras, with_extra_marker, evaluate_extras. *)
From Coq Require Import List Bool NArith.
From PV Require Import Base.Order Base.CutDef Base.CutLemmas DD.DDModel DD.DDBasics DD.DDAnd DD.DDWf DD.DDWfOps DD.DDCanon DD.DDRestrict
  Marker.Concrete Marker.Expr Marker.Density.
Import ListNotations.
Open Scope N_scope.

Notation okm := (ok (var:=var) (val:=val) is_range).
Notation wfm := (wf (var:=var) (val:=val) is_range).

Lemma eval_ext (r r' : mvaluation) : (forall k, rv r k = rv r' k) -> (forall k, bv r k = bv r' k) ->
  forall t : mdd, eval r t = eval r' t.
Proof.
  intros Hr Hb. induction t as [b|k d0 ds IH0 IHl|k hi lo IHh IHl] using dd_ind2.
  - reflexivity.
  - rewrite !eval_rnode, <- Hr. destruct (lookup_in (rv r k) ds d0) as [-> | I]; auto.
    rewrite Forall_forall in IHl. now apply IHl.
  - cbn [eval]. rewrite <- Hb, IHh, IHl. reflexivity.
Qed.

Lemma str_eqb_spec : forall a b : str, str_eqb a b = true <-> a = b.
Proof.
  induction a as [|x a IH]; destruct b as [|y b]; cbn; try (split; congruence).
  rewrite andb_true_iff, N.eqb_eq, IH. split; [intros [-> ->]; reflexivity|intros [= -> ->]; auto].
Qed.

(** `extra == 'N'` holds exactly when the (normalised) name is among the active extras; text that is not a
    valid extra name never matches; `!=` is the negation *)
Theorem extra_sem (pv pfv : N) (e : env) (extras : list str) (name : str) :
  m_eval e extras (expression pv pfv (EExtra false false name)) = existsb (str_eqb name) extras /\
  m_eval e extras (expression pv pfv (EExtra false true name)) = false /\
  (forall arb, expression pv pfv (EExtra true arb name) = m_not (expression pv pfv (EExtra false arb name))).
Proof.
  split; [|split].
  - unfold m_eval. cbn. now destruct (existsb (str_eqb name) extras).
  - reflexivity.
  - intros arb. reflexivity.
Qed.

(** simplify_extras(E): evaluates on S as the original does on S ∪ E *)
Theorem simplify_extras_sem (E S : list str) (e : env) (t : mdd) : okm t ->
  okm (m_simplify_extras E t) /\
  m_eval e S (m_simplify_extras E t) = m_eval e (E ++ S) t.
Proof.
  intros O. destruct (restrict_sem is_range (extras_present E) t O) as [O' Ev]. split; [exact O'|].
  unfold m_eval, m_simplify_extras. rewrite Ev. apply eval_ext; [reflexivity|].
  intros k. cbn [bv override val_of_env]. destruct k as [| | | |arb s]; try reflexivity.
  destruct arb; [reflexivity|]. cbn [extras_present]. rewrite existsb_app.
  destruct (existsb (str_eqb s) E); reflexivity.
Qed.

(** ... and no longer mentions any extra in E *)
Theorem simplify_extras_indep (E : list str) (t : mdd) (s : str) : typed is_range t ->
  existsb (str_eqb s) E = true -> ~ occurs (VExtra false s) (m_simplify_extras E t).
Proof.
  intros Ty I. apply (restrict_indep is_range (extras_present E)); auto.
  - intros k R. destruct k; try (cbn in R; discriminate R); reflexivity.
  - cbn. now rewrite I.
Qed.

(** a diagram in which a variable does not occur does not depend on it *)
Lemma not_occurs_indep (k : var) : forall t : mdd, ~ occurs k t -> forall (r : mvaluation) b, eval (upd_b r k b) t = eval r t.
Proof.
  induction t as [x|k' d0 ds IH0 IHl|k' hi lo IHh IHl] using dd_ind2; intros No r b.
  - reflexivity.
  - rewrite (occurs_rnode is_range) in No. rewrite !eval_rnode. cbn [rv upd_b].
    destruct (lookup_in (rv r k') ds d0) as [-> | I]; [apply IH0; tauto|].
    rewrite Forall_forall in IHl. apply (IHl _ I). intros O. apply No. right; right. apply Exists_exists.
    exists (lookup_from (rv r k') d0 ds). split; assumption.
  - cbn [occurs] in No. cbn [eval bv upd_b].
    destruct (eqb_of k' k) eqn:E; [apply (proj1 (eqb_of_spec k' k)) in E; subst; tauto|].
    rewrite IHh, IHl by tauto. reflexivity.
Qed.

Theorem simplify_extras_wf (E : list str) (t : mdd) : wfm t -> wfm (m_simplify_extras E t).
Proof. intros W. apply (restrict_wf is_range). exact W. Qed.

(** with_extra_marker(e) is the old marker AND extra == e *)
Definition m_with_extra (pv pfv : N) (t : mdd) (name : str) : mdd := m_and t (expression pv pfv (EExtra false false name)).

Theorem with_extra_sem (pv pfv : N) (t : mdd) (name : str) (e : env) (extras : list str) : okm t ->
  m_eval e extras (m_with_extra pv pfv t name) = m_eval e extras t && existsb (str_eqb name) extras.
Proof.
  intros [St Tt]. unfold m_eval, m_with_extra, m_and.
  rewrite (tand_sem is_range t St Tt); [|cbn; auto|cbn; auto]. f_equal. cbn. now destruct (existsb (str_eqb name) extras).
Qed.

(** ** environment-free evaluation (C13) *)
Lemma agrees_env (e : env) (extras : list str) : agrees (val_of_env e extras) (extras_only extras).
Proof.
  intros k b F. destruct k as [| | | |arb s]; try discriminate. destruct arb; cbn in *; congruence.
Qed.

(** sound over-approximation: false only if no environment satisfies the marker with these extras *)
Theorem eval_extras_sound (extras : list str) (t : mdd) :
  (exists e : env, m_eval e extras t = true) -> m_eval_extras extras t = true.
Proof. intros [e E]. exact (eval_any_sound (extras_only extras) t (val_of_env e extras) (agrees_env e extras) E). Qed.

(** exact when the variables are independent: a positive answer has a satisfying valuation that agrees on the extras *)
Theorem eval_extras_exact (extras : list str) (t : mdd) : wfm t -> nice_pair t t ->
  m_eval_extras extras t = true ->
  exists r : mvaluation, tval is_range val_ok r /\ agrees r (extras_only extras) /\ eval r t = true.
Proof.
  intros W Hn E. apply (eval_any_exact is_range val_ok dflt dflt_ok (extras_only extras) t W); auto.
  now apply nice_dense.
Qed.

(** the python-version variant: the python_version key never labels a node (see [expression_no_pv]); then the
    candidate list is never consulted and the function is [m_eval_extras] *)
Theorem eval_extras_pv_eq (pvk : N) (pvs : list version) (extras : list str) : forall t : mdd,
  ~ occurs (VVersion pvk) t -> m_eval_extras_pv pvk pvs extras t = m_eval_extras extras t.
Proof.
  unfold m_eval_extras_pv, m_eval_extras.
  induction t as [b|k d0 ds IH0 IHl|k hi lo IHh IHl] using dd_ind2; intros No.
  - reflexivity.
  - rewrite (occurs_rnode is_range) in No. rewrite eval_any_eq. cbn [eval_any_pv].
    assert (forall lo hi, match k with
                          | VVersion k' => if k' =? pvk then existsb (fun v => within (inl v) lo hi) pvs else true
                          | _ => true end = true) as Hal.
    { intros lo hi. destruct k as [k'| | | |]; try reflexivity. destruct (N.eqb_spec k' pvk) as [->|]; [|reflexivity]. exfalso. apply No. now left. }
    rewrite IH0 by tauto.
    assert (forall (l : list (cut val * mdd)) lo0 cur, Forall (fun d => ~ occurs (VVersion pvk) d) (map snd l) ->
              Forall (fun d => ~ occurs (VVersion pvk) d -> eval_any_pv pvk pvs (extras_only extras) d = eval_any (extras_only extras) d) (map snd l) ->
              (fix go (lo : option (cut val)) (cur : bool) (l : list (cut val * mdd)) : bool :=
                 match l with
                 | [] => match k with
                         | VVersion k' => if k' =? pvk then existsb (fun v => within (inl v) lo None) pvs else true
                         | _ => true end && cur
                 | (c, d) :: l' => (match k with
                                    | VVersion k' => if k' =? pvk then existsb (fun v => within (inl v) lo (Some c)) pvs else true
                                    | _ => true end && cur) || go (Some c) (eval_any_pv pvk pvs (extras_only extras) d) l'
                 end) lo0 cur l = cur || existsb (eval_any (extras_only extras)) (map snd l)) as G.
    { induction l as [|[c d] l IHl']; intros lo0 cur F1 F2; cbn [map snd existsb].
      - rewrite Hal. cbn. now rewrite orb_false_r.
      - inversion F1; subst. inversion F2; subst. rewrite Hal. cbn [andb]. rewrite IHl' by assumption.
        match goal with Hd : ~ occurs _ d -> _ |- _ => rewrite Hd by assumption end. reflexivity. }
    apply G; [|exact IHl]. apply Forall_forall. intros d I O. apply No. right; right. apply Exists_exists. eauto.
  - cbn [occurs] in No. rewrite eval_any_eq. cbn [eval_any_pv]. rewrite IHh, IHl by tauto. reflexivity.
Qed.

Corollary eval_extras_pv_sound (pvk : N) (pvs : list version) (extras : list str) (t : mdd) :
  ~ occurs (VVersion pvk) t -> (exists e : env, m_eval e extras t = true) -> m_eval_extras_pv pvk pvs extras t = true.
Proof. intros No Ex. rewrite eval_extras_pv_eq by exact No. now apply eval_extras_sound. Qed.
