(** Which concrete diagrams fall under the canonicity theorem: density of the value domains.

    Versions: between, below and above release-only final versions there is always a version
    (X.dev0 < X < X.post0 < any final release above X).  Strings: the order has a minimum (the empty
    string) and successor pairs (s, s·U+0000); cut sets that avoid these two shapes are dense. *)
From Coq Require Import List Bool NArith Lia.
From PV Require Import Base.Order Base.CutDef Base.CutLemmas DD.DDModel DD.DDBasics DD.DDAnd DD.DDWf DD.DDWfOps DD.DDCanon Marker.Concrete.
Import ListNotations.
Open Scope N_scope.

Definition final_of (e : N) (rel : list N) : version := (e, (rel, FINAL)).
Definition dev_of (e : N) (rel : list N) : version := (e, (rel, [1; 0; 0; 0])).
Definition post_of (e : N) (rel : list N) : version := (e, (rel, [6; 0; 1; 18446744073709551615])).

Definition dflt (k : var) : val :=
  match k with VVersion _ => inl (final_of 0 []) | _ => inr [] end.
Lemma dflt_ok k : is_range k = true -> val_ok k (dflt k) = true.
Proof. destruct k; cbn; congruence. Qed.

Lemma ver_cmp_unfold (e e' : N) (r r' s s' : list N) :
  cmp (e, (r, s)) (e', (r', s')) = match cmp e e' with Eq => match cmp r r' with Eq => cmp s s' | c => c end | c => c end.
Proof. reflexivity. Qed.

Lemma dev_lt_final e rel : cmp (dev_of e rel) (final_of e rel) = Lt.
Proof. unfold dev_of, final_of. rewrite ver_cmp_unfold, !cmp_refl. reflexivity. Qed.
Lemma final_lt_post e rel : cmp (final_of e rel) (post_of e rel) = Lt.
Proof. unfold post_of, final_of. rewrite ver_cmp_unfold, !cmp_refl. reflexivity. Qed.
Lemma post_lt_final e rel e' rel' :
  cmp (final_of e rel) (final_of e' rel') = Lt -> cmp (post_of e rel) (final_of e' rel') = Lt.
Proof.
  unfold post_of, final_of. rewrite !ver_cmp_unfold.
  destruct (cmp e e'); auto. destruct (cmp rel rel'); auto. rewrite cmp_refl. discriminate.
Qed.

Lemma left_of_below (x v : val) : left_of x (v, Below) = match cmp x v with Lt => true | _ => false end.
Proof. unfold left_of. cbn [fst snd]. destruct (cmp x v); reflexivity. Qed.
Lemma left_of_above (x v : val) : left_of x (v, Above) = match cmp x v with Gt => false | _ => true end.
Proof. unfold left_of. cbn [fst snd]. destruct (cmp x v); reflexivity. Qed.

Lemma cut_cmp_unfold (v v' : val) (s s' : side) :
  cut_cmp (v, s) (v', s') = match cmp v v' with Eq => cmp s s' | c => c end.
Proof. reflexivity. Qed.

(** ** versions *)
Definition release_only (c : cut val) : Prop := exists e rel, fst c = inl (final_of e rel).

Theorem dense_versions k (C : list (cut val)) :
  (forall c, In c C -> release_only c) -> dense_on (T val_ok (VVersion k)) C.
Proof.
  intros HC. constructor.
  - intros [v s] [v' s'] I I' L.
    destruct (HC _ I) as (e & rel & Ev), (HC _ I') as (e' & rel' & Ev'). cbn [fst] in Ev, Ev'. subst v v'.
    rewrite cut_cmp_unfold in L. change (cmp (inl (final_of e rel)) (inl (final_of e' rel')) : comparison)
      with (cmp (final_of e rel) (final_of e' rel')) in L.
    destruct (cmp (final_of e rel) (final_of e' rel')) eqn:C0; try discriminate.
    + apply cmp_eq in C0. injection C0 as <- <-. destruct s, s'; try discriminate.
      exists (inl (final_of e rel)). repeat split. * now rewrite left_of_below, cmp_refl. * now rewrite left_of_above, cmp_refl.
    + destruct s.
      * exists (inl (final_of e rel)). repeat split; [now rewrite left_of_below, cmp_refl|].
        destruct s'; [rewrite left_of_below|rewrite left_of_above];
          change (cmp (inl (final_of e rel)) (inl (final_of e' rel')) : comparison) with (cmp (final_of e rel) (final_of e' rel')); now rewrite C0.
      * destruct s'.
        -- exists (inl (post_of e rel)). repeat split.
           ++ rewrite left_of_above. change (cmp (inl (post_of e rel)) (inl (final_of e rel)) : comparison) with (cmp (post_of e rel) (final_of e rel)).
              rewrite (cmp_antisym (final_of e rel) (post_of e rel)), final_lt_post. reflexivity.
           ++ rewrite left_of_below. change (cmp (inl (post_of e rel)) (inl (final_of e' rel')) : comparison) with (cmp (post_of e rel) (final_of e' rel')).
              now rewrite (post_lt_final _ _ _ _ C0).
        -- exists (inl (final_of e' rel')). repeat split.
           ++ rewrite left_of_above. change (cmp (inl (final_of e' rel')) (inl (final_of e rel)) : comparison) with (cmp (final_of e' rel') (final_of e rel)).
              rewrite (cmp_antisym (final_of e rel) (final_of e' rel')), C0. reflexivity.
           ++ now rewrite left_of_above, cmp_refl.
  - intros [v s] I. destruct (HC _ I) as (e & rel & Ev). cbn [fst] in Ev. subst v.
    exists (inl (dev_of e rel)). split; [reflexivity|].
    destruct s; [rewrite left_of_below|rewrite left_of_above];
      change (cmp (inl (dev_of e rel)) (inl (final_of e rel)) : comparison) with (cmp (dev_of e rel) (final_of e rel)); now rewrite dev_lt_final.
  - intros [v s] I. destruct (HC _ I) as (e & rel & Ev). cbn [fst] in Ev. subst v.
    exists (inl (post_of e rel)). split; [reflexivity|].
    destruct s; [rewrite left_of_below|rewrite left_of_above];
      change (cmp (inl (post_of e rel)) (inl (final_of e rel)) : comparison) with (cmp (post_of e rel) (final_of e rel));
      rewrite (cmp_antisym (final_of e rel) (post_of e rel)), final_lt_post; reflexivity.
  - exists (inl (final_of 0 [])). reflexivity.
Qed.

(** ** strings *)
Lemma str_cmp_cons (a b : N) (x y : str) : cmp (a :: x) (b :: y) = match cmp a b with Eq => cmp x y | c => c end.
Proof. reflexivity. Qed.

Lemma str_lt_succ : forall s : str, cmp s (s ++ [0]) = Lt.
Proof.
  induction s as [|a s IH]; [reflexivity|].
  change ((a :: s) ++ [0]) with (a :: (s ++ [0])). now rewrite str_cmp_cons, cmp_refl.
Qed.

Lemma str_succ_lt : forall s s' : str, cmp s s' = Lt -> s' <> s ++ [0] -> cmp (s ++ [0]) s' = Lt.
Proof.
  induction s as [|a s IH]; intros [|b s'] L N; try discriminate.
  - change ([] ++ [0]) with [0]. rewrite str_cmp_cons.
    change (cmp 0 b : comparison) with (0 ?= b). destruct (N.compare_spec 0 b) as [E | E | E]; auto; [|lia].
    subst b. destruct s'; [exfalso; apply N; reflexivity|reflexivity].
  - change ((a :: s) ++ [0]) with (a :: (s ++ [0])). rewrite str_cmp_cons in *.
    destruct (cmp a b) eqn:C; auto; try discriminate.
    apply cmp_eq in C; subst b. apply IH; auto. intros ->. apply N. reflexivity.
Qed.

Definition string_cut (c : cut val) : Prop := exists s : str, fst c = inr s.

(** the known finding F10: cut sets that mention the minimum of the order or a successor pair *)
Definition vacuous_gap (C : list (cut val)) : Prop :=
  In (inr [], Below) C \/ exists s : str, In (inr s, Above) C /\ In (inr (s ++ [0]), Below) C.

Theorem dense_strings k (C : list (cut val)) :
  (forall c, In c C -> string_cut c) -> ~ vacuous_gap C -> dense_on (T val_ok (VString k)) C.
Proof.
  intros HC NV. constructor.
  - intros [v s] [v' s'] I I' L.
    destruct (HC _ I) as (t & Ev), (HC _ I') as (t' & Ev'). cbn [fst] in Ev, Ev'. subst v v'.
    rewrite cut_cmp_unfold in L. change (cmp (inr t) (inr t') : comparison) with (cmp t t') in L.
    destruct (cmp t t') eqn:C0; try discriminate.
    + apply cmp_eq in C0. subst t'. destruct s, s'; try discriminate.
      exists (inr t). repeat split. * now rewrite left_of_below, cmp_refl. * now rewrite left_of_above, cmp_refl.
    + destruct s.
      * exists (inr t). repeat split; [now rewrite left_of_below, cmp_refl|].
        destruct s'; [rewrite left_of_below|rewrite left_of_above]; change (cmp (inr t) (inr t') : comparison) with (cmp t t'); now rewrite C0.
      * destruct s'.
        -- exists (inr (t ++ [0])). repeat split.
           ++ rewrite left_of_above. change (cmp (inr (t ++ [0])) (inr t) : comparison) with (cmp (t ++ [0]) t).
              rewrite (cmp_antisym t (t ++ [0])), str_lt_succ. reflexivity.
           ++ rewrite left_of_below. change (cmp (inr (t ++ [0])) (inr t') : comparison) with (cmp (t ++ [0]) t').
              rewrite str_succ_lt; auto. intros ->. apply NV. right. exists t. auto.
        -- exists (inr t'). repeat split.
           ++ rewrite left_of_above. change (cmp (inr t') (inr t) : comparison) with (cmp t' t).
              rewrite (cmp_antisym t t'), C0. reflexivity.
           ++ now rewrite left_of_above, cmp_refl.
  - intros [v s] I. destruct (HC _ I) as (t & Ev). cbn [fst] in Ev. subst v.
    destruct s.
    + exists (inr []). split; [reflexivity|]. rewrite left_of_below. change (cmp (inr []) (inr t) : comparison) with (cmp (@nil N) t).
      destruct t; [exfalso; apply NV; left; exact I|reflexivity].
    + exists (inr t). split; [reflexivity|]. now rewrite left_of_above, cmp_refl.
  - intros [v s] I. destruct (HC _ I) as (t & Ev). cbn [fst] in Ev. subst v.
    exists (inr (t ++ [0])). split; [reflexivity|].
    destruct s; [rewrite left_of_below|rewrite left_of_above]; change (cmp (inr (t ++ [0])) (inr t) : comparison) with (cmp (t ++ [0]) t);
      rewrite (cmp_antisym t (t ++ [0])), str_lt_succ; reflexivity.
  - exists (inr []). reflexivity.
Qed.

(** the cuts of a pair of diagrams are in the dense part of the domains *)
Definition nice_pair (a b : mdd) : Prop :=
  forall k, match k with
            | VVersion _ => forall c, In c (all_cuts k a ++ all_cuts k b) -> release_only c
            | VString _ => (forall c, In c (all_cuts k a ++ all_cuts k b) -> string_cut c) /\
                           ~ vacuous_gap (all_cuts k a ++ all_cuts k b)
            | _ => True
            end.

Theorem nice_dense (a b : mdd) : nice_pair a b -> dense_pair is_range val_ok a b.
Proof.
  intros Hn k R. specialize (Hn k). destruct k; try discriminate.
  - now apply dense_versions.
  - destruct Hn. now apply dense_strings.
Qed.
