(** The reference reading of PEP 440 release-segment comparison (PEP 508 marker semantics for
    version keys), written directly and without diagrams.  Meant to be read in minutes. *)
From Coq Require Import List Bool NArith.
From PV Require Import Marker.Expr.
Import ListNotations.
Open Scope N_scope.

(** "When comparing release segments with different numbers of components, the shorter segment is
    padded out with additional zeros as necessary" *)
Fixpoint zeros_cmp (l : list N) : comparison :=      (* 0.0.0... against l *)
  match l with
  | [] => Eq
  | y :: l' => match 0 ?= y with Eq => zeros_cmp l' | c => c end
  end.

Fixpoint rel_cmp (a b : list N) : comparison :=
  match a, b with
  | [], _ => zeros_cmp b
  | _, [] => CompOpp (zeros_cmp a)
  | x :: a', y :: b' => match x ?= y with Eq => rel_cmp a' b' | c => c end
  end.

(** the first [n] segments of [l], padded with zeros *)
Fixpoint pad_take (n : nat) (l : list N) : list N :=
  match n with
  | O => []
  | S n' => match l with [] => 0 :: pad_take n' [] | x :: l' => x :: pad_take n' l' end
  end.

Fixpoint list_eqb (a b : list N) : bool :=
  match a, b with
  | [], [] => true
  | x :: a', y :: b' => (x =? y) && list_eqb a' b'
  | _, _ => false
  end.

(** prefix matching: [V.*] matches a version whose release, padded, starts with the segments of [V] *)
Definition star_match (lhs lit : list N) : bool := list_eqb (pad_take (length lit) lhs) lit.

Definition is_eq (c : comparison) : bool := match c with Eq => true | _ => false end.
Definition is_lt (c : comparison) : bool := match c with Lt => true | _ => false end.
Definition is_gt (c : comparison) : bool := match c with Gt => true | _ => false end.

(** [lhs OP lit] for a final release [lhs] and the release segments [lit] of the literal *)
Definition spec_holds (op : vop) (lhs lit : list N) : bool :=
  match op with
  | OEq | OExact => is_eq (rel_cmp lhs lit)
  | ONe => negb (is_eq (rel_cmp lhs lit))
  | OLt => is_lt (rel_cmp lhs lit)
  | OLe => negb (is_gt (rel_cmp lhs lit))
  | OGt => is_gt (rel_cmp lhs lit)
  | OGe => negb (is_lt (rel_cmp lhs lit))
  | OEqStar => star_match lhs lit
  | ONeStar => negb (star_match lhs lit)
  | OTilde => negb (is_lt (rel_cmp lhs lit)) && star_match lhs (removelast lit)     (* >= V, == V[:-1].* *)
  end.

(** in / not in against a white-space separated list: membership by == *)
Definition spec_in (lhs : list N) (lits : list (list N)) (negated : bool) : bool :=
  xorb negated (existsb (fun lit => is_eq (rel_cmp lhs lit)) lits).

(** python_version is the major.minor of python_full_version *)
Definition major_minor (rel : list N) : list N := pad_take 2 rel.
