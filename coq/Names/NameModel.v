(** Model of src/normalize/mod.rs and package_name.rs: names are byte strings ([list N], each < 256),
    exactly as the code iterates [name.bytes()].  No proofs in this file. *)
From Coq Require Import List NArith Bool.
Import ListNotations.
Open Scope N_scope.

Definition is_upper (c : N) : bool := (65 <=? c) && (c <=? 90).
Definition is_lower (c : N) : bool := (97 <=? c) && (c <=? 122).
Definition is_digit (c : N) : bool := (48 <=? c) && (c <=? 57).
Definition is_punct (c : N) : bool := (c =? 45) || (c =? 95) || (c =? 46).   (* - _ . *)
Definition to_lower (c : N) : N := c + 32.

Definition last_is_punct (last : option N) : bool :=
  match last with Some l => is_punct l | None => false end.

(** [validate_and_normalize_ref]: the loop over bytes with the [last] register; pushing to
    [normalized] followed by an early [return Err] is rendered as [option_map (cons _)]. *)
Fixpoint ref_loop (s : list N) (last : option N) : option (list N) :=
  match s with
  | [] => if last_is_punct last then None else Some []
  | c :: s' =>
      if is_upper c then option_map (cons (to_lower c)) (ref_loop s' (Some c))
      else if is_lower c || is_digit c then option_map (cons c) (ref_loop s' (Some c))
      else if is_punct c then
        match last with
        | None => None
        | Some l => if is_punct l then ref_loop s' (Some c)
                    else option_map (cons 45) (ref_loop s' (Some c))
        end
      else None
  end.

(** The empty name is rejected up front (fix: commit in /repo; the pinned tree accepted it). *)
Definition normalize_ref (s : list N) : option (list N) :=
  match s with [] => None | _ => ref_loop s None end.

Inductive tri := TErr | TFalse | TTrue.

(** [is_normalized] *)
Fixpoint isnorm_loop (s : list N) (last : option N) : tri :=
  match s with
  | [] => if last_is_punct last then TErr else TTrue
  | c :: s' =>
      if is_upper c then TFalse
      else if is_lower c || is_digit c then isnorm_loop s' (Some c)
      else if (c =? 95) || (c =? 46) then TFalse
      else if c =? 45 then
        match last with
        | None => TErr
        | Some l => if l =? 45 then TFalse else isnorm_loop s' (Some c)
        end
      else TErr
  end.

Definition is_normalized (s : list N) : tri :=
  match s with [] => TErr | _ => isnorm_loop s None end.

(** [validate_and_normalize_owned] *)
Definition normalize_owned (s : list N) : option (list N) :=
  match is_normalized s with
  | TErr => None
  | TTrue => Some s
  | TFalse => normalize_ref s
  end.

(** [PackageName::as_dist_info_name]: find the first dash, copy the prefix, then map the rest. *)
Fixpoint find_dash (s : list N) : option (list N * list N) :=
  match s with
  | [] => None
  | c :: s' => if c =? 45 then Some ([], s')
               else match find_dash s' with
                    | Some (pre, post) => Some (c :: pre, post)
                    | None => None
                    end
  end.

Definition dist_info (s : list N) : list N :=
  match find_dash s with
  | Some (pre, post) => pre ++ 95 :: map (fun c => if c =? 45 then 95 else c) post
  | None => s
  end.

(** ---- stand-alone specification (PEP 503 / 508 / 685) ---- *)

Definition allowed (c : N) : bool := is_upper c || is_lower c || is_digit c || is_punct c.
Definition alnum (c : N) : bool := is_upper c || is_lower c || is_digit c.

Definition valid_name (s : list N) : bool :=
  match s with
  | [] => false
  | c :: _ => forallb allowed s && alnum c && alnum (last s 0)
  end.

(** lower-case, every maximal run of [-_.] replaced by one [-] *)
Fixpoint spec_norm (in_run : bool) (s : list N) : list N :=
  match s with
  | [] => []
  | c :: s' =>
      if is_punct c then (if in_run then spec_norm true s' else 45 :: spec_norm true s')
      else (if is_upper c then to_lower c else c) :: spec_norm false s'
  end.

Definition spec_dist_info (s : list N) : list N := map (fun c => if c =? 45 then 95 else c) s.
