(** Proofs about the name model (C09). *)
From Coq Require Import List NArith Bool Lia ZifyBool ZifyN.
From PV Require Import Names.NameModel.
Import ListNotations.
Open Scope N_scope.

Lemma upper_not_punct c : is_upper c = true -> is_punct c = false.
Proof. unfold is_upper, is_punct. lia. Qed.
Lemma lowdig_not_punct c : is_lower c || is_digit c = true -> is_punct c = false.
Proof. unfold is_lower, is_digit, is_punct. lia. Qed.
Lemma upper_not_lowdig c : is_upper c = true -> is_lower c || is_digit c = false.
Proof. unfold is_upper, is_lower, is_digit. lia. Qed.
Lemma lower_of_upper c : is_upper c = true -> is_lower (to_lower c) = true.
Proof. unfold is_upper, is_lower, to_lower. lia. Qed.
Lemma lowdig_not_upper c : is_lower c || is_digit c = true -> is_upper c = false.
Proof. unfold is_upper, is_lower, is_digit. lia. Qed.
Lemma punct_not_upper c : is_punct c = true -> is_upper c = false.
Proof. unfold is_upper, is_punct. lia. Qed.
Lemma punct_not_lowdig c : is_punct c = true -> is_lower c || is_digit c = false.
Proof. unfold is_lower, is_digit, is_punct. lia. Qed.

(** the register [last] after the loop *)
Definition final (s : list N) (lst : option N) : option N :=
  match s with [] => lst | _ => Some (last s 0) end.

Lemma final_cons c s lst : final (c :: s) lst = final s (Some c).
Proof. destruct s as [|d s]; [reflexivity|]. unfold final. f_equal. Qed.

Definition first_ok (s : list N) (lst : option N) : bool :=
  match s, lst with c :: _, None => negb (is_punct c) | _, _ => true end.

Lemma omap_some {A B} (f : A -> B) (x : option A) :
  (exists n, option_map f x = Some n) <-> (exists n, x = Some n).
Proof. destruct x; cbn; split; intros [n Hn]; eauto; discriminate. Qed.

Lemma first_ok_some s c : first_ok s (Some c) = true.
Proof. destruct s; reflexivity. Qed.

Lemma ref_loop_accept : forall s lst,
  (exists n, ref_loop s lst = Some n) <->
  forallb allowed s && first_ok s lst && negb (last_is_punct (final s lst)) = true.
Proof.
  induction s as [|c s IH]; intros lst.
  - cbn [ref_loop forallb first_ok final]. destruct (last_is_punct lst); cbn; split.
    + intros [n Hn]; discriminate. + discriminate. + reflexivity. + eauto.
  - rewrite final_cons. cbn [ref_loop forallb]. unfold allowed at 1.
    destruct (is_upper c) eqn:U.
    { pose proof (upper_not_punct c U) as P.
      assert (first_ok (c :: s) lst = true) as -> by (unfold first_ok; rewrite P; destruct lst; reflexivity).
      rewrite omap_some, (IH (Some c)), first_ok_some. cbn [orb andb]. now rewrite !andb_true_r. }
    cbn [orb]. destruct (is_lower c || is_digit c) eqn:L.
    { pose proof (lowdig_not_punct c L) as P.
      assert (first_ok (c :: s) lst = true) as -> by (unfold first_ok; rewrite P; destruct lst; reflexivity).
      rewrite omap_some, (IH (Some c)), first_ok_some. cbn [orb andb]. now rewrite !andb_true_r. }
    cbn [orb].
    destruct (is_punct c) eqn:P.
    2:{ cbn. split; [intros [n Hn]|]; discriminate. }
    cbn [andb]. destruct lst as [l|].
    2:{ unfold first_ok. rewrite P. cbn. rewrite andb_false_r. split; [intros [n Hn]|]; discriminate. }
    cbn [first_ok]. rewrite andb_true_r.
    destruct (is_punct l); [|rewrite omap_some]; rewrite (IH (Some c)), first_ok_some; now rewrite !andb_true_r.
Qed.

Lemma allowed_alnum x : allowed x = true -> negb (is_punct x) = alnum x.
Proof.
  unfold allowed, alnum. destruct (is_upper x) eqn:U; [now rewrite (upper_not_punct x U)|].
  cbn [orb]. destruct (is_lower x || is_digit x) eqn:L; [now rewrite (lowdig_not_punct x L)|].
  cbn [orb]. now intros ->.
Qed.

Theorem accept_iff s : (exists n, normalize_ref s = Some n) <-> valid_name s = true.
Proof.
  destruct s as [|c s].
  - cbn. split; [intros [n Hn]|]; discriminate.
  - unfold normalize_ref. rewrite ref_loop_accept. unfold valid_name, first_ok, final, last_is_punct.
    set (z := last (c :: s) 0).
    assert (forallb allowed (c :: s) = true -> allowed z = true) as Hz.
    { intros F. rewrite forallb_forall in F. apply F. subst z.
      clear F. revert c. induction s as [|d s IHs]; intros c; [left; reflexivity|].
      right. exact (IHs d). }
    destruct (forallb allowed (c :: s)) eqn:F; [|cbn; tauto].
    specialize (Hz eq_refl). cbn [forallb] in F. apply andb_true_iff in F as [Fc _].
    rewrite (allowed_alnum c Fc), (allowed_alnum z Hz). tauto.
Qed.

Lemma ref_loop_spec : forall s lst n,
  ref_loop s lst = Some n -> n = spec_norm (last_is_punct lst) s.
Proof.
  induction s as [|c s IH]; intros lst n H; cbn [ref_loop spec_norm] in *.
  - destruct (last_is_punct lst); congruence.
  - destruct (is_upper c) eqn:U.
    { rewrite (upper_not_punct c U). destruct (ref_loop s (Some c)) as [m|] eqn:R; [|discriminate].
      cbn in H. injection H as <-. f_equal. apply IH in R. cbn in R. now rewrite (upper_not_punct c U) in R. }
    destruct (is_lower c || is_digit c) eqn:L.
    { rewrite (lowdig_not_punct c L). destruct (ref_loop s (Some c)) as [m|] eqn:R; [|discriminate].
      cbn in H. injection H as <-. f_equal. apply IH in R. cbn in R. now rewrite (lowdig_not_punct c L) in R. }
    destruct (is_punct c) eqn:P; [|discriminate].
    destruct lst as [l|]; [|discriminate]. cbn [last_is_punct].
    destruct (is_punct l).
    + apply IH in H. cbn in H. now rewrite P in H.
    + destruct (ref_loop s (Some c)) as [m|] eqn:R; [|discriminate].
      cbn in H. injection H as <-. f_equal. apply IH in R. cbn in R. now rewrite P in R.
Qed.

Theorem norm_spec s n : normalize_ref s = Some n -> n = spec_norm false s.
Proof. destruct s as [|c s]; [discriminate|]. unfold normalize_ref. apply ref_loop_spec. Qed.

(** the fast path agrees with the slow path *)
Definition lastok (lst : option N) : Prop :=
  match lst with None => True | Some l => is_punct l = true -> l = 45 end.

Lemma isnorm_err : forall s lst, lastok lst -> isnorm_loop s lst = TErr -> ref_loop s lst = None.
Proof.
  induction s as [|c s IH]; intros lst Hl H; cbn [isnorm_loop ref_loop] in *.
  - destruct (last_is_punct lst); [reflexivity|discriminate].
  - destruct (is_upper c); [discriminate|].
    destruct (is_lower c || is_digit c) eqn:L.
    { rewrite (IH (Some c)); auto. cbn. intros P. rewrite (lowdig_not_punct c L) in P. discriminate. }
    destruct ((c =? 95) || (c =? 46)) eqn:E; [discriminate|].
    destruct (c =? 45) eqn:D.
    + assert (c = 45) by lia. subst c. cbn. destruct lst as [l|]; [|reflexivity].
      destruct (l =? 45) eqn:E2; [discriminate|].
      rewrite (IH (Some 45)); auto; [destruct (is_punct l); reflexivity|cbn; auto].
    + assert (is_punct c = false) as -> by (unfold is_punct; lia). reflexivity.
Qed.

Lemma isnorm_true : forall s lst, lastok lst -> isnorm_loop s lst = TTrue -> ref_loop s lst = Some s.
Proof.
  induction s as [|c s IH]; intros lst Hl H; cbn [isnorm_loop ref_loop] in *.
  - destruct (last_is_punct lst); [discriminate|reflexivity].
  - destruct (is_upper c); [discriminate|].
    destruct (is_lower c || is_digit c) eqn:L.
    { rewrite (IH (Some c)); auto. cbn. intros P. rewrite (lowdig_not_punct c L) in P. discriminate. }
    destruct ((c =? 95) || (c =? 46)) eqn:E; [discriminate|].
    destruct (c =? 45) eqn:D; [|discriminate].
    assert (c = 45) by lia. subst c. cbn. destruct lst as [l|]; [|discriminate].
    destruct (l =? 45) eqn:E2; [discriminate|].
    assert (is_punct l = false) as ->.
    { destruct (is_punct l) eqn:P; auto. cbn in Hl. specialize (Hl P). lia. }
    rewrite (IH (Some 45)); auto. cbn; auto.
Qed.

Theorem owned_eq_ref s : normalize_owned s = normalize_ref s.
Proof.
  unfold normalize_owned, is_normalized, normalize_ref. destruct s as [|c s]; [reflexivity|].
  destruct (isnorm_loop (c :: s) None) eqn:E.
  - symmetry. apply isnorm_err; cbn; auto.
  - reflexivity.
  - symmetry. apply isnorm_true; cbn; auto.
Qed.

(** normalization is idempotent *)
Lemma ref_loop_idem : forall s lst n, ref_loop s lst = Some n ->
  forall lst', (lst = None -> lst' = None) -> (lst <> None -> lst' <> None) ->
               last_is_punct lst' = last_is_punct lst ->
  ref_loop n lst' = Some n.
Proof.
  induction s as [|c s IH]; intros lst n H lst' H1 H2 H3; cbn [ref_loop] in H.
  - destruct (last_is_punct lst) eqn:P; [discriminate|]. injection H as <-. cbn [ref_loop]. now rewrite H3.
  - destruct (is_upper c) eqn:U.
    { destruct (ref_loop s (Some c)) as [m|] eqn:R; [|discriminate]. cbn in H. injection H as <-.
      pose proof (lower_of_upper c U) as Lw.
      assert (is_lower (to_lower c) || is_digit (to_lower c) = true) as L by (rewrite Lw; reflexivity).
      cbn [ref_loop]. rewrite (lowdig_not_upper _ L), L.
      rewrite (IH (Some c) m R (Some (to_lower c))); auto; try congruence.
      cbn. now rewrite (lowdig_not_punct _ L), (upper_not_punct c U). }
    destruct (is_lower c || is_digit c) eqn:L.
    { destruct (ref_loop s (Some c)) as [m|] eqn:R; [|discriminate]. cbn in H. injection H as <-.
      cbn [ref_loop]. rewrite U, L. rewrite (IH (Some c) m R (Some c)); auto. }
    destruct (is_punct c) eqn:P; [|discriminate].
    destruct lst as [l|]; [|discriminate].
    destruct lst' as [l'|]; [|exfalso; apply H2; congruence]. cbn in H3.
    destruct (is_punct l) eqn:Pl.
    + apply (IH (Some c) n H (Some l')); try congruence. cbn. congruence.
    + destruct (ref_loop s (Some c)) as [m|] eqn:R; [|discriminate]. cbn in H. injection H as <-.
      cbn [ref_loop]. change (is_upper 45) with false. change (is_lower 45 || is_digit 45) with false.
      change (is_punct 45) with true. cbn iota. rewrite H3.
      rewrite (IH (Some c) m R (Some 45)); auto; try congruence.
Qed.

Theorem norm_idem s n : normalize_ref s = Some n -> normalize_ref n = Some n.
Proof.
  destruct s as [|c s]; [discriminate|]. unfold normalize_ref at 1. intros H.
  pose proof (ref_loop_idem _ _ _ H None (fun _ => eq_refl) (fun x => x) eq_refl) as I.
  destruct n as [|d n]; [|exact I].
  (* the output of a non-empty accepted name is non-empty *)
  exfalso. cbn [ref_loop] in H.
  destruct (is_upper c); [destruct (ref_loop s (Some c)); discriminate|].
  destruct (is_lower c || is_digit c); [destruct (ref_loop s (Some c)); discriminate|].
  destruct (is_punct c); discriminate.
Qed.

(** equality of stored names is equality of specified normal forms *)
Theorem eq_iff_norm a b na nb :
  normalize_ref a = Some na -> normalize_ref b = Some nb ->
  (na = nb <-> spec_norm false a = spec_norm false b).
Proof. intros Ha Hb. apply norm_spec in Ha, Hb. subst. tauto. Qed.

Theorem dist_info_spec s : dist_info s = spec_dist_info s.
Proof.
  unfold dist_info, spec_dist_info.
  assert (forall s, match find_dash s with
                    | Some (pre, post) => pre ++ 95 :: map (fun c => if c =? 45 then 95 else c) post
                    | None => s end = map (fun c => if c =? 45 then 95 else c) s) as G.
  { clear s. induction s as [|c s IH]; [reflexivity|]. cbn [find_dash map].
    destruct (c =? 45) eqn:E; [reflexivity|].
    destruct (find_dash s) as [[pre post]|]; cbn; now rewrite <- IH. }
  apply G.
Qed.

(** the three constructors: [new] is the owned path, [from_str] and deserialisation the ref path *)
Theorem constructors_agree s : normalize_owned s = normalize_ref s /\
  (forall n, normalize_ref s = Some n -> n = spec_norm false s /\ normalize_ref n = Some n).
Proof. split; [apply owned_eq_ref|]. intros n H. split; [now apply norm_spec|now apply norm_idem with s]. Qed.

(** non-vacuity: a non-trivial accepted name, a rejected one, and the normal form *)
Example ex_accept : normalize_ref [70; 111; 95; 46; 98] = Some [102; 111; 45; 98] /\ valid_name [70; 111; 95; 46; 98] = true.
Proof. vm_compute. split; reflexivity. Qed.
Example ex_reject : normalize_ref [102; 45] = None /\ normalize_ref [] = None /\ normalize_owned [] = None.
Proof. vm_compute. repeat split; reflexivity. Qed.
