(** Cuts and partitions of a totally ordered value type (definitions only).
    A cut [(v, Below)] is the boundary just below [v], [(v, Above)] the boundary just above it.
    A partition is a first child followed by [(cut, child)] pairs with strictly increasing cuts:
    the child in force at [x] is the one after the last cut that [x] is not left of.
    [Ranges<T>] of the crate are partitions with [bool] children; the edge lists of version and
    string nodes are partitions with diagram children. *)
From Coq Require Import List Bool.
From PV Require Import Base.Order.
Import ListNotations.

Inductive side := Below | Above.

Definition side_cmp (a b : side) : comparison :=
  match a, b with Below, Above => Lt | Above, Below => Gt | _, _ => Eq end.
Lemma side_cmp_eq a b : side_cmp a b = Eq <-> a = b.
Proof. destruct a, b; cbn; split; congruence. Qed.
Lemma side_cmp_antisym a b : side_cmp b a = CompOpp (side_cmp a b).
Proof. destruct a, b; reflexivity. Qed.
Lemma side_cmp_trans a b c : side_cmp a b = Lt -> side_cmp b c = Lt -> side_cmp a c = Lt.
Proof. destruct a, b, c; cbn; congruence. Qed.
#[export] Instance side_order : TotalOrder side :=
  {| cmp := side_cmp; cmp_eq := side_cmp_eq; cmp_antisym := side_cmp_antisym; cmp_trans_lt := side_cmp_trans |}.

Definition cut (V : Type) := (V * side)%type.

Section Cuts.
Context {V : Type} `{TotalOrder V}.

(** the order on cuts is the lexicographic one *)
Definition cut_cmp (a b : cut V) : comparison := cmp a b.

(** [x] lies on the left of cut [c] *)
Definition left_of (x : V) (c : cut V) : bool :=
  match cmp x (fst c) with
  | Lt => true
  | Eq => match snd c with Above => true | Below => false end
  | Gt => false
  end.

Section Part.
Context {A : Type}.

Fixpoint lookup_from (x : V) (cur : A) (l : list (cut V * A)) : A :=
  match l with
  | [] => cur
  | (c, a) :: l' => if left_of x c then cur else lookup_from x a l'
  end.

(** cuts strictly increasing, all above [lo] *)
Fixpoint sortedb_from (lo : option (cut V)) (l : list (cut V * A)) : bool :=
  match l with
  | [] => true
  | (c, _) :: l' =>
      match lo with None => true | Some c0 => match cut_cmp c0 c with Lt => true | _ => false end end
      && sortedb_from (Some c) l'
  end.

Definition map_snd {B : Type} (f : A -> B) (l : list (cut V * A)) : list (cut V * B) :=
  map (fun p => (fst p, f (snd p))) l.

(** merge adjacent entries whose children are equal: what [apply_ranges] does with
    [prev == node && can_conjoin], and what [Edges::map] does after the F2 repair *)
Fixpoint coalesce (eqb : A -> A -> bool) (cur : A) (l : list (cut V * A)) : list (cut V * A) :=
  match l with
  | [] => []
  | (c, a) :: l' => if eqb cur a then coalesce eqb cur l' else (c, a) :: coalesce eqb a l'
  end.
End Part.

(** merge two partitions with a binary operation; structural on both lists *)
Section Merge.
Context {A B C : Type} (f : A -> B -> C).
Fixpoint merge (ca : A) (la : list (cut V * A)) : B -> list (cut V * B) -> list (cut V * C) :=
  fix merge_r (cb : B) (lb : list (cut V * B)) : list (cut V * C) :=
    match la, lb with
    | [], [] => []
    | (c, a) :: la', [] => (c, f a cb) :: merge a la' cb []
    | [], (c, b) :: lb' => (c, f ca b) :: merge_r b lb'
    | (c1, a) :: la', (c2, b) :: lb' =>
        match cut_cmp c1 c2 with
        | Lt => (c1, f a cb) :: merge a la' cb lb
        | Gt => (c2, f ca b) :: merge_r b lb'
        | Eq => (c1, f a b) :: merge a la' b lb'
        end
    end.
End Merge.
End Cuts.
Arguments cut_cmp : simpl never.
