(** Decidable strict total orders given by a comparison function (Leibniz equality),
    and the lexicographic combinators the concrete value types are built from. *)
From Coq Require Import List Bool NArith Lia.
Import ListNotations.

Class TotalOrder (V : Type) := {
  cmp : V -> V -> comparison;
  cmp_eq : forall a b, cmp a b = Eq <-> a = b;
  cmp_antisym : forall a b, cmp b a = CompOpp (cmp a b);
  cmp_trans_lt : forall a b c, cmp a b = Lt -> cmp b c = Lt -> cmp a c = Lt;
}.

Section Derived.
Context {V : Type} `{TotalOrder V}.

Lemma cmp_refl a : cmp a a = Eq.
Proof. now apply cmp_eq. Qed.

Lemma cmp_gt_lt a b : cmp a b = Gt <-> cmp b a = Lt.
Proof. rewrite (cmp_antisym a b). destruct (cmp a b); cbn; split; congruence. Qed.

Lemma cmp_lt_gt a b : cmp a b = Lt <-> cmp b a = Gt.
Proof. rewrite (cmp_antisym a b). destruct (cmp a b); cbn; split; congruence. Qed.

Lemma cmp_trans_gt a b c : cmp a b = Gt -> cmp b c = Gt -> cmp a c = Gt.
Proof. rewrite !cmp_gt_lt. intros. eapply cmp_trans_lt; eauto. Qed.

Definition eqb_of (a b : V) : bool := match cmp a b with Eq => true | _ => false end.
Lemma eqb_of_spec a b : eqb_of a b = true <-> a = b.
Proof. unfold eqb_of. rewrite <- cmp_eq. destruct (cmp a b); split; congruence. Qed.

Lemma cmp_dec (a b : V) : {a = b} + {a <> b}.
Proof. destruct (cmp a b) eqn:E; [left; now apply cmp_eq|right|right]; intros ->; rewrite cmp_refl in E; discriminate. Qed.
End Derived.

(** N *)
Lemma N_cmp_trans (a b c : N) : N.compare a b = Lt -> N.compare b c = Lt -> N.compare a c = Lt.
Proof. rewrite !N.compare_lt_iff. lia. Qed.
#[export] Instance N_order : TotalOrder N :=
  {| cmp := N.compare; cmp_eq := N.compare_eq_iff; cmp_antisym := N.compare_antisym; cmp_trans_lt := N_cmp_trans |}.

(** bool: false < true *)
Definition bool_cmp (a b : bool) : comparison :=
  match a, b with false, true => Lt | true, false => Gt | _, _ => Eq end.
Lemma bool_cmp_eq a b : bool_cmp a b = Eq <-> a = b.
Proof. destruct a, b; cbn; split; congruence. Qed.
Lemma bool_cmp_antisym a b : bool_cmp b a = CompOpp (bool_cmp a b).
Proof. destruct a, b; reflexivity. Qed.
Lemma bool_cmp_trans a b c : bool_cmp a b = Lt -> bool_cmp b c = Lt -> bool_cmp a c = Lt.
Proof. destruct a, b, c; cbn in *; congruence. Qed.
#[export] Instance bool_order : TotalOrder bool :=
  {| cmp := bool_cmp; cmp_eq := bool_cmp_eq; cmp_antisym := bool_cmp_antisym; cmp_trans_lt := bool_cmp_trans |}.

(** lexicographic pairs *)
Section Pair.
Context {A B : Type} `{TotalOrder A} `{TotalOrder B}.
Definition pair_cmp (x y : A * B) : comparison :=
  match cmp (fst x) (fst y) with Eq => cmp (snd x) (snd y) | c => c end.
Lemma pair_cmp_eq x y : pair_cmp x y = Eq <-> x = y.
Proof.
  destruct x as [a b], y as [a' b']. unfold pair_cmp; cbn. destruct (cmp a a') eqn:E.
  - apply cmp_eq in E; subst. rewrite cmp_eq. split; congruence.
  - split; [discriminate|]. intros [= -> ->]. rewrite cmp_refl in E. discriminate.
  - split; [discriminate|]. intros [= -> ->]. rewrite cmp_refl in E. discriminate.
Qed.
Lemma pair_cmp_antisym x y : pair_cmp y x = CompOpp (pair_cmp x y).
Proof.
  destruct x as [a b], y as [a' b']. unfold pair_cmp; cbn.
  rewrite (cmp_antisym a a'). destruct (cmp a a'); cbn; auto. apply cmp_antisym.
Qed.
Lemma pair_cmp_trans x y z : pair_cmp x y = Lt -> pair_cmp y z = Lt -> pair_cmp x z = Lt.
Proof.
  destruct x as [a b], y as [a' b'], z as [a'' b'']. unfold pair_cmp; cbn.
  destruct (cmp a a') eqn:E1; try discriminate; destruct (cmp a' a'') eqn:E2; try discriminate; intros H1 H2.
  - apply cmp_eq in E1, E2; subst. rewrite cmp_refl. eapply cmp_trans_lt; eauto.
  - apply cmp_eq in E1; subst. now rewrite E2.
  - apply cmp_eq in E2; subst. now rewrite E1.
  - now rewrite (cmp_trans_lt _ _ _ E1 E2).
Qed.
#[export] Instance pair_order : TotalOrder (A * B) :=
  {| cmp := pair_cmp; cmp_eq := pair_cmp_eq; cmp_antisym := pair_cmp_antisym; cmp_trans_lt := pair_cmp_trans |}.
End Pair.

(** lexicographic lists: a proper prefix is smaller *)
Section Lex.
Context {A : Type} `{TotalOrder A}.
Fixpoint list_cmp (x y : list A) : comparison :=
  match x, y with
  | [], [] => Eq
  | [], _ :: _ => Lt
  | _ :: _, [] => Gt
  | a :: x', b :: y' => match cmp a b with Eq => list_cmp x' y' | c => c end
  end.
Lemma list_cmp_eq : forall x y, list_cmp x y = Eq <-> x = y.
Proof.
  induction x as [|a x IH]; destruct y as [|b y]; cbn; try (split; congruence).
  destruct (cmp a b) eqn:E.
  - apply cmp_eq in E; subst. rewrite IH. split; congruence.
  - split; [discriminate|]. intros [= -> ->]. rewrite cmp_refl in E. discriminate.
  - split; [discriminate|]. intros [= -> ->]. rewrite cmp_refl in E. discriminate.
Qed.
Lemma list_cmp_antisym : forall x y, list_cmp y x = CompOpp (list_cmp x y).
Proof.
  induction x as [|a x IH]; destruct y as [|b y]; cbn; auto.
  rewrite (cmp_antisym a b). destruct (cmp a b); cbn; auto.
Qed.
Lemma list_cmp_trans : forall x y z, list_cmp x y = Lt -> list_cmp y z = Lt -> list_cmp x z = Lt.
Proof.
  induction x as [|a x IH]; destruct y as [|b y]; destruct z as [|c z]; cbn; try congruence.
  destruct (cmp a b) eqn:E1; try discriminate; destruct (cmp b c) eqn:E2; try discriminate; intros H1 H2.
  - apply cmp_eq in E1, E2; subst. rewrite cmp_refl. eauto.
  - apply cmp_eq in E1; subst. now rewrite E2.
  - apply cmp_eq in E2; subst. now rewrite E1.
  - now rewrite (cmp_trans_lt _ _ _ E1 E2).
Qed.
#[export] Instance list_order : TotalOrder (list A) :=
  {| cmp := list_cmp; cmp_eq := list_cmp_eq; cmp_antisym := list_cmp_antisym; cmp_trans_lt := list_cmp_trans |}.
End Lex.

(** sums: everything on the left is smaller *)
Section Sum.
Context {A B : Type} `{TotalOrder A} `{TotalOrder B}.
Definition sum_cmp (x y : A + B) : comparison :=
  match x, y with
  | inl a, inl b => cmp a b
  | inl _, inr _ => Lt
  | inr _, inl _ => Gt
  | inr a, inr b => cmp a b
  end.
Lemma sum_cmp_eq x y : sum_cmp x y = Eq <-> x = y.
Proof. destruct x, y; cbn; rewrite ?cmp_eq; split; congruence. Qed.
Lemma sum_cmp_antisym x y : sum_cmp y x = CompOpp (sum_cmp x y).
Proof. destruct x, y; cbn; auto; apply cmp_antisym. Qed.
Lemma sum_cmp_trans x y z : sum_cmp x y = Lt -> sum_cmp y z = Lt -> sum_cmp x z = Lt.
Proof. destruct x, y, z; cbn in *; try congruence; eapply cmp_trans_lt; eauto. Qed.
#[export] Instance sum_order : TotalOrder (A + B) :=
  {| cmp := sum_cmp; cmp_eq := sum_cmp_eq; cmp_antisym := sum_cmp_antisym; cmp_trans_lt := sum_cmp_trans |}.
End Sum.
