(** small list facts *)
From Coq Require Import List Bool.
Import ListNotations.

Lemma forallb_map' {A B} (f : B -> bool) (g : A -> B) (l : list A) : forallb f (map g l) = forallb (fun x => f (g x)) l.
Proof. induction l as [|x l IH]; cbn; [reflexivity|]. now rewrite IH. Qed.

Lemma forallb_ext_in' {A} (f g : A -> bool) (l : list A) : (forall x, In x l -> f x = g x) -> forallb f l = forallb g l.
Proof. induction l as [|x l IH]; cbn; [reflexivity|]. intros Hl. rewrite Hl, IH; auto. Qed.

Lemma forallb_ext' {A} (f g : A -> bool) (l : list A) : (forall x, f x = g x) -> forallb f l = forallb g l.
Proof. intros E. apply forallb_ext_in'. intros x _. apply E. Qed.
