(** Lemmas about cuts and partitions: lookup, merge, coalescing, canonicity. *)
From Coq Require Import List Bool.
From PV Require Import Base.Order Base.CutDef.
Import ListNotations.

Section Cuts.
Context {V : Type} `{TotalOrder V}.
Notation cutV := (cut V).

Lemma cut_cmp_eq (a b : cutV) : cut_cmp a b = Eq -> a = b.
Proof. apply cmp_eq. Qed.
Lemma cut_cmp_refl (a : cutV) : cut_cmp a a = Eq.
Proof. apply cmp_refl. Qed.
Lemma cut_cmp_gt (a b : cutV) : cut_cmp a b = Gt -> cut_cmp b a = Lt.
Proof. apply cmp_gt_lt. Qed.
Lemma cut_cmp_lt_trans (a b c : cutV) : cut_cmp a b = Lt -> cut_cmp b c = Lt -> cut_cmp a c = Lt.
Proof. apply cmp_trans_lt. Qed.

Lemma left_of_cmp x (c : cutV) : left_of x c = true <-> cut_cmp (x, Below) c = Lt.
Proof.
  destruct c as [v s]. unfold left_of, cut_cmp. cbn. unfold pair_cmp. cbn.
  destruct (cmp x v); [destruct s; cbn|..]; split; congruence.
Qed.

Lemma left_of_mono x (a b : cutV) : cut_cmp a b = Lt -> left_of x a = true -> left_of x b = true.
Proof. rewrite !left_of_cmp. intros L X. eapply cut_cmp_lt_trans; eauto. Qed.

Lemma not_left_mono x (a b : cutV) : cut_cmp a b = Lt -> left_of x b = false -> left_of x a = false.
Proof. intros L F. destruct (left_of x a) eqn:G; auto. rewrite (left_of_mono x a b L G) in F. discriminate. Qed.

Section Part.
Context {A : Type}.

Fixpoint sorted_from (lo : option cutV) (l : list (cutV * A)) : Prop :=
  match l with
  | [] => True
  | (c, _) :: l' =>
      match lo with None => True | Some c0 => cut_cmp c0 c = Lt end /\ sorted_from (Some c) l'
  end.

Lemma sortedb_from_spec : forall (l : list (cutV * A)) lo, sortedb_from lo l = true <-> sorted_from lo l.
Proof.
  induction l as [|[c a] l IH]; intros lo; cbn [sortedb_from sorted_from]; [tauto|].
  rewrite andb_true_iff, IH. destruct lo as [c0|]; [|tauto].
  destruct (cut_cmp c0 c); split; intros [X Y]; split; auto; try discriminate; try reflexivity.
Qed.

Definition after (lo : option cutV) x := match lo with None => True | Some c => left_of x c = false end.

Lemma sorted_weaken (l : list (cutV * A)) : forall lo lo',
  (match lo, lo' with
   | Some c, Some c' => cut_cmp c' c = Lt \/ c' = c
   | None, Some _ => False
   | _, None => True end) ->
  sorted_from lo l -> sorted_from lo' l.
Proof.
  destruct l as [|[c a] l]; simpl; auto.
  intros lo lo' W [L S]. split; auto.
  destruct lo as [c0|], lo' as [c0'|]; auto; try contradiction.
  destruct W as [W|W]; subst; auto. eapply cut_cmp_lt_trans; eauto.
Qed.

Lemma sorted_none (l : list (cutV * A)) lo : sorted_from lo l -> sorted_from None l.
Proof. apply sorted_weaken. destruct lo; exact I. Qed.

Lemma lookup_left x : forall (l : list (cutV * A)) cur c,
  sorted_from (Some c) l -> left_of x c = true -> lookup_from x cur l = cur.
Proof.
  destruct l as [|[c' a] l]; simpl; auto. intros cur c [L _] X.
  rewrite (left_of_mono x c c' L X). auto.
Qed.

Lemma lookup_head x (cur : A) l :
  match l with [] => True | (c, _) :: _ => left_of x c = true end -> lookup_from x cur l = cur.
Proof. destruct l as [|[c a] l]; simpl; auto. intros ->. auto. Qed.

(** the value looked up is the first child or one of the listed children *)
Lemma lookup_in x : forall (l : list (cutV * A)) cur, lookup_from x cur l = cur \/ In (lookup_from x cur l) (map snd l).
Proof.
  induction l as [|[c a] l IH]; intros cur; cbn; auto.
  destruct (left_of x c); auto. destruct (IH a) as [E|I]; [rewrite E|]; auto.
Qed.

Lemma lookup_map_snd {B} (f : A -> B) x : forall l cur,
  lookup_from x (f cur) (map_snd f l) = f (lookup_from x cur l).
Proof. induction l as [|[c a] l IH]; intros cur; cbn; auto. destruct (left_of x c); auto. Qed.

End Part.

Lemma sorted_map_snd_iff {A B} (f : A -> B) : forall l lo, sorted_from lo (map_snd f l) <-> sorted_from lo l.
Proof. induction l as [|[c a] l IH]; intros lo; cbn; [tauto|]. rewrite IH. tauto. Qed.

(** ** merge *)
Section Merge.
Context {A B C : Type} (f : A -> B -> C).

Theorem merge_lookup x : forall la ca lb cb lo,
  sorted_from lo la -> sorted_from lo lb -> after lo x ->
  lookup_from x (f ca cb) (merge f ca la cb lb) = f (lookup_from x ca la) (lookup_from x cb lb).
Proof.
  induction la as [|[c1 a] la IHa]; intros ca lb.
  - induction lb as [|[c2 b] lb IHb]; intros cb lo Sa Sb Hlo; simpl; auto.
    destruct (left_of x c2) eqn:L; auto.
    simpl in Sb. destruct Sb as [_ Sb]. apply (IHb b (Some c2)); simpl; auto.
  - induction lb as [|[c2 b] lb IHb]; intros cb lo Sa Sb Hlo.
    + simpl. destruct (left_of x c1) eqn:L; auto.
      simpl in Sa. destruct Sa as [_ Sa].
      rewrite (IHa a [] cb (Some c1)); simpl; auto.
    + simpl in Sa, Sb. destruct Sa as [Ha Sa], Sb as [Hb Sb].
      cbn [merge]. destruct (cut_cmp c1 c2) eqn:E.
      * apply cut_cmp_eq in E; subst c2. cbn [lookup_from].
        destruct (left_of x c1) eqn:L; auto.
        apply (IHa a lb b (Some c1)); auto.
      * cbn [lookup_from]. destruct (left_of x c1) eqn:L.
        -- rewrite (left_of_mono x c1 c2 E L). auto.
        -- rewrite (IHa a ((c2, b) :: lb) cb (Some c1)); auto.
           simpl. split; auto.
      * apply cut_cmp_gt in E. cbn [lookup_from].
        destruct (left_of x c2) eqn:L.
        -- rewrite (left_of_mono x c2 c1 E L). auto.
        -- change (lookup_from x (f ca b) (merge f ca ((c1,a)::la) b lb) =
                   f (if left_of x c1 then ca else lookup_from x a la) (lookup_from x b lb)).
           rewrite (IHb b (Some c2)); simpl; auto.
Qed.

Lemma merge_sorted : forall la ca lb cb lo,
  sorted_from lo la -> sorted_from lo lb -> sorted_from lo (merge f ca la cb lb).
Proof.
  induction la as [|[c1 a] la IHa]; intros ca lb.
  - induction lb as [|[c2 b] lb IHb]; intros cb lo Sa Sb; [exact I|].
    destruct Sb as [L Sb]. simpl. split; [exact L|]. apply (IHb b (Some c2)); [exact I|exact Sb].
  - induction lb as [|[c2 b] lb IHb]; intros cb lo Sa Sb.
    + destruct Sa as [L Sa]. simpl. split; [exact L|]. apply (IHa a [] cb (Some c1)); [exact Sa|exact I].
    + simpl in Sa, Sb. destruct Sa as [La Sa], Sb as [Lb Sb].
      cbn [merge]. destruct (cut_cmp c1 c2) eqn:E.
      * apply cut_cmp_eq in E; subst c2. simpl. split; [exact La|]. apply (IHa a lb b (Some c1)); assumption.
      * simpl. split; [exact La|]. apply (IHa a ((c2,b)::lb) cb (Some c1)); [exact Sa|]. simpl. split; assumption.
      * apply cut_cmp_gt in E. simpl. split; [exact Lb|].
        change (sorted_from (Some c2) (merge f ca ((c1,a)::la) b lb)).
        apply (IHb b (Some c2)); [|exact Sb]. simpl. split; assumption.
Qed.

(** every child of the merge is [f] of a child of each side *)
Lemma merge_children (P : C -> Prop) : forall la ca lb cb,
  (forall a b, (a = ca \/ In a (map snd la)) -> (b = cb \/ In b (map snd lb)) -> P (f a b)) ->
  Forall P (map snd (merge f ca la cb lb)).
Proof.
  induction la as [|[c1 a] la IHa]; intros ca lb.
  - induction lb as [|[c2 b] lb IHb]; intros cb HP; cbn; constructor.
    + apply HP; cbn; auto.
    + apply IHb. intros a0 b0 Ha Hb. apply HP; cbn; auto. destruct Hb; auto.
  - induction lb as [|[c2 b] lb IHb]; intros cb HP.
    + cbn. constructor; [apply HP; cbn; auto|]. apply IHa. intros a0 b0 Ha Hb. apply HP; cbn; auto. destruct Ha; auto.
    + cbn [merge]. destruct (cut_cmp c1 c2).
      * cbn. constructor; [apply HP; cbn; auto|]. apply IHa. intros a0 b0 Ha Hb. apply HP; cbn.
        -- destruct Ha; auto. -- destruct Hb; auto.
      * cbn. constructor; [apply HP; cbn; auto|]. apply IHa. intros a0 b0 Ha Hb. apply HP; cbn; auto. destruct Ha; auto.
      * cbn. constructor; [apply HP; cbn; auto|].
        change (Forall P (map snd (merge f ca ((c1, a) :: la) b lb))).
        apply IHb. intros a0 b0 Ha Hb. apply HP; auto. cbn. destruct Hb; auto.
Qed.
End Merge.

(** ** coalescing *)
Section Coalesce.
Context {A : Type} (eqb : A -> A -> bool).
Hypothesis eqb_spec : forall x y, eqb x y = true <-> x = y.

Fixpoint reduced (cur : A) (l : list (cutV * A)) : Prop :=
  match l with [] => True | (_, a) :: l' => cur <> a /\ reduced a l' end.

Fixpoint reducedb (cur : A) (l : list (cutV * A)) : bool :=
  match l with [] => true | (_, a) :: l' => negb (eqb cur a) && reducedb a l' end.

Lemma reducedb_spec : forall l cur, reducedb cur l = true <-> reduced cur l.
Proof.
  induction l as [|[c a] l IH]; intros cur; cbn; [tauto|].
  rewrite andb_true_iff, IH, negb_true_iff. split; intros [N R]; split; auto.
  - intros ->. assert (eqb a a = true) by now apply eqb_spec. congruence.
  - destruct (eqb cur a) eqn:E; auto. apply eqb_spec in E. contradiction.
Qed.

Lemma lookup_coalesce x : forall l cur lo, sorted_from lo l ->
  lookup_from x cur (coalesce eqb cur l) = lookup_from x cur l.
Proof.
  induction l as [|[c a] l IH]; intros cur lo S; simpl; auto.
  simpl in S. destruct S as [L S].
  destruct (eqb cur a) eqn:Eq.
  - apply eqb_spec in Eq; subst a. rewrite (IH cur (Some c) S).
    destruct (left_of x c) eqn:X; auto. eapply lookup_left; eauto.
  - simpl. destruct (left_of x c); auto. eapply IH; eauto.
Qed.

Lemma reduced_coalesce : forall l cur, reduced cur (coalesce eqb cur l).
Proof.
  induction l as [|[c a] l IH]; intros cur; simpl; auto.
  destruct (eqb cur a) eqn:Eq; simpl; auto. split; auto.
  intros ->. assert (eqb a a = true) by (apply eqb_spec; auto). congruence.
Qed.

Lemma sorted_coalesce : forall l cur lo, sorted_from lo l -> sorted_from lo (coalesce eqb cur l).
Proof.
  induction l as [|[c a] l IH]; intros cur lo S; simpl; auto.
  simpl in S. destruct S as [L S].
  destruct (eqb cur a).
  - apply IH. apply (sorted_weaken l (Some c) lo); [destruct lo; auto | exact S].
  - simpl. split; auto.
Qed.

Lemma coalesce_children : forall (l : list (cutV * A)) cur, incl (map snd (coalesce eqb cur l)) (map snd l).
Proof.
  induction l as [|[c a] l IH]; intros cur; cbn; [apply incl_refl|].
  destruct (eqb cur a); cbn.
  - apply incl_tl, IH.
  - apply incl_cons; [left; reflexivity|]. apply incl_tl, IH.
Qed.

Lemma coalesce_id : forall (l : list (cutV * A)) cur, reduced cur l -> coalesce eqb cur l = l.
Proof.
  induction l as [|[c a] l IH]; intros cur; cbn; auto. intros [N R].
  destruct (eqb cur a) eqn:E; [apply eqb_spec in E; contradiction|]. now rewrite IH.
Qed.
End Coalesce.

(** ** canonicity of a reduced partition *)
Section Canon.
Context {A : Type}.
Variable E : A -> A -> Prop.          (* "denote the same function" on children *)
Variable P : A -> Prop.               (* the children we talk about (well-formed ones) *)
Variable T : V -> Prop.               (* the admissible values of the variable *)
Hypothesis Einj : forall u v, P u -> P v -> E u v -> u = v.

Fixpoint allP (l : list (cutV * A)) : Prop :=
  match l with [] => True | (_, a) :: l' => P a /\ allP l' end.

Lemma allP_in (l : list (cutV * A)) : (forall a, In a (map snd l) -> P a) -> allP l.
Proof.
  induction l as [|[c a] l IH]; cbn [allP map snd]; [intros; exact I|]. intros Hl. split; [apply Hl; left; reflexivity|]. apply IH. intros a' Ia. apply Hl; right; exact Ia.
Qed.

(** density of the admissible values relative to a set of cuts *)
Record dense_on (C : list cutV) : Prop := {
  d_between : forall c c', In c C -> In c' C -> cut_cmp c c' = Lt ->
              exists x, T x /\ left_of x c = false /\ left_of x c' = true;
  d_below : forall c, In c C -> exists x, T x /\ left_of x c = true;
  d_above : forall c, In c C -> exists x, T x /\ left_of x c = false;
  d_some : exists x : V, T x
}.

Definition cuts (l : list (cutV * A)) := map fst l.

Lemma pick_first (lo : option cutV) (la lb : list (cutV * A)) C :
  dense_on C -> incl (cuts la) C -> incl (cuts lb) C ->
  (match lo with None => True | Some c => In c C end) ->
  sorted_from lo la -> sorted_from lo lb ->
  exists x, T x /\ after lo x /\
    match la with [] => True | (c, _) :: _ => left_of x c = true end /\
    match lb with [] => True | (c, _) :: _ => left_of x c = true end.
Proof.
  intros D Ia Ib Il Sa Sb.
  destruct la as [|[c1 a] la], lb as [|[c2 b] lb]; simpl in *.
  - destruct lo as [c|]. + destruct (d_above _ D c Il) as [x [Tx Hx]]. exists x; auto.
    + destruct (d_some _ D) as [x Tx]. exists x; simpl; auto.
  - assert (In c2 C) as H0 by (apply Ib; simpl; auto).
    destruct lo as [c|]. + destruct Sb as [L _]. destruct (d_between _ D c c2 Il H0 L) as [x [Tx [X1 X2]]]. exists x; auto.
    + destruct (d_below _ D c2 H0) as [x [Tx Hx]]. exists x; simpl; auto.
  - assert (In c1 C) as H0 by (apply Ia; simpl; auto).
    destruct lo as [c|]. + destruct Sa as [L _]. destruct (d_between _ D c c1 Il H0 L) as [x [Tx [X1 X2]]]. exists x; auto.
    + destruct (d_below _ D c1 H0) as [x [Tx Hx]]. exists x; simpl; auto.
  - assert (In c1 C) as H0 by (apply Ia; simpl; auto). assert (In c2 C) as H1 by (apply Ib; simpl; auto).
    destruct Sa as [La _], Sb as [Lb _].
    destruct (cut_cmp c1 c2) eqn:Ecmp.
    + apply cut_cmp_eq in Ecmp; subst c2.
      destruct lo as [c|]. * destruct (d_between _ D c c1 Il H0 La) as [x [Tx [X1 X2]]]. exists x; auto.
      * destruct (d_below _ D c1 H0) as [x [Tx Hx]]. exists x; simpl; auto.
    + destruct lo as [c|].
      * destruct (d_between _ D c c1 Il H0 La) as [x [Tx [X1 X2]]]. exists x; repeat split; auto. eapply left_of_mono; eauto.
      * destruct (d_below _ D c1 H0) as [x [Tx Hx]]. exists x; simpl; repeat split; auto. eapply left_of_mono; eauto.
    + apply cut_cmp_gt in Ecmp. destruct lo as [c|].
      * destruct (d_between _ D c c2 Il H1 Lb) as [x [Tx [X1 X2]]]. exists x; repeat split; auto. eapply left_of_mono; eauto.
      * destruct (d_below _ D c2 H1) as [x [Tx Hx]]. exists x; simpl; repeat split; auto. eapply left_of_mono; eauto.
Qed.

Theorem canon_part C : dense_on C -> forall la a0 lb b0 lo,
  incl (cuts la) C -> incl (cuts lb) C -> (match lo with None => True | Some c => In c C end) ->
  sorted_from lo la -> sorted_from lo lb ->
  reduced a0 la -> reduced b0 lb -> P a0 -> P b0 -> allP la -> allP lb ->
  (forall x, T x -> after lo x -> E (lookup_from x a0 la) (lookup_from x b0 lb)) ->
  a0 = b0 /\ la = lb.
Proof.
  intros D. induction la as [|[c1 a] la IHa].
  - intros a0 lb b0 lo Ia Ib Il Sa Sb Ra Rb Pa Pb Aa Ab Hsem.
    destruct (pick_first lo [] lb C D Ia Ib Il Sa Sb) as [x (Tx & X0 & _ & X2)].
    assert (a0 = b0) as ->.
    { pose proof (Hsem x Tx X0) as HE. rewrite (lookup_head x b0 lb X2) in HE. simpl in HE. auto. }
    split; auto. destruct lb as [|[c2 b] lb]; auto. exfalso.
    simpl in Sb, Rb, Ab. destruct Sb as [Lb Sb], Rb as [Nb Rb], Ab as [Pb' Ab].
    assert (In c2 C) as I2 by (apply Ib; simpl; auto).
    assert (incl (cuts lb) C) as Ib' by (intros z Hz; apply Ib; simpl; auto).
    destruct (pick_first (Some c2) [] lb C D (incl_nil_l _) Ib' I2 I Sb) as [y (Ty & Y0 & _ & Y2)].
    pose proof (Hsem y Ty) as HE. simpl in HE. simpl in Y0. rewrite Y0 in HE.
    rewrite (lookup_head y b lb Y2) in HE.
    apply Nb. apply Einj; auto. apply HE.
    destruct lo as [c|]; simpl; auto. exact (not_left_mono y c c2 Lb Y0).
  - intros a0 lb b0 lo Ia Ib Il Sa Sb Ra Rb Pa Pb Aa Ab Hsem.
    destruct (pick_first lo ((c1,a)::la) lb C D Ia Ib Il Sa Sb) as [x (Tx & X0 & X1 & X2)].
    assert (a0 = b0) as ->.
    { pose proof (Hsem x Tx X0) as HE. rewrite (lookup_head x b0 lb X2) in HE.
      rewrite (lookup_head x a0 ((c1,a)::la) X1) in HE. auto. }
    simpl in Sa, Ra, Aa. destruct Sa as [La Sa], Ra as [Na Ra], Aa as [Pa' Aa].
    assert (In c1 C) as I1 by (apply Ia; simpl; auto).
    assert (incl (cuts la) C) as Ia' by (intros z Hz; apply Ia; simpl; auto).
    destruct lb as [|[c2 b] lb].
    + exfalso.
      destruct (pick_first (Some c1) la [] C D Ia' (incl_nil_l _) I1 Sa I) as [y (Ty & Y0 & Y1 & _)].
      pose proof (Hsem y Ty) as HE. simpl in HE. simpl in Y0. rewrite Y0 in HE.
      rewrite (lookup_head y a la Y1) in HE.
      apply Na. symmetry. apply Einj; auto. apply HE.
      destruct lo as [c|]; simpl; auto. exact (not_left_mono y c c1 La Y0).
    + simpl in Sb, Rb, Ab. destruct Sb as [Lb Sb], Rb as [Nb Rb], Ab as [Pb' Ab].
      assert (In c2 C) as I2 by (apply Ib; simpl; auto).
      assert (incl (cuts lb) C) as Ib' by (intros z Hz; apply Ib; simpl; auto).
      destruct (cut_cmp c1 c2) eqn:Ecmp.
      * apply cut_cmp_eq in Ecmp; subst c2.
        assert (forall y, T y -> after (Some c1) y -> E (lookup_from y a la) (lookup_from y b lb)) as Hsem'.
        { intros y Ty Y0. pose proof (Hsem y Ty) as HE. simpl in HE. simpl in Y0. rewrite Y0 in HE.
          apply HE. destruct lo as [c|]; simpl; auto. exact (not_left_mono y c c1 La Y0). }
        destruct (IHa a lb b (Some c1) Ia' Ib' I1 Sa Sb Ra Rb Pa' Pb' Aa Ab Hsem') as [-> ->]; auto.
      * exfalso.
        destruct (pick_first (Some c1) la ((c2,b)::lb) C D Ia' Ib I1 Sa (conj Ecmp Sb)) as [y (Ty & Y0 & Y1 & Y2)].
        pose proof (Hsem y Ty) as HE. simpl in HE. simpl in Y0. rewrite Y0, Y2 in HE.
        rewrite (lookup_head y a la Y1) in HE.
        apply Na. symmetry. apply Einj; auto. apply HE.
        destruct lo as [c|]; simpl; auto. exact (not_left_mono y c c1 La Y0).
      * exfalso. apply cut_cmp_gt in Ecmp.
        destruct (pick_first (Some c2) ((c1,a)::la) lb C D Ia Ib' I2 (conj Ecmp Sa) Sb) as [y (Ty & Y0 & Y1 & Y2)].
        pose proof (Hsem y Ty) as HE. simpl in HE. simpl in Y0. rewrite Y0, Y1 in HE.
        rewrite (lookup_head y b lb Y2) in HE.
        apply Nb. apply Einj; auto. apply HE.
        destruct lo as [c|]; simpl; auto. exact (not_left_mono y c c2 Lb Y0).
Qed.
End Canon.
End Cuts.

(** more about [merge]: mapping over inputs and outputs, extensionality *)
Section MergeMore.
Context {V : Type} `{TotalOrder V}.
Notation cutV := (cut V).

Lemma merge_map_l {A A' B C} (f : A' -> B -> C) (phi : A -> A') : forall la ca lb cb,
  merge f (phi ca) (map_snd phi la) cb lb = merge (fun a b => f (phi a) b) ca la cb lb.
Proof.
  unfold map_snd. induction la as [|[c1 a] la IHa]; intros ca lb.
  - induction lb as [|[c2 b] lb IHb]; intros cb; cbn; [reflexivity|]. first [reflexivity | f_equal; apply IHb].
  - induction lb as [|[c2 b] lb IHb]; intros cb.
    + cbn. f_equal. apply IHa.
    + cbn [map merge fst snd]. destruct (cut_cmp c1 c2).
      * f_equal. apply IHa. * f_equal. apply IHa.
      * f_equal. apply IHb.
Qed.

Lemma merge_map_out {A B C D} (f : A -> B -> C) (h : C -> D) : forall la ca lb cb,
  map_snd h (merge f ca la cb lb) = merge (fun a b => h (f a b)) ca la cb lb.
Proof.
  unfold map_snd. induction la as [|[c1 a] la IHa]; intros ca lb.
  - induction lb as [|[c2 b] lb IHb]; intros cb; cbn; [reflexivity|]. first [reflexivity | f_equal; apply IHb].
  - induction lb as [|[c2 b] lb IHb]; intros cb.
    + cbn. f_equal. apply IHa.
    + cbn [merge]. destruct (cut_cmp c1 c2); cbn [map fst snd]; f_equal; try apply IHa. apply IHb.
Qed.

Lemma merge_ext_in {A B C} (f g : A -> B -> C) : forall la ca lb cb,
  (forall a b, (a = ca \/ In a (map snd la)) -> (b = cb \/ In b (map snd lb)) -> f a b = g a b) ->
  merge f ca la cb lb = merge g ca la cb lb.
Proof.
  induction la as [|[c1 a] la IHa]; intros ca lb.
  - induction lb as [|[c2 b] lb IHb]; intros cb HP; cbn; [reflexivity|]. f_equal.
    + f_equal. apply HP; cbn; auto.
    + apply IHb. intros a0 b0 Ha Hb. apply HP; cbn; auto. destruct Hb; auto.
  - induction lb as [|[c2 b] lb IHb]; intros cb HP.
    + cbn. f_equal; [f_equal; apply HP; cbn; auto|]. apply IHa. intros a0 b0 Ha Hb. apply HP; cbn; auto. destruct Ha; auto.
    + cbn [merge]. destruct (cut_cmp c1 c2).
      * f_equal; [f_equal; apply HP; cbn; auto|]. apply IHa. intros a0 b0 Ha Hb. apply HP; cbn.
        -- destruct Ha; auto. -- destruct Hb; auto.
      * f_equal; [f_equal; apply HP; cbn; auto|]. apply IHa. intros a0 b0 Ha Hb. apply HP; cbn; auto. destruct Ha; auto.
      * f_equal; [f_equal; apply HP; cbn; auto|].
        change (merge f ca ((c1, a) :: la) b lb = merge g ca ((c1, a) :: la) b lb).
        apply IHb. intros a0 b0 Ha Hb. apply HP; auto. cbn. destruct Hb; auto.
Qed.

(** swapping the two sides *)
Lemma merge_flip {A B C} (f : A -> B -> C) : forall la ca lb cb,
  merge f ca la cb lb = merge (fun b a => f a b) cb lb ca la.
Proof.
  induction la as [|[c1 a] la IHa]; intros ca lb.
  - induction lb as [|[c2 b] lb IHb]; intros cb; cbn; [reflexivity|]. f_equal. apply IHb.
  - induction lb as [|[c2 b] lb IHb]; intros cb.
    + cbn. f_equal. apply (IHa a [] cb).
    + cbn [merge]. unfold cut_cmp. rewrite (cmp_antisym c1 c2). destruct (cmp c1 c2) eqn:E; cbn [CompOpp].
      * apply cmp_eq in E; subst c2. f_equal. apply IHa.
      * f_equal. apply (IHa a ((c2, b) :: lb) cb).
      * f_equal. apply IHb.
Qed.
End MergeMore.

(** every child of a partition over a dense domain is reached by some admissible value *)
Section Reach.
Context {V : Type} `{TotalOrder V}.
Notation cutV := (cut V).
Context {A : Type}.
Variable T : V -> Prop.

Lemma lookup_reach_from (C : list cutV) : dense_on T C -> forall (l : list (cutV * A)) cur lo,
  incl (map fst l) C -> (match lo with None => True | Some c => In c C end) -> sorted_from lo l ->
  forall a, a = cur \/ In a (map snd l) ->
  exists x, T x /\ after lo x /\ lookup_from x cur l = a.
Proof.
  intros D. induction l as [|[c a'] l IH]; intros cur lo Il Ilo S a Ha.
  - destruct Ha as [-> | []]. cbn [lookup_from].
    destruct lo as [c|]; cbn.
    + destruct (d_above _ _ D c Ilo) as [x [Tx Hx]]. exists x; auto.
    + destruct (d_some _ _ D) as [x Tx]. exists x; auto.
  - cbn in S. destruct S as [L S].
    assert (In c C) as Ic by (apply Il; left; reflexivity).
    assert (incl (map fst l) C) as Il' by (intros z Hz; apply Il; right; exact Hz).
    destruct Ha as [-> | Ha].
    + (* the current child: a value after lo and left of c *)
      destruct lo as [c0|].
      * destruct (d_between _ _ D c0 c Ilo Ic L) as [x [Tx [X1 X2]]]. exists x. repeat split; auto. cbn. now rewrite X2.
      * destruct (d_below _ _ D c Ic) as [x [Tx X]]. exists x. repeat split; auto. cbn. now rewrite X.
    + destruct (IH a' (Some c) Il' Ic S a) as [x [Tx [X1 X2]]].
      { cbn in Ha. destruct Ha as [<- | Ha]; auto. }
      exists x. repeat split; auto.
      * destruct lo as [c0|]; cbn; auto. eapply not_left_mono; eauto.
      * cbn in *. now rewrite X1.
Qed.

Lemma lookup_reach (l : list (cutV * A)) cur : dense_on T (map fst l) -> sorted_from None l ->
  forall a, a = cur \/ In a (map snd l) -> exists x, T x /\ lookup_from x cur l = a.
Proof.
  intros D S a Ha. destruct (lookup_reach_from (map fst l) D l cur None (incl_refl _) I S a Ha) as [x [Tx [_ X]]]. eauto.
Qed.
End Reach.
