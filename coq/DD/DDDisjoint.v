(** C04: [tdisjoint] agrees with [is_false (tand _ _)], is sound, and is symmetric. *)
From Coq Require Import List Bool.
From PV Require Import Base.Order Base.CutDef Base.CutLemmas DD.DDModel DD.DDBasics DD.DDAnd.
Import ListNotations.

Section DD.
Context {var val : Type} `{TotalOrder var} `{TotalOrder val}.
Notation cutV := (cut val).
Notation dd := (dd var val).
Notation valuation := (valuation var val).

Lemma allfix_eq (f : dd -> bool) (ds : list (cutV * dd)) :
  (fix go (l : list (cutV * dd)) := match l with [] => true | (c, d) :: l' => f d && go l' end) ds
  = forallb f (map snd ds).
Proof. induction ds as [|[c d] ds IH]; cbn; [reflexivity|]. now rewrite IH. Qed.

Lemma forallb_snd {A} (l : list (A * bool)) : forallb snd l = forallb (fun b => b) (map snd l).
Proof. induction l as [|[c d] l IH]; cbn; [reflexivity|]. now rewrite IH. Qed.

Definition tdis_core (a b : dd) : bool :=
  match a, b with
  | RNode ka a0 la, RNode kb b0 lb =>
      match cmp ka kb with
      | Lt => tdisjoint a0 b && forallb (fun d => tdisjoint d b) (map snd la)
      | Gt => tdisjoint a b0 && forallb (tdisjoint a) (map snd lb)
      | Eq => tdisjoint a0 b0 && forallb (fun x => x) (map snd (merge appf (tdisjoint a0) (map_snd tdisjoint la) b0 lb))
      end
  | RNode ka a0 la, BNode kb hb lb =>
      match cmp ka kb with
      | Lt => tdisjoint a0 b && forallb (fun d => tdisjoint d b) (map snd la)
      | Gt => tdisjoint a hb && tdisjoint a lb
      | Eq => true
      end
  | BNode ka ha la, RNode kb b0 lb =>
      match cmp ka kb with
      | Lt => tdisjoint ha b && tdisjoint la b
      | Gt => tdisjoint a b0 && forallb (tdisjoint a) (map snd lb)
      | Eq => true
      end
  | BNode ka ha la, BNode kb hb lb =>
      match cmp ka kb with
      | Lt => tdisjoint ha b && tdisjoint la b
      | Gt => tdisjoint a hb && tdisjoint a lb
      | Eq => tdisjoint ha hb && tdisjoint la lb
      end
  | Leaf _, _ | _, Leaf _ => true
  end.

Definition tdis_step (a b : dd) : bool :=
  if is_false a || is_false b then true else
  if is_true a || is_true b then false else
  if dd_eqb a b then false else
  if dd_eqb (tneg a) b then true else tdis_core a b.

Lemma tdis_eq (a b : dd) : tdisjoint a b = tdis_step a b.
Proof.
  destruct a as [x|ka a0 la|ka ha la]; destruct b as [y|kb b0 lb|kb hb lb];
    unfold tdis_step, tdis_core, appf; rewrite <- ?allfix_eq, <- ?forallb_snd, <- ?mapfix_eq; reflexivity.
Qed.

(** when a constructed node is the constant FALSE *)
Lemma coalesce_nil (d0 : dd) : forall ds : list (cutV * dd),
  coalesce dd_eqb d0 ds = [] <-> forallb (dd_eqb d0) (map snd ds) = true.
Proof.
  induction ds as [|[c d] ds IH]; cbn; [tauto|].
  destruct (dd_eqb d0 d) eqn:E; cbn; [exact IH|]. split; discriminate.
Qed.

Lemma mk_rnode_false k d0 (ds : list (cutV * dd)) :
  is_false (mk_rnode k d0 ds) = is_false d0 && forallb is_false (map snd ds).
Proof.
  unfold mk_rnode. destruct (coalesce dd_eqb d0 ds) as [|p l] eqn:E.
  - apply coalesce_nil in E. destruct (is_false d0) eqn:F; [|reflexivity]. cbn.
    apply is_false_eq in F; subst. symmetry. rewrite forallb_forall in *. intros x I.
    specialize (E x I). apply dd_eqb_spec in E. now subst.
  - cbn. destruct (is_false d0) eqn:F; [|reflexivity]. cbn. apply is_false_eq in F; subst.
    symmetry. apply not_true_iff_false. intros A.
    assert (coalesce dd_eqb (Leaf false) ds = []) as E'.
    { apply coalesce_nil. rewrite forallb_forall in *. intros x I. specialize (A x I). apply is_false_eq in A; subst. reflexivity. }
    congruence.
Qed.

Lemma mk_bnode_false k (hi lo : dd) : is_false (mk_bnode k hi lo) = is_false hi && is_false lo.
Proof.
  unfold mk_bnode. destruct (dd_eqb hi lo) eqn:E.
  - apply dd_eqb_spec in E; subst. now rewrite andb_diag.
  - cbn. symmetry. apply not_true_iff_false. intros A. apply andb_true_iff in A as [A B].
    apply is_false_eq in A, B. subst. cbn in E. discriminate.
Qed.

Lemma forallb_ext_in {A} (f g : A -> bool) (l : list A) : (forall x, In x l -> f x = g x) -> forallb f l = forallb g l.
Proof. induction l as [|x l IH]; cbn; [reflexivity|]. intros Hl. rewrite Hl, IH; auto. Qed.

Lemma tdis_and_shortcuts (a b : dd) :
  (is_true a = false -> is_true b = false -> is_false a = false -> is_false b = false ->
   tdis_core a b = is_false (tand_core a b)) ->
  tdis_step a b = is_false (tand_step a b).
Proof.
  intros Hcore. unfold tdis_step, tand_step.
  destruct (is_true a) eqn:Ta.
  { apply is_true_eq in Ta; subst. cbn [is_false is_true orb]. destruct (is_false b); reflexivity. }
  destruct (is_true b) eqn:Tb.
  { apply is_true_eq in Tb; subst. cbn [is_false is_true]. rewrite orb_false_r. destruct (is_false a); reflexivity. }
  cbn [orb].
  destruct (dd_eqb a b) eqn:Eab.
  { apply dd_eqb_spec in Eab; subst. rewrite orb_diag. destruct (is_false b); reflexivity. }
  destruct (is_false a) eqn:Fa; [reflexivity|]. destruct (is_false b) eqn:Fb; [reflexivity|]. cbn [orb].
  destruct (dd_eqb (tneg a) b); [reflexivity|]. auto.
Qed.

Lemma forallb_as_map {A} (f : A -> bool) (l : list A) : forallb f l = forallb (fun x => x) (map f l).
Proof. induction l as [|x l IH]; cbn; [reflexivity|]. now rewrite IH. Qed.

Lemma forallb_map' {A B} (f : B -> bool) (g : A -> B) (l : list A) : forallb f (map g l) = forallb (fun x => f (g x)) l.
Proof. induction l as [|x l IH]; cbn; [reflexivity|]. now rewrite IH. Qed.

Theorem tdisjoint_and : forall a b : dd, tdisjoint a b = is_false (tand a b).
Proof.
  induction a as [x|ka a0 la IHa0 IHla|ka ha la IHha IHla] using dd_ind2;
  induction b as [y|kb b0 lb IHb0 IHlb|kb hb lb IHhb IHlb] using dd_ind2;
  rewrite tdis_eq, tand_eq; apply tdis_and_shortcuts; intros T1 T2 F1 F2.
  all: unfold tdis_core, tand_core.
  all: try (destruct x; discriminate). all: try (destruct y; discriminate).
  - destruct (cmp ka kb) eqn:C.
    + rewrite mk_rnode_false, IHa0. f_equal.
      rewrite (forallb_as_map is_false), <- (map_snd_children is_false), merge_map_out.
      rewrite (merge_map_l appf tdisjoint), (merge_map_l (fun a b => is_false (appf a b)) tand). unfold appf.
      f_equal. f_equal. apply merge_ext_in. intros a' b' Ha' _. destruct Ha' as [-> | I]; [apply IHa0|].
      rewrite Forall_forall in IHla. now apply IHla.
    + rewrite mk_rnode_false, IHa0. f_equal. rewrite map_snd_children, (forallb_map' is_false).
      apply forallb_ext_in. intros a' I. rewrite Forall_forall in IHla. now apply IHla.
    + rewrite mk_rnode_false, IHb0. f_equal. rewrite map_snd_children, (forallb_map' is_false).
      apply forallb_ext_in. intros b' I. rewrite Forall_forall in IHlb. now apply IHlb.
  - destruct (cmp ka kb) eqn:C; [reflexivity| |].
    + rewrite mk_rnode_false, IHa0. f_equal. rewrite map_snd_children, (forallb_map' is_false).
      apply forallb_ext_in. intros a' I. rewrite Forall_forall in IHla. now apply IHla.
    + now rewrite mk_bnode_false, IHhb, IHlb.
  - destruct (cmp ka kb) eqn:C; [reflexivity| |].
    + now rewrite mk_bnode_false, IHha, IHla.
    + rewrite mk_rnode_false, IHb0. f_equal. rewrite map_snd_children, (forallb_map' is_false).
      apply forallb_ext_in. intros b' I. rewrite Forall_forall in IHlb. now apply IHlb.
  - destruct (cmp ka kb) eqn:C.
    + now rewrite mk_bnode_false, IHha, IHla.
    + now rewrite mk_bnode_false, IHha, IHla.
    + now rewrite mk_bnode_false, IHhb, IHlb.
Qed.

(** soundness: a positive verdict excludes every common model *)
Variable is_range : var -> bool.

Theorem tdisjoint_sound (a b : dd) : ok is_range a -> ok is_range b -> tdisjoint a b = true ->
  forall r : valuation, eval r a && eval r b = false.
Proof.
  intros [Sa Ta] [Sb Tb] D r. rewrite tdisjoint_and in D. apply is_false_eq in D.
  rewrite <- (tand_sem is_range a Sa Ta b Sb Tb r), D. reflexivity.
Qed.

(** symmetry *)
Lemma dd_eqb_sym (a b : dd) : dd_eqb a b = dd_eqb b a.
Proof.
  destruct (dd_eqb a b) eqn:E.
  - apply dd_eqb_spec in E; subst. symmetry. apply dd_eqb_refl.
  - symmetry. apply dd_eqb_false. apply dd_eqb_false in E. congruence.
Qed.

Lemma dd_eqb_tneg_sym (a b : dd) : dd_eqb (tneg a) b = dd_eqb (tneg b) a.
Proof.
  destruct (dd_eqb (tneg a) b) eqn:E.
  - apply dd_eqb_spec in E; subst. rewrite tneg_involutive. symmetry. apply dd_eqb_refl.
  - symmetry. apply dd_eqb_false. apply dd_eqb_false in E. intros E'. apply E. subst a. apply tneg_involutive.
Qed.

Lemma tdis_sym_shortcuts (a b : dd) : tdis_core a b = tdis_core b a -> tdis_step a b = tdis_step b a.
Proof.
  intros Hc. unfold tdis_step.
  rewrite (orb_comm (is_false a)), (orb_comm (is_true a)), (dd_eqb_sym a b), (dd_eqb_tneg_sym a b), Hc. reflexivity.
Qed.

Theorem tdisjoint_sym : forall a b : dd, tdisjoint a b = tdisjoint b a.
Proof.
  induction a as [x|ka a0 la IHa0 IHla|ka ha la IHha IHla] using dd_ind2;
  induction b as [y|kb b0 lb IHb0 IHlb|kb hb lb IHhb IHlb] using dd_ind2;
  rewrite !tdis_eq; apply tdis_sym_shortcuts; unfold tdis_core; try reflexivity.
  - rewrite (cmp_antisym ka kb). destruct (cmp ka kb) eqn:C; cbn [CompOpp].
    + apply cmp_eq in C; subst kb. rewrite IHa0. f_equal.
      rewrite (merge_map_l appf tdisjoint), (merge_map_l appf tdisjoint). unfold appf.
      rewrite (merge_flip (fun b' a' => tdisjoint b' a') lb b0 la a0).
      f_equal. f_equal. apply merge_ext_in. intros a' b' Ha' _. destruct Ha' as [-> | I]; [apply IHa0|].
      rewrite Forall_forall in IHla. now apply IHla.
    + rewrite IHa0. f_equal. apply forallb_ext_in. intros a' I. rewrite Forall_forall in IHla. now apply IHla.
    + rewrite IHb0. f_equal. apply forallb_ext_in. intros b' I. rewrite Forall_forall in IHlb. now apply IHlb.
  - rewrite (cmp_antisym ka kb). destruct (cmp ka kb) eqn:C; cbn [CompOpp]; [reflexivity| |].
    + rewrite IHa0. f_equal. apply forallb_ext_in. intros a' I. rewrite Forall_forall in IHla. now apply IHla.
    + now rewrite IHhb, IHlb.
  - rewrite (cmp_antisym ka kb). destruct (cmp ka kb) eqn:C; cbn [CompOpp]; [reflexivity| |].
    + now rewrite IHha, IHla.
    + rewrite IHb0. f_equal. apply forallb_ext_in. intros b' I. rewrite Forall_forall in IHlb. now apply IHlb.
  - rewrite (cmp_antisym ka kb). destruct (cmp ka kb) eqn:C; cbn [CompOpp].
    + apply cmp_eq in C; subst kb. now rewrite IHha, IHla.
    + now rewrite IHha, IHla.
    + now rewrite IHhb, IHlb.
Qed.
End DD.
