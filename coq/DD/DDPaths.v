(** C05 (core): a diagram is the disjunction of its root-to-TRUE paths ([collect_dnf] without the
    per-edge encodings and the heuristic simplifier, which are validated per instance by recompiling the
    rendered clauses with the proved operations). *)
From Coq Require Import List Bool.
From PV Require Import Base.Order Base.CutDef Base.CutLemmas DD.DDModel DD.DDBasics.
Import ListNotations.

Section DD.
Context {var val : Type} `{TotalOrder var} `{TotalOrder val}.
Notation cutV := (cut val).
Notation dd := (dd var val).
Notation valuation := (valuation var val).

Inductive constr :=
| CRange (k : var) (lo hi : option cutV)     (* the value of k lies between the two cuts *)
| CBool (k : var) (b : bool).

Definition between (x : val) (lo hi : option cutV) : bool :=
  match lo with None => true | Some c => negb (left_of x c) end &&
  match hi with None => true | Some c => left_of x c end.

Definition holds (r : valuation) (c : constr) : bool :=
  match c with
  | CRange k lo hi => between (rv r k) lo hi
  | CBool k b => Bool.eqb (bv r k) b
  end.

Fixpoint paths (t : dd) : list (list constr) :=
  match t with
  | Leaf true => [[]]
  | Leaf false => []
  | RNode k d0 ds =>
      (fix go (lo : option cutV) (cur : list (list constr)) (l : list (cutV * dd)) : list (list constr) :=
         match l with
         | [] => map (cons (CRange k lo None)) cur
         | (c, d) :: l' => map (cons (CRange k lo (Some c))) cur ++ go (Some c) (paths d) l'
         end) None (paths d0) ds
  | BNode k hi lo => map (cons (CBool k true)) (paths hi) ++ map (cons (CBool k false)) (paths lo)
  end.

Definition sat (r : valuation) (ps : list (list constr)) : bool := existsb (forallb (holds r)) ps.

Lemma sat_app r a b : sat r (a ++ b) = sat r a || sat r b.
Proof. apply existsb_app. Qed.

Lemma sat_cons r c ps : sat r (map (cons c) ps) = holds r c && sat r ps.
Proof.
  unfold sat. induction ps as [|p ps IH]; cbn; [now rewrite andb_false_r|].
  rewrite IH. destruct (holds r c); reflexivity.
Qed.

Lemma between_after (x : val) lo hi : after lo x ->
  between x lo hi = match hi with None => true | Some c => left_of x c end.
Proof. unfold between, after. destruct lo as [c|]; [intros ->|intros _]; reflexivity. Qed.

Lemma between_left (x : val) (lo : cutV) hi : left_of x lo = true -> between x (Some lo) hi = false.
Proof. unfold between. intros ->. reflexivity. Qed.

Lemma paths_go_sem (r : valuation) (k : var) : forall (l : list (cutV * dd)) (lo : option cutV) (cur : dd),
  sorted_from lo l -> after lo (rv r k) ->
  (forall d, (d = cur \/ In d (map snd l)) -> sat r (paths d) = eval r d) ->
  sat r ((fix go (lo : option cutV) (cur : list (list constr)) (l : list (cutV * dd)) : list (list constr) :=
            match l with
            | [] => map (cons (CRange k lo None)) cur
            | (c, d) :: l' => map (cons (CRange k lo (Some c))) cur ++ go (Some c) (paths d) l'
            end) lo (paths cur) l)
  = eval r (lookup_from (rv r k) cur l).
Proof.
  induction l as [|[c d] l IH]; intros lo cur S A Hd.
  - rewrite sat_cons. cbn [holds lookup_from]. rewrite (between_after _ lo None A). cbn [andb]. apply Hd. now left.
  - cbn [sorted_from] in S. destruct S as [L S]. rewrite sat_app, sat_cons. cbn [holds lookup_from].
    rewrite (between_after _ lo (Some c) A). destruct (left_of (rv r k) c) eqn:X.
    + cbn [andb]. rewrite (Hd cur (or_introl eq_refl)).
      assert (forall (l' : list (cutV * dd)) lo' cur', sorted_from (Some lo') l' -> left_of (rv r k) lo' = true ->
                sat r ((fix go (lo : option cutV) (cur : list (list constr)) (l : list (cutV * dd)) : list (list constr) :=
                          match l with
                          | [] => map (cons (CRange k lo None)) cur
                          | (c, d) :: l' => map (cons (CRange k lo (Some c))) cur ++ go (Some c) (paths d) l'
                          end) (Some lo') cur' l') = false) as Hnone.
      { induction l' as [|[c' d'] l' IH']; intros lo' cur' S' X'.
        - rewrite sat_cons. cbn [holds]. now rewrite (between_left _ lo' None X').
        - cbn [sorted_from] in S'. destruct S' as [L' S']. rewrite sat_app, sat_cons. cbn [holds].
          rewrite (between_left _ lo' (Some c') X'). cbn [andb orb].
          apply IH'; auto. eapply left_of_mono; eauto. }
      rewrite (Hnone l c (paths d) S X). now rewrite orb_false_r.
    + cbn [andb orb]. apply IH; auto. intros d' Hd'. apply Hd. destruct Hd' as [-> | Id]; right; cbn; auto.
Qed.

Theorem paths_sem (r : valuation) : forall t : dd, sorted t -> sat r (paths t) = eval r t.
Proof.
  induction t as [b|k d0 ds IH0 IHl|k hi lo IHh IHl] using dd_ind2; intros S.
  - destruct b; reflexivity.
  - apply sorted_rnode in S as (S0 & Ss & Sa). cbn [paths]. rewrite eval_rnode.
    apply (paths_go_sem r k ds None d0 Ss I).
    intros d [-> | Id]; [now apply IH0|]. rewrite Forall_forall in IHl, Sa. now apply IHl; auto.
  - destruct S as [Sh Sl]. cbn [paths eval]. rewrite sat_app, !sat_cons, IHh, IHl by assumption.
    cbn [holds]. destruct (bv r k); cbn; now rewrite ?orb_false_r.
Qed.
End DD.
