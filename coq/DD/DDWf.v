(** Well-formedness (C20): the Prop reading of the boolean checker [wfb], and what it implies. *)
From Coq Require Import List Bool.
From PV Require Import Base.Order Base.CutDef Base.CutLemmas DD.DDModel DD.DDBasics DD.DDAnd.
Import ListNotations.

Section DD.
Context {var val : Type} `{TotalOrder var} `{TotalOrder val}.
Notation cutV := (cut val).
Notation dd := (dd var val).
Variable is_range : var -> bool.

(** the top variable of [t], if any, is strictly after [k] *)
Definition above_p (k : var) (t : dd) : Prop :=
  match var_of t with None => True | Some k' => cmp k k' = Lt end.

Lemma above_spec k t : above k t = true <-> above_p k t.
Proof. unfold above, above_p. destruct (var_of t); [|tauto]. destruct (cmp k v); split; congruence. Qed.

(** ordered, reduced, partitioning *)
Inductive wf : dd -> Prop :=
| wf_leaf b : wf (Leaf b)
| wf_rnode k d0 ds :
    is_range k = true ->
    ds <> [] ->                                (* at least two edges *)
    sorted_from None ds ->                     (* ranges non-empty, sorted, disjoint, covering *)
    reduced d0 ds ->                           (* adjacent ranges lead to different children *)
    wf d0 -> above_p k d0 ->
    Forall (fun d => wf d /\ above_p k d) (map snd ds) ->   (* variables strictly increase *)
    wf (RNode k d0 ds)
| wf_bnode k hi lo :
    is_range k = false ->
    hi <> lo ->
    wf hi -> above_p k hi -> wf lo -> above_p k lo ->
    wf (BNode k hi lo).

Lemma wfb_go_spec k (P : dd -> Prop) (wfb' : dd -> bool) :
  forall ds, Forall (fun d => wfb' d = true <-> P d) (map snd ds) ->
  forall d0 : dd,
  (fix go (cur : dd) (l : list (cutV * dd)) : bool :=
     match l with
     | [] => true
     | (c, d) :: l' => negb (dd_eqb cur d) && wfb' d && above k d && go d l'
     end) d0 ds = true <->
  reduced d0 ds /\ Forall (fun d => P d /\ above_p k d) (map snd ds).
Proof.
  induction ds as [|[c d] ds IH]; intros F d0; cbn [map snd reduced].
  - split; auto.
  - inversion F as [|? ? Hd Hds]; subst. rewrite !andb_true_iff, (IH Hds), negb_true_iff, dd_eqb_false, Hd, above_spec.
    split.
    + intros (((N & W) & A) & (R & Fa)). repeat split; auto.
    + intros ((N & R) & Fa). inversion Fa as [|? ? [W A] Fa']; subst. repeat split; auto.
Qed.

Theorem wfb_correct : forall t : dd, wfb is_range t = true <-> wf t.
Proof.
  induction t as [b|k d0 ds IH0 IHl|k hi lo IHh IHl] using dd_ind2; cbn [wfb].
  - split; [constructor|reflexivity].
  - rewrite !andb_true_iff. rewrite (wfb_go_spec k wf (wfb is_range) ds IHl d0).
    rewrite sortedb_from_spec, IH0, above_spec. split.
    + intros (((((R & N) & S) & W0) & A0) & (Rd & Fa)). constructor; auto. destruct ds; [discriminate|congruence].
    + intros W. inversion W; subst. repeat split; auto. destruct ds; [contradiction|reflexivity].
  - rewrite !andb_true_iff, !negb_true_iff, dd_eqb_false, IHh, IHl, !above_spec. split.
    + intros (((((R & N) & Wh) & Ah) & Wl) & Al). constructor; auto.
    + intros W. inversion W; subst. repeat split; auto.
Qed.

(** well-formed diagrams satisfy the hypotheses of the semantic theorems *)
Theorem wf_ok : forall t : dd, wf t -> ok is_range t.
Proof.
  induction t as [b|k d0 ds IH0 IHl|k hi lo IHh IHl] using dd_ind2; intros W; inversion W; subst.
  - apply ok_leaf.
  - apply ok_rnode. repeat split; auto; try (apply IH0; auto).
    rewrite Forall_forall in *. intros x I. apply IHl; auto.
    match goal with F : forall x, In x _ -> wf x /\ _ |- _ => apply F; auto end.
  - apply ok_bnode. auto.
Qed.

Corollary wfb_ok (t : dd) : wfb is_range t = true -> ok is_range t.
Proof. intros. now apply wf_ok, wfb_correct. Qed.
End DD.
