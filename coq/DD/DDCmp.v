(** C16: the structural order on markers ([Ord for MarkerTree] via [kind()]) is a total order whose
    equality is identity of diagrams.

    The derived / hand-written chain in src/marker/tree.rs compares: the kind (True < False < Version <
    String < In < Contains < Extra), then the key (and value), then the edges lexicographically, an edge
    being (range, child) with ranges compared by start bound then end bound (version-ranges).  On the cut
    form the i-th edge is (cut_i, cut_{i+1}, child_i): since consecutive edges share a bound, this is the
    lexicographic comparison of the sequence (cut_1, child_0), (cut_2, child_1), ..., (+inf, child_n). *)
From Coq Require Import List Bool.
From PV Require Import Base.Order Base.CutDef Base.CutLemmas DD.DDModel DD.DDBasics.
Import ListNotations.

Section DD.
Context {var val : Type} `{TotalOrder var} `{TotalOrder val}.
Notation cutV := (cut val).
Notation dd := (dd var val).

(** edges of [a] (as closures "compare my child with") against edges of [b] *)
Fixpoint edges_cmp (fa : dd -> comparison) (la : list (cutV * (dd -> comparison))) (cb : dd) (lb : list (cutV * dd)) : comparison :=
  match la, lb with
  | [], [] => fa cb
  | [], _ :: _ => Gt
  | _ :: _, [] => Lt
  | (ca, fa') :: la', (cb', db) :: lb' =>
      match cut_cmp ca cb' with
      | Eq => match fa cb with Eq => edges_cmp fa' la' db lb' | c => c end
      | c => c
      end
  end.

Fixpoint tcmp (a : dd) : dd -> comparison :=
  fun b =>
  match a, b with
  | Leaf x, Leaf y => cmp y x                      (* True < False *)
  | Leaf _, _ => Lt
  | _, Leaf _ => Gt
  | RNode k a0 la, RNode k' b0 lb =>
      match cmp k k' with
      | Eq => edges_cmp (tcmp a0)
                ((fix go (l : list (cutV * dd)) := match l with [] => [] | (c, d) :: l' => (c, tcmp d) :: go l' end) la) b0 lb
      | c => c
      end
  | RNode k _ _, BNode k' _ _ => match cmp k k' with Eq => Lt | c => c end
  | BNode k _ _, RNode k' _ _ => match cmp k k' with Eq => Gt | c => c end
  | BNode k h l, BNode k' h' l' =>
      match cmp k k' with
      | Eq => match tcmp h h' with Eq => tcmp l l' | c => c end
      | c => c
      end
  end.

Lemma tcmp_rnode k a0 la k' b0 lb : tcmp (RNode k a0 la) (RNode k' b0 lb) =
  match cmp k k' with Eq => edges_cmp (tcmp a0) (map_snd tcmp la) b0 lb | c => c end.
Proof. cbn [tcmp]. now rewrite mapfix_eq. Qed.

Lemma edges_cmp_cons fa c fa' la cb c' db lb :
  edges_cmp fa ((c, fa') :: la) cb ((c', db) :: lb) =
  match cut_cmp c c' with Eq => match fa cb with Eq => edges_cmp fa' la db lb | x => x end | x => x end.
Proof. reflexivity. Qed.

(** ** equality *)
Lemma edges_eq : forall (la : list (cutV * dd)) a0 lb b0,
  (forall a', (a' = a0 \/ In a' (map snd la)) -> forall b', tcmp a' b' = Eq <-> a' = b') ->
  (edges_cmp (tcmp a0) (map_snd tcmp la) b0 lb = Eq <-> a0 = b0 /\ la = lb).
Proof.
  induction la as [|[c a1] la IH]; intros a0 lb b0 Hc; destruct lb as [|[c' b1] lb].
  - cbn [map_snd map edges_cmp]. rewrite (Hc a0 (or_introl eq_refl)). split; [intros ->; auto|intros [-> _]; auto].
  - cbn. split; [discriminate|intros [_ E]; discriminate].
  - cbn. split; [discriminate|intros [_ E]; discriminate].
  - change (map_snd tcmp ((c, a1) :: la)) with ((c, tcmp a1) :: map_snd tcmp la). rewrite edges_cmp_cons.
    destruct (cut_cmp c c') eqn:C.
    + apply cut_cmp_eq in C; subst c'.
      destruct (tcmp a0 b0) eqn:T.
      * apply (Hc a0 (or_introl eq_refl)) in T; subst b0.
        rewrite (IH a1 lb b1) by (intros a' Ha'; apply Hc; right; cbn; destruct Ha' as [-> | I']; [left; reflexivity|right; exact I']).
        split; [intros [-> ->]; auto|intros [_ E]; inversion E; auto].
      * split; [discriminate|]. intros [-> _]. assert (tcmp b0 b0 = Eq) by (apply (Hc b0 (or_introl eq_refl)); reflexivity). congruence.
      * split; [discriminate|]. intros [-> _]. assert (tcmp b0 b0 = Eq) by (apply (Hc b0 (or_introl eq_refl)); reflexivity). congruence.
    + split; [discriminate|]. intros [_ E]. inversion E; subst. rewrite cut_cmp_refl in C. discriminate.
    + split; [discriminate|]. intros [_ E]. inversion E; subst. rewrite cut_cmp_refl in C. discriminate.
Qed.

Theorem tcmp_eq : forall a b : dd, tcmp a b = Eq <-> a = b.
Proof.
  induction a as [x|k a0 la IH0 IHl|k h l IHh IHl] using dd_ind2; destruct b as [y|k' b0 lb|k' h' l'];
    try (cbn [tcmp]; split; [discriminate|congruence]).
  - cbn [tcmp]. rewrite (cmp_eq y x). split; congruence.
  - rewrite tcmp_rnode. destruct (cmp k k') eqn:C.
    + apply cmp_eq in C; subst k'. rewrite edges_eq.
      * split; [intros [-> ->]; auto|intros E; inversion E; auto].
      * intros a' [-> | I]; auto. rewrite Forall_forall in IHl. now apply IHl.
    + split; [discriminate|]. intros E; inversion E; subst. rewrite cmp_refl in C. discriminate.
    + split; [discriminate|]. intros E; inversion E; subst. rewrite cmp_refl in C. discriminate.
  - cbn [tcmp]. destruct (cmp k k') eqn:C; split; try discriminate; intros E; discriminate.
  - cbn [tcmp]. destruct (cmp k k') eqn:C; split; try discriminate; intros E; discriminate.
  - cbn [tcmp]. destruct (cmp k k') eqn:C.
    + apply cmp_eq in C; subst k'. destruct (tcmp h h') eqn:T.
      * apply IHh in T; subst h'. rewrite IHl. split; [intros ->; auto|intros E; inversion E; auto].
      * split; [discriminate|]. intros E; inversion E; subst. assert (tcmp h' h' = Eq) by (now apply IHh). congruence.
      * split; [discriminate|]. intros E; inversion E; subst. assert (tcmp h' h' = Eq) by (now apply IHh). congruence.
    + split; [discriminate|]. intros E; inversion E; subst. rewrite cmp_refl in C. discriminate.
    + split; [discriminate|]. intros E; inversion E; subst. rewrite cmp_refl in C. discriminate.
Qed.

Lemma tcmp_refl (a : dd) : tcmp a a = Eq.
Proof. now apply tcmp_eq. Qed.

(** ** antisymmetry *)
Lemma edges_antisym : forall (la : list (cutV * dd)) a0 lb b0,
  (forall a', (a' = a0 \/ In a' (map snd la)) -> forall b', tcmp b' a' = CompOpp (tcmp a' b')) ->
  edges_cmp (tcmp b0) (map_snd tcmp lb) a0 la = CompOpp (edges_cmp (tcmp a0) (map_snd tcmp la) b0 lb).
Proof.
  induction la as [|[c a1] la IH]; intros a0 lb b0 Hc; destruct lb as [|[c' b1] lb].
  - cbn [map_snd map edges_cmp]. apply Hc. now left.
  - reflexivity.
  - reflexivity.
  - change (map_snd tcmp ((c, a1) :: la)) with ((c, tcmp a1) :: map_snd tcmp la).
    change (map_snd tcmp ((c', b1) :: lb)) with ((c', tcmp b1) :: map_snd tcmp lb).
    rewrite !edges_cmp_cons. unfold cut_cmp. rewrite (cmp_antisym c c').
    destruct (cmp c c') eqn:C; cbn [CompOpp]; try reflexivity.
    rewrite (Hc a0 (or_introl eq_refl) b0). destruct (tcmp a0 b0); cbn [CompOpp]; try reflexivity.
    apply IH. intros a' Ha'. apply Hc. right. cbn. destruct Ha' as [-> | I']; [left; reflexivity|right; exact I'].
Qed.

Theorem tcmp_antisym : forall a b : dd, tcmp b a = CompOpp (tcmp a b).
Proof.
  induction a as [x|k a0 la IH0 IHl|k h l IHh IHl] using dd_ind2; destruct b as [y|k' b0 lb|k' h' l']; try reflexivity.
  - cbn [tcmp]. apply cmp_antisym.
  - rewrite !tcmp_rnode, (cmp_antisym k k'). destruct (cmp k k'); cbn [CompOpp]; try reflexivity.
    apply edges_antisym. intros a' [-> | I]; auto. rewrite Forall_forall in IHl. now apply IHl.
  - cbn [tcmp]. rewrite (cmp_antisym k k'). destruct (cmp k k'); reflexivity.
  - cbn [tcmp]. rewrite (cmp_antisym k k'). destruct (cmp k k'); reflexivity.
  - cbn [tcmp]. rewrite (cmp_antisym k k'). destruct (cmp k k'); cbn [CompOpp]; try reflexivity.
    rewrite IHh. destruct (tcmp h h'); cbn [CompOpp]; try reflexivity. apply IHl.
Qed.

(** ** transitivity *)
Lemma edges_trans : forall (la : list (cutV * dd)) a0 lb b0 lc c0,
  (forall a', (a' = a0 \/ In a' (map snd la)) -> forall b' c', tcmp a' b' = Lt -> tcmp b' c' = Lt -> tcmp a' c' = Lt) ->
  edges_cmp (tcmp a0) (map_snd tcmp la) b0 lb = Lt ->
  edges_cmp (tcmp b0) (map_snd tcmp lb) c0 lc = Lt ->
  edges_cmp (tcmp a0) (map_snd tcmp la) c0 lc = Lt.
Proof.
  induction la as [|[c a1] la IH]; intros a0 lb b0 lc c0 Hc; destruct lb as [|[c' b1] lb]; destruct lc as [|[c'' c1] lc];
    try (cbn; intros; congruence).
  - cbn [map_snd map edges_cmp]. apply Hc. now left.
  - change (map_snd tcmp ((c, a1) :: la)) with ((c, tcmp a1) :: map_snd tcmp la).
    change (map_snd tcmp ((c', b1) :: lb)) with ((c', tcmp b1) :: map_snd tcmp lb).
    rewrite !edges_cmp_cons.
    destruct (cut_cmp c c') eqn:C1; try discriminate.
    + apply cut_cmp_eq in C1; subst c'. destruct (cut_cmp c c'') eqn:C2; try discriminate; auto.
      destruct (tcmp a0 b0) eqn:T1; try discriminate.
      * apply tcmp_eq in T1; subst b0. destruct (tcmp a0 c0) eqn:T2; try discriminate; auto.
        apply IH. intros a' Ha'. apply Hc. right. cbn. destruct Ha' as [-> | I']; [left; reflexivity|right; exact I'].
      * intros _. destruct (tcmp b0 c0) eqn:T2; try discriminate.
        -- apply tcmp_eq in T2; subst c0. now rewrite T1.
        -- intros _. now rewrite (Hc a0 (or_introl eq_refl) b0 c0 T1 T2).
    + intros _. destruct (cut_cmp c' c'') eqn:C2; try discriminate.
      * apply cut_cmp_eq in C2; subst c''. now rewrite C1.
      * intros _. now rewrite (cut_cmp_lt_trans _ _ _ C1 C2).
Qed.

(** the first thing compared: kind and variable *)
Definition head (t : dd) : bool + (var * bool) :=
  match t with
  | Leaf x => inl (negb x)
  | RNode k _ _ => inr (k, false)
  | BNode k _ _ => inr (k, true)
  end.

Lemma tcmp_head (a b : dd) : tcmp a b = match cmp (head a) (head b) with Eq => tcmp a b | c => c end.
Proof.
  destruct a as [x|k a0 la|k h l]; destruct b as [y|k' b0 lb|k' h' l']; try reflexivity.
  - destruct x, y; reflexivity.
  - rewrite tcmp_rnode. change (cmp (head (RNode k a0 la)) (head (RNode k' b0 lb))) with (pair_cmp (k, false) (k', false)).
    unfold pair_cmp. cbn [fst snd]. destruct (cmp k k'); reflexivity.
  - cbn [tcmp]. change (cmp (head (RNode k a0 la)) (head (BNode k' h' l'))) with (pair_cmp (k, false) (k', true)).
    unfold pair_cmp. cbn [fst snd]. destruct (cmp k k'); reflexivity.
  - cbn [tcmp]. change (cmp (head (BNode k h l)) (head (RNode k' b0 lb))) with (pair_cmp (k, true) (k', false)).
    unfold pair_cmp. cbn [fst snd]. destruct (cmp k k'); reflexivity.
  - cbn [tcmp]. change (cmp (head (BNode k h l)) (head (BNode k' h' l'))) with (pair_cmp (k, true) (k', true)).
    unfold pair_cmp. cbn [fst snd]. destruct (cmp k k'); reflexivity.
Qed.

Theorem tcmp_trans : forall a b c : dd, tcmp a b = Lt -> tcmp b c = Lt -> tcmp a c = Lt.
Proof.
  induction a as [x|k a0 la IH0 IHl|k h l IHh IHl] using dd_ind2; intros b c A B;
    rewrite tcmp_head in A, B; rewrite tcmp_head;
    (destruct (cmp (head _) (head b)) eqn:H1 in A; try discriminate A;
     destruct (cmp (head b) (head c)) eqn:H2 in B; try discriminate B;
     [ | apply cmp_eq in H1; rewrite H1, H2; reflexivity
       | apply cmp_eq in H2; rewrite <- H2, H1; reflexivity
       | rewrite (cmp_trans_lt _ _ _ H1 H2); reflexivity ]);
    apply cmp_eq in H1, H2; rewrite H1, H2, cmp_refl.
  - destruct b as [y| |]; try discriminate H1. destruct c as [z| |]; try discriminate H2.
    cbn [tcmp] in *. eapply cmp_trans_lt; eauto.
  - destruct b as [|k' b0 lb|]; try discriminate H1. destruct c as [|k'' c0 lc|]; try discriminate H2.
    injection H1 as ->. injection H2 as ->. rewrite tcmp_rnode, cmp_refl in *.
    revert A B. apply edges_trans. intros a' [-> | I]; auto. rewrite Forall_forall in IHl. now apply IHl.
  - destruct b as [| |k' h' l']; try discriminate H1. destruct c as [| |k'' h'' l'']; try discriminate H2.
    injection H1 as ->. injection H2 as ->. cbn [tcmp] in *. rewrite cmp_refl in *.
    destruct (tcmp h h') eqn:T1; try discriminate.
    + apply tcmp_eq in T1; subst h'. destruct (tcmp h h'') eqn:T2; try discriminate; auto. eapply IHl; eauto.
    + destruct (tcmp h' h'') eqn:T2; try discriminate.
      * apply tcmp_eq in T2; subst h''. now rewrite T1.
      * now rewrite (IHh h' h'' T1 T2).
Qed.

(** the structural order is a decidable strict total order on diagrams *)
#[export] Instance dd_order : TotalOrder dd :=
  {| cmp := tcmp; cmp_eq := tcmp_eq; cmp_antisym := tcmp_antisym; cmp_trans_lt := tcmp_trans |}.
End DD.
