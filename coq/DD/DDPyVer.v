(** requires-python: [simplify_python_versions] and [complexify_python_versions] on the cut form
    (with the repairs F2: coalescing map, F3: conjoin when the node's variable comes after [pk]).
    A window is a pair of optional cuts: lower (Included v -> (v, Below), Excluded v -> (v, Above)) and
    upper (Included v -> (v, Above), Excluded v -> (v, Below)); it is empty unless lower < upper.
    Definitions only. *)
From Coq Require Import List Bool.
From PV Require Import Base.Order Base.CutDef DD.DDModel.
Import ListNotations.

Section DD.
Context {var val : Type} `{TotalOrder var} `{TotalOrder val}.
Notation cutV := (cut val).
Notation dd := (dd var val).

Definition window := (option cutV * option cutV)%type.

Definition window_empty (w : window) : bool :=
  match w with
  | (Some lo, Some hi) => match cut_cmp lo hi with Lt => false | _ => true end
  | _ => false
  end.

Definition unbounded (w : window) : bool := match w with (None, None) => true | _ => false end.

Section Part.
Context {A : Type}.
(** drop the cuts that are not above [lo]; the child in force becomes the one after the last dropped cut *)
Fixpoint drop_le (lo : cutV) (cur : A) (l : list (cutV * A)) : A * list (cutV * A) :=
  match l with
  | [] => (cur, [])
  | (c, d) :: l' => match cut_cmp c lo with Gt => (cur, l) | _ => drop_le lo d l' end
  end.
(** keep the cuts that are below [hi] *)
Fixpoint take_lt (hi : cutV) (l : list (cutV * A)) : list (cutV * A) :=
  match l with
  | [] => []
  | (c, d) :: l' => match cut_cmp c hi with Lt => (c, d) :: take_lt hi l' | _ => [] end
  end.
Fixpoint last_child (cur : A) (l : list (cutV * A)) : A :=
  match l with [] => cur | (_, d) :: l' => last_child d l' end.

(** the edges that intersect the window, first and last extended to infinity *)
Definition restrict_window (w : window) (d0 : A) (ds : list (cutV * A)) : A * list (cutV * A) :=
  let (d0', ds') := match fst w with None => (d0, ds) | Some lo => drop_le lo d0 ds end in
  (d0', match snd w with None => ds' | Some hi => take_lt hi ds' end).
End Part.

(** the same edges, with FALSE outside the window *)
Definition clip_window (w : window) (d0 : dd) (ds : list (cutV * dd)) : dd * list (cutV * dd) :=
  let (d0', ds') := restrict_window w d0 ds in
  let ds'' := match snd w with None => ds' | Some hi => ds' ++ [(hi, Leaf false)] end in
  match fst w with None => (d0', ds'') | Some lo => (Leaf false, (lo, d0') :: ds'') end.

(** the diagram of the window itself on variable [pk] *)
Definition window_node (pk : var) (w : window) : dd :=
  let (d0, ds) := clip_window w (Leaf true) [] in mk_rnode pk d0 ds.

Fixpoint tsimplify_pv (pk : var) (w : window) (t : dd) : dd :=
  match t with
  | Leaf _ => t
  | RNode k d0 ds =>
      if eqb_of k pk then
        let (d0', ds') := restrict_window w d0 ds in mk_rnode k d0' ds'
      else
        mk_rnode k (tsimplify_pv pk w d0)
          ((fix go (l : list (cutV * dd)) := match l with [] => [] | (c, d) :: l' => (c, tsimplify_pv pk w d) :: go l' end) ds)
  | BNode k hi lo => mk_bnode k (tsimplify_pv pk w hi) (tsimplify_pv pk w lo)
  end.

(** an empty range makes every marker FALSE (repair of the empty-range defect) *)
Definition simplify_pv (pk : var) (w : window) (t : dd) : dd :=
  if unbounded w then t else if window_empty w then Leaf false else tsimplify_pv pk w t.

Fixpoint tcomplexify_pv (pk : var) (w : window) (t : dd) : dd :=
  match t with
  | Leaf true => window_node pk w
  | Leaf false => t
  | RNode k d0 ds =>
      match cmp k pk with
      | Eq => let (d0', ds') := clip_window w d0 ds in mk_rnode k d0' ds'
      | Gt => tand t (window_node pk w)
      | Lt => mk_rnode k (tcomplexify_pv pk w d0)
                ((fix go (l : list (cutV * dd)) := match l with [] => [] | (c, d) :: l' => (c, tcomplexify_pv pk w d) :: go l' end) ds)
      end
  | BNode k hi lo =>
      match cmp k pk with
      | Gt => tand t (window_node pk w)
      | _ => mk_bnode k (tcomplexify_pv pk w hi) (tcomplexify_pv pk w lo)
      end
  end.

Definition complexify_pv (pk : var) (w : window) (t : dd) : dd :=
  if is_false t || unbounded w then t
  else if window_empty w then Leaf false
  else tcomplexify_pv pk w t.
End DD.
