(** Basic facts about the diagram model: induction principle, node identity, evaluation, complement. *)
From Coq Require Import List Bool.
From PV Require Import Base.Order Base.CutDef Base.CutLemmas DD.DDModel.
Import ListNotations.

Section DD.
Context {var val : Type} `{TotalOrder var} `{TotalOrder val}.
Notation cutV := (cut val).
Notation dd := (dd var val).
Notation valuation := (valuation var val).

(** induction principle that reaches the children inside the edge list *)
Section Ind.
Variable P : dd -> Prop.
Hypothesis Pleaf : forall b, P (Leaf b).
Hypothesis Prnode : forall k d0 ds, P d0 -> Forall P (map snd ds) -> P (RNode k d0 ds).
Hypothesis Pbnode : forall k hi lo, P hi -> P lo -> P (BNode k hi lo).
Fixpoint dd_ind2 (t : dd) : P t :=
  match t with
  | Leaf b => Pleaf b
  | RNode k d0 ds =>
      Prnode k d0 ds (dd_ind2 d0)
        ((fix go (l : list (cutV * dd)) : Forall P (map snd l) :=
            match l with
            | [] => Forall_nil P
            | (c, d) :: l' => Forall_cons d (dd_ind2 d) (go l')
            end) ds)
  | BNode k hi lo => Pbnode k hi lo (dd_ind2 hi) (dd_ind2 lo)
  end.
End Ind.

Lemma mapfix_eq {B} (f : dd -> B) (ds : list (cutV * dd)) :
  (fix go (l : list (cutV * dd)) := match l with [] => [] | (c, d) :: l' => (c, f d) :: go l' end) ds = map_snd f ds.
Proof. unfold map_snd. induction ds as [|[c d] ds IH]; cbn; [reflexivity|]. now rewrite IH. Qed.

Lemma map_snd_children {A B} (f : A -> B) (l : list (cutV * A)) : map snd (map_snd f l) = map f (map snd l).
Proof. unfold map_snd. induction l as [|[c a] l IH]; cbn; [reflexivity|]. now rewrite IH. Qed.

Lemma map_snd_cuts {A B} (f : A -> B) (l : list (cutV * A)) : map fst (map_snd f l) = map fst l.
Proof. unfold map_snd. induction l as [|[c a] l IH]; cbn; [reflexivity|]. now rewrite IH. Qed.

Lemma map_snd_ext {A B} (f g : A -> B) (l : list (cutV * A)) :
  Forall (fun a => f a = g a) (map snd l) -> map_snd f l = map_snd g l.
Proof. unfold map_snd. induction l as [|[c a] l IH]; cbn; [reflexivity|]. intros F. inversion F; subst. f_equal; [congruence|auto]. Qed.

Lemma map_snd_map_snd {A B C} (f : A -> B) (g : B -> C) (l : list (cutV * A)) :
  map_snd g (map_snd f l) = map_snd (fun a => g (f a)) l.
Proof. unfold map_snd. induction l as [|[c a] l IH]; cbn; [reflexivity|]. now rewrite IH. Qed.

Lemma map_snd_id {A} (l : list (cutV * A)) : map_snd (fun a => a) l = l.
Proof. unfold map_snd. induction l as [|[c a] l IH]; cbn; [reflexivity|]. now rewrite IH. Qed.

(** ** evaluation *)
Lemma eval_rnode (r : valuation) k d0 ds : eval r (RNode k d0 ds) = eval r (lookup_from (rv r k) d0 ds).
Proof.
  cbn [eval]. revert d0. induction ds as [|[c d] ds IH]; intros d0; cbn; [reflexivity|].
  destruct (left_of (rv r k) c); auto.
Qed.

(** ** node identity *)
Lemma cut_eqb_spec (a b : cutV) : cut_eqb a b = true <-> a = b.
Proof. apply eqb_of_spec. Qed.

Lemma dd_eqb_spec : forall a b : dd, dd_eqb a b = true <-> a = b.
Proof.
  induction a as [x|k a0 la IH0 IHl|k h l IHh IHl] using dd_ind2; destruct b as [y|k' b0 lb|k' h' l']; cbn [dd_eqb];
    try (split; [discriminate|congruence]).
  - destruct x, y; cbn; split; congruence.
  - rewrite !andb_true_iff, eqb_of_spec, IH0.
    assert ((fix go (la lb : list (cutV * dd)) : bool :=
               match la, lb with
               | [], [] => true
               | (c, a') :: la', (c', b') :: lb' => cut_eqb c c' && dd_eqb a' b' && go la' lb'
               | _, _ => false
               end) la lb = true <-> la = lb) as ->.
    { clear IH0. revert lb. induction la as [|[c a'] la IHla]; intros [|[c' b'] lb]; try (split; [discriminate|congruence]).
      - tauto.
      - cbn in IHl. inversion IHl as [|? ? Ha Hl]; subst.
        rewrite !andb_true_iff, cut_eqb_spec, Ha, (IHla Hl). split; [intros [[-> ->] ->]; reflexivity|intros [= -> -> ->]; auto]. }
    split; [intros [[-> ->] ->]; reflexivity|intros [= -> -> ->]; auto].
  - rewrite !andb_true_iff, eqb_of_spec, IHh, IHl. split; [intros [[-> ->] ->]; reflexivity|intros [= -> -> ->]; auto].
Qed.

Lemma dd_eqb_refl (a : dd) : dd_eqb a a = true.
Proof. now apply dd_eqb_spec. Qed.

Lemma dd_eqb_false (a b : dd) : dd_eqb a b = false <-> a <> b.
Proof. rewrite <- dd_eqb_spec. destruct (dd_eqb a b); split; congruence. Qed.

Lemma is_true_eq (t : dd) : is_true t = true <-> t = Leaf true.
Proof. destruct t as [[]| |]; cbn; split; congruence. Qed.
Lemma is_false_eq (t : dd) : is_false t = true <-> t = Leaf false.
Proof. destruct t as [[]| |]; cbn; split; congruence. Qed.

(** ** complement *)
Lemma tneg_eq (t : dd) : tneg t =
  match t with
  | Leaf b => Leaf (negb b)
  | RNode k d0 ds => RNode k (tneg d0) (map_snd tneg ds)
  | BNode k h l => BNode k (tneg h) (tneg l)
  end.
Proof. destruct t; cbn [tneg]; rewrite ?mapfix_eq; reflexivity. Qed.

Theorem tneg_sem (r : valuation) : forall t : dd, eval r (tneg t) = negb (eval r t).
Proof.
  induction t as [b|k d0 ds IH0 IHl|k h l IHh IHl] using dd_ind2; rewrite tneg_eq.
  - reflexivity.
  - rewrite !eval_rnode, lookup_map_snd.
    destruct (lookup_in (rv r k) ds d0) as [-> | I]; [exact IH0|].
    rewrite Forall_forall in IHl. now apply IHl.
  - cbn. destruct (bv r k); auto.
Qed.

Theorem tneg_involutive : forall t : dd, tneg (tneg t) = t.
Proof.
  induction t as [b|k d0 ds IH0 IHl|k h l IHh IHl] using dd_ind2; rewrite (tneg_eq (_ _ _)) || rewrite (tneg_eq (Leaf _)).
  - cbn. now rewrite negb_involutive.
  - rewrite tneg_eq, IH0, map_snd_map_snd. f_equal.
    rewrite <- (map_snd_id ds) at 2. apply map_snd_ext. exact IHl.
  - rewrite tneg_eq. cbn. now rewrite IHh, IHl.
Qed.

(** ** sortedness: the only hypothesis the semantic theorems need *)
Fixpoint sorted (t : dd) : Prop :=
  match t with
  | Leaf _ => True
  | RNode _ d0 ds =>
      sorted d0 /\ sorted_from None ds /\
      (fix all (l : list (cutV * dd)) : Prop := match l with [] => True | (_, d) :: l' => sorted d /\ all l' end) ds
  | BNode _ hi lo => sorted hi /\ sorted lo
  end.

Lemma sorted_all_forall (ds : list (cutV * dd)) :
  (fix all (l : list (cutV * dd)) : Prop := match l with [] => True | (_, d) :: l' => sorted d /\ all l' end) ds
  <-> Forall sorted (map snd ds).
Proof.
  induction ds as [|[c d] ds IH]; cbn; [split; auto|]. rewrite IH. split.
  - intros [? ?]; constructor; auto. - intros F; inversion F; auto.
Qed.

Lemma sorted_rnode k d0 ds : sorted (RNode k d0 ds) <-> sorted d0 /\ sorted_from None ds /\ Forall sorted (map snd ds).
Proof. cbn [sorted]. now rewrite sorted_all_forall. Qed.

Lemma sorted_lookup x (ds : list (cutV * dd)) d0 : sorted d0 -> Forall sorted (map snd ds) -> sorted (lookup_from x d0 ds).
Proof.
  intros S0 F. destruct (lookup_in x ds d0) as [-> | I]; auto. rewrite Forall_forall in F. auto.
Qed.

Lemma tneg_sorted : forall t : dd, sorted t -> sorted (tneg t).
Proof.
  induction t as [b|k d0 ds IH0 IHl|k h l IHh IHl] using dd_ind2; rewrite tneg_eq; auto.
  - rewrite !sorted_rnode. intros (S0 & Ss & Sa). repeat split; auto.
    + now apply sorted_map_snd_iff.
    + rewrite map_snd_children, Forall_map. rewrite Forall_forall in *. auto.
  - cbn. intros [? ?]; auto.
Qed.

(** ** node construction *)
Lemma eval_mk_rnode (r : valuation) k d0 (ds : list (cutV * dd)) : sorted_from None ds ->
  eval r (mk_rnode k d0 ds) = eval r (RNode k d0 ds).
Proof.
  intros S. rewrite eval_rnode. rewrite <- (lookup_coalesce dd_eqb dd_eqb_spec _ ds d0 None S).
  unfold mk_rnode. destruct (coalesce dd_eqb d0 ds) eqn:E; [reflexivity|]. now rewrite eval_rnode.
Qed.

Lemma eval_mk_bnode (r : valuation) k (hi lo : dd) : eval r (mk_bnode k hi lo) = eval r (BNode k hi lo).
Proof.
  unfold mk_bnode. destruct (dd_eqb hi lo) eqn:E; [|reflexivity].
  apply dd_eqb_spec in E; subst. cbn. now destruct (bv r k).
Qed.

Lemma sorted_mk_rnode k d0 (ds : list (cutV * dd)) :
  sorted d0 -> sorted_from None ds -> Forall sorted (map snd ds) -> sorted (mk_rnode k d0 ds).
Proof.
  intros S0 Ss Sa. unfold mk_rnode. destruct (coalesce dd_eqb d0 ds) eqn:E; auto.
  rewrite <- E. apply sorted_rnode. repeat split; auto.
  - now apply sorted_coalesce.
  - rewrite Forall_forall in *. intros x I. apply Sa. eapply coalesce_children; eauto.
Qed.

Lemma sorted_mk_bnode k (hi lo : dd) : sorted hi -> sorted lo -> sorted (mk_bnode k hi lo).
Proof. intros. unfold mk_bnode. destruct (dd_eqb hi lo); cbn; auto. Qed.
End DD.
