(** C12: simplify / complexify for a requires-python window. *)
From Coq Require Import List Bool.
From PV Require Import Base.Order Base.CutDef Base.CutLemmas DD.DDModel DD.DDBasics DD.DDAnd DD.DDWf DD.DDWfOps DD.DDCanon DD.DDPyVer.
Import ListNotations.

Section Part.
Context {V : Type} `{TotalOrder V}.
Notation cutV := (cut V).
Context {A : Type}.

Definition in_win (w : option cutV * option cutV) (x : V) : bool :=
  match fst w with None => true | Some lo => negb (left_of x lo) end &&
  match snd w with None => true | Some hi => left_of x hi end.

Lemma drop_le_spec (lo : cutV) : forall (l : list (cutV * A)) cur lo0, sorted_from lo0 l ->
  sorted_from (Some lo) (snd (drop_le lo cur l)) /\
  (forall x, left_of x lo = false -> lookup_from x (fst (drop_le lo cur l)) (snd (drop_le lo cur l)) = lookup_from x cur l) /\
  (fst (drop_le lo cur l) = cur \/ In (fst (drop_le lo cur l)) (map snd l)) /\
  incl (snd (drop_le lo cur l)) l.
Proof.
  induction l as [|[c d] l IH]; intros cur lo0 S; cbn [drop_le].
  - cbn [fst snd]. split; [exact I|split; [reflexivity|split; [left; reflexivity|apply incl_refl]]].
  - cbn [sorted_from] in S. destruct S as [L S]. destruct (cut_cmp c lo) eqn:C.
    + destruct (IH d (Some c) S) as (S' & Lk & In' & Ic). split; [exact S'|split; [|split]].
      * intros x X. rewrite Lk by exact X. cbn [lookup_from]. apply cut_cmp_eq in C; subst. now rewrite X.
      * destruct In' as [-> | Id]; right; cbn; auto.
      * apply incl_tl. exact Ic.
    + destruct (IH d (Some c) S) as (S' & Lk & In' & Ic). split; [exact S'|split; [|split]].
      * intros x X. rewrite Lk by exact X. cbn [lookup_from]. now rewrite (not_left_mono x c lo C X).
      * destruct In' as [-> | Id]; right; cbn; auto.
      * apply incl_tl. exact Ic.
    + cbn [fst snd]. split; [|split; [|split]].
      * cbn [sorted_from]. split; [exact (cut_cmp_gt _ _ C)|exact S].
      * intros x X. reflexivity.
      * left. reflexivity.
      * apply incl_refl.
Qed.

Lemma take_lt_spec (hi : cutV) : forall (l : list (cutV * A)) lo0, sorted_from lo0 l ->
  sorted_from lo0 (take_lt hi l) /\
  (forall x cur, left_of x hi = true -> lookup_from x cur (take_lt hi l) = lookup_from x cur l) /\
  incl (take_lt hi l) l /\
  Forall (fun p => cut_cmp (fst p) hi = Lt) (take_lt hi l).
Proof.
  induction l as [|[c d] l IH]; intros lo0 S; cbn [take_lt].
  - split; [exact I|split; [reflexivity|split; [apply incl_refl|constructor]]].
  - cbn [sorted_from] in S. destruct S as [L S]. destruct (cut_cmp c hi) eqn:C.
    + split; [exact I|split; [|split; [apply incl_nil_l|constructor]]].
      intros x cur X. cbn [lookup_from]. apply cut_cmp_eq in C; subst. now rewrite X.
    + destruct (IH (Some c) S) as (S' & Lk & Ic & Fa). split; [|split; [|split]].
      * cbn [sorted_from]. split; assumption.
      * intros x cur X. cbn [lookup_from]. destruct (left_of x c); auto.
      * intros p [<- | Ip]; [left; reflexivity|right; now apply Ic].
      * constructor; assumption.
    + split; [exact I|split; [|split; [apply incl_nil_l|constructor]]].
      intros x cur X. cbn [lookup_from]. apply cut_cmp_gt in C. now rewrite (left_of_mono x hi c C X).
Qed.

Lemma restrict_window_spec (w : option cutV * option cutV) (d0 : A) (ds : list (cutV * A)) : sorted_from None ds ->
  let r := restrict_window w d0 ds in
  sorted_from (fst w) (snd r) /\
  (forall x, in_win w x = true -> lookup_from x (fst r) (snd r) = lookup_from x d0 ds) /\
  (fst r = d0 \/ In (fst r) (map snd ds)) /\
  incl (snd r) ds /\
  (match snd w with None => True | Some hi => Forall (fun p => cut_cmp (fst p) hi = Lt) (snd r) end).
Proof.
  intros S. unfold restrict_window, in_win. destruct w as [lo hi]. cbn [fst snd].
  destruct lo as [lo|].
  - destruct (drop_le_spec lo ds d0 None S) as (S1 & L1 & I1 & C1). destruct (drop_le lo d0 ds) as [d0' ds'] eqn:E. cbn [fst snd] in *.
    destruct hi as [hi|]; cbn [fst snd].
    + destruct (take_lt_spec hi ds' (Some lo) S1) as (S2 & L2 & C2 & F2). repeat split; auto.
      * intros x X. apply andb_true_iff in X as [X1 X2]. apply negb_true_iff in X1. rewrite L2 by exact X2. now apply L1.
      * eapply incl_tran; eauto.
    + repeat split; auto. intros x X. rewrite andb_true_r in X. apply negb_true_iff in X. now apply L1.
  - destruct hi as [hi|]; cbn [fst snd].
    + destruct (take_lt_spec hi ds None S) as (S2 & L2 & C2 & F2). repeat split; auto.
    + repeat split; auto. apply incl_refl.
Qed.
End Part.

Section DD.
Context {var val : Type} `{TotalOrder var} `{TotalOrder val}.
Notation cutV := (cut val).
Notation dd := (dd var val).
Notation valuation := (valuation var val).
Variable is_range : var -> bool.
Notation wf := (wf is_range).
Notation wfa := (wfa is_range).

Lemma lookup_app_last {B} x (l : list (cutV * B)) : forall cur hi b lo0,
  sorted_from lo0 l -> Forall (fun p => cut_cmp (fst p) hi = Lt) l ->
  lookup_from x cur (l ++ [(hi, b)]) = if left_of x hi then lookup_from x cur l else b.
Proof.
  induction l as [|[c d] l IH]; intros cur hi b lo0 S F; cbn [app lookup_from].
  - reflexivity.
  - inversion F as [|? ? Fc Fl]; subst. cbn in Fc. cbn in S. destruct S as [_ S].
    destruct (left_of x c) eqn:X.
    + now rewrite (left_of_mono x c hi Fc X).
    + now apply (IH d hi b (Some c)).
Qed.

Lemma sorted_app_last {B} (l : list (cutV * B)) : forall hi b lo0,
  sorted_from lo0 l -> Forall (fun p => cut_cmp (fst p) hi = Lt) l ->
  (match lo0 with None => True | Some c => cut_cmp c hi = Lt end) ->
  sorted_from lo0 (l ++ [(hi, b)]).
Proof.
  induction l as [|[c d] l IH]; intros hi b lo0 S F L; cbn [app].
  - cbn. auto.
  - inversion F as [|? ? Fc Fl]; subst. cbn in S. destruct S as [Lc S]. cbn. split; auto.
Qed.

(** the clipped partition: the original inside the window, FALSE outside *)
Lemma clip_window_spec (w : window) (d0 : dd) (ds : list (cutV * dd)) : sorted_from None ds -> window_empty w = false ->
  let r := clip_window w d0 ds in
  sorted_from None (snd r) /\
  (forall x, lookup_from x (fst r) (snd r) = if in_win w x then lookup_from x d0 ds else Leaf false) /\
  (forall d, (d = fst r \/ In d (map snd (snd r))) -> d = Leaf false \/ d = d0 \/ In d (map snd ds)).
Proof.
  intros S NE. unfold clip_window.
  destruct (restrict_window_spec w d0 ds S) as (S1 & L1 & I1 & C1 & F1).
  destruct (restrict_window w d0 ds) as [d0' ds'] eqn:E. cbn [fst snd] in *.
  assert (forall d, In d (map snd ds') -> In d (map snd ds)) as Hin.
  { intros d I. apply in_map_iff in I as ([c d'] & <- & I). apply in_map_iff. exists (c, d'). split; auto. }
  destruct w as [lo hi]. unfold in_win in *. cbn [fst snd] in *.
  destruct lo as [lo|]; destruct hi as [hi|]; cbn [fst snd].
  - (* both bounds *)
    assert (cut_cmp lo hi = Lt) as Llh by (cbn in NE; destruct (cut_cmp lo hi); congruence).
    pose proof (sorted_app_last ds' hi (Leaf false) (Some lo) S1 F1 Llh) as S2.
    split; [|split].
    + cbn [sorted_from]. split; [exact I|exact S2].
    + intros x. cbn [lookup_from]. destruct (left_of x lo) eqn:X; cbn [negb andb]; [reflexivity|].
      rewrite (lookup_app_last x ds' d0' hi (Leaf false) (Some lo) S1 F1).
      destruct (left_of x hi) eqn:X2; [|reflexivity]. apply L1. now rewrite X, X2.
    + intros d [-> | Id]; [left; reflexivity|]. cbn [map snd] in Id. destruct Id as [<- | Id]; [right; destruct I1; auto|].
      rewrite map_app in Id. apply in_app_or in Id as [Id | Id]; [right; right; auto|]. cbn in Id. destruct Id as [<- | []]. now left.
  - (* lower bound only *)
    split; [|split].
    + cbn [sorted_from]. split; [exact I|exact S1].
    + intros x. cbn [lookup_from]. destruct (left_of x lo) eqn:X; cbn [negb andb]; [reflexivity|]. apply L1. now rewrite X.
    + intros d [-> | Id]; [left; reflexivity|]. cbn [map snd] in Id. destruct Id as [<- | Id]; [right; destruct I1; auto|]. right; right; auto.
  - (* upper bound only *)
    pose proof (sorted_app_last ds' hi (Leaf false) None S1 F1 I) as S2.
    split; [exact S2|split].
    + intros x. rewrite (lookup_app_last x ds' d0' hi (Leaf false) None S1 F1).
      destruct (left_of x hi) eqn:X2; [|reflexivity]. apply L1. now rewrite X2.
    + intros d [-> | Id]; [right; destruct I1; auto|].
      rewrite map_app in Id. apply in_app_or in Id as [Id | Id]; [right; right; auto|]. cbn in Id. destruct Id as [<- | []]. now left.
  - split; [exact S1|split].
    + intros x. now apply L1.
    + intros d [-> | Id]; right; [destruct I1; auto|right; auto].
Qed.

Lemma eval_window_node (pk : var) (w : window) (r : valuation) : window_empty w = false ->
  eval r (window_node pk w) = in_win w (rv r pk).
Proof.
  intros NE. unfold window_node.
  destruct (clip_window_spec w (Leaf true) [] I NE) as (S & L & _).
  destruct (clip_window w (Leaf true) []) as [d0 ds]. cbn [fst snd] in *.
  rewrite eval_mk_rnode by exact S. rewrite eval_rnode, L. cbn [lookup_from]. now destruct (in_win w (rv r pk)).
Qed.

Lemma window_node_ok (pk : var) (w : window) : is_range pk = true -> window_empty w = false -> ok is_range (window_node pk w).
Proof.
  intros R NE. unfold window_node.
  destruct (clip_window_spec w (Leaf true) [] I NE) as (S & _ & C).
  destruct (clip_window w (Leaf true) []) as [d0 ds]. cbn [fst snd] in *.
  apply ok_mk_rnode; auto.
  - destruct (C d0 (or_introl eq_refl)) as [-> | [-> | []]]; apply ok_leaf.
  - apply Forall_forall. intros d I. destruct (C d (or_intror I)) as [-> | [-> | []]]; apply ok_leaf.
Qed.

Lemma window_node_wf (pk : var) (w : window) : is_range pk = true -> window_empty w = false ->
  wf (window_node pk w) /\ (forall k', cmp k' pk = Lt -> above_p k' (window_node pk w)).
Proof.
  intros R NE. unfold window_node.
  destruct (clip_window_spec w (Leaf true) [] I NE) as (S & _ & C).
  destruct (clip_window w (Leaf true) []) as [d0 ds]. cbn [fst snd] in *.
  apply (wf_mk_rnode is_range); auto.
  - destruct (C d0 (or_introl eq_refl)) as [-> | [-> | []]]; split; try constructor; exact I.
  - apply Forall_forall. intros d I. destruct (C d (or_intror I)) as [-> | [-> | []]]; split; try constructor; exact I.
Qed.

Lemma tsimplify_eq (pk : var) (w : window) (t : dd) : tsimplify_pv pk w t =
  match t with
  | Leaf _ => t
  | RNode k d0 ds =>
      if eqb_of k pk then let (d0', ds') := restrict_window w d0 ds in mk_rnode k d0' ds'
      else mk_rnode k (tsimplify_pv pk w d0) (map_snd (tsimplify_pv pk w) ds)
  | BNode k hi lo => mk_bnode k (tsimplify_pv pk w hi) (tsimplify_pv pk w lo)
  end.
Proof. destruct t; cbn [tsimplify_pv]; rewrite ?mapfix_eq; reflexivity. Qed.

Lemma tcomplexify_eq (pk : var) (w : window) (t : dd) : tcomplexify_pv pk w t =
  match t with
  | Leaf true => window_node pk w
  | Leaf false => t
  | RNode k d0 ds =>
      match cmp k pk with
      | Eq => let (d0', ds') := clip_window w d0 ds in mk_rnode k d0' ds'
      | Gt => tand t (window_node pk w)
      | Lt => mk_rnode k (tcomplexify_pv pk w d0) (map_snd (tcomplexify_pv pk w) ds)
      end
  | BNode k hi lo =>
      match cmp k pk with
      | Gt => tand t (window_node pk w)
      | _ => mk_bnode k (tcomplexify_pv pk w hi) (tcomplexify_pv pk w lo)
      end
  end.
Proof. destruct t as [[|]| |]; cbn [tcomplexify_pv]; rewrite ?mapfix_eq; reflexivity. Qed.

(** simplify: inside the window nothing changes *)
Theorem simplify_sem (pk : var) (w : window) : forall t : dd, ok is_range t ->
  ok is_range (tsimplify_pv pk w t) /\
  forall r : valuation, in_win w (rv r pk) = true -> eval r (tsimplify_pv pk w t) = eval r t.
Proof.
  induction t as [b|k d0 ds IH0 IHl|k hi lo IHh IHl] using dd_ind2; intros O; rewrite tsimplify_eq.
  - split; auto.
  - apply ok_rnode in O as (R & S & O0 & Oa). rewrite Forall_forall in IHl, Oa.
    destruct (eqb_of k pk) eqn:E.
    + apply (proj1 (eqb_of_spec k pk)) in E; subst k.
      destruct (restrict_window_spec w d0 ds S) as (S1 & L1 & I1 & C1 & _).
      destruct (restrict_window w d0 ds) as [d0' ds'] eqn:Er. cbn [fst snd] in *.
      assert (forall d, In d (map snd ds') -> In d (map snd ds)) as Hin.
      { intros d I. apply in_map_iff in I as ([c d'] & <- & I). apply in_map_iff. exists (c, d'). split; auto. }
      split.
      * apply ok_mk_rnode; auto.
        -- eapply sorted_none; eauto.
        -- destruct I1 as [-> | I]; auto.
        -- apply Forall_forall. intros d I. auto.
      * intros r X. rewrite eval_mk_rnode by (eapply sorted_none; eauto). rewrite !eval_rnode. now rewrite L1.
    + assert (sorted_from None (map_snd (tsimplify_pv pk w) ds)) as S' by (now apply sorted_map_snd_iff).
      split.
      * apply ok_mk_rnode; auto. -- now apply IH0.
        -- rewrite map_snd_children, Forall_map, Forall_forall. intros d I. now apply IHl; auto.
      * intros r X. rewrite eval_mk_rnode by exact S'. rewrite !eval_rnode, lookup_map_snd.
        destruct (lookup_in (rv r k) ds d0) as [-> | I]; [now apply IH0|]. apply IHl; auto.
  - apply ok_bnode in O as (R & Oh & Ol). destruct (IHh Oh) as [Oh' Eh], (IHl Ol) as [Ol' El]. split.
    + now apply ok_mk_bnode.
    + intros r X. rewrite eval_mk_bnode. cbn [eval]. rewrite Eh, El by exact X. reflexivity.
Qed.

(** complexify: the marker AND the window *)
Theorem complexify_sem (pk : var) (w : window) : is_range pk = true -> window_empty w = false ->
  forall t : dd, ok is_range t ->
  ok is_range (tcomplexify_pv pk w t) /\
  forall r : valuation, eval r (tcomplexify_pv pk w t) = eval r t && in_win w (rv r pk).
Proof.
  intros Rp NE.
  induction t as [b|k d0 ds IH0 IHl|k hi lo IHh IHl] using dd_ind2; intros O; rewrite tcomplexify_eq.
  - destruct b.
    + split; [now apply window_node_ok|]. intros r. now rewrite eval_window_node.
    + split; auto.
  - pose proof O as O'. apply ok_rnode in O' as (R & S & O0 & Oa). rewrite Forall_forall in IHl, Oa.
    destruct (cmp k pk) eqn:C.
    + apply cmp_eq in C; subst k.
      destruct (clip_window_spec w d0 ds S NE) as (S1 & L1 & C1).
      destruct (clip_window w d0 ds) as [d0' ds'] eqn:Ec. cbn [fst snd] in *.
      assert (forall d, d = d0' \/ In d (map snd ds') -> ok is_range d) as Hok.
      { intros d Hd. destruct (C1 d Hd) as [-> | [-> | I]]; auto. apply ok_leaf. }
      split.
      * apply ok_mk_rnode; auto. apply Forall_forall. intros d I. auto.
      * intros r. rewrite eval_mk_rnode by exact S1. rewrite !eval_rnode, L1.
        destruct (in_win w (rv r pk)); [now rewrite andb_true_r|now rewrite andb_false_r].
    + assert (sorted_from None (map_snd (tcomplexify_pv pk w) ds)) as S' by (now apply sorted_map_snd_iff).
      split.
      * apply ok_mk_rnode; auto. -- now apply IH0.
        -- rewrite map_snd_children, Forall_map, Forall_forall. intros d I. now apply IHl; auto.
      * intros r. rewrite eval_mk_rnode by exact S'. rewrite !eval_rnode, lookup_map_snd.
        destruct (lookup_in (rv r k) ds d0) as [-> | I]; [now apply IH0|]. apply IHl; auto.
    + pose proof (window_node_ok pk w Rp NE) as Ow. split.
      * now apply tand_ok.
      * intros r. destruct O as [So To], Ow as [Sw Tw]. rewrite (tand_sem is_range _ So To _ Sw Tw), eval_window_node by exact NE. reflexivity.
  - pose proof O as O'. apply ok_bnode in O' as (R & Oh & Ol). destruct (IHh Oh) as [Oh' Eh], (IHl Ol) as [Ol' El].
    assert (ok is_range (mk_bnode k (tcomplexify_pv pk w hi) (tcomplexify_pv pk w lo)) /\
            forall r : valuation, eval r (mk_bnode k (tcomplexify_pv pk w hi) (tcomplexify_pv pk w lo)) = eval r (BNode k hi lo) && in_win w (rv r pk)) as Rec.
    { split; [now apply ok_mk_bnode|]. intros r. rewrite eval_mk_bnode. cbn [eval]. rewrite Eh, El. now destruct (bv r k). }
    destruct (cmp k pk); auto.
    pose proof (window_node_ok pk w Rp NE) as Ow. split.
    + now apply tand_ok.
    + intros r. destruct O as [So To], Ow as [Sw Tw]. rewrite (tand_sem is_range _ So To _ Sw Tw), eval_window_node by exact NE. reflexivity.
Qed.

(** ** canonical form is preserved *)
Theorem simplify_wf (pk : var) (w : window) : forall t : dd, wf t ->
  wf (tsimplify_pv pk w t) /\ forall k', above_p k' t -> above_p k' (tsimplify_pv pk w t).
Proof.
  induction t as [b|k d0 ds IH0 IHl|k hi lo IHh IHl] using dd_ind2; intros W; rewrite tsimplify_eq.
  - split; auto.
  - pose proof (wf_children_rnode _ _ _ _ W) as (R & S & [W0 A0] & F). rewrite Forall_forall in IHl, F.
    destruct (eqb_of k pk) eqn:E.
    + destruct (restrict_window_spec w d0 ds S) as (S1 & L1 & I1 & C1 & _).
      destruct (restrict_window w d0 ds) as [d0' ds'] eqn:Er. cbn [fst snd] in *.
      assert (forall d, In d (map snd ds') -> In d (map snd ds)) as Hin.
      { intros d Id. apply in_map_iff in Id as ([c d'] & <- & Id). apply in_map_iff. exists (c, d'). split; auto. }
      assert (wfa k d0') as O0 by (destruct I1 as [-> | Id]; [split; auto|apply F; auto]).
      assert (Forall (wfa k) (map snd ds')) as F' by (apply Forall_forall; intros d Id; apply F; auto).
      destruct (wf_mk_rnode is_range k d0' ds' R (sorted_none _ _ S1) O0 F') as [W' A'].
      split; [exact W'|]. intros k' Ak. apply A'. exact Ak.
    + assert (sorted_from None (map_snd (tsimplify_pv pk w) ds)) as S' by (now apply sorted_map_snd_iff).
      assert (wfa k (tsimplify_pv pk w d0)) as O0 by (destruct (IH0 W0); split; auto).
      assert (Forall (wfa k) (map snd (map_snd (tsimplify_pv pk w) ds))) as F'.
      { apply wfa_map_children. intros d Id. destruct (F d Id) as [Wd Ad]. destruct (IHl d Id Wd). split; auto. }
      destruct (wf_mk_rnode is_range k _ _ R S' O0 F') as [W' A'].
      split; [exact W'|]. intros k' Ak. apply A'. exact Ak.
  - pose proof (wf_children_bnode _ _ _ _ W) as (R & [Wh Ah] & [Wl Al]).
    destruct (IHh Wh) as [Wh' Ah'], (IHl Wl) as [Wl' Al'].
    destruct (wf_mk_bnode is_range k _ _ R (conj Wh' (Ah' k Ah)) (conj Wl' (Al' k Al))) as [W' A'].
    split; [exact W'|]. intros k' Ak. apply A'. exact Ak.
Qed.

Theorem complexify_wf (pk : var) (w : window) : is_range pk = true -> window_empty w = false ->
  forall t : dd, wf t ->
  wf (tcomplexify_pv pk w t) /\ forall k', above_p k' t -> cmp k' pk = Lt -> above_p k' (tcomplexify_pv pk w t).
Proof.
  intros Rp NE. destruct (window_node_wf pk w Rp NE) as [Ww Aw].
  induction t as [b|k d0 ds IH0 IHl|k hi lo IHh IHl] using dd_ind2; intros W; rewrite tcomplexify_eq.
  - destruct b; [split; auto|split; auto].
  - pose proof (wf_children_rnode _ _ _ _ W) as (R & S & [W0 A0] & F). rewrite Forall_forall in IHl, F.
    destruct (cmp k pk) eqn:C.
    + destruct (clip_window_spec w d0 ds S NE) as (S1 & L1 & C1).
      destruct (clip_window w d0 ds) as [d0' ds'] eqn:Ec. cbn [fst snd] in *.
      assert (forall d, d = d0' \/ In d (map snd ds') -> wfa k d) as Hw.
      { intros d Hd. destruct (C1 d Hd) as [-> | [-> | Id]]; [split; [constructor|exact I]|split; auto|apply F; auto]. }
      assert (Forall (wfa k) (map snd ds')) as F' by (apply Forall_forall; intros d Id; apply Hw; auto).
      destruct (wf_mk_rnode is_range k d0' ds' R S1 (Hw d0' (or_introl eq_refl)) F') as [W' A'].
      split; [exact W'|]. intros k' Ak _. apply A'. exact Ak.
    + assert (sorted_from None (map_snd (tcomplexify_pv pk w) ds)) as S' by (now apply sorted_map_snd_iff).
      assert (wfa k (tcomplexify_pv pk w d0)) as O0 by (destruct (IH0 W0) as [W' A']; split; auto).
      assert (Forall (wfa k) (map snd (map_snd (tcomplexify_pv pk w) ds))) as F'.
      { apply wfa_map_children. intros d Id. destruct (F d Id) as [Wd Ad]. destruct (IHl d Id Wd) as [W' A']. split; auto. }
      destruct (wf_mk_rnode is_range k _ _ R S' O0 F') as [W' A'].
      split; [exact W'|]. intros k' Ak _. apply A'. exact Ak.
    + destruct (tand_wf is_range _ W _ Ww) as [W' A']. split; [exact W'|]. intros k' Ak Lk. apply A'; auto.
  - pose proof (wf_children_bnode _ _ _ _ W) as (R & [Wh Ah] & [Wl Al]).
    destruct (cmp k pk) eqn:C.
    + apply cmp_eq in C; subst k. congruence.
    + destruct (IHh Wh) as [Wh' Ah'], (IHl Wl) as [Wl' Al'].
      destruct (wf_mk_bnode is_range k _ _ R (conj Wh' (Ah' k Ah C)) (conj Wl' (Al' k Al C))) as [W' A'].
      split; [exact W'|]. intros k' Ak _. apply A'. exact Ak.
    + destruct (tand_wf is_range _ W _ Ww) as [W' A']. split; [exact W'|]. intros k' Ak Lk. apply A'; auto.
Qed.

(** complexify is the conjunction with the window, as the identical canonical diagram *)
Variable vok : var -> val -> bool.
Variable dflt : var -> val.
Hypothesis dflt_ok : forall k, is_range k = true -> vok k (dflt k) = true.

Theorem complexify_eq_and (pk : var) (w : window) (t : dd) : is_range pk = true -> window_empty w = false -> wf t ->
  dense_pair is_range vok (tcomplexify_pv pk w t) (tand t (window_node pk w)) ->
  tcomplexify_pv pk w t = tand t (window_node pk w).
Proof.
  intros Rp NE W D.
  destruct (complexify_wf pk w Rp NE t W) as [Wc _].
  destruct (window_node_wf pk w Rp NE) as [Ww _].
  destruct (tand_wf is_range t W _ Ww) as [Wa _].
  apply (canon_complete is_range vok dflt dflt_ok); auto.
  intros r _.
  pose proof (wf_ok is_range t W) as Ot. pose proof (wf_ok is_range _ Ww) as Ow.
  destruct (complexify_sem pk w Rp NE t Ot) as [_ Ec]. rewrite Ec.
  destruct Ot as [St Tt], Ow as [Sw Tw]. rewrite (tand_sem is_range t St Tt _ Sw Tw), eval_window_node by exact NE. reflexivity.
Qed.

(** composition laws, semantically: inside the window simplify and complexify cancel *)
Theorem simplify_complexify_sem (pk : var) (w : window) (t : dd) (r : valuation) :
  is_range pk = true -> window_empty w = false -> ok is_range t -> in_win w (rv r pk) = true ->
  eval r (tsimplify_pv pk w (tcomplexify_pv pk w t)) = eval r (tsimplify_pv pk w t).
Proof.
  intros Rp NE O X.
  destruct (complexify_sem pk w Rp NE t O) as [Oc Ec].
  destruct (simplify_sem pk w _ Oc) as [_ Es]. destruct (simplify_sem pk w t O) as [_ Es'].
  rewrite Es, Ec, Es', X by exact X. now rewrite andb_true_r.
Qed.

Theorem complexify_simplify_sem (pk : var) (w : window) (t : dd) (r : valuation) :
  is_range pk = true -> window_empty w = false -> ok is_range t ->
  eval r (tcomplexify_pv pk w (tsimplify_pv pk w t)) = eval r (tcomplexify_pv pk w t).
Proof.
  intros Rp NE O.
  destruct (simplify_sem pk w t O) as [Os Es].
  destruct (complexify_sem pk w Rp NE _ Os) as [_ Ec]. destruct (complexify_sem pk w Rp NE t O) as [_ Ec'].
  rewrite Ec, Ec'. destruct (in_win w (rv r pk)) eqn:X; [now rewrite Es by exact X|now rewrite !andb_false_r].
Qed.
End DD.
