(** C03: canonicity.  Two well-formed diagrams that denote the same function of the diagram
    variables are the same diagram, provided the admissible values of each range variable are
    dense relative to the cuts that occur in the two diagrams. *)
From Coq Require Import List Bool Arith Lia.
From PV Require Import Base.Order Base.CutDef Base.CutLemmas DD.DDModel DD.DDBasics DD.DDAnd DD.DDWf DD.DDWfOps.
Import ListNotations.

Section DD.
Context {var val : Type} `{TotalOrder var} `{TotalOrder val}.
Notation cutV := (cut val).
Notation dd := (dd var val).
Notation valuation := (valuation var val).
Variable is_range : var -> bool.
Variable vok : var -> val -> bool.          (* admissible values of a range variable *)
Variable dflt : var -> val.
Hypothesis dflt_ok : forall k, is_range k = true -> vok k (dflt k) = true.
Notation wf := (wf is_range).
Notation wfa := (wfa is_range).

Definition tval (r : valuation) : Prop := forall k, is_range k = true -> vok k (rv r k) = true.

Definition upd_r (r : valuation) (k : var) (x : val) : valuation :=
  {| rv := fun k' => if eqb_of k' k then x else rv r k'; bv := bv r |}.
Definition upd_b (r : valuation) (k : var) (b : bool) : valuation :=
  {| rv := rv r; bv := fun k' => if eqb_of k' k then b else bv r k' |}.

Lemma tval_upd_r r k x : tval r -> vok k x = true -> tval (upd_r r k x).
Proof.
  intros Tr Tx k' R. cbn. destruct (eqb_of k' k) eqn:E; [apply (proj1 (eqb_of_spec k' k)) in E; subst; exact Tx|now apply Tr].
Qed.
Lemma tval_upd_b r k b : tval r -> tval (upd_b r k b).
Proof. intros Tr k' R. exact (Tr k' R). Qed.

Definition r0 : valuation := {| rv := dflt; bv := fun _ => false |}.
Lemma tval_r0 : tval r0.
Proof. intros k R. now apply dflt_ok. Qed.

Lemma eqb_of_refl {A} `{TotalOrder A} (k : A) : eqb_of k k = true.
Proof. now apply eqb_of_spec. Qed.
Lemma eqb_of_lt {A} `{TotalOrder A} (k k' : A) : cmp k k' = Lt -> eqb_of k' k = false.
Proof.
  intros L. destruct (eqb_of k' k) eqn:E; auto. apply (proj1 (eqb_of_spec k' k)) in E; subst. rewrite cmp_refl in L. discriminate.
Qed.

(** a diagram all of whose variables come after [k] does not depend on [k] *)
Definition indep (k : var) (s : dd) : Prop :=
  (forall r x, eval (upd_r r k x) s = eval r s) /\ (forall r b, eval (upd_b r k b) s = eval r s).

Lemma indep_above : forall s : dd, wf s -> forall k, above_p k s -> indep k s.
Proof.
  induction s as [b|k' d0 ds IH0 IHl|k' hi lo IHh IHl] using dd_ind2; intros W k A.
  - split; reflexivity.
  - apply wf_children_rnode in W as (R & S & [W0 A0] & F). change (cmp k k' = Lt) in A.
    rewrite Forall_forall in IHl, F.
    assert (forall d, d = d0 \/ In d (map snd ds) -> indep k d) as Hd.
    { intros d [-> | I].
      - apply IH0; auto. eapply above_trans; eauto.
      - destruct (F d I) as [Wd Ad]. apply IHl; auto. eapply above_trans; eauto. }
    split.
    + intros r x. rewrite !eval_rnode. cbn [rv upd_r]. rewrite (eqb_of_lt k k' A).
      apply Hd. destruct (lookup_in (rv r k') ds d0); auto.
    + intros r b. rewrite !eval_rnode. cbn [rv upd_b].
      apply Hd. destruct (lookup_in (rv r k') ds d0); auto.
  - apply wf_children_bnode in W as (R & [Wh Ah] & [Wl Al]). change (cmp k k' = Lt) in A.
    assert (indep k hi) as [Ih1 Ih2] by (apply IHh; auto; eapply above_trans; eauto).
    assert (indep k lo) as [Il1 Il2] by (apply IHl; auto; eapply above_trans; eauto).
    split.
    + intros r x. cbn [eval bv upd_r]. destruct (bv r k'); auto.
    + intros r b. cbn [eval bv upd_b]. rewrite (eqb_of_lt k k' A). destruct (bv r k'); auto.
Qed.

(** all cuts used for variable [k] anywhere in a diagram *)
Fixpoint all_cuts (k : var) (t : dd) : list cutV :=
  match t with
  | Leaf _ => []
  | RNode k' d0 ds =>
      (if eqb_of k k' then map fst ds else []) ++ all_cuts k d0 ++
      (fix go (l : list (cutV * dd)) := match l with [] => [] | (_, d) :: l' => all_cuts k d ++ go l' end) ds
  | BNode _ hi lo => all_cuts k hi ++ all_cuts k lo
  end.

Lemma all_cuts_child k k' d0 (ds : list (cutV * dd)) d :
  d = d0 \/ In d (map snd ds) -> incl (all_cuts k d) (all_cuts k (RNode k' d0 ds)).
Proof.
  intros Hd. cbn [all_cuts]. apply incl_appr.
  destruct Hd as [-> | I]; [apply incl_appl, incl_refl|]. apply incl_appr.
  induction ds as [|[c d'] ds IH]; [contradiction|]. cbn in I. destruct I as [<- | I].
  - apply incl_appl, incl_refl. - apply incl_appr, IH, I.
Qed.

Lemma all_cuts_own k d0 (ds : list (cutV * dd)) : incl (map fst ds) (all_cuts k (RNode k d0 ds)).
Proof. cbn [all_cuts]. rewrite eqb_of_refl. apply incl_appl, incl_refl. Qed.

Definition T (k : var) (x : val) : Prop := vok k x = true.

Definition dense_pair (a b : dd) : Prop :=
  forall k, is_range k = true -> dense_on (T k) (all_cuts k a ++ all_cuts k b).

Lemma dense_on_incl (P : val -> Prop) (C C' : list cutV) : incl C' C -> dense_on P C -> dense_on P C'.
Proof.
  intros I D. constructor.
  - intros c c' Hc Hc'. apply (d_between _ _ D); auto.
  - intros c Hc. apply (d_below _ _ D); auto.
  - intros c Hc. apply (d_above _ _ D); auto.
  - apply (d_some _ _ D).
Qed.

Lemma dense_pair_incl (a b a' b' : dd) :
  (forall k, incl (all_cuts k a') (all_cuts k a ++ all_cuts k b)) ->
  (forall k, incl (all_cuts k b') (all_cuts k a ++ all_cuts k b)) ->
  dense_pair a b -> dense_pair a' b'.
Proof.
  intros Ia Ib D k R. eapply dense_on_incl; [|apply D; exact R].
  apply incl_app; auto.
Qed.

Fixpoint depth (t : dd) : nat :=
  match t with
  | Leaf _ => 0
  | RNode _ d0 ds => S (Nat.max (depth d0) ((fix go (l : list (cutV * dd)) := match l with [] => 0 | (_, d) :: l' => Nat.max (depth d) (go l') end) ds))
  | BNode _ hi lo => S (Nat.max (depth hi) (depth lo))
  end.

Lemma depth_child k d0 (ds : list (cutV * dd)) d : d = d0 \/ In d (map snd ds) -> depth d < depth (RNode k d0 ds).
Proof.
  intros Hd. cbn [depth]. destruct Hd as [-> | I]; [lia|].
  assert (depth d <= (fix go (l : list (cutV * dd)) := match l with [] => 0 | (_, d) :: l' => Nat.max (depth d) (go l') end) ds); [|lia].
  induction ds as [|[c d'] ds IH]; [contradiction|]. cbn in I. destruct I as [<- | I]; [lia|]. specialize (IH I). lia.
Qed.

(** semantic equality on admissible valuations *)
Definition sem_eq (u v : dd) : Prop := forall r, tval r -> eval r u = eval r v.

Lemma sem_eq_sym u v : sem_eq u v -> sem_eq v u.
Proof. intros E r Tr. symmetry. auto. Qed.
Lemma sem_eq_trans u v w : sem_eq u v -> sem_eq v w -> sem_eq u w.
Proof. intros E1 E2 r Tr. rewrite E1; auto. Qed.

(** the root of a well-formed diagram is needed: it is not equivalent to anything independent of its variable *)
Section Step.
Variable n : nat.
Hypothesis IH : forall u v : dd, depth u <= n -> depth v <= n -> wf u -> wf v -> dense_pair u v -> sem_eq u v -> u = v.

Lemma root_needed_r k d0 (ds : list (cutV * dd)) (s : dd) :
  depth (RNode k d0 ds) <= S n -> wf (RNode k d0 ds) ->
  dense_on (T k) (map fst ds) ->
  (forall u v, (u = d0 \/ In u (map snd ds)) -> (v = d0 \/ In v (map snd ds)) -> dense_pair u v) ->
  indep k s -> sem_eq (RNode k d0 ds) s -> False.
Proof.
  intros Dp W Dk Dch [Is _] E.
  pose proof (wf_children_rnode _ _ _ _ W) as (R & S & [W0 A0] & F).
  assert (forall x, T k x -> sem_eq (lookup_from x d0 ds) s) as Hx.
  { intros x Tx r Tr.
    assert (indep k (lookup_from x d0 ds)) as [Il _].
    { destruct (lookup_in x ds d0) as [-> | I]; [apply indep_above; auto|].
      rewrite Forall_forall in F. destruct (F _ I). apply indep_above; auto. }
    rewrite <- (Il r x), <- (Is r x).
    rewrite <- (E (upd_r r k x)) by (apply tval_upd_r; auto).
    rewrite eval_rnode. cbn [rv upd_r]. now rewrite eqb_of_refl. }
  set (P := fun d : dd => (d = d0 \/ In d (map snd ds))).
  assert (forall u v, P u -> P v -> sem_eq u v -> u = v) as Einj.
  { intros u v Pu Pv Euv.
    assert (forall d, P d -> depth d <= n /\ wf d) as Hd.
    { intros d Pd. split; [pose proof (depth_child k d0 ds d Pd); lia|].
      destruct Pd as [-> | I]; auto. rewrite Forall_forall in F. now destruct (F _ I). }
    destruct (Hd u Pu), (Hd v Pv). apply IH; auto. }
  assert (ds <> []) as Nn by (inversion W; auto).
  assert (reduced d0 ds) as Rd by (inversion W; auto).
  assert (sem_eq d0 s) as E0.
  { destruct ds as [|[c1 d1] ds']; [contradiction|].
    destruct (d_below _ _ Dk c1 (or_introl eq_refl)) as [y [Ty Ly]].
    intros r Tr. specialize (Hx y Ty r Tr). cbn [lookup_from] in Hx. now rewrite Ly in Hx. }
  assert (allP P ds) as AP by (apply allP_in; intros d I; right; exact I).
  destruct (canon_part sem_eq P (T k) Einj (map fst ds) Dk ds d0 [] d0 None) as [_ Hnil]; auto.
  - apply incl_refl.
  - intros x I. contradiction.
  - exact I.
  - exact I.
  - left; reflexivity.
  - left; reflexivity.
  - exact I.
  - intros x Tx _. cbn [lookup_from]. eapply sem_eq_trans; [apply Hx; auto|]. now apply sem_eq_sym.
Qed.

Lemma root_needed_b k (hi lo s : dd) :
  depth (BNode k hi lo) <= S n -> wf (BNode k hi lo) -> dense_pair hi lo ->
  indep k s -> sem_eq (BNode k hi lo) s -> False.
Proof.
  intros Dp W D [_ Is] E.
  pose proof (wf_children_bnode _ _ _ _ W) as (R & [Wh Ah] & [Wl Al]).
  assert (indep k hi) as [_ Ih] by (apply indep_above; auto).
  assert (indep k lo) as [_ Il] by (apply indep_above; auto).
  assert (sem_eq hi s) as Eh.
  { intros r Tr. rewrite <- (Ih r true), <- (Is r true).
    rewrite <- (E (upd_b r k true)) by (now apply tval_upd_b). cbn [eval bv upd_b]. now rewrite eqb_of_refl. }
  assert (sem_eq lo s) as El.
  { intros r Tr. rewrite <- (Il r false), <- (Is r false).
    rewrite <- (E (upd_b r k false)) by (now apply tval_upd_b). cbn [eval bv upd_b]. now rewrite eqb_of_refl. }
  cbn [depth] in Dp.
  assert (hi = lo) as Heq.
  { apply IH; auto; try lia. eapply sem_eq_trans; [exact Eh|now apply sem_eq_sym]. }
  inversion W; subst. contradiction.
Qed.

Lemma indep_leaf k b : indep k (Leaf b).
Proof. split; reflexivity. Qed.

(** density for sub-diagrams *)
Lemma dense_children_r k d0 (ds : list (cutV * dd)) (b : dd) :
  dense_pair (RNode k d0 ds) b ->
  forall u v, (u = d0 \/ In u (map snd ds)) -> (v = d0 \/ In v (map snd ds)) -> dense_pair u v.
Proof.
  intros D u v Hu Hv. eapply dense_pair_incl; [| |exact D]; intros k'; apply incl_appl; now apply all_cuts_child.
Qed.

Lemma dense_own_r k d0 (ds : list (cutV * dd)) (b : dd) :
  is_range k = true -> dense_pair (RNode k d0 ds) b -> dense_on (T k) (map fst ds).
Proof. intros R D. eapply dense_on_incl; [|apply D; exact R]. apply incl_appl, all_cuts_own. Qed.

Lemma dense_children_b k (hi lo b : dd) : dense_pair (BNode k hi lo) b -> dense_pair hi lo.
Proof.
  intros D. eapply dense_pair_incl; [| |exact D]; intros k'; apply incl_appl; cbn [all_cuts]; [apply incl_appl|apply incl_appr]; apply incl_refl.
Qed.

Lemma dense_pair_sym (a b : dd) : dense_pair a b -> dense_pair b a.
Proof.
  intros D k R. eapply dense_on_incl; [|apply D; exact R].
  intros x I. apply in_app_or in I. apply in_or_app. tauto.
Qed.

Lemma canon_step (a b : dd) :
  depth a <= S n -> depth b <= S n -> wf a -> wf b -> dense_pair a b -> sem_eq a b -> a = b.
Proof.
  intros Da Db Wa Wb D E.
  pose proof (dense_pair_sym _ _ D) as D'. pose proof (sem_eq_sym _ _ E) as E'.
  destruct a as [x|ka a0 la|ka ha la]; destruct b as [y|kb b0 lb|kb hb lb].
  - specialize (E r0 tval_r0). cbn in E. now subst.
  - exfalso. pose proof (wf_children_rnode _ _ _ _ Wb) as (Rb & _).
    exact (root_needed_r kb b0 lb (Leaf x) Db Wb (dense_own_r _ _ _ _ Rb D') (dense_children_r _ _ _ _ D') (indep_leaf _ _) E').
  - exfalso. exact (root_needed_b kb hb lb (Leaf x) Db Wb (dense_children_b _ _ _ _ D') (indep_leaf _ _) E').
  - exfalso. pose proof (wf_children_rnode _ _ _ _ Wa) as (Ra & _).
    exact (root_needed_r ka a0 la (Leaf y) Da Wa (dense_own_r _ _ _ _ Ra D) (dense_children_r _ _ _ _ D) (indep_leaf _ _) E).
  - (* RNode / RNode *)
    pose proof (wf_children_rnode _ _ _ _ Wa) as (Ra & Sa & [Wa0 Aa0] & Fa).
    pose proof (wf_children_rnode _ _ _ _ Wb) as (Rb & Sb & [Wb0 Ab0] & Fb).
    destruct (cmp ka kb) eqn:C.
    + apply cmp_eq in C; subst kb.
      set (P := fun d : dd => wfa ka d /\ depth d <= n /\
                 (forall k', incl (all_cuts k' d) (all_cuts k' (RNode ka a0 la) ++ all_cuts k' (RNode ka b0 lb)))).
      assert (forall u v, P u -> P v -> sem_eq u v -> u = v) as Einj.
      { intros u v ([Wu _] & Du & Iu) ([Wv _] & Dv & Iv) Euv. apply IH; auto. eapply dense_pair_incl; eauto. }
      assert (forall d, d = a0 \/ In d (map snd la) -> P d) as Pa.
      { intros d Hd. repeat split.
        - destruct Hd as [-> | I]; auto. rewrite Forall_forall in Fa. now destruct (Fa _ I).
        - destruct Hd as [-> | I]; auto. rewrite Forall_forall in Fa. now destruct (Fa _ I).
        - pose proof (depth_child ka a0 la d Hd). lia.
        - intros k'. apply incl_appl. now apply all_cuts_child. }
      assert (forall d, d = b0 \/ In d (map snd lb) -> P d) as Pb.
      { intros d Hd. repeat split.
        - destruct Hd as [-> | I]; auto. rewrite Forall_forall in Fb. now destruct (Fb _ I).
        - destruct Hd as [-> | I]; auto. rewrite Forall_forall in Fb. now destruct (Fb _ I).
        - pose proof (depth_child ka b0 lb d Hd). lia.
        - intros k'. apply incl_appr. now apply all_cuts_child. }
      assert (forall x, T ka x -> sem_eq (lookup_from x a0 la) (lookup_from x b0 lb)) as Hsem.
      { intros x Tx r Tr.
        assert (indep ka (lookup_from x a0 la)) as [Ia _].
        { destruct (Pa (lookup_from x a0 la)) as ([Wd Ad] & _); [destruct (lookup_in x la a0); auto|]. apply indep_above; auto. }
        assert (indep ka (lookup_from x b0 lb)) as [Ib _].
        { destruct (Pb (lookup_from x b0 lb)) as ([Wd Ad] & _); [destruct (lookup_in x lb b0); auto|]. apply indep_above; auto. }
        rewrite <- (Ia r x), <- (Ib r x).
        pose proof (E (upd_r r ka x) (tval_upd_r r ka x Tr Tx)) as Ex.
        rewrite !eval_rnode in Ex. cbn [rv upd_r] in Ex. now rewrite eqb_of_refl in Ex. }
      assert (reduced a0 la) as Rda by (inversion Wa; auto).
      assert (reduced b0 lb) as Rdb by (inversion Wb; auto).
      destruct (canon_part sem_eq P (T ka) Einj (all_cuts ka (RNode ka a0 la) ++ all_cuts ka (RNode ka b0 lb)) (D ka Ra)
                  la a0 lb b0 None
                  (incl_appl _ (all_cuts_own ka a0 la)) (incl_appr _ (all_cuts_own ka b0 lb)) I Sa Sb Rda Rdb
                  (Pa a0 (or_introl eq_refl)) (Pb b0 (or_introl eq_refl))
                  (allP_in P la (fun d Id => Pa d (or_intror Id))) (allP_in P lb (fun d Id => Pb d (or_intror Id)))
                  (fun x Tx _ => Hsem x Tx)) as [-> ->].
      reflexivity.
    + exfalso.
      exact (root_needed_r ka a0 la _ Da Wa (dense_own_r _ _ _ _ Ra D) (dense_children_r _ _ _ _ D) (indep_above _ Wb ka C) E).
    + exfalso. apply cmp_gt_lt in C.
      exact (root_needed_r kb b0 lb _ Db Wb (dense_own_r _ _ _ _ Rb D') (dense_children_r _ _ _ _ D') (indep_above _ Wa kb C) E').
  - (* RNode / BNode *)
    pose proof (wf_children_rnode _ _ _ _ Wa) as (Ra & _).
    pose proof (wf_children_bnode _ _ _ _ Wb) as (Rb & _).
    exfalso. destruct (cmp ka kb) eqn:C.
    + apply cmp_eq in C; subst kb. congruence.
    + exact (root_needed_r ka a0 la _ Da Wa (dense_own_r _ _ _ _ Ra D) (dense_children_r _ _ _ _ D) (indep_above _ Wb ka C) E).
    + apply cmp_gt_lt in C.
      exact (root_needed_b kb hb lb _ Db Wb (dense_children_b _ _ _ _ D') (indep_above _ Wa kb C) E').
  - exfalso. exact (root_needed_b ka ha la (Leaf y) Da Wa (dense_children_b _ _ _ _ D) (indep_leaf _ _) E).
  - (* BNode / RNode *)
    pose proof (wf_children_bnode _ _ _ _ Wa) as (Ra & _).
    pose proof (wf_children_rnode _ _ _ _ Wb) as (Rb & _).
    exfalso. destruct (cmp ka kb) eqn:C.
    + apply cmp_eq in C; subst kb. congruence.
    + exact (root_needed_b ka ha la _ Da Wa (dense_children_b _ _ _ _ D) (indep_above _ Wb ka C) E).
    + apply cmp_gt_lt in C.
      exact (root_needed_r kb b0 lb _ Db Wb (dense_own_r _ _ _ _ Rb D') (dense_children_r _ _ _ _ D') (indep_above _ Wa kb C) E').
  - (* BNode / BNode *)
    pose proof (wf_children_bnode _ _ _ _ Wa) as (Ra & [Wah Aah] & [Wal Aal]).
    pose proof (wf_children_bnode _ _ _ _ Wb) as (Rb & [Wbh Abh] & [Wbl Abl]).
    destruct (cmp ka kb) eqn:C.
    + apply cmp_eq in C; subst kb. cbn [depth] in Da, Db.
      assert (indep ka ha /\ indep ka la /\ indep ka hb /\ indep ka lb) as ([_ I1] & [_ I2] & [_ I3] & [_ I4])
        by (repeat split; apply indep_above; auto).
      assert (ha = hb) as ->.
      { apply IH; auto; try lia.
        - eapply dense_pair_incl; [| |exact D]; intros k'; [apply incl_appl|apply incl_appr]; cbn [all_cuts]; apply incl_appl, incl_refl.
        - intros r Tr. rewrite <- (I1 r true), <- (I3 r true).
          pose proof (E (upd_b r ka true) (tval_upd_b r ka true Tr)) as Ex. cbn [eval bv upd_b] in Ex. now rewrite eqb_of_refl in Ex. }
      assert (la = lb) as ->.
      { apply IH; auto; try lia.
        - eapply dense_pair_incl; [| |exact D]; intros k'; [apply incl_appl|apply incl_appr]; cbn [all_cuts]; apply incl_appr, incl_refl.
        - intros r Tr. rewrite <- (I2 r false), <- (I4 r false).
          pose proof (E (upd_b r ka false) (tval_upd_b r ka false Tr)) as Ex. cbn [eval bv upd_b] in Ex. now rewrite eqb_of_refl in Ex. }
      reflexivity.
    + exfalso. exact (root_needed_b ka ha la _ Da Wa (dense_children_b _ _ _ _ D) (indep_above _ Wb ka C) E).
    + exfalso. apply cmp_gt_lt in C.
      exact (root_needed_b kb hb lb _ Db Wb (dense_children_b _ _ _ _ D') (indep_above _ Wa kb C) E').
Qed.
End Step.

Theorem canon_complete : forall a b : dd, wf a -> wf b -> dense_pair a b -> sem_eq a b -> a = b.
Proof.
  assert (forall n (a b : dd), depth a <= n -> depth b <= n -> wf a -> wf b -> dense_pair a b -> sem_eq a b -> a = b) as G.
  { induction n as [|n IHn]; intros a b Da Db Wa Wb D E.
    - destruct a, b; cbn in Da, Db; try lia. specialize (E r0 tval_r0). cbn in E. now subst.
    - apply (canon_step n IHn); auto. }
  intros a b. apply (G (Nat.max (depth a) (depth b))); lia.
Qed.

(** consequently the constants are recognised exactly *)
Corollary is_true_complete (a : dd) : wf a -> dense_pair a (Leaf true) -> (forall r, tval r -> eval r a = true) -> a = Leaf true.
Proof. intros W D E. apply canon_complete; auto. constructor. Qed.
Corollary is_false_complete (a : dd) : wf a -> dense_pair a (Leaf false) -> (forall r, tval r -> eval r a = false) -> a = Leaf false.
Proof. intros W D E. apply canon_complete; auto. constructor. Qed.
End DD.
