(** L1: the decision diagram as a tree (what the public [kind()] walk shows: complemented edges
    already applied), and the operations of src/marker/algebra.rs on it.  Definitions only.

    One constructor serves version and string nodes: the value type [val] is the sum of both
    domains and [var] the type of diagram variables with the crate's variable order. *)
From Coq Require Import List Bool.
From PV Require Import Base.Order Base.CutDef.
Import ListNotations.

Section DD.
Context {var val : Type} `{TotalOrder var} `{TotalOrder val}.
Notation cutV := (cut val).

Inductive dd :=
| Leaf (b : bool)
| RNode (k : var) (d0 : dd) (ds : list (cutV * dd))   (* range-partitioned variable *)
| BNode (k : var) (hi lo : dd).                       (* boolean variable *)

Record valuation := { rv : var -> val; bv : var -> bool }.

(** evaluation = choosing edges by hand along the walk *)
Fixpoint eval (r : valuation) (t : dd) : bool :=
  match t with
  | Leaf b => b
  | RNode k d0 ds =>
      (fix go (cur : bool) (l : list (cutV * dd)) : bool :=
         match l with
         | [] => cur
         | (c, d) :: l' => if left_of (rv r k) c then cur else go (eval r d) l'
         end) (eval r d0) ds
  | BNode k hi lo => if bv r k then eval r hi else eval r lo
  end.

Definition var_of (t : dd) : option var :=
  match t with Leaf _ => None | RNode k _ _ => Some k | BNode k _ _ => Some k end.

Definition is_true (t : dd) : bool := match t with Leaf true => true | _ => false end.
Definition is_false (t : dd) : bool := match t with Leaf false => true | _ => false end.

Definition cut_eqb (a b : cutV) : bool := eqb_of a b.

(** node identity (what comparing ids decides on interned nodes) *)
Fixpoint dd_eqb (a b : dd) : bool :=
  match a, b with
  | Leaf x, Leaf y => Bool.eqb x y
  | RNode k a0 la, RNode k' b0 lb =>
      eqb_of k k' && dd_eqb a0 b0 &&
      (fix go (la : list (cutV * dd)) (lb : list (cutV * dd)) : bool :=
         match la, lb with
         | [], [] => true
         | (c, a') :: la', (c', b') :: lb' => cut_eqb c c' && dd_eqb a' b' && go la' lb'
         | _, _ => false
         end) la lb
  | BNode k h l, BNode k' h' l' => eqb_of k k' && dd_eqb h h' && dd_eqb l l'
  | _, _ => false
  end.

(** complement: flip the leaves *)
Fixpoint tneg (t : dd) : dd :=
  match t with
  | Leaf b => Leaf (negb b)
  | RNode k d0 ds =>
      RNode k (tneg d0) ((fix go (l : list (cutV * dd)) := match l with [] => [] | (c, d) :: l' => (c, tneg d) :: go l' end) ds)
  | BNode k h l => BNode k (tneg h) (tneg l)
  end.

(** [create_node] on unfolded trees: a node all of whose children are the same is that child;
    adjacent ranges with the same child are one range ([apply_ranges]; [map] after the F2 repair) *)
Definition mk_rnode (k : var) (d0 : dd) (ds : list (cutV * dd)) : dd :=
  match coalesce dd_eqb d0 ds with
  | [] => d0
  | ds' => RNode k d0 ds'
  end.
Definition mk_bnode (k : var) (hi lo : dd) : dd :=
  if dd_eqb hi lo then hi else BNode k hi lo.

(** [and].  The case split, the order of the shortcuts and the merge are the crate's; where the
    crate calls [and(child_of_y, x)] (its [Ordering::Greater] arm) this definition computes
    [tand x child_of_y], which lets the recursion be structural (outer on [a], inner on [b]). *)
Fixpoint tand (a : dd) : dd -> dd :=
  fix tand_r (b : dd) : dd :=
    if is_true a then b else
    if is_true b then a else
    if dd_eqb a b then a else
    if is_false a || is_false b then Leaf false else
    if dd_eqb (tneg a) b then Leaf false else
    match a, b with
    | RNode ka a0 la, RNode kb b0 lb =>
        match cmp ka kb with
        | Lt => mk_rnode ka (tand a0 b)
                  ((fix go (l : list (cutV * dd)) := match l with [] => [] | (c, d) :: l' => (c, tand d b) :: go l' end) la)
        | Gt => mk_rnode kb (tand_r b0)
                  ((fix go (l : list (cutV * dd)) := match l with [] => [] | (c, d) :: l' => (c, tand_r d) :: go l' end) lb)
        | Eq => mk_rnode ka (tand a0 b0)
                  (merge (fun (g : dd -> dd) (b' : dd) => g b') (tand a0)
                     ((fix go (l : list (cutV * dd)) := match l with [] => [] | (c, d) :: l' => (c, tand d) :: go l' end) la)
                     b0 lb)
        end
    | RNode ka a0 la, BNode kb hb lb =>
        match cmp ka kb with
        | Lt => mk_rnode ka (tand a0 b)
                  ((fix go (l : list (cutV * dd)) := match l with [] => [] | (c, d) :: l' => (c, tand d b) :: go l' end) la)
        | Gt => mk_bnode kb (tand_r hb) (tand_r lb)
        | Eq => Leaf false   (* [unreachable!]: excluded by well-typedness *)
        end
    | BNode ka ha la, RNode kb b0 lb =>
        match cmp ka kb with
        | Lt => mk_bnode ka (tand ha b) (tand la b)
        | Gt => mk_rnode kb (tand_r b0)
                  ((fix go (l : list (cutV * dd)) := match l with [] => [] | (c, d) :: l' => (c, tand_r d) :: go l' end) lb)
        | Eq => Leaf false
        end
    | BNode ka ha la, BNode kb hb lb =>
        match cmp ka kb with
        | Lt => mk_bnode ka (tand ha b) (tand la b)
        | Gt => mk_bnode kb (tand_r hb) (tand_r lb)
        | Eq => mk_bnode ka (tand ha hb) (tand la lb)
        end
    | Leaf _, _ | _, Leaf _ => Leaf false   (* not reached: leaves are handled by the shortcuts *)
    end.

Definition tor (a b : dd) : dd := tneg (tand (tneg a) (tneg b)).

(** [is_disjoint] *)
Fixpoint tdisjoint (a : dd) : dd -> bool :=
  fix tdis_r (b : dd) : bool :=
    if is_false a || is_false b then true else
    if is_true a || is_true b then false else
    if dd_eqb a b then false else
    if dd_eqb (tneg a) b then true else
    match a, b with
    | RNode ka a0 la, RNode kb b0 lb =>
        match cmp ka kb with
        | Lt => tdisjoint a0 b &&
                  (fix go (l : list (cutV * dd)) := match l with [] => true | (c, d) :: l' => tdisjoint d b && go l' end) la
        | Gt => tdis_r b0 &&
                  (fix go (l : list (cutV * dd)) := match l with [] => true | (c, d) :: l' => tdis_r d && go l' end) lb
        | Eq => tdisjoint a0 b0 &&
                  forallb snd
                    (merge (fun (g : dd -> bool) (b' : dd) => g b') (tdisjoint a0)
                       ((fix go (l : list (cutV * dd)) := match l with [] => [] | (c, d) :: l' => (c, tdisjoint d) :: go l' end) la)
                       b0 lb)
        end
    | RNode ka a0 la, BNode kb hb lb =>
        match cmp ka kb with
        | Lt => tdisjoint a0 b &&
                  (fix go (l : list (cutV * dd)) := match l with [] => true | (c, d) :: l' => tdisjoint d b && go l' end) la
        | Gt => tdis_r hb && tdis_r lb
        | Eq => true
        end
    | BNode ka ha la, RNode kb b0 lb =>
        match cmp ka kb with
        | Lt => tdisjoint ha b && tdisjoint la b
        | Gt => tdis_r b0 &&
                  (fix go (l : list (cutV * dd)) := match l with [] => true | (c, d) :: l' => tdis_r d && go l' end) lb
        | Eq => true
        end
    | BNode ka ha la, BNode kb hb lb =>
        match cmp ka kb with
        | Lt => tdisjoint ha b && tdisjoint la b
        | Gt => tdis_r hb && tdis_r lb
        | Eq => tdisjoint ha hb && tdisjoint la lb
        end
    | Leaf _, _ | _, Leaf _ => true
    end.

(** [restrict] (with the F1 repair: the chosen child is restricted too) *)
Fixpoint trestrict (f : var -> option bool) (t : dd) : dd :=
  match t with
  | Leaf _ => t
  | RNode k d0 ds =>
      mk_rnode k (trestrict f d0)
        ((fix go (l : list (cutV * dd)) := match l with [] => [] | (c, d) :: l' => (c, trestrict f d) :: go l' end) ds)
  | BNode k hi lo =>
      match f k with
      | Some true => trestrict f hi
      | Some false => trestrict f lo
      | None => mk_bnode k (trestrict f hi) (trestrict f lo)
      end
  end.

(** [evaluate_extras]: boolean variables selected by [f] are fixed, every other edge may be taken *)
Fixpoint eval_any (f : var -> option bool) (t : dd) : bool :=
  match t with
  | Leaf b => b
  | RNode k d0 ds =>
      eval_any f d0 ||
      (fix go (l : list (cutV * dd)) := match l with [] => false | (c, d) :: l' => eval_any f d || go l' end) ds
  | BNode k hi lo =>
      match f k with
      | Some true => eval_any f hi
      | Some false => eval_any f lo
      | None => eval_any f hi || eval_any f lo
      end
  end.

(** ** well-formedness as a boolean checker (run on every diagram the crate produces) *)
Variable is_range : var -> bool.    (* which variables are range-partitioned *)

Definition above (k : var) (t : dd) : bool :=
  match var_of t with None => true | Some k' => match cmp k k' with Lt => true | _ => false end end.

Fixpoint wfb (t : dd) : bool :=
  match t with
  | Leaf _ => true
  | RNode k d0 ds =>
      is_range k &&
      match ds with [] => false | _ => true end &&
      sortedb_from None ds &&
      wfb d0 && above k d0 &&
      (fix go (cur : dd) (l : list (cutV * dd)) : bool :=
         match l with
         | [] => true
         | (c, d) :: l' => negb (dd_eqb cur d) && wfb d && above k d && go d l'
         end) d0 ds
  | BNode k hi lo =>
      negb (is_range k) && negb (dd_eqb hi lo) && wfb hi && above k hi && wfb lo && above k lo
  end.

Fixpoint size (t : dd) : nat :=
  match t with
  | Leaf _ => 1
  | RNode _ d0 ds => S (size d0 + (fix go (l : list (cutV * dd)) := match l with [] => 0 | (_, d) :: l' => size d + go l' end) ds)
  | BNode _ hi lo => S (size hi + size lo)
  end.
End DD.

Arguments dd : clear implicits.
Arguments valuation : clear implicits.
