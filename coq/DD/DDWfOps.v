(** Preservation of well-formedness by node construction, complement, conjunction, disjunction. *)
From Coq Require Import List Bool.
From PV Require Import Base.Order Base.CutDef Base.CutLemmas DD.DDModel DD.DDBasics DD.DDAnd DD.DDWf.
Import ListNotations.

Section DD.
Context {var val : Type} `{TotalOrder var} `{TotalOrder val}.
Notation cutV := (cut val).
Notation dd := (dd var val).
Variable is_range : var -> bool.
Notation wf := (wf is_range).

Lemma above_trans k k' (t : dd) : cmp k' k = Lt -> above_p k t -> above_p k' t.
Proof. unfold above_p. destruct (var_of t) as [v|]; auto. intros. eapply cmp_trans_lt; eauto. Qed.

Lemma above_leaf k b : above_p (var:=var) (val:=val) k (Leaf b).
Proof. exact I. Qed.

(** well-formed and with every variable after [k] *)
Definition wfa (k : var) (t : dd) : Prop := wf t /\ above_p k t.

Lemma wf_mk_rnode k d0 (ds : list (cutV * dd)) :
  is_range k = true -> sorted_from None ds -> wfa k d0 -> Forall (wfa k) (map snd ds) ->
  wf (mk_rnode k d0 ds) /\ (forall k', cmp k' k = Lt -> above_p k' (mk_rnode k d0 ds)).
Proof.
  intros R S [W0 A0] F. unfold mk_rnode.
  destruct (coalesce dd_eqb d0 ds) as [|p l] eqn:E.
  - split; auto. intros k' L. eapply above_trans; eauto.
  - rewrite <- E. split; [|intros k' L; exact L].
    constructor; auto.
    + rewrite E; discriminate.
    + now apply sorted_coalesce.
    + apply reduced_coalesce. apply dd_eqb_spec.
    + rewrite Forall_forall in *. intros x I. apply F. eapply coalesce_children; eauto.
Qed.

Lemma wf_mk_bnode k (hi lo : dd) :
  is_range k = false -> wfa k hi -> wfa k lo ->
  wf (mk_bnode k hi lo) /\ (forall k', cmp k' k = Lt -> above_p k' (mk_bnode k hi lo)).
Proof.
  intros R [Wh Ah] [Wl Al]. unfold mk_bnode. destruct (dd_eqb hi lo) eqn:E.
  - split; auto. intros k' L. eapply above_trans; eauto.
  - split; [|intros k' L; exact L]. constructor; auto. now apply dd_eqb_false.
Qed.

(** the variable at the top is unchanged by complement *)
Lemma var_of_tneg (t : dd) : var_of (tneg t) = var_of t.
Proof. rewrite tneg_eq. destruct t; reflexivity. Qed.

Lemma above_tneg k (t : dd) : above_p k (tneg t) <-> above_p k t.
Proof. unfold above_p. now rewrite var_of_tneg. Qed.

Lemma tneg_inj (a b : dd) : tneg a = tneg b -> a = b.
Proof. intros E. rewrite <- (tneg_involutive a), <- (tneg_involutive b). now f_equal. Qed.

Lemma reduced_map_tneg : forall (ds : list (cutV * dd)) d0, reduced d0 ds -> reduced (tneg d0) (map_snd tneg ds).
Proof.
  unfold map_snd. induction ds as [|[c d] ds IH]; intros d0; cbn; auto.
  intros [N R]. split; auto. intros E. apply N. now apply tneg_inj.
Qed.

Theorem tneg_wf : forall t : dd, wf t -> wf (tneg t).
Proof.
  induction t as [b|k d0 ds IH0 IHl|k hi lo IHh IHl] using dd_ind2; intros W; rewrite tneg_eq; inversion W; subst.
  - constructor.
  - constructor; auto.
    + destruct ds; [contradiction|discriminate].
    + now apply sorted_map_snd_iff.
    + now apply reduced_map_tneg.
    + now apply above_tneg.
    + rewrite map_snd_children, Forall_map. rewrite Forall_forall in *. intros x I.
      match goal with F : forall x, In x _ -> wf x /\ _ |- _ => destruct (F x I) as [Wx Ax] end.
      split; [now apply IHl|now apply above_tneg].
  - constructor; auto; try (now apply above_tneg). intros E. apply tneg_inj in E. contradiction.
Qed.

Lemma wf_children_rnode k d0 (ds : list (cutV * dd)) : wf (RNode k d0 ds) ->
  is_range k = true /\ sorted_from None ds /\ wfa k d0 /\ Forall (wfa k) (map snd ds).
Proof. intros W; inversion W; subst. repeat split; auto. Qed.

Lemma wf_children_bnode k (hi lo : dd) : wf (BNode k hi lo) -> is_range k = false /\ wfa k hi /\ wfa k lo.
Proof. intros W; inversion W; subst. repeat split; auto. Qed.

Lemma above_rnode_lt k k' d0 (ds : list (cutV * dd)) : above_p k (RNode k' d0 ds) <-> cmp k k' = Lt.
Proof. reflexivity. Qed.

(** conjunction preserves well-formedness, and does not introduce earlier variables *)
Lemma wfa_map_children (f : dd -> dd) k (l : list (cutV * dd)) :
  (forall d, In d (map snd l) -> wfa k (f d)) -> Forall (wfa k) (map snd (map_snd f l)).
Proof. intros Hf. rewrite map_snd_children, Forall_map, Forall_forall. exact Hf. Qed.

Theorem tand_wf : forall a : dd, wf a -> forall b : dd, wf b ->
  wf (tand a b) /\ (forall k, above_p k a -> above_p k b -> above_p k (tand a b)).
Proof.
  induction a as [x|ka a0 la IHa0 IHla|ka ha la IHha IHla] using dd_ind2; intros Wa;
  induction b as [y|kb b0 lb IHb0 IHlb|kb hb lb IHhb IHlb] using dd_ind2; intros Wb;
  rewrite tand_eq; unfold tand_step;
  match goal with |- context [is_true ?a] => destruct (is_true a); [split; auto|] end;
  match goal with |- context [is_true ?a] => destruct (is_true a); [split; auto|] end;
  match goal with |- context [dd_eqb ?a ?b] => destruct (dd_eqb a b); [split; auto|] end;
  match goal with |- context [is_false ?a || is_false ?b] => destruct (is_false a || is_false b); [split; [constructor|intros; exact I]|] end;
  match goal with |- context [dd_eqb ?a ?b] => destruct (dd_eqb a b); [split; [constructor|intros; exact I]|] end;
  unfold tand_core; try (split; [constructor|intros; exact I]).
  - (* RNode / RNode *)
    pose proof (wf_children_rnode _ _ _ Wa) as (Ra & Sa & [Wa0 Aa0] & Fa).
    pose proof (wf_children_rnode _ _ _ Wb) as (Rb & Sb & [Wb0 Ab0] & Fb).
    rewrite Forall_forall in IHla, Fa, IHlb, Fb.
    destruct (cmp ka kb) eqn:C.
    + apply cmp_eq in C; subst kb.
      assert (forall a' b', (a' = a0 \/ In a' (map snd la)) -> (b' = b0 \/ In b' (map snd lb)) -> wfa ka (tand a' b')) as Hc.
      { intros a' b' Ha' Hb'.
        assert (wfa ka b') as [Wb' Ab'] by (destruct Hb' as [-> | I]; [split; auto|apply Fb; auto]).
        destruct Ha' as [-> | I].
        - destruct (IHa0 Wa0 b' Wb') as [W A]. split; auto.
        - destruct (Fa a' I) as [Wa' Aa']. destruct (IHla a' I Wa' b' Wb') as [W A]. split; auto. }
      assert (sorted_from None (merge appf (tand a0) (map_snd tand la) b0 lb)) as S'
        by (apply merge_sorted; [now apply sorted_map_snd_iff|assumption]).
      assert (Forall (wfa ka) (map snd (merge appf (tand a0) (map_snd tand la) b0 lb))) as F'.
      { apply merge_children. intros g b' Hg Hb'. unfold appf.
        destruct Hg as [-> | I]; [apply Hc; auto|].
        rewrite map_snd_children, in_map_iff in I. destruct I as (a' & <- & I). apply Hc; auto. }
      destruct (wf_mk_rnode ka _ _ Ra S' (Hc a0 b0 (or_introl eq_refl) (or_introl eq_refl)) F') as [W A].
      split; [exact W|]. intros k Ak _. apply A. exact Ak.
    + assert (above_p ka (RNode kb b0 lb)) as Ab by exact C.
      assert (sorted_from None (map_snd (fun d => tand d (RNode kb b0 lb)) la)) as S' by (now apply sorted_map_snd_iff).
      assert (wfa ka (tand a0 (RNode kb b0 lb))) as O0 by (destruct (IHa0 Wa0 _ Wb) as [W A]; split; auto).
      assert (Forall (wfa ka) (map snd (map_snd (fun d => tand d (RNode kb b0 lb)) la))) as F'.
      { apply wfa_map_children. intros a' I. destruct (Fa a' I) as [Wa' Aa'].
        destruct (IHla a' I Wa' _ Wb) as [W A]. split; auto. }
      destruct (wf_mk_rnode ka _ _ Ra S' O0 F') as [W A].
      split; [exact W|]. intros k Ak _. apply A. exact Ak.
    + apply cmp_gt_lt in C.
      assert (above_p kb (RNode ka a0 la)) as Aa by exact C.
      assert (sorted_from None (map_snd (tand (RNode ka a0 la)) lb)) as S' by (now apply sorted_map_snd_iff).
      assert (wfa kb (tand (RNode ka a0 la) b0)) as O0 by (destruct (IHb0 Wb0) as [W A]; split; auto).
      assert (Forall (wfa kb) (map snd (map_snd (tand (RNode ka a0 la)) lb))) as F'.
      { apply wfa_map_children. intros b' I. destruct (Fb b' I) as [Wb' Ab'].
        destruct (IHlb b' I Wb') as [W A]. split; auto. }
      destruct (wf_mk_rnode kb _ _ Rb S' O0 F') as [W A].
      split; [exact W|]. intros k _ Bk. apply A. exact Bk.
  - (* RNode / BNode *)
    pose proof (wf_children_rnode _ _ _ Wa) as (Ra & Sa & [Wa0 Aa0] & Fa).
    pose proof (wf_children_bnode _ _ _ Wb) as (Rb & [Wbh Abh] & [Wbl Abl]).
    rewrite Forall_forall in IHla, Fa.
    destruct (cmp ka kb) eqn:C; [split; [constructor|intros; exact I]| |].
    + assert (above_p ka (BNode kb hb lb)) as Ab by exact C.
      assert (sorted_from None (map_snd (fun d => tand d (BNode kb hb lb)) la)) as S' by (now apply sorted_map_snd_iff).
      assert (wfa ka (tand a0 (BNode kb hb lb))) as O0 by (destruct (IHa0 Wa0 _ Wb) as [W A]; split; auto).
      assert (Forall (wfa ka) (map snd (map_snd (fun d => tand d (BNode kb hb lb)) la))) as F'.
      { apply wfa_map_children. intros a' I. destruct (Fa a' I) as [Wa' Aa'].
        destruct (IHla a' I Wa' _ Wb) as [W A]. split; auto. }
      destruct (wf_mk_rnode ka _ _ Ra S' O0 F') as [W A].
      split; [exact W|]. intros k Ak _. apply A. exact Ak.
    + apply cmp_gt_lt in C.
      assert (above_p kb (RNode ka a0 la)) as Aa by exact C.
      assert (wfa kb (tand (RNode ka a0 la) hb)) as Oh by (destruct (IHhb Wbh) as [W A]; split; auto).
      assert (wfa kb (tand (RNode ka a0 la) lb)) as Ol by (destruct (IHlb Wbl) as [W A]; split; auto).
      destruct (wf_mk_bnode kb _ _ Rb Oh Ol) as [W A].
      split; [exact W|]. intros k _ Bk. apply A. exact Bk.
  - (* BNode / RNode *)
    pose proof (wf_children_bnode _ _ _ Wa) as (Ra & [Wah Aah] & [Wal Aal]).
    pose proof (wf_children_rnode _ _ _ Wb) as (Rb & Sb & [Wb0 Ab0] & Fb).
    rewrite Forall_forall in IHlb, Fb.
    destruct (cmp ka kb) eqn:C; [split; [constructor|intros; exact I]| |].
    + assert (above_p ka (RNode kb b0 lb)) as Ab by exact C.
      assert (wfa ka (tand ha (RNode kb b0 lb))) as Oh by (destruct (IHha Wah _ Wb) as [W A]; split; auto).
      assert (wfa ka (tand la (RNode kb b0 lb))) as Ol by (destruct (IHla Wal _ Wb) as [W A]; split; auto).
      destruct (wf_mk_bnode ka _ _ Ra Oh Ol) as [W A].
      split; [exact W|]. intros k Ak _. apply A. exact Ak.
    + apply cmp_gt_lt in C.
      assert (above_p kb (BNode ka ha la)) as Aa by exact C.
      assert (sorted_from None (map_snd (tand (BNode ka ha la)) lb)) as S' by (now apply sorted_map_snd_iff).
      assert (wfa kb (tand (BNode ka ha la) b0)) as O0 by (destruct (IHb0 Wb0) as [W A]; split; auto).
      assert (Forall (wfa kb) (map snd (map_snd (tand (BNode ka ha la)) lb))) as F'.
      { apply wfa_map_children. intros b' I. destruct (Fb b' I) as [Wb' Ab'].
        destruct (IHlb b' I Wb') as [W A]. split; auto. }
      destruct (wf_mk_rnode kb _ _ Rb S' O0 F') as [W A].
      split; [exact W|]. intros k _ Bk. apply A. exact Bk.
  - (* BNode / BNode *)
    pose proof (wf_children_bnode _ _ _ Wa) as (Ra & [Wah Aah] & [Wal Aal]).
    pose proof (wf_children_bnode _ _ _ Wb) as (Rb & [Wbh Abh] & [Wbl Abl]).
    destruct (cmp ka kb) eqn:C.
    + apply cmp_eq in C; subst kb.
      assert (wfa ka (tand ha hb)) as Oh by (destruct (IHha Wah _ Wbh) as [W A]; split; auto).
      assert (wfa ka (tand la lb)) as Ol by (destruct (IHla Wal _ Wbl) as [W A]; split; auto).
      destruct (wf_mk_bnode ka _ _ Ra Oh Ol) as [W A].
      split; [exact W|]. intros k Ak _. apply A. exact Ak.
    + assert (above_p ka (BNode kb hb lb)) as Ab by exact C.
      assert (wfa ka (tand ha (BNode kb hb lb))) as Oh by (destruct (IHha Wah _ Wb) as [W A]; split; auto).
      assert (wfa ka (tand la (BNode kb hb lb))) as Ol by (destruct (IHla Wal _ Wb) as [W A]; split; auto).
      destruct (wf_mk_bnode ka _ _ Ra Oh Ol) as [W A].
      split; [exact W|]. intros k Ak _. apply A. exact Ak.
    + apply cmp_gt_lt in C.
      assert (above_p kb (BNode ka ha la)) as Aa by exact C.
      assert (wfa kb (tand (BNode ka ha la) hb)) as Oh by (destruct (IHhb Wbh) as [W A]; split; auto).
      assert (wfa kb (tand (BNode ka ha la) lb)) as Ol by (destruct (IHlb Wbl) as [W A]; split; auto).
      destruct (wf_mk_bnode kb _ _ Rb Oh Ol) as [W A].
      split; [exact W|]. intros k _ Bk. apply A. exact Bk.
Qed.

Corollary tor_wf (a b : dd) : wf a -> wf b -> wf (tor a b).
Proof. intros Wa Wb. unfold tor. apply tneg_wf. apply tand_wf; now apply tneg_wf. Qed.
End DD.
